/-
Model of compare_locales.checks.dtd.DTDChecker.check (with Checker.check and CSSCheckMixin of
checks/base.py).  Transliteration: same branches in the same order.  expat (xml.sax) is external:
`xmlParse` is a parameter giving, for a document (bytes), the error (line, column, message) if any
and the character data delivered to the content handler.
Core Lean only.  Texts are lists of code points, documents are lists of bytes.
-/
import CLModel.Rx.Basic
import CLModel.Gen.Regexes
import CLModel.Gen.Tables
import CLModel.Parser.Base
namespace Dtd
open Rx

abbrev Text := List Nat
abbrev Bytes := List Nat

/-! ### small Python library pieces -/

/-- `str.encode("utf-8")`; lone surrogates raise UnicodeEncodeError (`none`) -/
def utf8Char (c : Nat) : Option Bytes :=
  if c < 0x80 then some [c]
  else if c < 0x800 then some [0xC0 + c / 64, 0x80 + c % 64]
  else if 0xD800 ≤ c && c ≤ 0xDFFF then none
  else if c < 0x10000 then some [0xE0 + c / 4096, 0x80 + (c / 64) % 64, 0x80 + c % 64]
  else if c < 0x110000 then some [0xF0 + c / 262144, 0x80 + (c / 4096) % 64, 0x80 + (c / 64) % 64, 0x80 + c % 64]
  else none

def utf8 : Text → Option Bytes
  | [] => some []
  | c :: cs =>
    match utf8Char c, utf8 cs with
    | some a, some b => some (a ++ b)
    | _, _ => none

/-- `a < b` on str: lexicographic on code points -/
def tlt : Text → Text → Bool
  | [], [] => false
  | [], _ :: _ => true
  | _ :: _, [] => false
  | a :: as, b :: bs => a < b || (a == b && tlt as bs)

/-- insertion into a sorted list -/
def insSorted (x : Text) : List Text → List Text
  | [] => [x]
  | y :: ys => if tlt x y then x :: y :: ys else y :: insSorted x ys

/-- a Python `set` of str is modelled by its sorted duplicate-free list (all uses go through `sorted`,
    membership, truthiness, difference and `update`) -/
def sadd (x : Text) (s : List Text) : List Text := if s.contains x then s else insSorted x s

def sOfList (l : List Text) : List Text := l.foldl (fun s x => sadd x s) []

/-- `a - b` -/
def sdiff (a b : List Text) : List Text := a.filter (fun x => !b.contains x)

/-- `a.update(b)` -/
def sunion (a b : List Text) : List Text := b.foldl (fun s x => sadd x s) a

/-- `sep.join(l)` -/
def join (sep : Text) : List Text → Text
  | [] => []
  | [x] => x
  | x :: y :: rest => x ++ sep ++ join sep (y :: rest)

/-- `str.splitlines()` (line boundaries of Python: \n \r \r\n \v \f \x1c \x1d \x1e \x85    ) -/
def splitLinesGo (cur : Text) : Text → List Text
  | [] => if cur.isEmpty then [] else [cur.reverse]
  | 13 :: 10 :: rest => cur.reverse :: splitLinesGo [] rest
  | c :: rest =>
    if P.isLineBreak c then cur.reverse :: splitLinesGo [] rest
    else splitLinesGo (c :: cur) rest

def splitLines (t : Text) : List Text := splitLinesGo [] t

/-- `l[i]` with Python's negative indices; `none` = IndexError -/
def pyGet (l : List α) (i : Int) : Option α :=
  let j : Int := if i < 0 then i + l.length else i
  if j < 0 then none else l[j.toNat]?

/-- `pattern.match(value)` is not None -/
def reMatches (re : Re) (v : Text) : Bool := (matchAt v.toArray re 0).isSome

def slice (s : Array Nat) (a b : Nat) : Text := (s.extract a b).toList

/-! ### results -/

inductive Level | warning | error
  deriving Repr, DecidableEq, Inhabited

inductive Cat | encodings | xmlparse | number | css | android
  deriving Repr, DecidableEq, Inhabited

/-- the position element of a result tuple: `(line, col)`, a plain int, or an `EntityPos` -/
inductive Pos
  | lc (line col : Int)
  | num (n : Int)
  | entityPos (n : Nat)
  deriving Repr, DecidableEq, Inhabited

structure Result where
  level : Level
  pos : Pos
  msg : Text
  cat : Cat
  deriving Repr, DecidableEq, Inhabited

inductive Exc | unicodeEncodeError | indexError | unsupported
  deriving Repr, DecidableEq, Inhabited

/-- what a consumer of the generator sees: the results yielded, then possibly an exception -/
structure Out where
  results : List Result
  exc : Option Exc := none
  deriving Repr, DecidableEq, Inhabited

/-- sequential composition of generator sections: the rest runs only if no exception was raised -/
def Out.andThen (a : Out) (f : Unit → Out) : Out :=
  match a.exc with
  | some _ => a
  | none => let b := f (); { results := a.results ++ b.results, exc := b.exc }

def Out.ok (rs : List Result) : Out := { results := rs }

/-! ### inputs -/

/-- the three things the checker reads from an entity -/
structure Ent where
  key : Text
  all : Text
  val : Text      -- raw_val
  deriving Repr, DecidableEq, Inhabited

structure Inp where
  /-- "android-dtd" in extra_tests -/
  android : Bool
  /-- raw values of all reference entities (`set_reference`), `none` if no reference was set -/
  reference : Option (List Text)
  ref : Ent
  l10n : Ent
  deriving Repr, DecidableEq, Inhabited

/-- expat's answer for one document -/
structure ParseRes where
  err : Option (Nat × Nat × Text)      -- getLineNumber(), getColumnNumber(), " ".join(e.args)
  text : Text                          -- concatenated characters() events
  deriving Repr, DecidableEq, Inhabited

/-! ### Checker.check (base.py): encoding problems -/

def msgMochibake : Text := [65533, 32, 105, 110, 58, 32]      -- "� in: "

def baseCheck (l10n : Ent) : List Result :=
  (finditer l10n.all.toArray Gen.Pat.checks_base_mochibake).map
    (fun (q, _) => ⟨.warning, .entityPos q, msgMochibake ++ l10n.key, .encodings⟩)

/-! ### entity references -/

/-- `{m.group(1) for m in eref.finditer(value)}` in order of occurrence -/
def erefNames (v : Text) : List Text :=
  let s := v.toArray
  (finditer s Gen.Pat.DTDChecker_eref).filterMap (fun (_, st) =>
    match st.group 1 with
    | some (a, b) => some (slice s a b)
    | none => none)

/-- `entities_for_value` -/
def entitiesForValue (v : Text) : List Text :=
  sdiff (sOfList (erefNames v)) Gen.Tables.xmllist

/-- `known_entities(refValue)` -/
def knownEntities (i : Inp) : List Text :=
  match i.reference with
  | some vals => vals.foldl (fun acc v => sunion acc (entitiesForValue v)) []
  | none => entitiesForValue i.ref.val

/-! ### the template documents -/

def declPre : Text := [60, 33, 69, 78, 84, 73, 84, 89, 32]     -- `<!ENTITY `
def declPost : Text := [32, 34, 34, 62]                        -- ` "">`

/-- `"".join('<!ENTITY %s "">' % s for s in names)` -/
def entityDecls (names : List Text) : Text :=
  (names.map (fun s => declPre ++ s ++ declPost)).flatten

/-- `tmpl % (a, b)` -/
def tmpl (a b : Bytes) : Bytes :=
  Gen.Tables.dtdTmplPre ++ a ++ Gen.Tables.dtdTmplMid ++ b ++ Gen.Tables.dtdTmplPost

/-- first document of a pair: `tmpl % (entities.encode(), value.encode())` -/
def docValue (entities value : Text) : Option Bytes :=
  match utf8 entities, utf8 value with
  | some e, some v => some (tmpl e v)
  | _, _ => none

/-- second document: `tmpl % ((ent.all + entities).encode(), b"&%s;" % ent.key.encode())` -/
def docDecl (entities : Text) (e : Ent) : Option Bytes :=
  match utf8 (e.all ++ entities), utf8 e.key with
  | some a, some k => some (tmpl a (38 :: k ++ [59]))
  | _, _ => none

def reflistOf (i : Inp) : List Text := knownEntities i
def inContextOf (i : Inp) : List Text := entitiesForValue i.ref.val
def l10nlistOf (i : Inp) : List Text := entitiesForValue i.l10n.val
/-- `sorted(l10nlist - reflist)` -/
def missingOf (i : Inp) : List Text := sdiff (l10nlistOf i) (reflistOf i)
/-- `entities` -/
def refDecls (i : Inp) : Text := entityDecls (reflistOf i)
/-- the names declared in the documents of the localized value, in order -/
def declaredNames (i : Inp) : List Text := reflistOf i ++ missingOf i
/-- `_entities` -/
def l10nDecls (i : Inp) : Text := refDecls i ++ entityDecls (missingOf i)

/-- the four documents in the order the code builds them (none = UnicodeEncodeError) -/
def docs (i : Inp) : List (Option Bytes) :=
  [docValue (refDecls i) i.ref.val, docDecl (refDecls i) i.ref,
   docValue (l10nDecls i) i.l10n.val, docDecl (l10nDecls i) i.l10n]

/-! ### reference value: both documents, any parse error is one warning -/

def msgCantParse : Text :=
  [99, 97, 110, 39, 116, 32, 112, 97, 114, 115, 101, 32, 101, 110, 45, 85, 83, 32, 118, 97, 108, 117, 101]

def refSection (xmlParse : Bytes → ParseRes) (i : Inp) : Out :=
  let warn : Result := ⟨.warning, .lc 0 0, msgCantParse, .xmlparse⟩
  match docValue (refDecls i) i.ref.val with
  | none => { results := [], exc := some .unicodeEncodeError }
  | some d1 =>
    match (xmlParse d1).err with
    | some _ => .ok [warn]
    | none =>
      match docDecl (refDecls i) i.ref with
      | none => { results := [], exc := some .unicodeEncodeError }
      | some d2 =>
        match (xmlParse d2).err with
        | some _ => .ok [warn]
        | none => .ok []

/-! ### localized value -/

/-- post-processing of a SAXParseException into the position of the error result -/
def errorPos (l10nVal : Text) (line col : Nat) : Option (Int × Int) :=
  let lnr : Int := (line : Int) - 1
  let lines := splitLines l10nVal
  if lnr > lines.length then
    let lnr : Int := lines.length
    -- `col = len(lines[lnr - 1]) if lines else 0`
    if lines.isEmpty then some (lnr, 0) else
    match pyGet lines (lnr - 1) with
    | some ln => some (lnr, ln.length)
    | none => none                                   -- IndexError
  else
    let col : Int := col
    if lnr == 1 then some (lnr, col - 6)             -- len("<elem>")
    else if lnr == 0 then some (lnr, col - 16)       -- len("<!DOCTYPE elem [")
    else some (lnr, col)

def xmlError (l10nVal : Text) (e : Nat × Nat × Text) : Out :=
  match errorPos l10nVal e.1 e.2.1 with
  | some (l, c) => .ok [⟨.error, .lc l c, e.2.2, .xmlparse⟩]
  | none => { results := [], exc := some .indexError }

/-- the parse of the localized value: (results, text content seen by the text handler) -/
def l10nSection (xmlParse : Bytes → ParseRes) (i : Inp) : Out × Text :=
  match docValue (l10nDecls i) i.l10n.val with
  | none => ({ results := [], exc := some .unicodeEncodeError }, [])
  | some d3 =>
    let r3 := xmlParse d3
    match r3.err with
    | some e => (xmlError i.l10n.val e, r3.text)
    | none =>
      match docDecl (l10nDecls i) i.l10n with
      | none => ({ results := [], exc := some .unicodeEncodeError }, r3.text)
      | some d4 =>
        match (xmlParse d4).err with
        | some e => (xmlError i.l10n.val e, r3.text)
        | none => (.ok [], r3.text)

/-! ### unknown entity references -/

def msgRefUnknown : Text :=
  [82, 101, 102, 101, 114, 101, 110, 99, 105, 110, 103, 32, 117, 110, 107, 110, 111, 119, 110, 32, 101, 110, 116, 105, 116, 121, 32, 96]
def commaSp : Text := [44, 32]
def msgUsedInContext : Text := [32, 117, 115, 101, 100, 32, 105, 110, 32, 99, 111, 110, 116, 101, 120, 116]
def msgKnown : Text := [32, 107, 110, 111, 119, 110, 41]
def msgEntity : Text := [69, 110, 116, 105, 116, 121, 32]
def msgReferencedBut : Text := [32, 114, 101, 102, 101, 114, 101, 110, 99, 101, 100, 44, 32, 98, 117, 116, 32]

/-- what is appended to "Referencing unknown entity `%s`" -/
def warnSuffix (reflist inContext : List Text) : Text :=
  if !reflist.isEmpty then
    if !inContext.isEmpty then
      let elsewhere := sdiff reflist inContext
      [32, 40] ++ join commaSp inContext ++ msgUsedInContext ++
        (if !elsewhere.isEmpty then commaSp ++ join commaSp elsewhere ++ msgKnown else [41])
    else [32, 40] ++ join commaSp reflist ++ msgKnown
  else []

def unknownWarning (reflist inContext : List Text) (key : Text) : Result :=
  ⟨.warning, .lc 0 0, msgRefUnknown ++ key ++ [96] ++ warnSuffix reflist inContext, .xmlparse⟩

def unknownSection (i : Inp) : List Result :=
  (missingOf i).map (unknownWarning (reflistOf i) (inContextOf i))

def mismatchSection (i : Inp) : List Result :=
  let inContext := inContextOf i
  let l10nlist := l10nlistOf i
  let mismatch := sdiff (sdiff l10nlist inContext) (missingOf i)
  if !inContext.isEmpty && !l10nlist.isEmpty && !mismatch.isEmpty then
    mismatch.map (fun key =>
      ⟨.warning, .lc 0 0, msgEntity ++ key ++ msgReferencedBut ++ join commaSp inContext ++ msgUsedInContext, .xmlparse⟩)
  else []

/-! ### numbers and lengths -/

def msgNumber : Text := [114, 101, 102, 101, 114, 101, 110, 99, 101, 32, 105, 115, 32, 97, 32, 110, 117, 109, 98, 101, 114]
def msgLength : Text :=
  [114, 101, 102, 101, 114, 101, 110, 99, 101, 32, 105, 115, 32, 97, 32, 67, 83, 83, 32, 108, 101, 110, 103, 116, 104]
def msgSpec : Text :=
  [114, 101, 102, 101, 114, 101, 110, 99, 101, 32, 105, 115, 32, 97, 32, 67, 83, 83, 32, 115, 112, 101, 99]

def isNum (v : Text) : Bool := reMatches Gen.Pat.DTDChecker_num v
def isLength (v : Text) : Bool := reMatches Gen.Pat.DTDChecker_length v

def numberSection (refVal l10nVal : Text) : List Result :=
  if isNum refVal && !isNum l10nVal then [⟨.warning, .num 0, msgNumber, .number⟩] else []

def lengthSection (refVal l10nVal : Text) : List Result :=
  if isLength refVal && !isLength l10nVal then [⟨.error, .num 0, msgLength, .css⟩] else []

/-! ### CSSCheckMixin -/

/-- insertion-ordered dict: assignment keeps the position of an existing key -/
def dset (d : List (Text × Text)) (k v : Text) : List (Text × Text) :=
  if d.any (·.1 == k) then d.map (fun p => if p.1 == k then (k, v) else p) else d ++ [(k, v)]

def dget (d : List (Text × Text)) (k : Text) : Option Text := (d.find? (·.1 == k)).map (·.2)

def dpop (d : List (Text × Text)) (k : Text) : List (Text × Text) := d.filter (fun p => !(p.1 == k))

inductive CssCode | badContent | missingSemicolon
  deriving Repr, DecidableEq, Inhabited

structure CssErr where
  pos : Nat
  code : CssCode
  deriving Repr, DecidableEq, Inhabited

structure CssState where
  refMap : Option (List (Text × Text))
  errors : Option (List CssErr)
  end_ : Nat
  deriving Repr, DecidableEq, Inhabited

/-- one iteration of the `for m in self._css_spec.finditer(val)` loop; `none` = `return None, None` -/
def cssStep (s : Array Nat) (stt : CssState) (m : Nat × St) : Option CssState :=
  let mstart := m.1
  let mend := m.2.pos
  if stt.end_ == 0 && mstart == mend then none else
  -- `m.group("prop")` is truthy
  let hasProp : Bool :=
    match m.2.group Gen.Pat.CSSCheckMixin__css_spec_g_prop with
    | some (a, b) => a < b
    | none => false
  let errors :=
    -- also between two adjacent declarations (upstream fix 6de2763)
    if mstart > stt.end_ || (stt.end_ > 0 && hasProp) then
      -- `_css_sep.match(val, end, m.start())`
      match matchAt (s.extract 0 mstart) Gen.Pat.CSSCheckMixin__css_sep stt.end_ with
      | none => some ((match stt.errors with | some l => l | none => []) ++ [⟨stt.end_, .badContent⟩])
      | some sp =>
        -- only between declarations, not for trailing white space (upstream fix 7c75698)
        if stt.end_ > 0 && hasProp && (sp.group Gen.Pat.CSSCheckMixin__css_sep_g_semi).isNone then
          some ((match stt.errors with | some l => l | none => []) ++ [⟨stt.end_, .missingSemicolon⟩])
        else stt.errors
    else stt.errors
  let refMap :=
    match m.2.group Gen.Pat.CSSCheckMixin__css_spec_g_prop, m.2.group Gen.Pat.CSSCheckMixin__css_spec_g_unit with
    | some (a, b), some (c, d) =>
      if a < b then       -- `if m.group("prop")` (truthy)
        some (dset (match stt.refMap with | some mp => mp | none => []) (slice s a b) (slice s c d))
      else stt.refMap
    | _, _ => stt.refMap
  some ⟨refMap, errors, mend⟩

def cssLoop (s : Array Nat) : List (Nat × St) → CssState → Option CssState
  | [], stt => some stt
  | m :: rest, stt =>
    match cssStep s stt m with
    | some stt' => cssLoop s rest stt'
    | none => none

/-- `parse_css_spec(val)` : (refMap, errors) -/
def parseCssSpec (val : Text) : Option (List (Text × Text)) × Option (List CssErr) :=
  let s := val.toArray
  match cssLoop s (finditer s Gen.Pat.CSSCheckMixin__css_spec) ⟨none, none, 0⟩ with
  | some stt => (stt.refMap, stt.errors)
  | none => (none, none)

def msgOnlyL10n : Text := [32, 111, 110, 108, 121, 32, 105, 110, 32, 108, 49, 48, 110]
def msgOnlyRef : Text := [32, 111, 110, 108, 121, 32, 105, 110, 32, 114, 101, 102, 101, 114, 101, 110, 99, 101]
def msgUnitsFor : Text := [117, 110, 105, 116, 115, 32, 102, 111, 114, 32]
def msgDontMatch : Text := [32, 100, 111, 110, 39, 116, 32, 109, 97, 116, 99, 104, 32, 40]
def msgNe : Text := [32, 33, 61, 32]

/-- the `for prop, unit in l10n_map.items()` loop: state = (ref_map, msgs) -/
def styleStep (st : List (Text × Text) × List Text) (pu : Text × Text) : List (Text × Text) × List Text :=
  match dget st.1 pu.1 with
  | none => (st.1, (pu.1 ++ msgOnlyL10n) :: st.2)                     -- msgs.insert(0, …)
  | some refUnit =>
    let rm := dpop st.1 pu.1
    if pu.2 != refUnit then
      (rm, st.2 ++ [msgUnitsFor ++ pu.1 ++ msgDontMatch ++ pu.2 ++ msgNe ++ refUnit ++ [41]])
    else (rm, st.2)

def styleMsgs (refMap l10nMap : List (Text × Text)) : List Text :=
  let st := l10nMap.foldl styleStep (refMap, [])
  st.1.foldl (fun msgs p => (p.1 ++ msgOnlyRef) :: msgs) st.2

def specError : Result := ⟨.error, .num 0, msgSpec, .css⟩

/-- `check_style(ref_map, l10n_map, errors)` -/
def checkStyle (refMap : List (Text × Text)) (l10nMap : Option (List (Text × Text)))
    (errors : Option (List CssErr)) : List Result :=
  match l10nMap with
  | none => [specError]
  | some [] => [specError]
  | some lm =>
    match errors with
    | some (_ :: _) => [specError]
    | _ =>
      let msgs := styleMsgs refMap lm
      if !msgs.isEmpty then [⟨.warning, .num 0, join commaSp msgs, .css⟩] else []

/-- `maybe_style(ref_value, l10n_value)` -/
def maybeStyle (refVal l10nVal : Text) : List Result :=
  match (parseCssSpec refVal).1 with
  | none => []
  | some [] => []
  | some refMap =>
    let p := parseCssSpec l10nVal
    checkStyle refMap p.1 p.2

/-! ### processAndroidContent -/

def hexDigits : Text := [48, 49, 50, 51, 52, 53, 54, 55, 56, 57, 97, 98, 99, 100, 101, 102]

def hexN (width n : Nat) : Option Text :=
  (List.range width).reverse.mapM (fun i => hexDigits[(n / 16 ^ i) % 16]?)

/-- `str.encode("ascii", "backslashreplace")` -/
def backslashReplace : Text → Option Bytes
  | [] => some []
  | c :: cs =>
    let h : Option Bytes :=
      if c < 0x80 then some [c]
      else if c < 0x100 then (hexN 2 c).map ([92, 120] ++ ·)
      else if c < 0x10000 then (hexN 4 c).map ([92, 117] ++ ·)
      else (hexN 8 c).map ([92, 85] ++ ·)
    match h, backslashReplace cs with
    | some a, some b => some (a ++ b)
    | _, _ => none

def hexVal (c : Nat) : Option Nat :=
  if 48 ≤ c && c ≤ 57 then some (c - 48)
  else if 97 ≤ c && c ≤ 102 then some (c - 87)
  else if 65 ≤ c && c ≤ 70 then some (c - 55)
  else none

def isOct (c : Nat) : Bool := 48 ≤ c && c ≤ 55

def msgEndOfString : Text := [92, 32, 97, 116, 32, 101, 110, 100, 32, 111, 102, 32, 115, 116, 114, 105, 110, 103]
def msgTruncX : Text := [116, 114, 117, 110, 99, 97, 116, 101, 100, 32, 92, 120, 88, 88, 32, 101, 115, 99, 97, 112, 101]
def msgTruncU4 : Text := [116, 114, 117, 110, 99, 97, 116, 101, 100, 32, 92, 117, 88, 88, 88, 88, 32, 101, 115, 99, 97, 112, 101]
def msgTruncU8 : Text :=
  [116, 114, 117, 110, 99, 97, 116, 101, 100, 32, 92, 85, 88, 88, 88, 88, 88, 88, 88, 88, 32, 101, 115, 99, 97, 112, 101]
def msgIllegal : Text :=
  [105, 108, 108, 101, 103, 97, 108, 32, 85, 110, 105, 99, 111, 100, 101, 32, 99, 104, 97, 114, 97, 99, 116, 101, 114]
def msgMalformedN : Text :=
  [109, 97, 108, 102, 111, 114, 109, 101, 100, 32, 92, 78, 32, 99, 104, 97, 114, 97, 99, 116, 101, 114, 32, 101, 115, 99, 97, 112, 101]

/-- outcome of scanning for the first error of `bytes.decode("unicode-escape")` -/
inductive UE
  | fine
  | error (chars : Nat) (reason : Text)    -- number of characters decoded before the bad escape
  | unsupported                            -- `\N{name}` needs the Unicode name database
  deriving Repr, DecidableEq, Inhabited

/-- exactly `count` hex digits, value ≤ 0x10FFFF -/
def ueHex (count : Nat) (s : Bytes) : Option (Option Bytes) :=     -- none: truncated; some none: illegal
  let ds := s.take count
  if ds.length == count && ds.all (fun c => (hexVal c).isSome) then
    let v : Nat := ds.foldl (fun n c => match hexVal c with | some d => n * 16 + d | none => n) 0
    if v > 0x10FFFF then some none else some (some (s.drop count))
  else none

/-- the decoder loop of CPython's unicode-escape codec in strict mode, up to its first error -/
def ueScan : Nat → Nat → Bytes → UE
  | 0, _, _ => .fine
  | _, _, [] => .fine
  | fuel + 1, n, c :: rest =>
    if c != 92 then ueScan fuel (n + 1) rest else
    match rest with
    | [] => .error n msgEndOfString
    | e :: rest' =>
      if e == 10 then ueScan fuel n rest'
      else if e == 92 || e == 39 || e == 34 || e == 98 || e == 102 || e == 116 || e == 110 || e == 114
              || e == 118 || e == 97 then ueScan fuel (n + 1) rest'
      else if isOct e then
        let r1 := match rest' with
          | d :: r => if isOct d then (match r with | d2 :: r2 => if isOct d2 then r2 else r | [] => r) else rest'
          | [] => rest'
        ueScan fuel (n + 1) r1
      else if e == 120 then
        (match ueHex 2 rest' with
         | some (some r) => ueScan fuel (n + 1) r | some none => .error n msgIllegal | none => .error n msgTruncX)
      else if e == 117 then
        (match ueHex 4 rest' with
         | some (some r) => ueScan fuel (n + 1) r | some none => .error n msgIllegal | none => .error n msgTruncU4)
      else if e == 85 then
        (match ueHex 8 rest' with
         | some (some r) => ueScan fuel (n + 1) r | some none => .error n msgIllegal | none => .error n msgTruncU8)
      else if e == 78 then
        (match rest' with
         | 123 :: r =>
           let name := r.takeWhile (· != 125)
           if name.length < r.length && !name.isEmpty then .unsupported else .error n msgMalformedN
         | _ => .error n msgMalformedN)
      else ueScan fuel (n + 2) rest'             -- unknown escape: backslash and character are kept

/-- `unicode_escape(val)`: the position and reason of the UnicodeDecodeError it re-raises, if any -/
def unicodeEscape (val : Text) : Option UE :=
  (backslashReplace val).map (fun b => ueScan (b.length + 1) 0 b)

def msgQuotes : Text :=
  [81, 117, 111, 116, 101, 115, 32, 105, 110, 32, 65, 110, 100, 114, 111, 105, 100, 32, 68, 84, 68, 115, 32, 110, 101, 101, 100, 32, 101, 115, 99, 97, 112, 105, 110, 103, 32, 119, 105, 116, 104, 32, 92, 34, 32, 111, 114, 32, 92, 117, 48, 48, 50, 50, 44, 32, 111, 114, 32, 112, 117, 116, 32, 115, 116, 114, 105, 110, 103, 32, 105, 110, 32, 97, 112, 111, 115, 116, 114, 111, 112, 104, 101, 115, 46]
def msgApos : Text :=
  [65, 112, 111, 115, 116, 114, 111, 112, 104, 101, 115, 32, 105, 110, 32, 65, 110, 100, 114, 111, 105, 100, 32, 68, 84, 68, 115, 32, 110, 101, 101, 100, 32, 101, 115, 99, 97, 112, 105, 110, 103, 32, 119, 105, 116, 104, 32, 92, 39, 32, 111, 114, 32, 92, 117, 48, 48, 50, 55, 44, 32, 111, 114, 32, 117, 115, 101, 32, 8217, 44, 32, 111, 114, 32, 112, 117, 116, 32, 115, 116, 114, 105, 110, 103, 32, 105, 110, 32, 113, 117, 111, 116, 101, 115, 46]

def androidSection (val : Text) : Out :=
  let esc : Out :=
    match unicodeEscape val with
    | some .fine => .ok []
    | some (.error n reason) => .ok [⟨.error, .num n, reason, .android⟩]
    | some .unsupported => { results := [], exc := some .unsupported }
    | none => { results := [], exc := some .unsupported }
  esc.andThen fun _ =>
    let s := val.toArray
    -- `m = self.quoted.match(val)`
    let (re, offset, inner) : Re × Int × Text :=
      match matchAt s Gen.Pat.DTDChecker_quoted 0 with
      | some m =>
        (match m.group Gen.Pat.DTDChecker_quoted_g_q with
         | some (a, _) =>
           let stripped := (val.drop 1).take (val.length - 2)           -- val[1:-1]
           if s[a]? == some 34 then (Gen.Pat.DTDChecker_stray_quot_dq, 0, stripped)
           else (Gen.Pat.DTDChecker_stray_quot_sq, 0, stripped)
         | none => (Gen.Pat.DTDChecker_stray_quot_any, -1, val))
      | none => (Gen.Pat.DTDChecker_stray_quot_any, -1, val)
    let t := inner.toArray
    .ok ((finditer t re).filterMap (fun (q, st) =>
      if (st.pos - q) % 2 == 1 then
        match st.group 1 with
        | some (a, _) =>
          some ⟨.error, .num ((st.pos : Int) + offset), if t[a]? == some 34 then msgQuotes else msgApos, .android⟩
        | none => none
      else none))

/-! ### DTDChecker.check -/

def check (xmlParse : Bytes → ParseRes) (i : Inp) : Out :=
  (Out.ok (baseCheck i.l10n)).andThen fun _ =>
  (refSection xmlParse i).andThen fun _ =>
  let l := l10nSection xmlParse i
  l.1.andThen fun _ =>
  (Out.ok (unknownSection i ++ mismatchSection i ++ numberSection i.ref.val i.l10n.val ++
           lengthSection i.ref.val i.l10n.val ++ maybeStyle i.ref.val i.l10n.val)).andThen fun _ =>
  if i.android then androidSection l.2 else .ok []

end Dtd

/-
Byte-level model of l10n-merge (core Lean only).

`ContentComparer.merge` never sees bytes itself: `Parser.readFile` (parser/base.py) decodes the file on disk
(`open(file, encoding=self.encoding, errors="replace", newline=None)` — UTF-8 with U+FFFD for every ill-formed
subsequence, universal newlines), the splice works on the decoded text `ctx.contents`, and what is written goes through
`codecs.open(merge_file, "wb"/"ab", encoding)` (strict UTF-8 encoder, no newline translation).  The two paths that
do NOT go through the text are the `shutil.copyfile` calls.  This file puts the decode / encode steps around the text
model `Merge.merge`:  bytes → text → splice → bytes  (`mergeBytes`), and composes it with the Observer model for
the `missingEntity` branch of `ContentComparer.compare` (`compareMerge`: quiet level and filter verdicts).

Bytes are `List Nat` (values 0‥255), text is `List Nat` of code points.
-/
import CLModel.Compare.Merge
import CLModel.Compare.Observer
namespace MergeB
open Merge

/-! ### UTF-8 decoder with `errors="replace"` (CPython `PyUnicode_DecodeUTF8Stateful`; the same automaton as the
    WHATWG decoder: one U+FFFD per maximal ill-formed subpart, the offending byte is looked at again) -/

structure DSt where
  n : Nat       -- continuation bytes still needed (0: no sequence open)
  cp : Nat      -- code point bits collected so far
  lo : Nat      -- admissible range of the next continuation byte
  hi : Nat
  deriving Repr, DecidableEq, Inhabited

def DSt.fresh : DSt := ⟨0, 0, 128, 191⟩

/-- U+FFFD -/
def REPL : Nat := 65533

/-- a byte met while no sequence is open -/
def start (b : Nat) : DSt × List Nat :=
  if b < 128 then (.fresh, [b])
  else if 194 ≤ b && b ≤ 223 then (⟨1, b - 192, 128, 191⟩, [])
  else if 224 ≤ b && b ≤ 239 then
    (⟨2, b - 224, if b == 224 then 160 else 128, if b == 237 then 159 else 191⟩, [])
  else if 240 ≤ b && b ≤ 244 then
    (⟨3, b - 240, if b == 240 then 144 else 128, if b == 244 then 143 else 191⟩, [])
  else (.fresh, [REPL])          -- 80‥C1 (continuation byte, overlong lead) and F5‥FF

def step (st : DSt) (b : Nat) : DSt × List Nat :=
  if st.n == 0 then start b
  else if st.lo ≤ b && b ≤ st.hi then
    let cp := st.cp * 64 + (b - 128)
    if st.n == 1 then (.fresh, [cp]) else (⟨st.n - 1, cp, 128, 191⟩, [])
  else
    -- the open sequence is ill-formed: one U+FFFD for it, and the byte starts over
    let r := start b
    (r.1, REPL :: r.2)

def decodeFrom (st : DSt) : List Nat → List Nat
  | [] => if st.n == 0 then [] else [REPL]          -- "unexpected end of data"
  | b :: bs => (step st b).2 ++ decodeFrom (step st b).1 bs

/-- `bytes.decode("utf-8", "replace")` -/
def decodeUtf8 (bs : List Nat) : List Nat := decodeFrom .fresh bs

/-- universal newlines (`newline=None`): `\r\n` and a lone `\r` become `\n`; `prevCR` is the decoder's `pendingcr` -/
def univFrom (prevCR : Bool) : List Nat → List Nat
  | [] => []
  | c :: r =>
    if c == 13 then 10 :: univFrom true r
    else if c == 10 && prevCR then univFrom false r
    else c :: univFrom false r

def univNewlines (t : List Nat) : List Nat := univFrom false t

/-- `Parser.readFile`: the text the parser (and `merge`) works on -/
def readFile (bytes : List Nat) : List Nat := univNewlines (decodeUtf8 bytes)

/-- strict UTF-8 encoder (`codecs.open(…, "utf-8").write`): `none` = UnicodeEncodeError (lone surrogate) -/
def encodeCp (c : Nat) : Option (List Nat) :=
  if c < 128 then some [c]
  else if c < 2048 then some [192 + c / 64, 128 + c % 64]
  else if c < 65536 then
    if 55296 ≤ c && c ≤ 57343 then none
    else some [224 + c / 4096, 128 + (c / 64) % 64, 128 + c % 64]
  else if c < 1114112 then some [240 + c / 262144, 128 + (c / 4096) % 64, 128 + (c / 64) % 64, 128 + c % 64]
  else none

def encodeUtf8 : List Nat → Option (List Nat)
  | [] => some []
  | c :: r =>
    match encodeCp c, encodeUtf8 r with
    | some a, some b => some (a ++ b)
    | _, _ => none

/-! ### the merge on bytes -/

/-- what is at `merge_file` afterwards -/
inductive FileOut
  | noFile                          -- nothing staged
  | bytes (b : List Nat)            -- the staged file
  | typeError                       -- `skips.sort` raised (Android `None` spans), nothing staged
  | encodeError                     -- the encoder raised (cannot happen on decoded text, see `C04.encode_readFile_total`)
  deriving Repr, DecidableEq, Inhabited

def encodeOut (pre : List Nat) (t : List Nat) : FileOut :=
  match encodeUtf8 t with
  | some e => .bytes (pre ++ e)
  | none => .encodeError

/-- bytes → text → splice → bytes.  `l10n`/`ref` are the files on disk.  The text model decides the strategy;
    the copy outcomes move bytes, the written/appended outcomes go through the encoder. -/
def mergeBytes (mergeFile : Bool) (caps : Nat) (l10n ref : List Nat) (skips : List Skip)
    (missingAlls : List (List Nat)) : FileOut :=
  match merge mergeFile caps (readFile l10n) skips missingAlls with
  | .nothing => .noFile
  | .copyRef => .bytes ref                       -- shutil.copyfile(ref_file.fullpath, merge_file)
  | .copyL10n => .bytes l10n                     -- shutil.copyfile(l10n_file.fullpath, merge_file)
  | .copyL10nPlus tr => encodeOut l10n tr        -- copyfile, then codecs.open(merge_file, "ab", encoding).write(trailing)
  | .written t => encodeOut [] t                 -- codecs.open(merge_file, "wb", encoding): chunks (+ trailing)
  | .typeError => .typeError

/-! ### the `missingEntity` branch of `ContentComparer.compare`, with the real Observer model -/

open ObsM in
/-- the loop over the `delete` actions whose reference entity is not Junk: `_rv = self.observers.notify("missingEntity", l10n, key)`;
    `ignore` → continue, `error` → `missings.append(key); missing += 1`, anything else → `report += 1`.
    Entities come with the text `ref_entities[key].all`.  Result: observers, the texts handed to `merge`, `missing`, `report`. -/
def missingLoop (l : ObsList) (file : File) :
    List (Data × List Nat) → Except TreeM.PyErr (ObsList × List (List Nat) × Nat × Nat)
  | [] => pure (l, [], 0, 0)
  | (key, refAll) :: rest => do
    let (l1, rv) ← l.notify .missingEntity file key
    let (l2, ms, m, r) ← missingLoop l1 file rest
    if rv == .ignore then pure (l2, ms, m, r)
    else if rv == .error then pure (l2, refAll :: ms, m + 1, r)
    else pure (l2, ms, m, r + 1)

open ObsM in
/-- `compareProjects`/`ContentComparer(quiet)` with one `Observer(quiet, filter)` per project, the missing-entity loop,
    then `merge` with the collected `missings`: staged file, `missing`, `report` -/
def compareMerge (quiet : Nat) (filters : List (Option Filter)) (file : File) (missingEnts : List (Data × List Nat))
    (caps : Nat) (l10n ref : List Nat) (skips : List Skip) : Except TreeM.PyErr (FileOut × Nat × Nat) := do
  let l := ObsList.init quiet (filters.map (Obs.init quiet))
  let (_, ms, m, r) ← missingLoop l file missingEnts
  pure (mergeBytes true caps l10n ref skips ms, m, r)

end MergeB

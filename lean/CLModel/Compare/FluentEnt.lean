/-
C03 — what the comparison reads off a Fluent entity (compare_locales/parser/fluent.py):

  `FluentEntity.count_words`  — `WordCounter` (a fluent.syntax `Visitor`) started at `root_node`
                                 (a message: the whole entry; a term: its value only)
  `FluentEntity.equals`       — `self.entry.equals(other.entry, ignored_fields=self.ignored_fields)`,
                                 i.e. `fluent.syntax.ast.BaseNode.equals` / `scalars_equal`
  `FluentAttribute.equals`    — `self.attr.equals(other.attr, ignored_fields=["span"])`

The fluent.syntax AST is an INPUT (`Ftl.Entry` of Checks/Fluent.lean: the AST with the span starts the checker
reads; the comment of an entry is carried next to it).  Both functions are folds over that AST:

* `WordCounter`: `generic_visit` descends into every field except `Span`, `Annotation`, `BaseComment`;
  `visit_TextElement` adds `len(value.split())`; `visit_SelectExpression` visits `node.variants` only (ALL
  variants, not the selector).  Identifiers, literals and named arguments hold no `TextElement`.
* `BaseNode.equals`: the two nodes must have the same field names (always true here once the ignored fields are
  dropped), every field is compared with `scalars_equal` (same Python type, then `equals` for nodes, `==` for
  anything else), list fields element by element after a length test.  `span` is always ignored, `comment` for
  messages and terms, `attributes` for terms.  The TOP-LEVEL call does not compare the types of the two entries.

Texts are lists of code points.  Core Lean only.
-/
import CLModel.Checks.Fluent
import CLModel.Compare.Content
namespace FtlC
open Ftl

/-! ### `WordCounter` -/

mutual
  def wPattern : Pattern → Nat
    | .mk _ els => wElems els
  def wElems : List Elem → Nat
    | [] => 0
    | e :: r => wElem e + wElems r
  def wElem : Elem → Nat
    | .text v => Cmp.splitCount v                 -- visit_TextElement
    | .placeable e => wExpr e
  def wExpr : Expr → Nat
    | .strLit _ => 0
    | .numLit _ => 0
    | .varRef _ => 0
    | .msgRef _ _ _ => 0
    | .termRef _ _ _ args => (match args with | some c => wArgs c | none => 0)
    | .funRef _ args => wArgs args
    | .select _ vs => wVariants vs                -- visit_SelectExpression: `self.visit(node.variants)`
    | .placeable e => wExpr e
  def wVariants : List Variant → Nat
    | [] => 0
    | v :: r => wVariant v + wVariants r
  def wVariant : Variant → Nat
    | .mk _ value _ => wPattern value
  def wArgs : CallArgs → Nat
    | .mk pos _ => wExprs pos                     -- NamedArgument: an Identifier and a literal
  def wExprs : List Expr → Nat
    | [] => 0
    | e :: r => wExpr e + wExprs r
end

def wAttrs : List Attribute → Nat
  | [] => 0
  | a :: r => wPattern a.value + wAttrs r

/-- `FluentEntity.count_words()`: a message counts its value and all attributes, a term its value only -/
def countWords : Entry → Nat
  | .message m => (match m.value with | some p => wPattern p | none => 0) + wAttrs m.attributes
  | .term t => wPattern t.value

/-! ### `BaseNode.equals` with `span` ignored -/

def eqVKey : VKey → VKey → Bool
  | .ident _ a, .ident _ b => a == b
  | .num _ a, .num _ b => a == b
  | _, _ => false                                 -- type(node1) != type(node2)

mutual
  def eqPattern : Pattern → Pattern → Bool
    | .mk _ a, .mk _ b => eqElems a b
  def eqElems : List Elem → List Elem → Bool
    | [], [] => true
    | a :: as, b :: bs => eqElem a b && eqElems as bs
    | _, _ => false                               -- len(field1) != len(field2)
  def eqElem : Elem → Elem → Bool
    | .text a, .text b => a == b
    | .placeable a, .placeable b => eqExpr a b
    | _, _ => false
  def eqExpr : Expr → Expr → Bool
    | .strLit a, .strLit b => a == b
    | .numLit a, .numLit b => a == b
    | .varRef a, .varRef b => a == b
    | .msgRef _ i a, .msgRef _ j b => i == j && a == b
    | .termRef _ i a x, .termRef _ j b y =>
      i == j && a == b && (match x, y with
        | none, none => true
        | some c, some d => eqArgs c d
        | _, _ => false)
    | .funRef i x, .funRef j y => i == j && eqArgs x y
    | .select s vs, .select t ws => eqExpr s t && eqVariants vs ws
    | .placeable a, .placeable b => eqExpr a b
    | _, _ => false
  def eqVariants : List Variant → List Variant → Bool
    | [], [] => true
    | a :: as, b :: bs => eqVariant a b && eqVariants as bs
    | _, _ => false
  def eqVariant : Variant → Variant → Bool
    | .mk k v d, .mk k' v' d' => eqVKey k k' && eqPattern v v' && d == d'
  def eqArgs : CallArgs → CallArgs → Bool
    | .mk p n, .mk p' n' => eqExprs p p' && n == n'
  def eqExprs : List Expr → List Expr → Bool
    | [], [] => true
    | a :: as, b :: bs => eqExpr a b && eqExprs as bs
    | _, _ => false
end

/-- `Attribute.equals` (fields `id`, `value`) = `FluentAttribute.equals` -/
def eqAttr (a b : Attribute) : Bool := a.name == b.name && eqPattern a.value b.value

def eqAttrs : List Attribute → List Attribute → Bool
  | [], [] => true
  | a :: as, b :: bs => eqAttr a b && eqAttrs as bs
  | _, _ => false

/-- `scalars_equal` on the `value` field of an entry: `None` or a Pattern -/
def eqOptPattern : Option Pattern → Option Pattern → Bool
  | none, none => true
  | some a, some b => eqPattern a b
  | _, _ => false

def entId : Entry → Str
  | .message m => m.id
  | .term t => t.id

def entValue : Entry → Option Pattern
  | .message m => m.value
  | .term t => some t.value

def entAttrs : Entry → List Attribute
  | .message m => m.attributes
  | .term t => t.attributes

def isTerm : Entry → Bool
  | .message _ => false
  | .term _ => true

/-- `FluentEntity.equals(other)`: the ignored fields are those of `self` (`FluentTerm` also ignores `attributes`);
    the classes of the two entries are not compared (a `Message` and a `Term` have the same field names) -/
def equals (self other : Entry) : Bool :=
  entId self == entId other && eqOptPattern (entValue self) (entValue other) &&
    (isTerm self || eqAttrs (entAttrs self) (entAttrs other))

/-! ### the entity lists of a Fluent file, as the comparison loop sees them -/

/-- a localizable entry of `FluentParser.walk`: a message / term (with its comment) or a Junk -/
inductive Item
  | junk (key : Cmp.Key) (msg : Nat)
  | ent (key : Cmp.Key) (comment : Option Str) (entry : Entry)

/-- the equality class of an entry: 1 + index of the first earlier entry OF THE SAME KIND it is `equals` to;
    a new class when there is none.  `reps` are the representatives met so far. -/
def classify (reps : List Entry) (e : Entry) : Nat × List Entry :=
  match reps.findIdx? (fun r => isTerm r == isTerm e && equals r e) with
  | some i => (i + 1, reps)
  | none => (reps.length + 1, reps ++ [e])

def toEnts : List Item → List Entry → List Cmp.Ent × List Entry
  | [], reps => ([], reps)
  | .junk k m :: rest, reps =>
    let r := toEnts rest reps
    ({ key := k, junk := true, words := 0, cls := 0, msg := m } :: r.1, r.2)
  | .ent k _ e :: rest, reps =>
    let c := classify reps e
    let r := toEnts rest c.2
    ({ key := k, junk := false, words := countWords e, cls := c.1, msg := 0 } :: r.1, r.2)

/-- `ContentComparer.compare` on two Fluent files given by their fluent.syntax ASTs -/
def compareFluent (ref l10n : List Item) (verdict : Cmp.Key → Cmp.Verdict) : Except Cmp.PyErr Cmp.Report :=
  let r := toEnts ref []
  let l := toEnts l10n r.2
  Cmp.compareEntities r.1 l.1 verdict

end FtlC

/-
C20 (round 4) — the `AddRemove` OBJECT of `compare_locales/compare/utils.py` as a state machine,
and the closed form of `AddRemove.__iter__` for ALL inputs (duplicates on either side).
Core Lean only (linked into `cldriver`).

    class AddRemove:
        def __init__(self):            self.left = self.right = None
        def set_left(self, left):      self.left = list(left)
        def set_right(self, right):    self.right = list(right)
        def __iter__(self):            ... reads self.left / self.right, writes locals only ...

The state of the object is exactly `(left, right)`; `__iter__` builds `order_map`, `left_items`,
`right_items` as LOCALS, so iterating must not change the state.  `Obj.step` is the transliteration
(same assignments, `enumerate(None)` raises `TypeError` as `Except.error`).
-/
import CLModel.Compare.AddRemove
namespace C20M
open AR

/-! ### closed form with duplicates -/

/-- keep the LAST occurrence of every key, in the order of the last occurrences
    (`{item: (i, -1) for i, item in enumerate(left)}` keeps, for a repeated key, the last index) -/
def dedupLast [BEq α] : List α → List α
  | [] => []
  | x :: xs => if xs.contains x then dedupLast xs else x :: dedupLast xs

/-- index of the last occurrence of `k` (0 when `k` does not occur) -/
def lastIdx [BEq α] : List α → α → Nat
  | [], _ => 0
  | _ :: xs, k => if xs.contains k then lastIdx xs k + 1 else 0

/-- walk `right` remembering the current anchor (the last left member seen).  A right-only key
    seen for the first time is emitted with the current anchor; a REPEATED right-only key emits nothing
    and resets the current anchor to the one it was emitted with (`item in order_map` is true for it,
    so `left_offset = order_map[item][0]`). `acc` = pairs emitted so far. -/
def anchorsD [BEq α] (left : List α) : List α → Option α → List (Option α × α) → List (Option α × α)
  | [], _, acc => acc
  | x :: xs, cur, acc =>
    if left.contains x then anchorsD left xs (some x) acc
    else match acc.find? (fun p => p.2 == x) with
      | some p => anchorsD left xs p.1 acc
      | none => anchorsD left xs cur (acc ++ [(cur, x)])

/-- closed form of `AddRemove.__iter__` for ALL inputs: the left keys once each in the order of their
    last occurrences; after each (and before all, for "no anchor") the right-only keys anchored there,
    in the order of their first occurrences in `right` -/
def specD [BEq α] (left right : List α) : List (Label × α) :=
  let anc := anchorsD left right none []
  let adds (a : Option α) := (anc.filter (fun p => p.1 == a)).map (fun p => (Label.add, p.2))
  adds none ++ (dedupLast left).flatMap
    (fun l => ((if right.contains l then Label.equal else Label.delete), l) :: adds (some l))

/-! ### the object -/

/-- `self.left`, `self.right` (`none` = Python `None`) -/
structure Obj (α : Type) where
  left : Option (List α)
  right : Option (List α)
  deriving Repr, DecidableEq

/-- `AddRemove()` -/
def Obj.init : Obj α := { left := none, right := none }

inductive Op (α : Type)
  | setLeft (l : List α)
  | setRight (r : List α)
  | iterate
  deriving Repr, DecidableEq

/-- what a caller sees of one operation: nothing for the setters, the list `list(ar)` or the raised
    `TypeError` (`enumerate(None)`) for an iteration -/
abbrev Out (α : Type) := Option (Except String (List (Label × α)))

/-- `list(iter(self))` -/
def Obj.iterate [BEq α] (o : Obj α) : Except String (List (Label × α)) :=
  match o.left with
  | none => .error "TypeError"            -- enumerate(self.left)
  | some l =>
    match o.right with
    | none => .error "TypeError"          -- enumerate(self.right)
    | some r => .ok (addRemove l r)

/-- one operation on the object: new state and what the caller observes -/
def Obj.step [BEq α] (o : Obj α) : Op α → Obj α × Out α
  | .setLeft l => ({ o with left := some l }, none)
  | .setRight r => ({ o with right := some r }, none)
  | .iterate => (o, some o.iterate)

/-- state after a sequence of operations -/
def Obj.final [BEq α] (o : Obj α) (ops : List (Op α)) : Obj α :=
  ops.foldl (fun o op => (o.step op).1) o

/-- observations of a sequence of operations on ONE object, one per operation -/
def Obj.trace [BEq α] (o : Obj α) : List (Op α) → List (Out α)
  | [] => []
  | op :: ops => (o.step op).2 :: Obj.trace (o.step op).1 ops

/-! ### specification of the history: what SHOULD be observed -/

/-- the argument of the last `set_left` in a history -/
def curLeft : List (Op α) → Option (List α)
  | [] => none
  | .setLeft l :: ops => (curLeft ops).or (some l)
  | _ :: ops => curLeft ops

def curRight : List (Op α) → Option (List α)
  | [] => none
  | .setRight r :: ops => (curRight ops).or (some r)
  | _ :: ops => curRight ops

/-- the closed form for optional sides -/
def specOut [BEq α] : Option (List α) → Option (List α) → Except String (List (Label × α))
  | some l, some r => .ok (specD l r)
  | _, _ => .error "TypeError"

end C20M

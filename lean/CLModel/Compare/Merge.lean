/-
Model of `ContentComparer.merge` (compare/content.py) as a pure function to an outcome.
Core Lean only.  Spans are `Option (Nat × Nat)` because Android entities carry `(None, None)`.
-/
import CLModel.Gen.Tables
namespace Merge

structure Skip where
  span : Option (Nat × Nat)      -- `skip.span`; Android entities: (None, None)
  junk : Bool                    -- isinstance(skip, parser.Junk)
  refAll : List Nat              -- `ref_entities[skip.key].all` (only used when not junk)
  deriving Repr, DecidableEq, Inhabited

/-- what ends up at `merge_file` -/
inductive Outcome
  | nothing                                   -- merge_file not touched
  | copyRef                                   -- shutil.copyfile(ref_file, merge_file)
  | copyL10n                                  -- shutil.copyfile(l10n_file, merge_file)
  | copyL10nPlus (trailing : List Nat)        -- copy of the l10n file, then appended text
  | written (text : List Nat)                 -- file written from scratch
  | typeError                                 -- Python raises TypeError (sorting `None` spans)
  deriving Repr, DecidableEq, Inhabited

def hasCap (caps c : Nat) : Bool := (caps / c) % 2 == 1     -- caps & c for c a power of two

def ensureNewline (s : List Nat) : List Nat := if s.getLast? == some 10 then s else s ++ [10]

/-- insertion into a list sorted by span start (`list.sort(key=...)` is stable) -/
def insertSorted (x : Skip) (k : Nat) : List (Skip × Nat) → List (Skip × Nat)
  | [] => [(x, k)]
  | (y, ky) :: rest => if k < ky then (x, k) :: (y, ky) :: rest else (y, ky) :: insertSorted x k rest

/-- `skips.sort(key=lambda s: s.span[0])`: comparing two `None` keys raises TypeError; a single
    element is never compared. -/
def sortSkips (skips : List Skip) : Option (List Skip) :=
  match skips with
  | [] => some []
  | [x] => some [x]
  | _ =>
    if skips.all (fun s => s.span.isSome) then
      some ((skips.foldl (fun acc s => insertSorted s (match s.span with | some (a, _) => a | none => 0) acc) []).map (·.1))
    else none

/-- the chunk loop: `f.write(contents[offset:chunk[0]]); offset = chunk[1]` …, `f.write(contents[offset:])`.
    `offset = none` models Python's `None` (slice from the start). -/
def chunks (contents : List Nat) : List Skip → Option Nat → List Nat
  | [], off => contents.drop (match off with | some o => o | none => 0)
  | sk :: rest, off =>
    let o := match off with | some o => o | none => 0      -- `contents[None:…]` slices from the start
    match sk.span with
    | some (a, b) => (contents.drop o).take (a - o) ++ chunks contents rest (some b)
    | none => contents.drop o ++ chunks contents rest none        -- contents[offset:None]

def trailing (missingAlls : List (List Nat)) (skips : List Skip) : List Nat :=
  (([10] :: missingAlls ++ (skips.filter (fun s => !s.junk)).map (·.refAll)).map ensureNewline).flatten

/-- `ContentComparer.merge` -/
def merge (mergeFile : Bool) (caps : Nat) (contents : List Nat) (skips : List Skip)
    (missingAlls : List (List Nat)) : Outcome :=
  if !mergeFile then .nothing else
  if caps == Gen.Tables.CAN_NONE then .nothing else
  if hasCap caps Gen.Tables.CAN_COPY then
    if !skips.isEmpty || !missingAlls.isEmpty then .copyRef else .copyL10n
  else if !hasCap caps Gen.Tables.CAN_SKIP then .nothing
  else
    match (if skips.isEmpty then some [] else sortSkips skips) with
    | none => .typeError
    | some sorted =>
      let body : Option (List Nat) := if skips.isEmpty then none else some (chunks contents sorted none)
      if !hasCap caps Gen.Tables.CAN_MERGE then
        match body with | some t => .written t | none => .copyL10n
      else if !skips.isEmpty || !missingAlls.isEmpty then
        let tr := trailing missingAlls sorted
        match body with | some t => .written (t ++ tr) | none => .copyL10nPlus tr
      else
        match body with | some t => .written t | none => .copyL10n

end Merge

/-
C14 ∘ C10: the filter model (`Paths/Filter.lean`, `ProjectConfig.filter`) composed with the FULL model of
`compare/observer.py` (`Compare/Observer.lean`: `Observer.notify` / `ObserverList.notify` / `updateStats`
with the quiet level, the details tree and the summary) and with the key loop of
`compare/content.py ContentComparer.compare` — the `delete` branch (missing entity, reference Junk), the `add`
branch (obsolete entity, localized Junk), the checker notifications of the `both` branch, the final
`updateStats` call.  `Compare/MissingFilter.lean` is the quiet = 0 / missing-only abstraction of this model
(`C14.compareq_refines_missing`).  Core Lean only.

What is an input here: the sequence of `(action, entity_id)` pairs that `AddRemove` yields (C20), the word
counts `refent.count_words()`, the checker's messages, the counts of the `both` branch
(`changed`, `changed_w`, `unchanged`, `unchanged_w`, `keys`).
-/
import CLModel.Paths.Filter
import CLModel.Compare.Observer
namespace FiltObs
open TreeM ObsM

/-- the three strings `ProjectConfig.filter` returns, as `Observer` sees them -/
def toRet : Filt.Action → Ret
  | .error => .error
  | .warning => .warning
  | .ignore => .ignore

/-- `Observer(filter=config.filter)` for a project configuration: `filter(file, entity)` as a function of the
    observer's arguments.  `fullpath` is the attribute `File.fullpath` (not part of `ObsM.File`).
    `file.locale is None`: `None not in self.all_locales` (a list of `str`) → "ignore".
    A tuple key (gettext) is outside the filter model (`rule["key"].match(tuple)` raises `TypeError` as soon as a
    keyed rule's path matches): the comparer model below only produces `str` data, and the answer given here for
    tuples (the default "error") is never consulted by it. -/
def projectFilter (cfg : Filt.Config) (fullpath : File → Text) : Filter := fun f d =>
  match f.locale with
  | none => .ignore
  | some loc =>
    match d with
    | .none => toRet (Filt.filter cfg ⟨fullpath f, loc⟩ none)
    | .str k => toRet (Filt.filter cfg ⟨fullpath f, loc⟩ (some k))
    | .tuple _ => .error

/-! ### the key loop of `ContentComparer.compare` -/

/-- one iteration of `for action, entity_id in ar:` as far as the observers are concerned -/
inductive KeyEv where
  /-- `action == "delete"`, the reference entity is not Junk: `notify("missingEntity", l10n, entity_id)`;
      `words` = `ref_entities[entity_id].count_words()` -/
  | missing (key : Text) (words : Nat)
  /-- `action == "delete"`, the reference entity is Junk: `notify("warning", l10n, "Parser error in en-US")`
      (the message text is an input) and `continue` -/
  | refJunk (msg : Text)
  /-- `action == "add"`, not Junk: `notify("obsoleteEntity", l10n, entity_id)` -/
  | obsolete (key : Text)
  /-- `action == "add"`, Junk: `notify("error", l10n, junk.error_message())` -/
  | l10nJunk (msg : Text)
  /-- a checker result of the `both` branch, or a `findDuplicates` message:
      `notify(tp, l10n, "... at line %d, column %d for %s")` with `tp` = "error" / "warning" (any category here) -/
  | note (cat : Cat) (msg : Text)
  deriving Repr, DecidableEq

structure CmpAcc where
  missing : Nat
  missingW : Nat
  report : Nat
  obsolete : Nat
  /-- `missings`: handed to `merge()` -/
  missings : List Text
  /-- what `self.observers.notify(...)` returned, call by call -/
  rvs : List Ret
  deriving Repr, DecidableEq

def CmpAcc.zero : CmpAcc := ⟨0, 0, 0, 0, [], []⟩

/-- the loop body -/
def cmpStep (l : ObsList) (file : File) (acc : CmpAcc) : KeyEv → Except PyErr (ObsList × CmpAcc)
  | .missing key words => do
    let (l', rv) ← l.notify .missingEntity file (.str key)
    let acc := { acc with rvs := acc.rvs ++ [rv] }
    if rv == .ignore then pure (l', acc)                                   -- continue
    else if rv == .error then
      pure (l', { acc with missings := acc.missings ++ [key], missing := acc.missing + 1,
                           missingW := acc.missingW + words })
    else pure (l', { acc with report := acc.report + 1 })                  -- just report
  | .refJunk msg => do
    let (l', rv) ← l.notify .warning file (.str msg)
    pure (l', { acc with rvs := acc.rvs ++ [rv] })
  | .obsolete key => do
    let (l', rv) ← l.notify .obsoleteEntity file (.str key)
    let acc := { acc with rvs := acc.rvs ++ [rv] }
    if rv != .ignore then pure (l', { acc with obsolete := acc.obsolete + 1 }) else pure (l', acc)
  | .l10nJunk msg => do
    let (l', rv) ← l.notify .error file (.str msg)
    pure (l', { acc with rvs := acc.rvs ++ [rv] })
  | .note cat msg => do
    let (l', rv) ← l.notify cat file (.str msg)
    pure (l', { acc with rvs := acc.rvs ++ [rv] })

def cmpLoop (file : File) : List KeyEv → ObsList → CmpAcc → Except PyErr (ObsList × CmpAcc)
  | [], l, acc => pure (l, acc)
  | e :: rest, l, acc => do
    let (l', acc') ← cmpStep l file acc e
    cmpLoop file rest l' acc'

/-- the counts of the `both` branch, which the observers never see before `updateStats` -/
structure BothCounts where
  changed : Nat
  changedW : Nat
  unchanged : Nat
  unchangedW : Nat
  keys : Nat
  deriving Repr, DecidableEq

/-- the `stats` dict of `ContentComparer.compare`, in its insertion order -/
def statsOf (acc : CmpAcc) (b : BothCounts) : List (StatKey × Nat) :=
  [(.missing, acc.missing), (.missing_w, acc.missingW), (.report, acc.report), (.obsolete, acc.obsolete),
   (.changed, b.changed), (.changed_w, b.changedW), (.unchanged, b.unchanged), (.unchanged_w, b.unchangedW),
   (.keys, b.keys)]

/-- the key loop followed by `self.observers.updateStats(l10n, stats)` -/
def compareQ (l : ObsList) (file : File) (evs : List KeyEv) (b : BothCounts) : Except PyErr (ObsList × CmpAcc) := do
  let (l', acc) ← cmpLoop file evs l CmpAcc.zero
  pure (l'.updateStats file (statsOf acc b), acc)

/-- `ContentComparer(quiet)` with one `Observer(quiet, filter)` per filter appended -/
def fresh (quiet : Nat) (flts : List (Option Filter)) : ObsList :=
  ObsList.init quiet (flts.map (Obs.init quiet))


/-! ### whole files: `ContentComparer.add` (missing file) and `ContentComparer.remove` (obsolete file) -/

/-- `ContentComparer.add(orig, missing, merge_file)` as far as the observers are concerned:
    `notify("missingFile", missing, None)`; if the answer is "ignore" nothing is counted; otherwise
    `updateStats(missing, {"missing": n})` and `updateStats(missing, {"missing_w": w})`, `n` / `w` = number of
    (non-Junk) entities of the reference file and their words (inputs).  The no-parser and read-error branches are
    not modelled. -/
def addFileQ (l : ObsList) (file : File) (n w : Nat) : Except PyErr (ObsList × Ret) := do
  let (l', rv) ← l.notify .missingFile file .none
  if rv == .ignore then pure (l', rv)
  else pure ((l'.updateStats file [(.missing, n)]).updateStats file [(.missing_w, w)], rv)

/-- `ContentComparer.remove(ref_file, l10n, merge_file)`: `notify("obsoleteFile", l10n, None)` (the answer is not used) -/
def removeFileQ (l : ObsList) (file : File) : Except PyErr (ObsList × Ret) :=
  l.notify .obsoleteFile file .none

/-! ### the same run as a history of the `ObserverList` (the notion the C10 theorems speak about) -/

def KeyEv.cat : KeyEv → Cat
  | .missing _ _ => .missingEntity
  | .refJunk _ => .warning
  | .obsolete _ => .obsoleteEntity
  | .l10nJunk _ => .error
  | .note c _ => c

def KeyEv.data : KeyEv → Data
  | .missing k _ => .str k
  | .refJunk m => .str m
  | .obsolete k => .str k
  | .l10nJunk m => .str m
  | .note _ m => .str m

/-- the notification an iteration raises (every iteration raises exactly one, whatever is returned) -/
def KeyEv.toEv (file : File) (e : KeyEv) : Ev := .notify e.cat file e.data

end FiltObs

/-
The orchestration layer (CLModel/Compare/Projects.lean) COMPOSED with the pipeline model of C05
(CLModel/Compare/Pipeline.lean): the INPUTS `World.parserCaps`, `World.parseRef` and `World.compareBody` computed from
file CONTENTS (decoded text per path, or the message of the exception `Parser.readFile` raised).  Core Lean only.

* `capsOfName`    = `parser.getParser(name).capabilities` through the generated constructor table (`Lint.getParserName`);
* `parseRefOf`    = `add`: `p.readFile(f); entities = p.parse()`, the non-Junk entities and their `count_words()`;
* `compareBodyOf` = `ContentComparer.compare` behind its `getParser` gate: the two `readFile` try-blocks, then
                    `Pipe.compareParsed` (duplicates, the loop over the key diff, checks, merge, `updateStats`), the
                    `print` of `merge` and the `OSError` of `create_merge_dir`.
`Junk.junkid` is threaded through every parse.  The external functions of the pipeline model (`Pipe.Ext`: expat's verdicts,
`html.unescape`) are a PARAMETER `ext` of the world: the theorems hold for every value of it.  `compare` on formats whose
comparison this composed world does not carry (DTD: the wire format of `c10.handle` has no table of expat verdicts and
the pipeline model takes `extra_tests = None` while `compareProjects` passes "android-dtd"; Fluent, Android: no regex
parser) is reported as `PyErr.external "UnmodelledFormat"`, as before the pipeline covered DTD (`Pipe.plainFmt`); for
ini / inc / po / properties nothing consults `ext` (`PipeBridge.parseFile_ext_irrel`, `PipeBridge.compareFiles_ext_irrel`).
-/
import CLModel.Compare.Projects
import CLModel.Compare.Pipeline
import CLModel.Lint.Linter
namespace ProjPipe
open TreeM ObsM ProjM

/-- contents of a file: decoded text, or `str(exception)` of `readFile` -/
inductive Content | text (t : Text) | error (msg : Text)

def fmtOfClass (cls : Text) : Option P.Fmt :=
  if cls == ofString "PropertiesParser" then some .properties
  else if cls == ofString "DTDParser" then some .dtd
  else if cls == ofString "IniParser" then some .ini
  else if cls == ofString "DefinesParser" then some .inc
  else if cls == ofString "PoParser" then some .po
  else none

/-- `parser.getParser(name).capabilities` -/
def capsOfName (name : Text) : Option Nat :=
  match Lint.getParserName name with
  | none => none
  | some cls =>
    match fmtOfClass cls with
    | some f => some (Pipe.capsOf f)
    | none =>
      if cls == ofString "FluentParser" then some Gen.Tables.cap_ftl
      else if cls == ofString "AndroidParser" then some Gen.Tables.cap_android
      else some Gen.Tables.CAN_NONE

def fmtOfName (name : Text) : Option P.Fmt := (Lint.getParserName name).bind fmtOfClass

def lookupContent (cs : List (Path × Content)) (p : Option Path) : Option Content :=
  match p with
  | none => none
  | some p => (cs.find? (·.1 == p)).map (·.2)

/-- `add`: `p.readFile(f); entities = p.parse()`, then the non-Junk entities and their words -/
def parseRefOf (ext : Pipe.Ext) (cs : List (Path × Content)) (full : Option Path) (name : Text) (junk : Nat) :
    Except Text (Nat × Nat) × Nat :=
  match lookupContent cs full, fmtOfName name with
  | some (.error msg), _ => (.error msg, junk)
  | some (.text t), some fmt =>
    match Pipe.parseFile ext fmt t.toArray junk with
    | .error e => (.error (ofString ("model:" ++ e.name)), junk)
    | .ok (ents, junk') =>
      let real := ents.filter (fun e => !e.junk)
      (.ok (real.length, (real.map (·.words)).sum), junk')
  | _, _ => (.error (ofString "model:no-content"), junk)

/-- `ContentComparer.compare` behind the `getParser` gate, on the composed pipeline model of C05 -/
def compareBodyOf (ext : Pipe.Ext) (cs : List (Path × Content)) (md : List (Path × Text)) (c : Call) (junk : Nat)
    (obs : ObsList) : Except ProjM.PyErr (ObsList × List Text × Nat) :=
  let notifyErr (f : File) (msg : Text) : Except ProjM.PyErr (ObsList × List Text × Nat) :=
    match obs.notify .error f (.str msg) with
    | .error e => .error (.observer e)
    | .ok (l, _) => .ok (l, [], junk)
  match fmtOfName c.ref.file with
  | none => .error (.external "UnmodelledFormat")
  | some fmt =>
    match Pipe.plainFmt fmt with
    | false => .error (.external "UnmodelledFormat")
    | true =>
      match lookupContent cs c.refFull with
      | none => .error (.external "NoContent")
      | some (.error msg) => notifyErr c.ref msg        -- `p.readFile(ref_file)` raised
      | some (.text rt) =>
        match Pipe.parseFile ext fmt rt.toArray junk with
        | .error e => .error (.external e.name)
        | .ok (ref, junk1) =>
          match lookupContent cs (some c.l10nFull) with
          | none => .error (.external "NoContent")
          | some (.error msg) =>
            -- `p.readFile(l10n)` raised: the junk ids of the reference are spent
            (match obs.notify .error c.l10n (.str msg) with
              | .error e => .error (.observer e)
              | .ok (l, _) => .ok (l, [], junk1))
          | some (.text lt) =>
            match Pipe.parseFile ext fmt lt.toArray junk1 with
            | .error e => .error (.external e.name)
            | .ok (l10n, junk2) =>
              -- the environment C05's `Pipe.compareFiles` builds: `getChecker(l10n)` with `checker.locale = l10n.locale`
              let env : Pipe.Env := Pipe.envOf ext fmt c.l10n c.merge.isSome ref lt.toArray
              match Pipe.compareParsed env ref l10n obs with
              | .error e => .error (.external e.name)
              | .ok (obs', outcome) =>
                match c.merge with
                | none => .ok (obs', [], junk2)
                | some mf =>
                  if Pipe.capsOf fmt != Gen.Tables.CAN_NONE then
                    match md.find? (·.1 == mf) with
                    | some e => .error (.osError e.2)
                    | none => .ok (obs', mergePrint (Pipe.capsOf fmt) outcome mf, junk2)
                  else .ok (obs', [], junk2)


/-- the world of a run: enumerations, existing paths, merge directories that cannot be created and file contents -/
def worldOf (ext : Pipe.Ext) (cwd : Path) (enums : List (Option Text × Except ProjM.PyErr Files)) (existing : List Path)
    (md : List (Path × Text)) (cs : List (Path × Content)) : World where
  cwd := cwd
  projectFiles := fun loc =>
    match enums.find? (·.1 == loc) with
    | some e => e.2
    | none => .error (.external "no-enumeration")
  pathExists := fun p => existing.contains p
  parserCaps := capsOfName
  parseRef := parseRefOf ext cs
  compareBody := compareBodyOf ext cs md
  makeMergeDir := fun mf => (md.find? (·.1 == mf)).map (·.2)

end ProjPipe

/-
C20 (round 5) — INTERACTION histories: a small heap of Python objects (caller-owned `list`s of keys,
caller-owned `list`s of entities, `KeyedTuple`s, `AddRemove`s) with EXPLICIT ALIASING.  Core Lean only
(linked into `cldriver`).

What the Python does with references (compare_locales/keyedtuple.py, compare/utils.py):

    KeyedTuple(iterable)      tuple.__new__ COPIES the elements; the object never refers to `iterable`
    kt.keys() / kt.items()    a NEW generator each call; `list(...)` of it is a NEW list each time
    kt.values()               `self` (an immutable tuple)
    ar.set_left(x)            `if not isinstance(x, list): x = list(...)`  — a `list` argument is kept
                              BY REFERENCE (no copy), anything else is copied into a NEW list
    ar.__iter__               reads `self.left` / `self.right`; writes locals only

A list cell is `Ref` = index into `Heap.lists` (allocation only appends, nothing is ever freed), so
"two names for one list" is "the same `Ref`".  `ARObj.left/right` hold a `Ref`, NOT a value: when the
caller mutates a list it handed over, the next iteration sees the mutated contents — this is what the
unchanged code does, and the model follows it (`Src.ref`).  A `KT` holds values only (no `Ref` field):
that a `KeyedTuple` cannot be reached through any list is true by the TYPE of the model; a change of
the code that makes `keys()` hand out an internal list breaks the correspondence of `keysToList`
(the model allocates a fresh cell each call).
-/
import CLModel.Compare.AddRemove
import CLModel.Compare.AddRemoveObj
import CLModel.Compare.KeyedTuple
namespace C20H
open AR C20M C20K

abbrev Ref := Nat

/-- an `AddRemove` instance: its two attributes refer to list cells (`none` = Python `None`) -/
structure ARObj where
  left : Option Ref
  right : Option Ref
  deriving Repr, DecidableEq

/-- every mutable (and immutable) object of a history -/
structure Heap (κ : Type) where
  /-- `list` objects holding keys (the caller's, and the ones `set_left`/`set_right` create) -/
  lists : List (List κ)
  /-- `list` objects holding entities (the caller's) -/
  elists : List (List (Ent κ))
  /-- `KeyedTuple` objects -/
  kts : List (KT κ)
  /-- `AddRemove` objects -/
  ars : List ARObj
  /-- number of entity objects created so far (the `id` of the next one) -/
  nextId : Nat
  deriving Repr

def Heap.init : Heap κ := { lists := [], elists := [], kts := [], ars := [], nextId := 0 }

/-- what is handed to `set_left` / `set_right` -/
inductive Src (κ : Type)
  /-- a `list` object (the caller's variable, `ar.left` of some object, …): kept BY REFERENCE -/
  | ref (r : Ref)
  /-- `kt.keys()` — a generator: copied into a new list -/
  | keysOf (t : Nat)
  /-- a tuple / a generator over literal keys: copied into a new list -/
  | lit (ks : List κ)
  deriving Repr, DecidableEq

/-- what is handed to `KeyedTuple(...)` -/
inductive KSrc (κ : Type)
  /-- new entity objects with these keys (list / tuple / generator not kept by the caller) -/
  | lit (ks : List κ)
  /-- the caller's `list` of entities (which the caller may mutate LATER) -/
  | elist (r : Ref)
  /-- `KeyedTuple(kt.values())` -/
  | valuesOf (t : Nat)
  /-- `KeyedTuple(v for _, v in kt.items())` -/
  | itemsOf (t : Nat)
  /-- `KeyedTuple(kt + ku)` -/
  | concat (t u : Nat)
  deriving Repr, DecidableEq

/-- in-place mutations a caller performs on a list it holds -/
inductive Mut (β : Type)
  | append (x : β)
  | pop
  | reverse
  | clear
  | insert0 (x : β)
  deriving Repr, DecidableEq

/-- `lst.append(x)`, `if lst: lst.pop()`, `lst.reverse()`, `lst.clear()`, `lst.insert(0, x)` -/
def applyMut {β : Type} (xs : List β) : Mut β → List β
  | .append x => xs ++ [x]
  | .pop => xs.dropLast
  | .reverse => xs.reverse
  | .clear => []
  | .insert0 x => x :: xs

def applyMuts {β : Type} (xs : List β) (ms : List (Mut β)) : List β := ms.foldl applyMut xs

inductive Op (κ : Type)
  /-- `L = [k, …]` -/
  | newList (ks : List κ)
  /-- `M = [E(k), …]` (new entity objects) -/
  | newEList (ks : List κ)
  /-- the caller mutates its key list `L r` -/
  | mutList (r : Ref) (m : Mut κ)
  /-- the caller mutates its entity list `M r` (`append`/`insert0` create a new entity with the key) -/
  | mutEList (r : Ref) (m : Mut κ)
  /-- `T = KeyedTuple(...)` -/
  | newKT (s : KSrc κ)
  /-- `A = AddRemove()` -/
  | newAR
  | setLeft (a : Nat) (s : Src κ)
  | setRight (a : Nat) (s : Src κ)
  /-- `x = T.keys(); L = x if isinstance(x, list) else list(x)` (the idiom of `set_left` itself) -/
  | keysToList (t : Nat)
  /-- the same with `T.values()` -/
  | valuesToList (t : Nat)
  /-- the same with `T.items()` (a pair `(e.key, e)` is represented by `e`) -/
  | itemsToList (t : Nat)
  /-- `list(A)` -/
  | iterate (a : Nat)
  /-- look at the caller's list `L r` / `M r` -/
  | readList (r : Ref)
  | readEList (r : Ref)
  /-- a query on `T` -/
  | ask (t : Nat) (q : Q κ)
  deriving Repr, DecidableEq

inductive Out (κ : Type)
  | nothing
  | diff (d : Except String (List (Label × κ)))
  | keys (ks : List κ)
  | ents (es : List (Ent κ))
  | res (r : Res κ)
  /-- the operation names an object that does not exist (never generated by the harness) -/
  | badRef
  deriving Repr

/-- `n` new entity objects, ids `base, base+1, …` -/
def mkEntsFrom {κ : Type} (base : Nat) (ks : List κ) : List (Ent κ) :=
  ks.zipIdx.map (fun (k, i) => { key := k, id := base + i })

variable {κ : Type} [DecidableEq κ]

/-- the `list` object `set_left` / `set_right` stores for an argument: the argument ITSELF when it is
    a list (`isinstance(left, list)`), else a NEW list (`list(li for li in left)`) -/
def Heap.storeSrc (h : Heap κ) : Src κ → Option (Heap κ × Ref)
  | .ref r => if r < h.lists.length then some (h, r) else none
  | .keysOf t =>
    match h.kts[t]? with
    | some k => some ({ h with lists := h.lists ++ [k.keys] }, h.lists.length)
    | none => none
  | .lit ks => some ({ h with lists := h.lists ++ [ks] }, h.lists.length)

/-- the elements `tuple.__new__` copies out of the argument of `KeyedTuple(...)`, and the number of
    entity objects created for it -/
def Heap.ksrcEnts (h : Heap κ) : KSrc κ → Option (List (Ent κ) × Nat)
  | .lit ks => some (mkEntsFrom h.nextId ks, ks.length)
  | .elist r => (h.elists[r]?).map (fun es => (es, 0))
  | .valuesOf t => (h.kts[t]?).map (fun k => (k.values, 0))
  | .itemsOf t => (h.kts[t]?).map (fun k => (k.itemPairs.map (·.2), 0))
  | .concat t u =>
    match h.kts[t]?, h.kts[u]? with
    | some a, some b => some (a.items ++ b.items, 0)
    | _, _ => none

/-- a caller's mutation of an entity list: the entity created for `append` / `insert0`, if any -/
def entMut (id : Nat) : Mut κ → Mut (Ent κ) × Nat
  | .append k => (.append { key := k, id := id }, 1)
  | .insert0 k => (.insert0 { key := k, id := id }, 1)
  | .pop => (.pop, 0)
  | .reverse => (.reverse, 0)
  | .clear => (.clear, 0)

/-- `list(iter(A))`: `__iter__` dereferences both attributes -/
def Heap.iterate (h : Heap κ) (o : ARObj) : Except String (List (Label × κ)) :=
  match o.left with
  | none => .error "TypeError"              -- enumerate(None)
  | some l =>
    match o.right with
    | none => .error "TypeError"
    | some r =>
      match h.lists[l]?, h.lists[r]? with
      | some lc, some rc => .ok (addRemove lc rc)
      | _, _ => .error "dangling"           -- excluded by `Heap.WF`

/-- one operation of a history: the new heap and what the caller observes -/
def Heap.step (h : Heap κ) : Op κ → Heap κ × Out κ
  | .newList ks => ({ h with lists := h.lists ++ [ks] }, .nothing)
  | .newEList ks =>
    ({ h with elists := h.elists ++ [mkEntsFrom h.nextId ks], nextId := h.nextId + ks.length }, .nothing)
  | .mutList r m =>
    match h.lists[r]? with
    | some c => ({ h with lists := h.lists.set r (applyMut c m) }, .nothing)
    | none => (h, .badRef)
  | .mutEList r m =>
    match h.elists[r]? with
    | some c =>
      ({ h with elists := h.elists.set r (applyMut c (entMut h.nextId m).1),
                nextId := h.nextId + (entMut h.nextId m).2 }, .nothing)
    | none => (h, .badRef)
  | .newKT s =>
    match h.ksrcEnts s with
    | some (es, n) => ({ h with kts := h.kts ++ [KT.new es], nextId := h.nextId + n }, .nothing)
    | none => (h, .badRef)
  | .newAR => ({ h with ars := h.ars ++ [{ left := none, right := none }] }, .nothing)
  | .setLeft a s =>
    match h.ars[a]?, h.storeSrc s with
    | some o, some (h', r) => ({ h' with ars := h'.ars.set a { o with left := some r } }, .nothing)
    | _, _ => (h, .badRef)
  | .setRight a s =>
    match h.ars[a]?, h.storeSrc s with
    | some o, some (h', r) => ({ h' with ars := h'.ars.set a { o with right := some r } }, .nothing)
    | _, _ => (h, .badRef)
  | .keysToList t =>
    match h.kts[t]? with
    | some k => ({ h with lists := h.lists ++ [k.keys] }, .keys k.keys)
    | none => (h, .badRef)
  | .valuesToList t =>
    match h.kts[t]? with
    | some k => ({ h with elists := h.elists ++ [k.values] }, .ents k.values)
    | none => (h, .badRef)
  | .itemsToList t =>
    match h.kts[t]? with
    | some k => ({ h with elists := h.elists ++ [k.itemPairs.map (·.2)] }, .res (.items k.itemPairs))
    | none => (h, .badRef)
  | .iterate a =>
    match h.ars[a]? with
    | some o => (h, .diff (h.iterate o))
    | none => (h, .badRef)
  | .readList r =>
    match h.lists[r]? with
    | some c => (h, .keys c)
    | none => (h, .badRef)
  | .readEList r =>
    match h.elists[r]? with
    | some c => (h, .ents c)
    | none => (h, .badRef)
  | .ask t q =>
    match h.kts[t]? with
    | some k => (h, .res (k.step q).2)
    | none => (h, .badRef)

/-- heap after a history -/
def Heap.final (h : Heap κ) (ops : List (Op κ)) : Heap κ := ops.foldl (fun h op => (h.step op).1) h

/-- observations of a history, one per operation -/
def Heap.trace (h : Heap κ) : List (Op κ) → List (Out κ)
  | [] => []
  | op :: ops => (h.step op).2 :: Heap.trace (h.step op).1 ops

/-! ### specification side -/

/-- no `AddRemove` refers to a list that does not exist -/
def Heap.WF (h : Heap κ) : Prop :=
  ∀ o ∈ h.ars, (∀ r, o.left = some r → r < h.lists.length) ∧ (∀ r, o.right = some r → r < h.lists.length)

/-- every `KeyedTuple` of the heap is what its constructor made of its own elements -/
def Heap.KTInv (h : Heap κ) : Prop := ∀ k ∈ h.kts, k = KT.new k.items

/-- no `AddRemove` attribute refers to the cell `r` -/
def Heap.Unshared (h : Heap κ) (r : Ref) : Prop := ∀ o ∈ h.ars, o.left ≠ some r ∧ o.right ≠ some r

/-- the caller's own mutations of the key list `r` in a history -/
def mutsOf (r : Ref) : List (Op κ) → List (Mut κ)
  | [] => []
  | .mutList r' m :: ops => if r' = r then m :: mutsOf r ops else mutsOf r ops
  | _ :: ops => mutsOf r ops

/-- the current contents of the two sides of an `AddRemove` -/
def Heap.deref (h : Heap κ) (x : Option Ref) : Option (List κ) := x.bind (fun r => h.lists[r]?)

end C20H

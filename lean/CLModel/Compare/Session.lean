/-
C03 — ONE `ContentComparer` (with its `ObserverList` and project observers) handling a SEQUENCE of jobs, the way
`compare_locales.compare.compareProjects` drives it:

  comparer.compare(reffile, l10n, mergepath, extra_tests)     → `Job.compare`
  comparer.add(reffile, l10n, mergepath)                      → `Job.add`      (missing file)
  comparer.remove(reffile, l10n, mergepath)                   → `Job.remove`   (obsolete file)

Transliteration of compare/content.py on top of the Observer model (`ObsM.ObsList.notify` / `updateStats`,
Compare/Observer.lean) — the observers are the STATE that is threaded through the jobs, so that what one job
leaves in `summary[locale]` is seen by the next one.

A compare job comes in the shapes the code distinguishes, in the order it distinguishes them:
  `noParser`        `getParser(ref_file.file)` raises UserWarning → `merge(…, CAN_COPY, …)`, return
  `refReadError m`  `p.readFile(ref_file)` raises (str(e) = m)     → `notify("error", ref_file, m)`, return
  `l10nReadError m` `p.readFile(l10n)` / `p.parse()` raises        → `notify("error", l10n, m)`, return
  `ents j`          both files parsed; the entity lists are inputs (all seven formats; `Cmp.Ent` abstraction of
                    Compare/Content.lean), the checker's results per shared key are inputs
  `text fmt r l`    both files given as decoded TEXT; parser, value semantics, checker (base / PropertiesChecker),
                    positions and merge are the composed models of Compare/Pipeline.lean (ini, inc, po, properties)

The external library functions of the pipeline model (`Pipe.Ext`: expat's verdicts, `html.unescape`) are a PARAMETER
`ext` of the session (`run ext …`): one process, one set of libraries; the theorems hold for every value of it.  The four
formats whose comparison a `text` job carries never consult it (`PipeBridge.parseFile_ext_irrel`); a DTD `text`
comparison stays `unmodelled` as before the pipeline covered DTD (`Pipe.plainFmt`: a job has no `extra_tests`, the wire
format no table of expat verdicts); `add` of a `.dtd` text reads `val` = `ext.unescape raw_val` for its word count.

Every Python operation that can raise is an `Except`; nothing is defaulted.  Core Lean only.
-/
import CLModel.Compare.Pipeline
namespace Sess
open ObsM

abbrev Text := List Nat
abbrev E := Pipe.PyErr

/-- `self.observers.notify(category, file, data)` -/
def tell (l : ObsList) (c : Cat) (f : File) (d : Data) : Except E (ObsList × Ret) :=
  match l.notify c f d with
  | .error e => .error (.observer e)
  | .ok r => .ok r

/-! ### a comparison on entity lists -/

/-- what `compare` works on after `p.parse()` of both files, for a format whose parser is not modelled -/
structure EntJob where
  ref : List Cmp.Ent
  l10n : List Cmp.Ent
  /-- `junk.error_message()` of the localization's junk, by `Cmp.Ent.msg` -/
  msgs : List Text
  /-- per shared key: what `checker.check(refent, l10nent)` yields, as (`tp == "error"`, the text
      `"%s at line %d, column %d for %s" % (msg, line, col, refent.key)`) -/
  checks : List (Cmp.Key × List (Bool × Text))

/-- `entities[entity_id]` on a `KeyedTuple` (a key outside the map falls through to `tuple.__getitem__`: TypeError) -/
def lookup (es : List Cmp.Ent) (k : Cmp.Key) : Except E Cmp.Ent :=
  match AR.keyedIndex (es.map (·.key)) k with
  | none => .error .typeError
  | some i =>
    match es[i]? with
    | some e => .ok e
    | none => .error .indexError

def checksOf (j : EntJob) (k : Cmp.Key) : List (Bool × Text) :=
  match j.checks.find? (fun p => p.1 == k) with
  | some p => p.2
  | none => []

/-- `for tp, pos, msg, cat in checker.check(refent, l10nent): self.observers.notify(tp, l10n, "…")` -/
def checkLoop (file : File) : List (Bool × Text) → ObsList → Except E ObsList
  | [], l => .ok l
  | (isErr, t) :: rest, l =>
    match tell l (if isErr then .error else .warning) file (.str t) with
    | .error e => .error e
    | .ok (l', _) => checkLoop file rest l'

/-- one iteration of `for action, entity_id in ar:` -/
def stepEnt (file : File) (j : EntJob) (st : ObsList × Cmp.Stats) (p : AR.Label × Cmp.Key) :
    Except E (ObsList × Cmp.Stats) :=
  let l := st.1
  let stats := st.2
  let entityId := p.2
  match p.1 with
  | .delete =>
    match lookup j.ref entityId with
    | .error e => .error e
    | .ok refent =>
      if refent.junk then
        match tell l .warning file (.str Gen.Tables.cmpRefJunkMsg) with
        | .error e => .error e
        | .ok (l', _) => .ok (l', stats)
      else
        match tell l .missingEntity file (Pipe.keyData entityId) with
        | .error e => .error e
        | .ok (l', rv) =>
          match rv with
          | .ignore => .ok (l', stats)
          | .error => .ok (l', { stats with missing := stats.missing + 1, missing_w := stats.missing_w + refent.words })
          | .warning => .ok (l', { stats with report := stats.report + 1 })
  | .add =>
    match lookup j.l10n entityId with
    | .error e => .error e
    | .ok l10nent =>
      if l10nent.junk then
        match j.msgs[l10nent.msg]? with
        | none => .error .indexError
        | some msg =>
          match tell l .error file (.str msg) with
          | .error e => .error e
          | .ok (l', _) => .ok (l', stats)
      else
        match tell l .obsoleteEntity file (Pipe.keyData entityId) with
        | .error e => .error e
        | .ok (l', rv) =>
          if rv != .ignore then .ok (l', { stats with obsolete := stats.obsolete + 1 }) else .ok (l', stats)
  | .equal =>
    match lookup j.ref entityId, lookup j.l10n entityId with
    | .error e, _ => .error e
    | .ok _, .error e => .error e
    | .ok refent, .ok l10nent =>
      let stats' : Except E Cmp.Stats :=
        if Cmp.keyMatch entityId then .ok { stats with keys := stats.keys + 1 }
        else if refent.junk then .error .attributeError          -- `refent.equals`: a Junk has no `equals`
        else if refent.cls == l10nent.cls then
          .ok { stats with unchanged := stats.unchanged + 1, unchanged_w := stats.unchanged_w + refent.words }
        else
          .ok { stats with changed := stats.changed + 1, changed_w := stats.changed_w + refent.words }
      match stats' with
      | .error e => .error e
      | .ok stats' =>
        match checkLoop file (checksOf j entityId) l with
        | .error e => .error e
        | .ok l' => .ok (l', stats')

/-- the two `findDuplicates` loops -/
def notifyDups (file : File) (cat : Cat) : List (Cmp.Key × Nat) → ObsList → Except E ObsList
  | [], l => .ok l
  | (k, n) :: rest, l =>
    match tell l cat file (.str (Pipe.dupMsg k n)) with
    | .error e => .error e
    | .ok (l', _) => notifyDups file cat rest l'

/-- `ContentComparer.compare` after both files were parsed, `merge_file is None` -/
def compareEnts (file : File) (j : EntJob) (l0 : ObsList) : Except E ObsList :=
  let rk := j.ref.map (·.key)
  let lk := j.l10n.map (·.key)
  let ar := AR.addRemove rk lk
  match notifyDups file .warning (Hist.findDuplicates rk) l0 with
  | .error e => .error e
  | .ok l1 =>
    match notifyDups file .error (Hist.findDuplicates lk) l1 with
    | .error e => .error e
    | .ok l2 =>
      match Pipe.foldE (stepEnt file j) ar (l2, {}) with
      | .error e => .error e
      | .ok st => .ok (st.1.updateStats file (Pipe.statsList st.2))

/-! ### jobs -/

inductive CmpBody
  | noParser
  | refReadError (msg : Text)
  | l10nReadError (msg : Text)
  | ents (j : EntJob)
  | text (fmt : P.Fmt) (refText l10nText : Array Nat)

/-- `add`: what becomes of `p` and of the file's entities (`caps` = `p.capabilities`) -/
inductive AddBody
  | noParser
  | readError (caps : Nat) (msg : Text)
  | ents (caps : Nat) (ref : List Cmp.Ent)
  | text (fmt : P.Fmt) (refText : Array Nat)

inductive Job
  | compare (ref l10n : File) (mergeOn : Bool) (body : CmpBody)
  | add (orig missing : File) (mergeOn : Bool) (body : AddBody)
  | remove (ref l10n : File) (mergeOn : Bool)

/-- `self.merge(KeyedTuple([]), ref_file, l10n, merge_file, missing, [], None, parser.CAN_COPY, None)` -/
def copyMerge (mergeOn : Bool) (missing : Bool) : Merge.Outcome :=
  Merge.merge mergeOn Gen.Tables.CAN_COPY [] [] (if missing then [[]] else [])

/-- `ContentComparer.compare(ref_file, l10n, merge_file)` -/
def runCompare (ext : Pipe.Ext) (l : ObsList) (ref l10n : File) (mergeOn : Bool) :
    CmpBody → Except E (ObsList × Merge.Outcome)
  | .noParser => .ok (l, copyMerge mergeOn false)
  | .refReadError msg =>
    match tell l .error ref (.str msg) with
    | .error e => .error e
    | .ok (l', _) => .ok (l', .nothing)
  | .l10nReadError msg =>
    match tell l .error l10n (.str msg) with
    | .error e => .error e
    | .ok (l', _) => .ok (l', .nothing)
  | .ents j =>
    -- the staging of a merged file needs the texts: entity-level jobs are comparisons without `merge_file`
    if mergeOn then .error .unmodelled else
    match compareEnts l10n j l with
    | .error e => .error e
    | .ok l' => .ok (l', .nothing)
  | .text fmt refText l10nText =>
    match Pipe.plainFmt fmt with
    | false => .error .unmodelled
    | true =>
      match Pipe.parseFile ext fmt refText 0 with
      | .error e => .error e
      | .ok (r, n1) =>
        match Pipe.parseFile ext fmt l10nText n1 with
        | .error e => .error e
        | .ok (lo, _) =>
          -- the environment `Pipe.compareFiles` builds: `getChecker(l10n)` with `checker.locale = l10n.locale`
          Pipe.compareParsed (Pipe.envOf ext fmt l10n mergeOn r l10nText) r lo l

/-- `caps = p.capabilities if p else parser.CAN_COPY` -/
def AddBody.caps : AddBody → Nat
  | .noParser => Gen.Tables.CAN_COPY
  | .readError caps _ => caps
  | .ents caps _ => caps
  | .text fmt _ => Pipe.capsOf fmt

/-- the two `updateStats` calls at the end of `add` -/
def pushMissing (l : ObsList) (missing : File) (n w : Nat) : ObsList :=
  (l.updateStats missing [(.missing, n)]).updateStats missing [(.missing_w, w)]

/-- `ContentComparer.add(orig, missing, merge_file)` -/
def runAdd (ext : Pipe.Ext) (l : ObsList) (orig missing : File) (mergeOn : Bool) (body : AddBody) :
    Except E (ObsList × Merge.Outcome) :=
  let caps := body.caps
  -- `if caps & (parser.CAN_COPY | parser.CAN_MERGE)`: even if we can merge, pretend we can only copy
  let outcome : Merge.Outcome :=
    if Merge.hasCap caps Gen.Tables.CAN_COPY || Merge.hasCap caps Gen.Tables.CAN_MERGE then copyMerge mergeOn true
    else .nothing
  match tell l .missingFile missing .none with
  | .error e => .error e
  | .ok (l1, rv) =>
    if rv == .ignore then .ok (l1, outcome) else
    match body with
    | .noParser => .ok (l1, outcome)
    | .readError _ msg =>
      match tell l1 .error orig (.str msg) with
      | .error e => .error e
      | .ok (l2, _) => .ok (l2, outcome)
    | .ents _ ref =>
      let entities := ref.filter (fun e => !e.junk)
      let missing_w := entities.foldl (fun w e => w + e.words) 0
      .ok (pushMissing l1 missing entities.length missing_w, outcome)
    | .text fmt refText =>
      match Pipe.parseFile ext fmt refText 0 with
      | .error e => .error e
      | .ok (ents, _) =>
        let entities := ents.filter (fun e => !e.junk)
        -- `e.count_words()`: the field `words` of the pipeline model (= `Cmp.countWords e.val`, `PipeBridge.mkEnt_words`)
        let missing_w := entities.foldl (fun w e => w + e.words) 0
        .ok (pushMissing l1 missing entities.length missing_w, outcome)

/-- `ContentComparer.remove(ref_file, l10n, merge_file)` -/
def runRemove (l : ObsList) (l10n : File) (mergeOn : Bool) : Except E (ObsList × Merge.Outcome) :=
  match tell l .obsoleteFile l10n .none with
  | .error e => .error e
  | .ok (l', _) => .ok (l', copyMerge mergeOn false)

def runJob (ext : Pipe.Ext) (l : ObsList) : Job → Except E (ObsList × Merge.Outcome)
  | .compare ref l10n m body => runCompare ext l ref l10n m body
  | .add orig missing m body => runAdd ext l orig missing m body
  | .remove _ l10n m => runRemove l l10n m

/-- the jobs one after the other on the same comparer: final observers and what happened to each merge file -/
def run (ext : Pipe.Ext) (l : ObsList) : List Job → Except E (ObsList × List Merge.Outcome)
  | [] => .ok (l, [])
  | j :: rest =>
    match runJob ext l j with
    | .error e => .error e
    | .ok (l1, o) =>
      match run ext l1 rest with
      | .error e => .error e
      | .ok (l2, os) => .ok (l2, o :: os)

/-! ### round 5: the PROCESS — several comparers, and everything else that outlives a job

One interpreter runs many `compare` / `add` / `remove` calls, of files of every format, on one or several
`ContentComparer`s.  What a call can see of the calls before it is

* the observers of ITS comparer (`ObsList`, threaded by `run` above), and
* whatever lives on classes and modules: class attributes of `Entry` and of the entity classes of the formats, module
  globals of the parsers, caches.

At the pinned commit the second kind is EMPTY as far as `compare` / `add` / `remove` are concerned: `Entry.re_br`, `Entry.re_sgml`,
`PropertiesEntityMixin.escape` / `known_escapes`, `po.escapes` are constants, `count_words()` / `val` / `equals` are recomputed from
the entity on every call, `AddRemove` is created per comparison.  (`Junk.junkid` only names junk keys; the harness resets it
before every job and the text-level model starts every job at 0 — an input, as before.)  The component is nevertheless an
explicit field of the state, with no content: the transition function takes it in and hands it out untouched, which is
exactly the claim "no process-wide memo" that `C03.job_result_history_free` rests on.  A memo in the code
(`Entry._word_counts[(key, raw_val)]`, a cached `val`, cached `equals` results, an order map kept on the comparer) makes the
real `count_words` / `equals` / `AddRemove` of a LATER job differ from this transition function — a correspondence
disagreement of `c03.proc` and a failing cross-format history of the oracle. -/

/-- process-wide state read or written by the comparison methods besides the comparer's observers: nothing -/
inductive ProcMemo
  | empty
  deriving DecidableEq, Repr, Inhabited

structure Proc where
  memo : ProcMemo := .empty
  /-- the live `ContentComparer`s, each one its `ObserverList` -/
  comparers : List ObsList

/-- a fresh interpreter in which `ContentComparer(quiet)` was created and the project observers `Observer(quiet, filter)`
    appended, once per entry -/
def Proc.fresh (cfgs : List (Nat × List (Option Filter))) : Proc :=
  { comparers := cfgs.map (fun c => ObsList.init c.1 (c.2.map (Obs.init c.1))) }

/-- one call on comparer number `c` (`IndexError` if there is none): the memo goes in and comes out, the method neither
    reads nor writes it; the other comparers are untouched -/
def Proc.step (ext : Pipe.Ext) (p : Proc) (c : Nat) (j : Job) : Except E (Proc × Merge.Outcome) :=
  match p.comparers[c]? with
  | none => .error .indexError
  | some l =>
    match runJob ext l j with
    | .error e => .error e
    | .ok (l', o) => .ok ({ memo := p.memo, comparers := p.comparers.set c l' }, o)

/-- a history of calls in one process, in call order -/
def Proc.run (ext : Pipe.Ext) (p : Proc) : List (Nat × Job) → Except E (Proc × List Merge.Outcome)
  | [] => .ok (p, [])
  | (c, j) :: rest =>
    match Proc.step ext p c j with
    | .error e => .error e
    | .ok (p1, o) =>
      match Proc.run ext p1 rest with
      | .error e => .error e
      | .ok (p2, os) => .ok (p2, o :: os)

/-! ### filters of the project observers, as rule lists (first match wins, "error" otherwise) -/

structure Rule where
  /-- `none` = any file -/
  file : Option File
  /-- `none` = any `entity` argument -/
  data : Option Data
  ret : Ret

def filterOfRules (rules : List Rule) : Filter := fun f d =>
  match rules.find? (fun r => (match r.file with | some g => g == f | none => true) &&
                              (match r.data with | some e => e == d | none => true)) with
  | some r => r.ret
  | none => .error

/-! ### `KeyedTuple.__contains__` / `__getitem__` for everything they can be asked with -/

/-- the argument of `x in entities` / `entities[x]` -/
inductive Probe
  | key (k : Cmp.Key)      -- a `str`, or a `(msgid, msgctxt)` tuple
  | item (i : Nat)         -- the `i`-th entity OBJECT of the tuple itself (`i ≥ len`: an entity object of another tuple)
  | index (i : Int)        -- an `int`
  | unhashable             -- e.g. a `list`
  deriving DecidableEq, Repr

/-- `key in entities`: first the dict `__map` (a `TypeError` for an unhashable key is swallowed), then `tuple.__contains__`
    (membership by value: entities compare by identity, so only an entity object of the tuple itself is found) -/
def keyedContainsProbe (es : List Cmp.Ent) : Probe → Bool
  | .key k => if AR.keyedContains (es.map (·.key)) k then true else false
  | .item i => decide (i < es.length)
  | .index _ => false
  | .unhashable => false

inductive GetRes | item (i : Nat) | typeError | indexError
  deriving DecidableEq, Repr

/-- `entities[key]`: `self.__map[key]` (KeyError / TypeError swallowed), then `tuple.__getitem__` with what is left:
    the index for a known key, else the argument itself — an `int` indexes (negative from the end), anything else is a `TypeError` -/
def keyedGetProbe (es : List Cmp.Ent) : Probe → GetRes
  | .key k =>
    match AR.keyedIndex (es.map (·.key)) k with
    | some i => if i < es.length then .item i else .indexError
    | none => .typeError
  | .index i =>
    let n : Int := es.length
    if 0 ≤ i ∧ i < n then .item i.toNat
    else if -n ≤ i ∧ i < 0 then .item (n + i).toNat
    else .indexError
  | .item _ => .typeError
  | .unhashable => .typeError

end Sess

/-
Model of `compare_locales.compare.utils.AddRemove.__iter__` and of
`compare_locales.keyedtuple.KeyedTuple` (core Lean only).
Python dicts are insertion-ordered association lists; `sorted` is a stable
merge sort on the order pairs.
-/
namespace AR

inductive Label | equal | delete | add
  deriving Repr, DecidableEq, Inhabited

/-- `d[k] = v` on an insertion-ordered dict -/
def dset [BEq α] (d : List (α × β)) (k : α) (v : β) : List (α × β) :=
  if d.any (·.1 == k) then d.map (fun p => if p.1 == k then (k, v) else p) else d ++ [(k, v)]

/-- `d.get(k)` -/
def dget [BEq α] (d : List (α × β)) (k : α) : Option β := (d.find? (·.1 == k)).map (·.2)

/-- lexicographic `<=` on the order pairs `(left index, right index)` -/
def leKey (a b : Int × Int) : Bool := a.1 < b.1 || (a.1 == b.1 && a.2 ≤ b.2)

/-- `order_map = {item: (i, -1) for i, item in enumerate(left)}` -/
def leftMap [BEq α] (left : List α) : List (α × (Int × Int)) :=
  (left.zipIdx).foldl (fun d (x, i) => dset d x ((i : Int), -1)) []

/-- the loop over `enumerate(right)`: state = (order_map, left_offset, right_items) -/
def rightStep [BEq α] (st : List (α × (Int × Int)) × Int × List α) (xi : α × Nat) :
    List (α × (Int × Int)) × Int × List α :=
  let (d, lo, ri) := st
  let (x, i) := xi
  let ri := if ri.contains x then ri else ri ++ [x]
  match dget d x with
  | some v => (d, v.1, ri)
  | none => (dset d x (lo, (i : Int)), lo, ri)

/-- transliteration of `AddRemove.__iter__` -/
def addRemove [BEq α] (left right : List α) : List (Label × α) :=
  let om0 := leftMap left
  let leftItems := om0.map (·.1)
  let (om, _, rightItems) := (right.zipIdx).foldl rightStep (om0, (-1 : Int), [])
  let sorted := om.mergeSort (fun a b => leKey a.2 b.2)
  sorted.map fun (x, _) =>
    if leftItems.contains x && rightItems.contains x then (.equal, x)
    else if leftItems.contains x then (.delete, x) else (.add, x)

/-! ### closed form -/

/-- walk `right`, remembering the last element that is also in `left` -/
def anchors [BEq α] (left : List α) : List α → Option α → List (Option α × α)
  | [], _ => []
  | x :: xs, cur => if left.contains x then anchors left xs (some x) else (cur, x) :: anchors left xs cur

/-- closed form for duplicate-free inputs: left keeps its order; every right-only
    key follows the last key that precedes it in `right` and is also in `left` -/
def spec [BEq α] (left right : List α) : List (Label × α) :=
  let anc := anchors left right none
  let adds (a : Option α) := (anc.filter (fun p => p.1 == a)).map (fun p => (Label.add, p.2))
  adds none ++ left.flatMap (fun l => ((if right.contains l then Label.equal else Label.delete), l) :: adds (some l))

/-! ### KeyedTuple -/

/-- `KeyedTuple.__map`: key -> index of the last item with that key -/
def keyedMap [BEq κ] (keys : List κ) : List (κ × Nat) :=
  (keys.zipIdx).foldl (fun d (k, i) => dset d k i) []

/-- `kt[key]` for a key: index of the entity returned (`none` = KeyError path) -/
def keyedIndex [BEq κ] (keys : List κ) (k : κ) : Option Nat := dget (keyedMap keys) k

def keyedContains [BEq κ] (keys : List κ) (k : κ) : Bool := (dget (keyedMap keys) k).isSome

end AR

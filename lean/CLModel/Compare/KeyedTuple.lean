/-
C20 (round 4) — model of `compare_locales/keyedtuple.py` as an (immutable) object with its private
`__map`, queried by SEQUENCES of operations.  Core Lean only (linked into `cldriver`).

    class KeyedTuple(tuple):
        def __init__(self, iterable):
            self.__map = {}
            if iterable:
                for index, item in enumerate(self):
                    self.__map[item.key] = index
        def __contains__(self, key):
            try:
                contains = key in self.__map
                if contains: return True
            except TypeError: pass
            return super().__contains__(key)
        def __getitem__(self, key):
            try: key = self.__map[key]
            except (KeyError, TypeError): pass
            return super().__getitem__(key)
        def keys(self):   for value in self: yield value.key
        def items(self):  for value in self: yield value.key, value
        def values(self): return self

Python values that can be passed to `[]` / `in` are the inductive `Arg`: a key (str / tuple), an int,
a slice (step None), an entity object, an unhashable object (list).  Keys are never ints, slices or
entities (ASSUMPTION of C20: keys are str or tuple).
-/
import CLModel.Compare.AddRemove
namespace C20K
open AR (dset dget)

/-- an entity: its key and the identity of the object (`id`; equal objects = same key and id) -/
structure Ent (κ : Type) where
  key : κ
  id : Nat
  deriving Repr, DecidableEq

inductive Arg (κ : Type)
  | key (k : κ)
  | int (i : Int)
  | slice (lo hi : Option Int)
  | ent (e : Ent κ)
  | unhashable
  deriving Repr, DecidableEq

/-- results (with the Python TYPE of sequences: a slice / a sum is a plain `tuple`, `values()` is the
    `KeyedTuple` itself) -/
inductive Res (κ : Type)
  | ent (e : Ent κ)
  | tuple (es : List (Ent κ))
  | keyed (es : List (Ent κ))
  | bool (b : Bool)
  | keys (ks : List κ)
  | items (kvs : List (κ × Ent κ))
  | len (n : Nat)
  | err (e : String)
  deriving Repr, DecidableEq

/-- the object: the tuple and `self.__map` -/
structure KT (κ : Type) where
  items : List (Ent κ)
  map : List (κ × Nat)
  deriving Repr

variable {κ : Type} [DecidableEq κ]

/-- `KeyedTuple(iterable)`: `__new__` + `__init__` -/
def KT.new (es : List (Ent κ)) : KT κ :=
  { items := es
    map := if es.isEmpty then [] else (es.zipIdx).foldl (fun d (e, i) => dset d e.key i) [] }

/-! ### `tuple` primitives -/

/-- `tuple.__getitem__(int)`: negative indices count from the end -/
def tupleIndex {β : Type} (xs : List β) (i : Int) : Option β :=
  let j := if i < 0 then i + (xs.length : Int) else i
  if j < 0 then none else xs[j.toNat]?

/-- `PySlice_AdjustIndices` for step 1 -/
def clampIdx (n : Nat) (i : Int) : Nat :=
  if i < 0 then (if i + (n : Int) < 0 then 0 else (i + (n : Int)).toNat)
  else (if i > (n : Int) then n else i.toNat)

/-- `xs[lo:hi]` -/
def pySlice {β : Type} (xs : List β) (lo hi : Option Int) : List β :=
  let n := xs.length
  let s := match lo with | none => 0 | some i => clampIdx n i
  let e := match hi with | none => n | some i => clampIdx n i
  (xs.take e).drop s

/-- `tuple.__getitem__` -/
def tupleGetitem (xs : List (Ent κ)) : Arg κ → Res κ
  | .int i => match tupleIndex xs i with
    | some e => .ent e
    | none => .err "IndexError"
  | .slice lo hi => .tuple (pySlice xs lo hi)
  | _ => .err "TypeError"                  -- tuple indices must be integers or slices

/-- `tuple.__contains__`: `==` against the elements (entities); a key, int, slice or list is never
    equal to an entity -/
def tupleContains (xs : List (Ent κ)) : Arg κ → Bool
  | .ent e => xs.contains e
  | _ => false

/-! ### the methods -/

/-- `self.__map[key]`: `ok index`, or the exception raised -/
def KT.mapGet (t : KT κ) : Arg κ → Except String Nat
  | .key k => match dget t.map k with
    | some i => .ok i
    | none => .error "KeyError"
  | .unhashable => .error "TypeError"
  | _ => .error "KeyError"                 -- hashable, but not a key

/-- `KeyedTuple.__getitem__` -/
def KT.getitem (t : KT κ) (a : Arg κ) : Res κ :=
  let key : Arg κ := match t.mapGet a with
    | .ok i => .int (i : Int)
    | .error _ => a                        -- except (KeyError, TypeError): pass
  tupleGetitem t.items key

/-- `key in self.__map`: `ok b`, or `TypeError` for an unhashable object -/
def KT.mapContains (t : KT κ) : Arg κ → Except String Bool
  | .key k => .ok (dget t.map k).isSome
  | .unhashable => .error "TypeError"
  | _ => .ok false

/-- `KeyedTuple.__contains__` -/
def KT.contains (t : KT κ) (a : Arg κ) : Bool :=
  match t.mapContains a with
  | .ok true => true
  | .ok false => tupleContains t.items a
  | .error _ => tupleContains t.items a    -- except TypeError: pass

/-- `list(kt.keys())` -/
def KT.keys (t : KT κ) : List κ := t.items.map (·.key)

/-- `list(kt.items())` -/
def KT.itemPairs (t : KT κ) : List (κ × Ent κ) := t.items.map (fun v => (v.key, v))

/-- `kt.values()` is `self` -/
def KT.values (t : KT κ) : List (Ent κ) := t.items

/-! ### sequences of queries on ONE instance -/

inductive Q (κ : Type)
  | getitem (a : Arg κ)
  | contains (a : Arg κ)
  | keys | values | items | iter | len
  | concat (other : List (Ent κ))          -- `kt + KeyedTuple(other)`
  deriving Repr, DecidableEq

/-- one query: the (unchanged) object and the answer -/
def KT.step (t : KT κ) : Q κ → KT κ × Res κ
  | .getitem a => (t, t.getitem a)
  | .contains a => (t, .bool (t.contains a))
  | .keys => (t, .keys t.keys)
  | .values => (t, .keyed t.values)
  | .items => (t, .items t.itemPairs)
  | .iter => (t, .tuple t.items)
  | .len => (t, .len t.items.length)
  | .concat o => (t, .tuple (t.items ++ o))

def KT.run (t : KT κ) : List (Q κ) → List (Res κ)
  | [] => []
  | q :: qs => (t.step q).2 :: KT.run (t.step q).1 qs

/-! ### closed form: answers in terms of the entity list alone (no `__map`) -/

/-- the last entity with key `k` -/
def lastWithKey (es : List (Ent κ)) (k : κ) : Option (Ent κ) := es.reverse.find? (fun e => e.key == k)

def specAsk (es : List (Ent κ)) : Q κ → Res κ
  | .getitem (.key k) => match lastWithKey es k with
    | some e => .ent e
    | none => .err "TypeError"
  | .getitem a => tupleGetitem es a
  | .contains (.key k) => .bool (es.any (fun e => e.key == k))
  | .contains a => .bool (tupleContains es a)
  | .keys => .keys (es.map (·.key))
  | .values => .keyed es
  | .items => .items (es.map (fun v => (v.key, v)))
  | .iter => .tuple es
  | .len => .len es.length
  | .concat o => .tuple (es ++ o)

end C20K

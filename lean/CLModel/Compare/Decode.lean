/-
C05 — `Parser.readFile`: bytes → text.

  with open(file, encoding=self.encoding, errors="replace", newline=None) as f:
      self.readUnicode(f.read())

No parser class of compare-locales sets `encoding`: it is "utf-8" for all (`Parser.__init__`), NOT "utf-8-sig", so a
byte order mark EF BB BF is decoded to U+FEFF and stays in the text (`DTDParser.reHeader` skips it).

`utf8Decode` transliterates CPython's UTF-8 decoder (Objects/stringlib/codecs.h `utf8_decode` + the error branch of
`unicode_decode_utf8` in Objects/unicodeobject.c) with the error handler "replace": an invalid start byte is ONE
error of length 1; an invalid continuation byte at offset k ends an error made of the k bytes before it (the lead
byte and the continuation bytes accepted so far, where the second byte is checked against the narrowed ranges of
E0 / ED / F0 / F4) and decoding resumes AT the offending byte; a sequence cut off by the end of the data is one error
up to the end.  Every error becomes one U+FFFD.
`universalNewlines` is the translation of `io.TextIOWrapper(newline=None)`: "\r\n" and a lone "\r" become "\n".
Core Lean only.
-/
import CLModel.Compare.Pipeline
namespace Pipe

def isCont (b : Nat) : Bool := 0x80 ≤ b && b ≤ 0xBF

/-- `bytes.decode("utf-8", "replace")`; bytes are numbers below 256 (larger numbers are treated like F5..FF) -/
def utf8Decode : List Nat → List Nat
  | [] => []
  | b :: rest =>
    if b < 0x80 then b :: utf8Decode rest
    else if b < 0xC2 then 0xFFFD :: utf8Decode rest                      -- invalid start byte (80..C1)
    else if b < 0xE0 then
      match rest with
      | [] => [0xFFFD]                                                   -- unexpected end of data
      | b2 :: r2 =>
        if isCont b2 then ((b - 0xC0) * 64 + (b2 - 0x80)) :: utf8Decode r2
        else 0xFFFD :: utf8Decode (b2 :: r2)                             -- invalid continuation byte
    else if b < 0xF0 then
      match rest with
      | [] => [0xFFFD]
      | b2 :: r2 =>
        -- `!IS_CONTINUATION_BYTE(ch2) || (ch2 < 0xA0 ? ch == 0xE0 : ch == 0xED)`: overlong forms, surrogates
        if !isCont b2 || (if b2 < 0xA0 then b == 0xE0 else b == 0xED) then 0xFFFD :: utf8Decode (b2 :: r2)
        else
          match r2 with
          | [] => [0xFFFD]                                               -- lead + one continuation, then the end
          | b3 :: r3 =>
            if isCont b3 then ((b - 0xE0) * 4096 + (b2 - 0x80) * 64 + (b3 - 0x80)) :: utf8Decode r3
            else 0xFFFD :: utf8Decode (b3 :: r3)                         -- error of length 2
    else if b < 0xF5 then
      match rest with
      | [] => [0xFFFD]
      | b2 :: r2 =>
        -- `!IS_CONTINUATION_BYTE(ch2) || (ch2 < 0x90 ? ch == 0xF0 : ch == 0xF4)`: overlong forms, beyond U+10FFFF
        if !isCont b2 || (if b2 < 0x90 then b == 0xF0 else b == 0xF4) then 0xFFFD :: utf8Decode (b2 :: r2)
        else
          match r2 with
          | [] => [0xFFFD]
          | b3 :: r3 =>
            if !isCont b3 then 0xFFFD :: utf8Decode (b3 :: r3)           -- error of length 2
            else
              match r3 with
              | [] => [0xFFFD]
              | b4 :: r4 =>
                if isCont b4 then
                  ((b - 0xF0) * 262144 + (b2 - 0x80) * 4096 + (b3 - 0x80) * 64 + (b4 - 0x80)) :: utf8Decode r4
                else 0xFFFD :: utf8Decode (b4 :: r4)                     -- error of length 3
    else 0xFFFD :: utf8Decode rest                                       -- invalid start byte (F5..FF)

/-- universal newlines (`newline=None`): "\r\n" → "\n", lone "\r" → "\n" -/
def universalNewlines : List Nat → List Nat
  | [] => []
  | 13 :: 10 :: rest => 10 :: universalNewlines rest
  | 13 :: rest => 10 :: universalNewlines rest
  | c :: rest => c :: universalNewlines rest

/-- `ctx.contents` after `Parser.readFile(file)` for a file with these bytes -/
def decode (bytes : List Nat) : List Nat := universalNewlines (utf8Decode bytes)

/-- `ContentComparer.compare(ref_file, l10n, merge_file)` from the BYTES of the two files -/
def compareBytes (ext : Ext) (fmt : P.Fmt) (file : ObsM.File) (obs0 : ObsM.ObsList) (refBytes l10nBytes : List Nat)
    (mergeOn : Bool) : Except PyErr Report :=
  compareFiles ext fmt file obs0 (decode refBytes).toArray (decode l10nBytes).toArray mergeOn

/-- `L10nLinter.lint_file(path, ref, None)` from the BYTES of the files -/
def lintBytes (ext : Ext) (fmt : P.Fmt) (refBytes : Option (List Nat)) (curBytes : List Nat) :
    Except PyErr (List Lint.Result) :=
  lintText ext fmt (refBytes.map (fun b => (decode b).toArray)) (decode curBytes).toArray

end Pipe

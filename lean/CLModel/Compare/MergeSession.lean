/-
C04, round 5 — ONE `ContentComparer` with a merge stage handling a SEQUENCE of jobs (core Lean only).

`compare_locales.compare.compareProjects` creates one comparer and calls, per file of the project,

  comparer.compare(reffile, l10n, mergepath)      → `Kind.compare`
  comparer.add(reffile, l10n, mergepath)          → `Kind.add`      (missing file)
  comparer.remove(reffile, l10n, mergepath)       → `Kind.remove`   (obsolete file)

The comparer is modelled as a state machine `step : St → Job → Except _ (St × FileOut)` whose state lists EVERY mutable
thing a job can reach:

  `St.obs`    `self.observers` — the only attribute a `ContentComparer` has (`__init__`);
  `St.files`  the files below the merge stage (relative path ↦ bytes): what `shutil.copyfile` / `codecs.open` left;
  `St.dirs`   the directories `create_merge_dir` made (`os.makedirs(dirname(merge_file), exist_ok=True)`).

What is NOT in the state, because the code keeps no such thing: a memory of `parser.getParser` results, of a checker, of
`capabilities`, of `skips` / `missings` (locals of `compare`), of "the merge directory exists".  The parser is looked up
for every job from its NAME through the generated `__constructors` table (`Lint.getParserName`, the model C15/C18/C19 use);
Android's `strings.*\.xml$` is the one pattern that looks at more than the extension.

`obs` carries the notifications whose RETURN VALUE steers the staging (`missingEntity`, `missingFile`) plus `obsoleteFile`
and the `missing` / `report` counters; the rest of the observer traffic of `compare` (junk / check messages, obsolete
entities, the other seven counters) is C03's `Sess` model and cannot reach the stage: `ObserverList.notify` returns a
function of the filters alone (`C10.list_notify_spec`), so the theorems of `Props/C04` (section Round 5) hold for EVERY
observer state.

The entities a job works on (reference entities absent from the localization with their `.all`, skipped junk / entities
with error-level check results) are inputs of a job, as in `MergeB.compareMerge`.

`CSt` / `cstep` model the regression CLASS "the comparer remembers the parser under a key derived from the name"
(e.g. the file extension) — it is not a model of the code; `Props/C04` proves that such a memory is invisible iff the key
determines `capsOfName`, and that the extension does not.
-/
import CLModel.Compare.MergeBytes
import CLModel.Lint.Linter
namespace MergeS
open Merge MergeB ObsM Gen.Tables

abbrev Text := List Nat
abbrev Bytes := List Nat

/-! ### parser selection per NAME -/

/-- `.capabilities` of the shared parser instance of a class of `__constructors` -/
def capsOfClass (cls : Text) : Nat :=
  if cls == ofString "AndroidParser" then cap_android
  else if cls == ofString "DTDParser" then cap_dtd
  else if cls == ofString "PropertiesParser" then cap_properties
  else if cls == ofString "IniParser" then cap_ini
  else if cls == ofString "DefinesParser" then cap_inc
  else if cls == ofString "FluentParser" then cap_ftl
  else if cls == ofString "PoParser" then cap_po
  else CAN_NONE

/-- `parser.getParser(name).capabilities`; `none` = `UserWarning("Cannot find Parser")` -/
def capsOfName (name : Text) : Option Nat := (Lint.getParserName name).map capsOfClass

/-! ### the merge stage -/

/-- the directories that exist below (and including) the stage root once `os.makedirs(dirname(stage/p), exist_ok=True)`
    ran, for a normalised relative path `p`: `a/b/c.xml` ↦ ``, `a`, `a/b` -/
def ancestors (p : Text) : List Text :=
  [] :: (List.range p.length).filterMap (fun i => if p[i]? == some 47 then some (p.take i) else none)

def addDir (ds : List Text) (d : Text) : List Text := if ds.contains d then ds else ds ++ [d]

/-- `open(path, "wb")` / `copyfile(_, path)`: the file has exactly these bytes afterwards -/
def setFile : List (Text × Bytes) → Text → Bytes → List (Text × Bytes)
  | [], p, b => [(p, b)]
  | (q, c) :: rest, p, b => if q == p then (q, b) :: rest else (q, c) :: setFile rest p b

def getFile (fs : List (Text × Bytes)) (p : Text) : Option Bytes := (fs.find? (·.1 == p)).map (·.2)

structure St where
  /-- `self.observers` -/
  obs : ObsList
  /-- files below the merge stage -/
  files : List (Text × Bytes) := []
  /-- directories below the merge stage (`[]` = the stage root) -/
  dirs : List Text := []

/-- `ContentComparer(quiet)` + one `Observer(quiet, filter)` per project, empty stage -/
def St.init (quiet : Nat) (filters : List (Option Filter)) : St :=
  { obs := ObsList.init quiet (filters.map (Obs.init quiet)) }

/-- `self.merge(…, merge_file, missing, skips, ctx, capabilities, encoding)` seen from the stage: `create_merge_dir` runs
    iff a merge path is given and the capabilities are not `CAN_NONE` (before the strategy is looked at); the file is
    (over)written iff the byte-level merge stages bytes.  Returns what is at `merge_file` for this call. -/
def callMerge (s : St) (path : Option Text) (caps : Nat) (l10n ref : Bytes) (skips : List Skip)
    (ms : List Text) : St × FileOut :=
  let out := mergeBytes path.isSome caps l10n ref skips ms
  match path with
  | none => (s, out)
  | some p =>
    if caps == CAN_NONE then (s, out) else
    let s1 : St := { s with dirs := (ancestors p).foldl addDir s.dirs }
    match out with
    | .bytes b => ({ s1 with files := setFile s1.files p b }, out)
    | _ => (s1, out)

/-! ### jobs -/

inductive Kind | compare | add | remove
  deriving DecidableEq, Repr, Inhabited

structure Job where
  kind : Kind
  /-- `ref_file.file` (= `l10n.file`): the relative path `getParser` and the observers see -/
  name : Text
  /-- `merge_file` relative to the merge stage; `none` = `None` -/
  mergePath : Option Text
  /-- bytes of the l10n file (compare, remove) -/
  l10n : Bytes := []
  /-- bytes of the reference file (compare, add) -/
  ref : Bytes := []
  /-- compare: the non-junk reference entities absent from the localization, in `AddRemove` order: key, `.all` -/
  ents : List (Data × Text) := []
  /-- compare: the localization's junk and its entities with error-level check results, in the order `compare` lists them -/
  skips : List Skip := []
  /-- add: number of non-junk entities of the reference file -/
  nref : Nat := 0

def fileOf (j : Job) : File := { file := j.name, module := none, locale := some [120, 120] }

/-- `"trigger copy"` -/
def triggerCopy : Text := ofString "trigger copy"

/-- `caps = p.capabilities if p else parser.CAN_COPY` (`add`) -/
def addCaps (pc : Option Nat) : Nat :=
  match pc with
  | some c => c
  | none => CAN_COPY

/-- `caps & (parser.CAN_COPY | parser.CAN_MERGE)` -/
def addStages (pc : Option Nat) : Bool := hasCap (addCaps pc) CAN_COPY || hasCap (addCaps pc) CAN_MERGE

/-- `add`: `if caps & (CAN_COPY | CAN_MERGE): self.merge(KeyedTuple([]), orig, missing, merge_file, ["trigger copy"], [], None, CAN_COPY, None)` -/
def addMerge (pc : Option Nat) (s : St) (j : Job) : St × FileOut :=
  if addStages pc then callMerge s j.mergePath CAN_COPY [] j.ref [] [triggerCopy] else (s, .noFile)

/-- `compare`: `if merge_file is not None: self.merge(ref_entities, …, missings, skips, l10n_ctx, p.capabilities, p.encoding)` -/
def compareMergeCall (s : St) (j : Job) (caps : Nat) (ms : List Text) : St × FileOut :=
  match j.mergePath with
  | none => (s, .noFile)
  | some _ => callMerge s j.mergePath caps j.l10n j.ref j.skips ms

/-- `compare` after `merge`: `self.observers.updateStats(l10n, stats)` — not reached when `merge` raised -/
def compareFinish (r : St × FileOut) (j : Job) (m rep : Nat) : St × FileOut :=
  match r.2 with
  | .typeError => r
  | _ => ({ r.1 with obs := r.1.obs.updateStats (fileOf j) [(.missing, m), (.report, rep)] }, r.2)

/-- one job, GIVEN what the parser lookup returned (`pc` = `getParser(name).capabilities`, `none` = UserWarning).
    `step` passes `capsOfName j.name`; the regression class `cstep` passes what it remembered. -/
def stepWith (pc : Option Nat) (s : St) (j : Job) : Except TreeM.PyErr (St × FileOut) :=
  match j.kind with
  | .remove => do
    -- self.observers.notify("obsoleteFile", l10n, None); self.merge(KeyedTuple([]), …, [], [], None, CAN_COPY, None)
    let (o1, _) ← s.obs.notify .obsoleteFile (fileOf j) .none
    pure (callMerge { s with obs := o1 } j.mergePath CAN_COPY j.l10n j.ref [] [])
  | .add => do
    -- the staging happens BEFORE the filter is asked about the file
    let r := addMerge pc s j
    let (o1, rv) ← r.1.obs.notify .missingFile (fileOf j) .none
    if rv == .ignore then pure ({ r.1 with obs := o1 }, r.2)
    else match pc with
      | none => pure ({ r.1 with obs := o1 }, r.2)      -- no parser: the missing strings cannot be counted
      | some _ => pure ({ r.1 with obs := o1.updateStats (fileOf j) [(.missing, j.nref)] }, r.2)
  | .compare =>
    match pc with
    | none =>
      -- except UserWarning: self.merge(KeyedTuple([]), ref_file, l10n, merge_file, [], [], None, CAN_COPY, None); return
      pure (callMerge s j.mergePath CAN_COPY j.l10n j.ref [] [])
    | some caps => do
      let (o1, ms, m, r) ← missingLoop s.obs (fileOf j) j.ents
      pure (compareFinish (compareMergeCall { s with obs := o1 } j caps ms) j m r)

/-- one job on the comparer: the parser is looked up from the job's NAME, every time -/
def step (s : St) (j : Job) : Except TreeM.PyErr (St × FileOut) := stepWith (capsOfName j.name) s j

/-- a session: the jobs in order on ONE comparer -/
def run (s : St) : List Job → Except TreeM.PyErr (St × List FileOut)
  | [] => pure (s, [])
  | j :: rest => do
    let (s1, o) ← step s j
    let (s2, os) ← run s1 rest
    pure (s2, o :: os)

/-! ### the stateless per-job function -/

/-- what `Observer(filter=f).notify("missingEntity", file, key)` returns: the filter's answer, "error" without a filter -/
def askFilter (f : Option Filter) (file : File) (key : Data) : Ret :=
  match f with
  | some g => g file key
  | none => .error

/-- the verdict of `ObserverList.notify("missingEntity", file, key)` from the filters (`C04Q.verdict`, restated on core
    definitions so that the model does not import proof files): ignore if every observer ignores, error if one says
    error, else warning -/
def verdictOf (filters : List (Option Filter)) (file : File) (key : Data) : Ret :=
  let rvs := filters.map (fun f => askFilter f file key)
  if rvs.all (· == .ignore) then .ignore else if rvs.contains .error then .error else .warning

/-- the reference texts `compare` hands to `merge` as `missing`: those with verdict `error` -/
def mergedEnts (filters : List (Option Filter)) (file : File) (ents : List (Data × Text)) : List Text :=
  (ents.filter (fun e => verdictOf filters file e.1 == .error)).map (·.2)

/-- what ONE job stages, given the parser lookup result `pc`, the job and the project filters — no comparer state -/
def jobOutWith (pc : Option Nat) (filters : List (Option Filter)) (j : Job) : FileOut :=
  match j.kind with
  | .remove => mergeBytes j.mergePath.isSome CAN_COPY j.l10n j.ref [] []
  | .add =>
    if addStages pc
    then mergeBytes j.mergePath.isSome CAN_COPY [] j.ref [] [triggerCopy]
    else .noFile
  | .compare =>
    match pc with
    | none => mergeBytes j.mergePath.isSome CAN_COPY j.l10n j.ref [] []
    | some caps =>
      match j.mergePath with
      | none => .noFile
      | some _ => mergeBytes true caps j.l10n j.ref j.skips (mergedEnts filters (fileOf j) j.ents)

/-- what ONE job stages: a function of the job (its NAME selects the parser) and the project filters -/
def jobOut (filters : List (Option Filter)) (j : Job) : FileOut := jobOutWith (capsOfName j.name) filters j

/-- what a list of (merge path, staged outcome) leaves below the stage: every `bytes` outcome (over)writes its path -/
def stageOf : List (Text × Bytes) → List (Option Text × FileOut) → List (Text × Bytes)
  | fs, [] => fs
  | fs, (some p, .bytes b) :: rest => stageOf (setFile fs p b) rest
  | fs, _ :: rest => stageOf fs rest

/-! ### the regression class: a comparer that REMEMBERS the parser under a key of the name -/

/-- `os.path.splitext(name)[1]`: from the last dot of the last path segment, unless that segment has only leading dots
    before it -/
def extOf (name : Text) : Text :=
  let base := (name.reverse.takeWhile (· != 47)).reverse
  let stem := base.dropWhile (· == 46)                 -- leading dots do not start an extension
  if stem.contains 46 then 46 :: (stem.reverse.takeWhile (· != 46)).reverse else []

structure CSt (K : Type) where
  st : St
  /-- `self._parsers`: key ↦ what `getParser` said for the FIRST name with that key -/
  cache : List (K × Option Nat) := []

/-- `get_parser(path)`: look the key up, ask `getParser` only on a miss -/
def lookupCaps {K : Type} [BEq K] (key : Text → K) (cache : List (K × Option Nat)) (name : Text) :
    List (K × Option Nat) × Option Nat :=
  match cache.find? (·.1 == key name) with
  | some e => (cache, e.2)
  | none => (cache ++ [(key name, capsOfName name)], capsOfName name)

def cstep {K : Type} [BEq K] (key : Text → K) (cs : CSt K) (j : Job) : Except TreeM.PyErr (CSt K × FileOut) :=
  match j.kind with
  | .remove => do
    let (s, o) ← stepWith none cs.st j                 -- `remove` does not look a parser up
    pure ({ cs with st := s }, o)
  | _ => do
    let look := lookupCaps key cs.cache j.name
    let (s, o) ← stepWith look.2 cs.st j
    pure ({ st := s, cache := look.1 }, o)

def crun {K : Type} [BEq K] (key : Text → K) (cs : CSt K) : List Job → Except TreeM.PyErr (CSt K × List FileOut)
  | [] => pure (cs, [])
  | j :: rest => do
    let (c1, o) ← cstep key cs j
    let (c2, os) ← crun key c1 rest
    pure (c2, o :: os)

/-- what the jobs of a session stage on a comparer with such a memory: the stateless per-job function, fed with what
    the memory answers (`C04.cached_session_spec`) -/
def cachedOuts {K : Type} [BEq K] (key : Text → K) (filters : List (Option Filter)) :
    List (K × Option Nat) → List Job → List FileOut
  | _, [] => []
  | cache, j :: rest =>
    match j.kind with
    | .remove => jobOutWith none filters j :: cachedOuts key filters cache rest
    | _ => jobOutWith (lookupCaps key cache j.name).2 filters j :: cachedOuts key filters (lookupCaps key cache j.name).1 rest

end MergeS

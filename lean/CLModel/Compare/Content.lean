/-
Model of `compare_locales.compare.content.ContentComparer.compare` (the loop over the key diff),
`ContentComparer.add` (missing file), the part of `Observer.notify` / `ObserverList.notify` it
relies on, `Parser.findDuplicates` and `Entry.count_words`.  Core Lean only.

An entity is abstracted to what the loop looks at:
  key    `str` (all formats but gettext) or the `(msgid, msgctxt)` tuple of `PoEntity.key`
  junk   `isinstance(e, parser.Junk)`
  words  `e.count_words()`            (concrete model for `Entry.count_words`: `countWords`)
  cls    equality class of the entity under `Entity.equals` (`a.equals(b)` iff same `cls`)
  msg    id of `junk.error_message()` (only read for junk)
Checkers are not part of this model (they never change the nine counters).
-/
import CLModel.Rx.Basic
import CLModel.Gen.Regexes
import CLModel.Compare.AddRemove
namespace Cmp

/-- an entity key: a Python `str`, or the tuple `(msgid, msgctxt)` used by gettext -/
inductive Key where
  | str (t : List Nat)
  | tup (msgid : List Nat) (msgctxt : Option (List Nat))
  deriving DecidableEq, Repr, Inhabited

def Key.isStr : Key → Bool
  | .str _ => true
  | .tup _ _ => false

structure Ent where
  key : Key
  junk : Bool
  words : Nat
  cls : Nat
  msg : Nat
  deriving DecidableEq, Repr, Inhabited

/-- return value of a filter / of `Observer.notify` -/
inductive Verdict | error | warning | ignore
  deriving DecidableEq, Repr, Inhabited

inductive PyErr | keyError | indexError
  deriving DecidableEq, Repr, Inhabited

/-- texts of the error / warning notifications raised by the loop itself -/
inductive Msg where
  | refJunk                       -- "Parser error in en-US"
  | junk (msg : Nat)              -- junk.error_message()
  | dup (k : Key) (n : Nat)       -- f"{entity_id} occurs {cnt} times"
  deriving DecidableEq, Repr, Inhabited

/-- one entry of `Observer.details[file]` -/
inductive Note where
  | warning (m : Msg)
  | error (m : Msg)
  | missingEntity (k : Key)
  | obsoleteEntity (k : Key)
  | missingFile (v : Verdict)
  deriving DecidableEq, Repr, Inhabited

/-- the `stats` dict of `compare` -/
structure Stats where
  missing : Nat := 0
  missing_w : Nat := 0
  report : Nat := 0
  obsolete : Nat := 0
  changed : Nat := 0
  changed_w : Nat := 0
  unchanged : Nat := 0
  unchanged_w : Nat := 0
  keys : Nat := 0
  deriving DecidableEq, Repr, Inhabited

/-- local variables of the loop plus what the observer recorded so far -/
structure St where
  stats : Stats
  notes : List Note
  deriving DecidableEq, Repr, Inhabited

/-- what a run leaves behind: the `updateStats` calls (each a dict: field name ↦ value) and the details list -/
structure Report where
  updates : List (List (String × Nat))
  notes : List Note
  deriving DecidableEq, Repr, Inhabited

def Stats.toDict (s : Stats) : List (String × Nat) :=
  [("missing", s.missing), ("missing_w", s.missing_w), ("report", s.report), ("obsolete", s.obsolete),
   ("changed", s.changed), ("changed_w", s.changed_w), ("unchanged", s.unchanged),
   ("unchanged_w", s.unchanged_w), ("keys", s.keys)]

/-- `isinstance(entity_id, str) and self.keyRE.search(entity_id)`: gettext keys are tuples and
    never count as key bindings -/
def keyMatch : Key → Bool
  | .str t => (Rx.search t.toArray Gen.Pat.ContentComparer_keyRE 0).isSome
  | .tup _ _ => false

/-- `entities[entity_id]` on a `KeyedTuple` -/
def lookup (es : List Ent) (k : Key) : Except PyErr Ent :=
  match AR.keyedIndex (es.map (·.key)) k with
  | none => .error .keyError
  | some i =>
    match es[i]? with
    | some e => .ok e
    | none => .error .indexError

/-- `Parser.findDuplicates`: `Counter` keeps first-occurrence order -/
def findDuplicates (es : List Ent) : List Msg :=
  let counter : List (Key × Nat) := es.foldl (fun d e =>
    match AR.dget d e.key with
    | some n => AR.dset d e.key (n + 1)
    | none => AR.dset d e.key 1) []
  (counter.filter (fun p => p.2 > 1)).map (fun p => Msg.dup p.1 p.2)

/-- `observers.notify("missingEntity" | "obsoleteEntity", l10n, key)` with one observer whose
    filter answers `verdict key`: recorded unless ignored, the verdict is returned -/
def notifyEntity (verdict : Key → Verdict) (mk : Key → Note) (st : St) (k : Key) : St × Verdict :=
  match verdict k with
  | .ignore => (st, .ignore)
  | rv => ({ st with notes := st.notes ++ [mk k] }, rv)

/-- `observers.notify("error" | "warning", l10n, text)` (no filter on message texts) -/
def notifyMsg (st : St) (n : Note) : St := { st with notes := st.notes ++ [n] }

/-- one iteration of `for action, entity_id in ar:` -/
def step (ref l10n : List Ent) (verdict : Key → Verdict) (st : St) (p : AR.Label × Key) : Except PyErr St :=
  let (action, entityId) := p
  match action with
  | .delete => do
    let refent ← lookup ref entityId
    if refent.junk then
      pure (notifyMsg st (.warning .refJunk))
    else
      let (st, rv) := notifyEntity verdict .missingEntity st entityId
      match rv with
      | .ignore => pure st
      | .error =>
        pure { st with stats := { st.stats with missing := st.stats.missing + 1,
                                                 missing_w := st.stats.missing_w + refent.words } }
      | .warning =>
        pure { st with stats := { st.stats with report := st.stats.report + 1 } }
  | .add => do
    let l10nent ← lookup l10n entityId
    if l10nent.junk then
      pure (notifyMsg st (.error (.junk l10nent.msg)))
    else
      let (st, rv) := notifyEntity verdict .obsoleteEntity st entityId
      if rv != .ignore then
        pure { st with stats := { st.stats with obsolete := st.stats.obsolete + 1 } }
      else pure st
  | .equal => do
    let refent ← lookup ref entityId
    let l10nent ← lookup l10n entityId
    if keyMatch entityId then
      pure { st with stats := { st.stats with keys := st.stats.keys + 1 } }
    else if refent.cls == l10nent.cls then
      pure { st with stats := { st.stats with unchanged := st.stats.unchanged + 1,
                                               unchanged_w := st.stats.unchanged_w + refent.words } }
    else
      pure { st with stats := { st.stats with changed := st.stats.changed + 1,
                                               changed_w := st.stats.changed_w + refent.words } }

/-- `ContentComparer.compare` after both files were parsed (no merge, no checker) -/
def compareEntities (ref l10n : List Ent) (verdict : Key → Verdict) : Except PyErr Report := do
  let ar := AR.addRemove (ref.map (·.key)) (l10n.map (·.key))
  let st0 : St := { stats := {}, notes := [] }
  let st0 := (findDuplicates ref).foldl (fun st m => notifyMsg st (.warning m)) st0
  let st0 := (findDuplicates l10n).foldl (fun st m => notifyMsg st (.error m)) st0
  let st ← ar.foldlM (step ref l10n verdict) st0
  pure { updates := [st.stats.toDict], notes := st.notes }

/-- `ContentComparer.add` for a parsable file (no merge): `missingFile` notification, then the two
    `updateStats` calls; nothing is counted when the file is filtered out -/
def addMissing (ref : List Ent) (fileVerdict : Verdict) : Report :=
  match fileVerdict with
  | .ignore => { updates := [], notes := [] }
  | rv =>
    let entities := ref.filter (fun e => !e.junk)
    let missing_w := entities.foldl (fun w e => w + e.words) 0
    { updates := [[("missing", entities.length)], [("missing_w", missing_w)]],
      notes := [.missingFile rv] }

/-! ### `Entry.count_words` -/

/-- `len(value.split())`: number of maximal runs of non-whitespace code points -/
def splitCount (v : List Nat) : Nat :=
  (v.foldl (fun (p : Nat × Bool) c =>
    if Rx.isSpace c then (p.1, false) else if p.2 then p else (p.1 + 1, true)) (0, false)).1

/-- `Entry.count_words` on the (unescaped) value -/
def countWords (val : List Nat) : Nat :=
  let value := Rx.subWith val.toArray Gen.Pat.Entry_re_br (fun _ _ => [10])
  let value := Rx.subWith value.toArray Gen.Pat.Entry_re_sgml (fun _ _ => [])
  splitCount value

end Cmp

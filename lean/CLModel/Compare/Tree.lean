/-
Model of `compare_locales.compare.utils.Tree` (core Lean only).

A `Tree(list)` is a path-compressed (radix) tree: `branches` is an insertion-ordered dict from
tuples of path segments to sub-trees, `value` is `None` or a list.  `__getitem__` splits the
leaf into segments and calls `__get`, which restructures the tree (splitting a key at the common
prefix, `pop` + re-insert at the end of the dict) and returns the value list of the addressed
node, creating it if needed; the caller appends to that list.

Python dicts are modelled as association lists in insertion order; text is `List Nat`.
-/
namespace TreeM

abbrev Text := List Nat
/-- one path segment -/
abbrev Part := Text
/-- a key of `branches`: a tuple of segments -/
abbrev Key := List Part

inductive PyErr
  | unboundLocal   -- `i` read before assignment in `Tree.__get`
  | assertion      -- `assert len(rvs) == 1` in `ObserverList.notify`
  | typeError      -- `sorted` over `None` and `str` locales in `serializeSummaries`
  | indexError     -- `summaries[-1]` on an empty list in `serializeSummaries`
  | unmodelled     -- a `File` with a module but `locale=None` (a `None` path segment)
  deriving Repr, DecidableEq, Inhabited

def PyErr.name : PyErr → String
  | .unboundLocal => "UnboundLocalError"
  | .assertion => "AssertionError"
  | .typeError => "TypeError"
  | .indexError => "IndexError"
  | .unmodelled => "Unmodelled"

inductive Tree (V : Type) where
  | node (branches : List (Key × Tree V)) (value : Option (List V))
  deriving Inhabited

namespace Tree
def branches : Tree V → List (Key × Tree V) | .node b _ => b
def value : Tree V → Option (List V) | .node _ v => v
/-- `Tree(list)` -/
def empty : Tree V := .node [] none
end Tree

/-! ### dict primitives (insertion-ordered association lists) -/

/-- `d[k] = v`: replace in place if the key exists, otherwise append -/
def dset [BEq κ] (d : List (κ × β)) (k : κ) (v : β) : List (κ × β) :=
  if d.any (·.1 == k) then d.map (fun p => if p.1 == k then (k, v) else p) else d ++ [(k, v)]

/-- `d.pop(k)` for a key that is present (the value is already at hand) -/
def dpop [BEq κ] (d : List (κ × β)) (k : κ) : List (κ × β) := d.eraseP (·.1 == k)

/-- `d.get(k)` -/
def dget [BEq κ] (d : List (κ × β)) (k : κ) : Option β := (d.find? (·.1 == k)).map (·.2)

/-! ### `Tree.__get` -/

/-- The inner loop `for i, part in enumerate(zip(k, parts)): if part[0] != part[1]: i -= 1; break`
    followed by `i += 1`, when `zip(k, parts)` is not empty: the number of leading positions at
    which `k` and `parts` agree. -/
def lcp : List Part → List Part → Nat
  | a :: as, b :: bs => if a != b then 0 else lcp as bs + 1
  | _, _ => 0

/-- The outer loop `for k, v in self.branches.items()`.  `first` says that Python's local `i` is
    still unbound: if `zip(k, parts)` is empty on the first iteration, `if i < 0` raises
    `UnboundLocalError`; on later iterations `i` still holds `-1` from the previous `continue`.
    Returns the first branch sharing a non-empty prefix with `parts`, with the length of that prefix. -/
def findBranch (parts : List Part) : List (Key × Tree V) → Bool → Except PyErr (Option (Key × Tree V × Nat))
  | [], _ => .ok none
  | (k, v) :: rest, first =>
    if (k.isEmpty || parts.isEmpty) && first then .error .unboundLocal
    else
      let i := lcp k parts
      if i == 0 then findBranch parts rest false else .ok (some (k, v, i))

/-- `if t.value is None: t.value = t.valuetype()` and then the caller's mutation `f` of the returned list -/
def touch (t : Tree V) (f : List V → List V) : Tree V :=
  match t with
  | .node br none => .node br (some (f []))
  | .node br (some l) => .node br (some (f l))

theorem findBranch_found {parts : List Part} {br : List (Key × Tree V)} {b : Bool} {k v i}
    (h : findBranch parts br b = .ok (some (k, v, i))) : 0 < i ∧ 0 < parts.length := by
  induction br generalizing b with
  | nil => simp [findBranch] at h
  | cons p rest ih =>
    obtain ⟨k', v'⟩ := p
    simp only [findBranch] at h
    split at h
    · cases h
    · split at h
      · exact ih h
      · rename_i h0
        injection h with h; injection h with h
        have hi : lcp k' parts = i := by injection h with _ h; injection h
        have : lcp k' parts ≠ 0 := by simpa using h0
        refine ⟨by omega, ?_⟩
        cases parts with
        | nil => cases k' <;> simp [lcp] at this
        | cons _ _ => simp

set_option linter.unusedVariables false in
/-- `Tree.__get(parts)` followed by the caller's mutation `f` of the returned list
    (`self.details[file].append(x)` is `getMod details parts (· ++ [x])`; a bare `tree[leaf]` is `f = id`).
    The tree is rebuilt functionally; the position of every entry in the dicts is as in Python. -/
def getMod (t : Tree V) (parts : List Part) (f : List V → List V) : Except PyErr (Tree V) :=
  match t with
  | .node br val =>
    match h : findBranch parts br true with
    | .error e => .error e
    | .ok none =>
      -- common = old = None, new = tuple(parts), t = self
      if !parts.isEmpty then
        -- t2 = self; t = Tree(); t2.branches[new] = t
        .ok (.node (dset br parts (touch Tree.empty f)) val)
      else .ok (touch (.node br val) f)
    | .ok (some (k, v, i)) =>
      let common := k.take i
      let old := k.drop i
      let new := parts.drop i
      if !old.isEmpty then
        -- self.branches.pop(k); t = Tree(); t.branches[old] = v; self.branches[common] = t
        let br' := dpop br k
        let t : Tree V := .node [(old, v)] none
        if !new.isEmpty then do
          let t' ← getMod t new f
          pure (.node (dset br' common t') val)
        else pure (.node (dset br' common (touch t f)) val)
      else
        -- t = self.branches[common]   (common == k)
        if !new.isEmpty then do
          let t' ← getMod v new f
          pure (.node (dset br common t') val)
        else pure (.node (dset br common (touch v f)) val)
termination_by parts.length
decreasing_by
  all_goals
    have := findBranch_found h
    simp only [List.length_drop]
    omega

/-- `"/".split` of a text: never empty -/
def splitSlash (s : Text) : List Part :=
  let (cur, acc) := s.foldl (fun (p : List Nat × List Part) c =>
    if c == 47 then ([], p.1.reverse :: p.2) else (c :: p.1, p.2)) ([], [])
  (cur.reverse :: acc).reverse

/-- `"/".join(key)` -/
def joinSlash : List Part → Text
  | [] => []
  | [p] => p
  | p :: ps => p ++ 47 :: joinSlash ps

/-! ### `toJSON`, `getContent` -/

inductive J (V : Type) where
  | list (v : List V)
  | dict (es : List (Text × J V))
  deriving Inhabited

mutual
/-- `Tree.toJSON`: a node with a value shows only the value -/
def toJSON : Tree V → J V
  | .node _ (some v) => .list v
  | .node br none => .dict (toJSONBr br [])
/-- the dict comprehension `{"/".join(key): self.branches[key].toJSON() for key in self.branches.keys()}` -/
def toJSONBr : List (Key × Tree V) → List (Text × J V) → List (Text × J V)
  | [], acc => acc
  | (k, v) :: rest, acc => toJSONBr rest (dset acc (joinSlash k) (toJSON v))
end

/-- Python `<=` on `str` (code point order) -/
def textLe : Text → Text → Bool
  | [], _ => true
  | _ :: _, [] => false
  | a :: as, b :: bs => a < b || (a == b && textLe as bs)

/-- Python `<=` on tuples of `str` -/
def keyLe : Key → Key → Bool
  | [], _ => true
  | _ :: _, [] => false
  | a :: as, b :: bs => if a == b then keyLe as bs else textLe a b

def insertByKey (x : Key × β) : List (Key × β) → List (Key × β)
  | [] => [x]
  | y :: ys => if keyLe x.1 y.1 then x :: y :: ys else y :: insertByKey x ys

/-- `sorted(d.keys())` carried out on the items (keys of a dict are distinct) -/
def sortByKey (l : List (Key × β)) : List (Key × β) := l.foldr insertByKey []

/-- the tuples yielded by `Tree.getContent` -/
inductive Content (V : Type) where
  | key (depth : Nat) (k : Key)
  | value (depth : Nat) (v : List V)

mutual
/-- `Tree.getContent(depth)` -/
def getContent : Tree V → Nat → List (Content V)
  | .node br val, depth =>
    (match val with | some v => [Content.value depth v] | none => []) ++
      (sortByKey (getContentBr br (depth + 1))).flatMap (fun kc => Content.key depth kc.1 :: kc.2)
/-- content of every branch, before sorting by key -/
def getContentBr : List (Key × Tree V) → Nat → List (Key × List (Content V))
  | [], _ => []
  | (k, v) :: rest, depth => (k, getContent v depth) :: getContentBr rest depth
end

/-! ### the abstract view: which value list sits at which path -/

mutual
/-- every `(path, value)` of the tree in dict order, the path being the concatenation of the keys
    from the root (interior values included) -/
def flatten : Tree V → List (List Part × List V)
  | .node br val =>
    (match val with | some v => [([], v)] | none => []) ++ flattenBr br
def flattenBr : List (Key × Tree V) → List (List Part × List V)
  | [] => []
  | (k, v) :: rest => (flatten v).map (fun pv => (k ++ pv.1, pv.2)) ++ flattenBr rest
end

mutual
/-- semantic lookup: the value list stored for the path `p` (descend into the branch whose key starts
    with the same segment as `p`; `mem_flatten_iff_find` ties it to `flatten`) -/
def find : Tree V → List Part → Option (List V)
  | .node br val, p => if p.isEmpty then val else findBr br p
def findBr : List (Key × Tree V) → List Part → Option (List V)
  | [], _ => none
  | (k, v) :: rest, p =>
    if k.head? == p.head? then (if k.isPrefixOf p then find v (p.drop k.length) else none) else findBr rest p
end

/-- what `toJSON` shows: `(dict keys from the root, value)` for every list in the JSON -/
def J.leaves : J V → List (List Text × List V)
  | .list v => [([], v)]
  | .dict es => leavesL es
where
  leavesL : List (Text × J V) → List (List Text × List V)
    | [] => []
    | (k, j) :: rest => (J.leaves j).map (fun kv => (k :: kv.1, kv.2)) ++ leavesL rest

/-! ### the invariant -/

/-- first segment of a key (`none` for the empty key) -/
def headOf (k : Key) : Option Part := k.head?

mutual
/-- sibling keys are non-empty and start with pairwise different segments, everywhere in the tree -/
def Inv : Tree V → Prop
  | .node br _ => (br.map (fun kv => headOf kv.1)).Nodup ∧ InvBr br
def InvBr : List (Key × Tree V) → Prop
  | [] => True
  | (k, v) :: rest => k ≠ [] ∧ Inv v ∧ InvBr rest
end

mutual
/-- no path segment anywhere in the tree contains `/` -/
def NoSlash : Tree V → Prop
  | .node br _ => NoSlashBr br
def NoSlashBr : List (Key × Tree V) → Prop
  | [] => True
  | (k, v) :: rest => (∀ p ∈ k, 47 ∉ p) ∧ NoSlash v ∧ NoSlashBr rest
end

end TreeM

/-
C05 — the end-to-end pipeline as ONE `Except`-valued function, composed from the component models.

  compare_locales/compare/content.py   ContentComparer.compare        → `compareFiles` / `compareTexts`
  compare_locales/lint/linter.py       L10nLinter.lint_file           → `lintText`

Composition (every box is an existing model; nothing is re-modelled here except the glue):

  decoded text ──P.walk (Parser/Formats, C01)──► entries ──Hist.assign (History/State, C18: Junk.junkid)──►
  localizable entries ──P.entView (Parser/Values, C02: key / raw_val / val)──► `PEnt`
  keys ──AR.addRemove, AR.keyedIndex (Compare/AddRemove, C20)──► the loop `for action, entity_id in ar`
  `Hist.findDuplicates` (Counter) · `Cmp.keyMatch`, `Cmp.countWords`, `Cmp.Stats` (Compare/Content, C03)
  checker: `Checks.baseCheck` (Checks/Base, C05) or `PropCk.check` (Checks/Properties, C06)
  positions: `Pos.resolveCheckPos`, `Pos.junkMessagePositions` (Parser/Position, C17)
  notifications: `ObsM.ObsList.notify` / `updateStats`, `TreeM.toJSON` (Compare/Observer, Tree, C10)
  merge staging: `Merge.merge` (Compare/Merge, C04)
  lint: `Lint.lintFile` (Lint/Linter, C19)

Covered formats: ini, inc, po (base `Checker`) and properties (`PropertiesChecker`).  DTD is not covered
(expat is external), Fluent and Android have no regex parser.  Decoding is outside: texts are code points, as
`Parser.readFile` leaves them in `ctx.contents` (errors="replace", universal newlines).

Every Python operation that can raise is an `Except` here; nothing is defaulted.  `.error` = the call raises (the
partially filled observers are then of no interest).  Attribute values that Python computes lazily (`Entity.val`)
are computed when the entity is built: a raise there would surface earlier in the model than in Python, never later.
Core Lean only.
-/
import CLModel.Parser.Values
import CLModel.Parser.Position
import CLModel.History.State
import CLModel.Compare.Content
import CLModel.Compare.Merge
import CLModel.Compare.Observer
import CLModel.Checks.Base
import CLModel.Checks.Properties
import CLModel.Lint.Linter
namespace Pipe

abbrev Text := List Nat

/-- the exceptions the composed code can raise (by class), `hang` = the parser's `while` loop does not end -/
inductive PyErr
  | hang
  | keyError
  | indexError
  | typeError
  | attributeError
  | assertionError
  | valueError
  | observer (e : TreeM.PyErr)
  | lint (name : String)
  | unmodelled
  deriving Repr, DecidableEq, Inhabited

def PyErr.name : PyErr → String
  | .hang => "Hang"
  | .keyError => "KeyError"
  | .indexError => "IndexError"
  | .typeError => "TypeError"
  | .attributeError => "AttributeError"
  | .assertionError => "AssertionError"
  | .valueError => "ValueError"
  | .observer e => e.name
  | .lint n => n
  | .unmodelled => "Unmodelled"

def liftOpt {α : Type} (e : PyErr) : Option α → Except PyErr α
  | some a => .ok a
  | none => .error e

/-- a loop whose body may raise -/
def mapE {α β : Type} (f : α → Except PyErr β) : List α → Except PyErr (List β)
  | [] => .ok []
  | x :: xs =>
    match f x with
    | .error e => .error e
    | .ok y =>
      match mapE f xs with
      | .error e => .error e
      | .ok ys => .ok (y :: ys)

/-- `for x in xs: st = body(st, x)` with a body that may raise -/
def foldE {α σ : Type} (f : σ → α → Except PyErr σ) : List α → σ → Except PyErr σ
  | [], st => .ok st
  | x :: xs, st =>
    match f st x with
    | .error e => .error e
    | .ok st' => foldE f xs st'

/-! ### `repr` of a gettext key (CPython `unicode_repr` / `tuplerepr`)

`PoEntity.key` is the tuple `(msgid, msgctxt)`; `"%s" % key`, `f"{key}"` print `repr` of its members. -/

def isPrintable (c : Nat) : Bool := Rx.inRanges Gen.Tables.printableRanges c

def hexDigit (n : Nat) : Nat := if n < 10 then 48 + n else 87 + n

/-- `width` lowercase hex digits of `n` -/
def hexPad : Nat → Nat → Text
  | 0, _ => []
  | w + 1, n => hexPad w (n / 16) ++ [hexDigit (n % 16)]

/-- one character of `repr(str)` with the chosen quote -/
def reprChar (quote : Nat) (c : Nat) : Text :=
  if c == quote || c == 92 then [92, c]
  else if c == 9 then [92, 116]
  else if c == 10 then [92, 110]
  else if c == 13 then [92, 114]
  else if c < 32 || c == 127 then [92, 120] ++ hexPad 2 c
  else if c < 127 then [c]
  else if isPrintable c then [c]
  else if c < 256 then [92, 120] ++ hexPad 2 c
  else if c < 65536 then [92, 117] ++ hexPad 4 c
  else [92, 85] ++ hexPad 8 c

/-- `repr(s)`: single quotes unless the text has a single and no double quote -/
def pyReprStr (t : Text) : Text :=
  let quote := if t.contains 39 && !t.contains 34 then 34 else 39
  [quote] ++ t.flatMap (reprChar quote) ++ [quote]

def sNone : Text := [78, 111, 110, 101]

/-- `repr((msgid, msgctxt))` -/
def pyReprTuple (msgid : Text) (ctxt : Option Text) : Text :=
  [40] ++ pyReprStr msgid ++ [44, 32] ++ (match ctxt with | some c => pyReprStr c | none => sNone) ++ [41]

/-- `str(key)` / `"%s" % (key,)` / `f"{key}"` -/
def keyText : Cmp.Key → Text
  | .str t => t
  | .tup id ctx => pyReprTuple id ctx

/-- the key as `data` of a notification -/
def keyData : Cmp.Key → ObsM.Data
  | .str t => .str t
  | .tup id ctx => .tuple [some id, ctx]

/-! ### parse: `p.readFile(f); p.parse()` -/

/-- a localizable entry (Entity or Junk) with the attribute values the pipeline reads -/
structure PEnt where
  entry : P.Entry
  /-- `isinstance(e, parser.Junk)` -/
  junk : Bool
  key : Cmp.Key
  /-- `.val` (unescaped; PO: msgstr or msgid) -/
  val : Text
  /-- `.raw_val` -/
  raw : Text
  /-- `.all` -/
  all : Text
  /-- `.pre_comment.all` -/
  comment : Option Text
  deriving Repr, DecidableEq, Inhabited

def natText (n : Nat) : Text := Lint.showInt (n : Int)

/-- `"_junk_%d_%d-%d" % (junkid, span[0], span[1])` -/
def junkKeyText (id s e : Nat) : Text :=
  Lint.interleave Gen.Tables.junkKeyParts [natText id, natText s, natText e]

/-- materialise one localizable entry of the text `s` -/
def mkEnt (f : P.Fmt) (s : Array Nat) (h : Hist.Ent) : Except PyErr PEnt :=
  let e := h.entry
  match h.jid with
  | some id =>
    let all := P.slice s e.s e.e
    .ok { entry := e, junk := true, key := .str (junkKeyText id e.s e.e), val := all, raw := all, all := all, comment := none }
  | none =>
    match P.entView f s e with
    | none => .error .keyError           -- PO: `escapes[m.group(1)]` inside `eval_stringlist`, raised while parsing
    | some v =>
      match v.val with
      | none => .error .valueError       -- the callback of `PropertiesEntity.val` raising
      | some val =>
        let key := match v.ctxt with
          | some c => Cmp.Key.tup v.key c
          | none => Cmp.Key.str v.key
        .ok { entry := e, junk := false, key := key, val := val, raw := v.raw, all := P.Entry.all s e,
              comment := e.pc.map (fun ab => P.slice s ab.1 ab.2) }

/-- `p.readUnicode(text); p.parse()` with `Junk.junkid = junkid` before: the localizable entries and the counter after -/
def parseFile (f : P.Fmt) (s : Array Nat) (junkid : Nat) : Except PyErr (List PEnt × Nat) :=
  match P.walk f s with
  | .stuck _ _ => .error .hang
  | .done es =>
    let r := Hist.assign f s 0 junkid 0 es
    match mapE (mkEnt f s) (r.2.filter (fun h => h.entry.localizable)) with
    | .error e => .error e
    | .ok ents => .ok (ents, r.1)

/-- `entities[entity_id]` on a `KeyedTuple`: the LAST entry with that key.  A key that is not in the map falls through
    to `tuple.__getitem__(key)`, which raises TypeError for a str / tuple index. -/
def lookup (es : List PEnt) (k : Cmp.Key) : Except PyErr PEnt :=
  match AR.keyedIndex (es.map (·.key)) k with
  | none => .error .typeError
  | some i =>
    match es[i]? with
    | some e => .ok e
    | none => .error .indexError

/-! ### checkers -/

inductive CheckerKind | base | properties
  deriving Repr, DecidableEq, Inhabited

/-- `getChecker(l10n)` for the standard file name of the format; `none` = not covered by this model -/
def checkerOf : P.Fmt → Option CheckerKind
  | .ini => some .base
  | .inc => some .base
  | .po => some .base
  | .properties => some .properties
  | .dtd => none

def covered (f : P.Fmt) : Bool := (checkerOf f).isSome

/-- one tuple `(tp, pos, msg, cat)` yielded by `checker.check(refEnt, l10nEnt)` -/
structure CheckRes where
  sev : Checks.Severity
  pos : Pos.CheckPos
  msg : Text
  cat : Text
  deriving Repr, DecidableEq, Inhabited

/-- `"� in: "` (the literal part of the f-string in `Checker.check`) -/
def encPrefix : Text := Gen.Tables.baseCheckStr_1.flatten
/-- `"encodings"` -/
def encCat : Text := Gen.Tables.baseCheckStr_2.flatten

/-- `Checker.check(refEnt, l10nEnt)` of checks/base.py -/
def runBase (l10nent : PEnt) : List CheckRes :=
  (Checks.baseCheck l10nent.all.toArray).map (fun r =>
    { sev := r.severity, pos := .entityPos (r.pos : Int), msg := encPrefix ++ keyText l10nent.key, cat := encCat })

def catText : PropCk.Cat → Text
  | .encodings => encCat
  | .escape => [101, 115, 99, 97, 112, 101]
  | .printf => [112, 114, 105, 110, 116, 102]
  | .plural => [112, 108, 117, 114, 97, 108]

def ofFinding (f : PropCk.Finding) : CheckRes :=
  { sev := (match f.sev with | .error => .error | .warning => .warning),
    pos := (match f.pos with | .val n => .offset (n : Int) | .ent n => .entityPos (n : Int)),
    msg := f.msg, cat := catText f.cat }

/-- `PropertiesChecker.check(refEnt, l10nEnt)` with `checker.locale = locale`.  A `Junk` has no `pre_comment`. -/
def runProps (locale : Option Text) (refent l10nent : PEnt) : Except PyErr (List CheckRes) :=
  if refent.junk then .error .attributeError else
  match refent.key, l10nent.key with
  | .str rk, .str lk =>
    match PropCk.check { locale := locale, refComment := refent.comment, refKey := rk, refRaw := refent.raw,
                         l10nKey := lk, l10nAll := l10nent.all, l10nRaw := l10nent.raw } with
    | none => .error .valueError
    | some fs => .ok (fs.map ofFinding)
  | _, _ => .error .typeError

/-- `list(checker.check(refent, l10nent))` -/
def runChecker (ck : CheckerKind) (locale : Option Text) (refent l10nent : PEnt) : Except PyErr (List CheckRes) :=
  match ck with
  | .base => .ok (runBase l10nent)
  | .properties => runProps locale refent l10nent

/-! ### message texts -/

/-- `f"{entity_id} occurs {cnt} times"` -/
def dupMsg (k : Cmp.Key) (n : Nat) : Text :=
  Lint.interleave Gen.Tables.dupMsgParts [keyText k, natText n]

/-- `"%s at line %d, column %d for %s" % (msg, line, col, refent.key)` -/
def checkMsg (msg : Text) (line col : Int) (refKey : Cmp.Key) : Text :=
  Lint.interleave Gen.Tables.cmpCheckMsgParts [msg, Lint.showInt line, Lint.showInt col, keyText refKey]

/-- `junk.error_message()` for a Junk of the text `s` -/
def junkMessage (s : Array Nat) (j : PEnt) : Except PyErr Text :=
  match Pos.junkMessagePositions s j.entry with
  | none => .error .indexError
  | some (l1, c1, l2, c2) =>
    .ok (Lint.interleave Gen.Tables.junkMessageParts
      [j.val, Lint.showInt l1, Lint.showInt c1, Lint.showInt l2, Lint.showInt c2])

/-! ### the comparison -/

/-- what `compare` is called with, besides the two texts -/
structure Env where
  fmt : P.Fmt
  ck : CheckerKind
  /-- the localized `File` (path segments and locale are what the observers look at) -/
  file : ObsM.File
  /-- `merge_file is not None` -/
  mergeOn : Bool
  /-- `ctx.contents` of the localized file -/
  l10nText : Array Nat

/-- `self.observers.notify(category, l10n, data)` -/
def notify (env : Env) (obs : ObsM.ObsList) (cat : ObsM.Cat) (data : ObsM.Data) : Except PyErr (ObsM.ObsList × ObsM.Ret) :=
  match obs.notify cat env.file data with
  | .error e => .error (.observer e)
  | .ok r => .ok r

/-- local variables of `compare` -/
structure LoopSt where
  obs : ObsM.ObsList
  stats : Cmp.Stats := {}
  /-- `missings` -/
  missings : List Cmp.Key := []
  /-- `skips` (entity objects; `in` compares by identity, distinct entries have distinct spans) -/
  skips : List PEnt := []

def sevCat : Checks.Severity → ObsM.Cat
  | .error => .error
  | .warning => .warning

/-- `for tp, pos, msg, cat in checker.check(refent, l10nent): …` -/
def checkLoop (env : Env) (refent l10nent : PEnt) :
    List CheckRes → ObsM.ObsList × List PEnt → Except PyErr (ObsM.ObsList × List PEnt)
  | [], st => .ok st
  | c :: cs, (obs, skips) =>
    -- `l10nent.position(pos)` for an EntityPos, else `l10nent.value_position(pos)` (a Junk has none)
    match Pos.resolveCheckPos env.l10nText .plain l10nent.entry c.pos with
    | none => .error (if l10nent.junk then .attributeError else .assertionError)
    | some (line, col) =>
      let skips := if c.sev == .error && env.mergeOn && !skips.contains l10nent then skips ++ [l10nent] else skips
      match notify env obs (sevCat c.sev) (.str (checkMsg c.msg line col refent.key)) with
      | .error e => .error e
      | .ok (obs', _) => checkLoop env refent l10nent cs (obs', skips)

/-- one iteration of `for action, entity_id in ar:` -/
def step (env : Env) (ref l10n : List PEnt) (st : LoopSt) (p : AR.Label × Cmp.Key) : Except PyErr LoopSt :=
  let entityId := p.2
  match p.1 with
  | .delete =>
    match lookup ref entityId with
    | .error e => .error e
    | .ok refent =>
      if refent.junk then
        match notify env st.obs .warning (.str Gen.Tables.cmpRefJunkMsg) with
        | .error e => .error e
        | .ok (obs, _) => .ok { st with obs := obs }
      else
        match notify env st.obs .missingEntity (keyData entityId) with
        | .error e => .error e
        | .ok (obs, rv) =>
          match rv with
          | .ignore => .ok { st with obs := obs }
          | .error =>
            .ok { st with obs := obs, missings := st.missings ++ [entityId],
                          stats := { st.stats with missing := st.stats.missing + 1,
                                                   missing_w := st.stats.missing_w + Cmp.countWords refent.val } }
          | .warning => .ok { st with obs := obs, stats := { st.stats with report := st.stats.report + 1 } }
  | .add =>
    match lookup l10n entityId with
    | .error e => .error e
    | .ok l10nent =>
      if l10nent.junk then
        match junkMessage env.l10nText l10nent with
        | .error e => .error e
        | .ok msg =>
          match notify env st.obs .error (.str msg) with
          | .error e => .error e
          | .ok (obs, _) =>
            .ok { st with obs := obs, skips := if env.mergeOn then st.skips ++ [l10nent] else st.skips }
      else
        match notify env st.obs .obsoleteEntity (keyData entityId) with
        | .error e => .error e
        | .ok (obs, rv) =>
          if rv != .ignore then .ok { st with obs := obs, stats := { st.stats with obsolete := st.stats.obsolete + 1 } }
          else .ok { st with obs := obs }
  | .equal =>
    match lookup ref entityId, lookup l10n entityId with
    | .error e, _ => .error e
    | .ok _, .error e => .error e
    | .ok refent, .ok l10nent =>
      let stats : Except PyErr Cmp.Stats :=
        if Cmp.keyMatch entityId then .ok { st.stats with keys := st.stats.keys + 1 }
        else if refent.junk then .error .attributeError          -- `refent.equals`: a Junk has no `equals`
        else if refent.key == l10nent.key && refent.val == l10nent.val then
          .ok { st.stats with unchanged := st.stats.unchanged + 1,
                              unchanged_w := st.stats.unchanged_w + Cmp.countWords refent.val }
        else
          .ok { st.stats with changed := st.stats.changed + 1,
                              changed_w := st.stats.changed_w + Cmp.countWords refent.val }
      match stats with
      | .error e => .error e
      | .ok stats =>
        match runChecker env.ck env.file.locale refent l10nent with
        | .error e => .error e
        | .ok results =>
          match checkLoop env refent l10nent results (st.obs, st.skips) with
          | .error e => .error e
          | .ok (obs, skips) => .ok { st with obs := obs, stats := stats, skips := skips }

/-- the two `findDuplicates` loops: one notification per key that occurs more than once -/
def notifyDups (env : Env) (cat : ObsM.Cat) : List (Cmp.Key × Nat) → ObsM.ObsList → Except PyErr ObsM.ObsList
  | [], obs => .ok obs
  | (k, n) :: rest, obs =>
    match notify env obs cat (.str (dupMsg k n)) with
    | .error e => .error e
    | .ok (obs', _) => notifyDups env cat rest obs'

def capsOf : P.Fmt → Nat
  | .properties => Gen.Tables.cap_properties
  | .dtd => Gen.Tables.cap_dtd
  | .ini => Gen.Tables.cap_ini
  | .inc => Gen.Tables.cap_inc
  | .po => Gen.Tables.cap_po

/-- `ref_entities[key].all` -/
def refAllOf (ref : List PEnt) (k : Cmp.Key) : Except PyErr Text :=
  match lookup ref k with
  | .error e => .error e
  | .ok r => .ok r.all

/-- the entry of `skips` as `merge` sees it (`skip.span`, Junk or not, `ref_entities[skip.key].all`) -/
def mkSkip (ref : List PEnt) (sk : PEnt) : Except PyErr Merge.Skip :=
  if sk.junk then .ok { span := some (sk.entry.s, sk.entry.e), junk := true, refAll := [] }
  else
    match refAllOf ref sk.key with
    | .error e => .error e
    | .ok all => .ok { span := some (sk.entry.s, sk.entry.e), junk := false, refAll := all }

/-- `self.merge(ref_entities, ref_file, l10n, merge_file, missings, skips, l10n_ctx, p.capabilities, p.encoding)` -/
def doMerge (env : Env) (ref : List PEnt) (missings : List Cmp.Key) (skips : List PEnt) : Except PyErr Merge.Outcome :=
  if !env.mergeOn then .ok .nothing else
  match mapE (refAllOf ref) missings with
  | .error e => .error e
  | .ok missingAlls =>
    match mapE (mkSkip ref) skips with
    | .error e => .error e
    | .ok sks =>
      match Merge.merge true (capsOf env.fmt) env.l10nText.toList sks missingAlls with
      | .typeError => .error .typeError
      | o => .ok o

def statKeyOf (name : String) : Option ObsM.StatKey := ObsM.StatKey.all.find? (fun k => k.name == name)

/-- the `stats` dict handed to `updateStats` -/
def statsList (s : Cmp.Stats) : List (ObsM.StatKey × Nat) :=
  s.toDict.filterMap (fun p => (statKeyOf p.1).map (fun k => (k, p.2)))

/-- `ContentComparer.compare` after both files were read and parsed -/
def compareParsed (env : Env) (ref l10n : List PEnt) (obs0 : ObsM.ObsList) : Except PyErr (ObsM.ObsList × Merge.Outcome) :=
  let rk := ref.map (·.key)
  let lk := l10n.map (·.key)
  let ar := AR.addRemove rk lk
  match notifyDups env .warning (Hist.findDuplicates rk) obs0 with
  | .error e => .error e
  | .ok obs1 =>
    match notifyDups env .error (Hist.findDuplicates lk) obs1 with
    | .error e => .error e
    | .ok obs2 =>
      match foldE (step env ref l10n) ar { obs := obs2 } with
      | .error e => .error e
      | .ok st =>
        match doMerge env ref st.missings st.skips with
        | .error e => .error e
        | .ok outcome => .ok (st.obs.updateStats env.file (statsList st.stats), outcome)

/-! ### the report -/

/-- what `observers.toJSON()` shows after the comparison, and what happened to the merge file -/
structure Report where
  /-- `toJSON()["summary"]`: locale ↦ the eleven counters -/
  summary : List (Option Text × List (ObsM.StatKey × Nat))
  /-- `toJSON()["details"]`: dict keys from the root ↦ list of `{category: data}` items -/
  details : List (List Text × List ObsM.Detail)
  merge : Merge.Outcome
  deriving DecidableEq, Repr

def reportOf (l : ObsM.ObsList) (m : Merge.Outcome) : Report :=
  { summary := l.own.summary.map (fun p => (p.1, ObsM.StatKey.all.map (fun k => (k, p.2 k)))),
    details := (TreeM.toJSON l.own.details).leaves,
    merge := m }

/-- `ContentComparer.compare(ref_file, l10n, merge_file)` for a format with a regex parser, on decoded texts, in a
    process whose `Junk.junkid` is 0, reporting to `obs0` -/
def compareFiles (fmt : P.Fmt) (file : ObsM.File) (obs0 : ObsM.ObsList) (refText l10nText : Array Nat) (mergeOn : Bool) :
    Except PyErr Report :=
  match checkerOf fmt with
  | none => .error .unmodelled
  | some ck =>
    match parseFile fmt refText 0 with
    | .error e => .error e
    | .ok (ref, n1) =>
      match parseFile fmt l10nText n1 with
      | .error e => .error e
      | .ok (l10n, _) =>
        let env : Env := { fmt := fmt, ck := ck, file := file, mergeOn := mergeOn, l10nText := l10nText }
        match compareParsed env ref l10n obs0 with
        | .error e => .error e
        | .ok (obs, outcome) => .ok (reportOf obs outcome)

/-- the file name the harness uses for a format (`a.ini`, `a.inc`, `a.po`, `a.properties`, `a.dtd`) -/
def fileName : P.Fmt → Text
  | .properties => [97, 46, 112, 114, 111, 112, 101, 114, 116, 105, 101, 115]
  | .dtd => [97, 46, 100, 116, 100]
  | .ini => [97, 46, 105, 110, 105]
  | .inc => [97, 46, 105, 110, 99]
  | .po => [97, 46, 112, 111]

/-- `File(path, "a.<ext>", locale="de")` (a locale with known plural categories, so that the plural check is active) -/
def stdFile (fmt : P.Fmt) : ObsM.File := { file := fileName fmt, module := none, locale := some [100, 101] }

/-- `cc = ContentComparer(); cc.observers.append(Observer())` -/
def stdObs : ObsM.ObsList := ObsM.ObsList.init 0 [ObsM.Obs.init 0 none]

/-- the whole comparison with one unfiltered observer -/
def compareTexts (fmt : P.Fmt) (refText l10nText : Array Nat) (mergeOn : Bool) : Except PyErr Report :=
  compareFiles fmt (stdFile fmt) stdObs refText l10nText mergeOn

/-! ### lint -/

def sevText : Checks.Severity → Text
  | .error => [101, 114, 114, 111, 114]
  | .warning => [119, 97, 114, 110, 105, 110, 103]

def toLintCheck (c : CheckRes) : Lint.Check :=
  { level := sevText c.sev,
    pos := (match c.pos with
      | .entityPos n => .entity n
      | .offset n => .value n
      | .tuple l cc => .lineCol l cc),
    msg := c.msg }

/-- `paths.REFERENCE_LOCALE`: "en-x-moz-reference" -/
def referenceLocale : Text := [101, 110, 45, 120, 45, 109, 111, 122, 45, 114, 101, 102, 101, 114, 101, 110, 99, 101]

/-- the entity as the linter model sees it; `vals` fixes the numbering of the value classes -/
def toLintEnt (ck : CheckerKind) (vals : List Text) (e : PEnt) : Except PyErr Lint.Ent :=
  if e.junk then
    .ok { kind := .junk, key := keyText e.key, eq := vals.idxOf e.val, mode := .ctx, s := e.entry.s, e := e.entry.e }
  else
    match runChecker ck (some referenceLocale) e e with
    | .error x => .error x
    | .ok rs =>
      .ok { kind := .entity, key := keyText e.key, eq := vals.idxOf e.val, mode := .ctx, s := e.entry.s, e := e.entry.e,
            vs := Pos.valSpan false e.entry, checks := rs.map toLintCheck }

def toRefEnt (vals : List Text) (e : PEnt) : Lint.RefEnt := { key := keyText e.key, eq := vals.idxOf e.val }

/-- `lint_file` after parsing: `reference = none` stands for `reference = {}` (no reference file) -/
def lintParsed (fmt : P.Fmt) (ck : CheckerKind) (reference : Option (List PEnt)) (curText : Array Nat) (cur : List PEnt) :
    Except PyErr (List Lint.Result) :=
  let ref : List PEnt := match reference with | some r => r | none => []
  let vals := (ref ++ cur).map (·.val)
  match mapE (toLintEnt ck vals) cur with
  | .error e => .error e
  | .ok ents =>
    match Lint.lintFile { path := fileName fmt, contents := curText, cur := ents,
                          ref := reference.map (fun r => r.map (toRefEnt vals)) } with
    | .error x => .error (.lint x)
    | .ok rs => .ok rs

/-- `list(L10nLinter().lint_file(path, ref, None))` on decoded texts (`refText = none`: no reference file), in a
    process whose `Junk.junkid` is 0: the reference is parsed first -/
def lintText (fmt : P.Fmt) (refText : Option (Array Nat)) (curText : Array Nat) : Except PyErr (List Lint.Result) :=
  match checkerOf fmt with
  | none => .error .unmodelled
  | some ck =>
    match refText with
    | none =>
      match parseFile fmt curText 0 with
      | .error e => .error e
      | .ok (cur, _) => lintParsed fmt ck none curText cur
    | some t =>
      match parseFile fmt t 0 with
      | .error e => .error e
      | .ok (ref, n1) =>
        match parseFile fmt curText n1 with
        | .error e => .error e
        | .ok (cur, _) => lintParsed fmt ck (some ref) curText cur

end Pipe

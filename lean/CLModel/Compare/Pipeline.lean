/-
C05 — the end-to-end pipeline as ONE `Except`-valued function, composed from the component models.

  compare_locales/compare/content.py   ContentComparer.compare        → `compareFiles` / `compareTexts`
  compare_locales/lint/linter.py       L10nLinter.lint_file           → `lintText`

Composition (every box is an existing model; nothing is re-modelled here except the glue):

  decoded text ──P.walk (Parser/Formats, C01)──► entries ──Hist.assign (History/State, C18: Junk.junkid)──►
  localizable entries ──P.entView (Parser/Values, C02: key / raw_val / val)──► `PEnt`
  keys ──AR.addRemove, AR.keyedIndex (Compare/AddRemove, C20)──► the loop `for action, entity_id in ar`
  `Hist.findDuplicates` (Counter) · `Cmp.keyMatch`, `Cmp.countWords`, `Cmp.Stats` (Compare/Content, C03)
  checker: `Checks.baseCheck` (Checks/Base, C05) or `PropCk.check` (Checks/Properties, C06)
  positions: `Pos.resolveCheckPos`, `Pos.junkMessagePositions` (Parser/Position, C17)
  notifications: `ObsM.ObsList.notify` / `updateStats`, `TreeM.toJSON` (Compare/Observer, Tree, C10)
  merge staging: `Merge.merge` (Compare/Merge, C04)
  lint: `Lint.lintFile` (Lint/Linter, C19)

Covered formats: ini, inc, po (base `Checker`), properties (`PropertiesChecker`) and dtd (`DTDChecker`, model of C07
in Checks/Dtd.lean) from the TEXT on; Fluent (`FluentChecker`, C08) and Android (`AndroidChecker`, C09) from the output of
the external parser on (entry list with spans + AST summary / minidom node summary): `compareFtl`, `compareAndroid`.
External library functions are PARAMETERS of the model (`Ext`): expat's verdict on a synthetic document (as in C07) and
`html.unescape` (DTDEntity.val).  Decoding (bytes -> text) is `Pipe.decode` in Compare/Decode.lean; here texts are code
points, as `Parser.readFile` leaves them in `ctx.contents`.

Every Python operation that can raise is an `Except` here; nothing is defaulted.  `.error` = the call raises (the
partially filled observers are then of no interest).  Attribute values that Python computes lazily (`Entity.val`)
are computed when the entity is built: a raise there would surface earlier in the model than in Python, never later.
Core Lean only.
-/
import CLModel.Parser.Values
import CLModel.Parser.Position
import CLModel.History.State
import CLModel.Compare.Content
import CLModel.Compare.Merge
import CLModel.Compare.Observer
import CLModel.Checks.Base
import CLModel.Checks.Properties
import CLModel.Checks.Dtd
import CLModel.Checks.Fluent
import CLModel.Checks.Android
import CLModel.Parser.Fluent
import CLModel.Lint.Linter
namespace Pipe

abbrev Text := List Nat

/-- the exceptions the composed code can raise (by class), `hang` = the parser's `while` loop does not end -/
inductive PyErr
  | hang
  | keyError
  | indexError
  | typeError
  | attributeError
  | assertionError
  | valueError
  | unicodeEncodeError
  | observer (e : TreeM.PyErr)
  | lint (name : String)
  | unmodelled
  deriving Repr, DecidableEq, Inhabited

def PyErr.name : PyErr → String
  | .hang => "Hang"
  | .keyError => "KeyError"
  | .indexError => "IndexError"
  | .typeError => "TypeError"
  | .attributeError => "AttributeError"
  | .assertionError => "AssertionError"
  | .valueError => "ValueError"
  | .unicodeEncodeError => "UnicodeEncodeError"
  | .observer e => e.name
  | .lint n => n
  | .unmodelled => "Unmodelled"

def liftOpt {α : Type} (e : PyErr) : Option α → Except PyErr α
  | some a => .ok a
  | none => .error e

/-- a loop whose body may raise -/
def mapE {α β : Type} (f : α → Except PyErr β) : List α → Except PyErr (List β)
  | [] => .ok []
  | x :: xs =>
    match f x with
    | .error e => .error e
    | .ok y =>
      match mapE f xs with
      | .error e => .error e
      | .ok ys => .ok (y :: ys)

/-- `for x in xs: st = body(st, x)` with a body that may raise -/
def foldE {α σ : Type} (f : σ → α → Except PyErr σ) : List α → σ → Except PyErr σ
  | [], st => .ok st
  | x :: xs, st =>
    match f st x with
    | .error e => .error e
    | .ok st' => foldE f xs st'

/-! ### `repr` of a gettext key (CPython `unicode_repr` / `tuplerepr`)

`PoEntity.key` is the tuple `(msgid, msgctxt)`; `"%s" % key`, `f"{key}"` print `repr` of its members. -/

def isPrintable (c : Nat) : Bool := Rx.inRanges Gen.Tables.printableRanges c

def hexDigit (n : Nat) : Nat := if n < 10 then 48 + n else 87 + n

/-- `width` lowercase hex digits of `n` -/
def hexPad : Nat → Nat → Text
  | 0, _ => []
  | w + 1, n => hexPad w (n / 16) ++ [hexDigit (n % 16)]

/-- one character of `repr(str)` with the chosen quote -/
def reprChar (quote : Nat) (c : Nat) : Text :=
  if c == quote || c == 92 then [92, c]
  else if c == 9 then [92, 116]
  else if c == 10 then [92, 110]
  else if c == 13 then [92, 114]
  else if c < 32 || c == 127 then [92, 120] ++ hexPad 2 c
  else if c < 127 then [c]
  else if isPrintable c then [c]
  else if c < 256 then [92, 120] ++ hexPad 2 c
  else if c < 65536 then [92, 117] ++ hexPad 4 c
  else [92, 85] ++ hexPad 8 c

/-- `repr(s)`: single quotes unless the text has a single and no double quote -/
def pyReprStr (t : Text) : Text :=
  let quote := if t.contains 39 && !t.contains 34 then 34 else 39
  [quote] ++ t.flatMap (reprChar quote) ++ [quote]

def sNone : Text := [78, 111, 110, 101]

/-- `repr((msgid, msgctxt))` -/
def pyReprTuple (msgid : Text) (ctxt : Option Text) : Text :=
  [40] ++ pyReprStr msgid ++ [44, 32] ++ (match ctxt with | some c => pyReprStr c | none => sNone) ++ [41]

/-- `str(key)` / `"%s" % (key,)` / `f"{key}"` -/
def keyText : Cmp.Key → Text
  | .str t => t
  | .tup id ctx => pyReprTuple id ctx

/-- the key as `data` of a notification -/
def keyData : Cmp.Key → ObsM.Data
  | .str t => .str t
  | .tup id ctx => .tuple [some id, ctx]

/-! ### external library functions: parameters of the model -/

/-- what the pipeline calls outside compare-locales and CPython's `re`: both are INPUTS of the model; the theorems hold
    for every value of them -/
structure Ext where
  /-- expat through `xml.sax`: the verdict on one synthetic document of DTDChecker (error line, column, message; the
      character data delivered to the text handler) -/
  xml : Dtd.Bytes → Dtd.ParseRes
  /-- `html.unescape` (standard library), what `DTDEntity.val` applies to `raw_val` -/
  unescape : Text → Text

instance : Inhabited Ext := ⟨⟨fun _ => ⟨none, []⟩, fun t => t⟩⟩

/-! ### parse: `p.readFile(f); p.parse()` -/

/-- which `position` / `value_position` / `equals` / `span` the Entity objects of a file have:
    `plain` base `Entity` (properties, ini, inc, po), `dtd` `DTDEntity` (value_position accepts (line, col) tuples),
    `fluent` `FluentEntity` (value offsets count from the start of the entry, `equals` compares the ASTs),
    `node` `AndroidEntity` / `XMLJunk` (no spans: positions are `(0, offset)`).
    A `Junk` of the first three is the base `Junk` (no `value_position`, no `equals`). -/
inductive Cls | plain | dtd | fluent | node
  deriving Repr, DecidableEq, Inhabited

/-- a localizable entry (Entity or Junk) with the attribute values the pipeline reads -/
structure PEnt where
  entry : P.Entry
  /-- `isinstance(e, parser.Junk)` -/
  junk : Bool
  key : Cmp.Key
  /-- `.val` (unescaped; PO: msgstr or msgid) -/
  val : Text
  /-- `.raw_val` -/
  raw : Text
  /-- `.all` -/
  all : Text
  /-- `.pre_comment.all` -/
  comment : Option Text
  /-- `.count_words()` (Fluent: the `WordCounter` visitor over the external AST, an input) -/
  words : Nat := 0
  /-- Fluent: `.entry` (the external AST) and its class under `BaseNode.equals(…, ignored_fields)` -/
  ftl : Option (Ftl.Entry × Nat) := none
  /-- Android: `.node` (summary of the minidom element) -/
  node : Option Android.Node := none

/-- `x in skips` / `x == y` on entry objects is identity: no entry class defines `__eq__`.  The objects compared are
    the LAST entry of a key and collected Junk: they differ in class, key or span whenever they are different objects. -/
instance : BEq PEnt := ⟨fun a b => a.junk == b.junk && a.key == b.key && a.entry == b.entry⟩

def natText (n : Nat) : Text := Lint.showInt (n : Int)

/-- `"_junk_%d_%d-%d" % (junkid, span[0], span[1])` -/
def junkKeyText (id s e : Nat) : Text :=
  Lint.interleave Gen.Tables.junkKeyParts [natText id, natText s, natText e]

/-- a `Junk(ctx, span)` of the text `s` with counter value `id` -/
def mkJunk (s : Array Nat) (e : P.Entry) (id : Nat) : PEnt :=
  let all := P.slice s e.s e.e
  { entry := e, junk := true, key := .str (junkKeyText id e.s e.e), val := all, raw := all, all := all, comment := none }

/-- `.val` of an Entity: `DTDEntityMixin.val` is `html_unescape(self.raw_val)` (external); `none` = the callback of
    `PropertiesEntity.val` raising -/
def entVal (ext : Ext) (f : P.Fmt) (v : P.EntView) : Option Text :=
  match f with
  | .dtd => some (ext.unescape v.raw)
  | _ => v.val

/-- materialise one localizable entry of the text `s` -/
def mkEnt (ext : Ext) (f : P.Fmt) (s : Array Nat) (h : Hist.Ent) : Except PyErr PEnt :=
  let e := h.entry
  match h.jid with
  | some id => .ok (mkJunk s e id)
  | none =>
    match P.entView f s e with
    | none => .error .keyError           -- PO: `escapes[m.group(1)]` inside `eval_stringlist`, raised while parsing
    | some v =>
      match entVal ext f v with
      | none => .error .valueError
      | some val =>
        let key := match v.ctxt with
          | some c => Cmp.Key.tup v.key c
          | none => Cmp.Key.str v.key
        .ok { entry := e, junk := false, key := key, val := val, raw := v.raw, all := P.Entry.all s e,
              comment := e.pc.map (fun ab => P.slice s ab.1 ab.2), words := Cmp.countWords val }

/-- `p.readUnicode(text); p.parse()` with `Junk.junkid = junkid` before: the localizable entries and the counter after -/
def parseFile (ext : Ext) (f : P.Fmt) (s : Array Nat) (junkid : Nat) : Except PyErr (List PEnt × Nat) :=
  match P.walk f s with
  | .stuck _ _ => .error .hang
  | .done es =>
    let r := Hist.assign f s 0 junkid 0 es
    match mapE (mkEnt ext f s) (r.2.filter (fun h => h.entry.localizable)) with
    | .error e => .error e
    | .ok ents => .ok (ents, r.1)

/-- `entities[entity_id]` on a `KeyedTuple`: the LAST entry with that key.  A key that is not in the map falls through
    to `tuple.__getitem__(key)`, which raises TypeError for a str / tuple index. -/
def lookup (es : List PEnt) (k : Cmp.Key) : Except PyErr PEnt :=
  match AR.keyedIndex (es.map (·.key)) k with
  | none => .error .typeError
  | some i =>
    match es[i]? with
    | some e => .ok e
    | none => .error .indexError

/-! ### checkers -/

inductive CheckerKind | base | properties | dtd | fluent | android
  deriving Repr, DecidableEq, Inhabited

/-- `getChecker(l10n)` for the standard file name of the format -/
def checkerOf : P.Fmt → CheckerKind
  | .ini => .base
  | .inc => .base
  | .po => .base
  | .properties => .properties
  | .dtd => .dtd

def clsOf : P.Fmt → Cls
  | .dtd => .dtd
  | _ => .plain

/-- the checker object: its class, `checker.locale`, and for `DTDChecker` the XML parser it calls and
    `checker.reference` as `known_entities` reads it (`ent.raw_val for ent in self.reference.values()`: every entry of
    the parsed reference, Junk included) -/
structure CkCtx where
  kind : CheckerKind
  locale : Option Text
  xml : Dtd.Bytes → Dtd.ParseRes := fun _ => ⟨none, []⟩
  refVals : List Text := []

/-- one tuple `(tp, pos, msg, cat)` yielded by `checker.check(refEnt, l10nEnt)` -/
structure CheckRes where
  sev : Checks.Severity
  pos : Pos.CheckPos
  msg : Text
  cat : Text
  deriving Repr, DecidableEq, Inhabited

/-- `"� in: "` (the literal part of the f-string in `Checker.check`) -/
def encPrefix : Text := Gen.Tables.baseCheckStr_1.flatten
/-- `"encodings"` -/
def encCat : Text := Gen.Tables.baseCheckStr_2.flatten

/-- `Checker.check(refEnt, l10nEnt)` of checks/base.py -/
def runBase (l10nent : PEnt) : List CheckRes :=
  (Checks.baseCheck l10nent.all.toArray).map (fun r =>
    { sev := r.severity, pos := .entityPos (r.pos : Int), msg := encPrefix ++ keyText l10nent.key, cat := encCat })

def catText : PropCk.Cat → Text
  | .encodings => encCat
  | .escape => [101, 115, 99, 97, 112, 101]
  | .printf => [112, 114, 105, 110, 116, 102]
  | .plural => [112, 108, 117, 114, 97, 108]

def ofFinding (f : PropCk.Finding) : CheckRes :=
  { sev := (match f.sev with | .error => .error | .warning => .warning),
    pos := (match f.pos with | .val n => .offset (n : Int) | .ent n => .entityPos (n : Int)),
    msg := f.msg, cat := catText f.cat }

/-- `PropertiesChecker.check(refEnt, l10nEnt)` with `checker.locale = locale`.  A `Junk` has no `pre_comment`. -/
def runProps (locale : Option Text) (refent l10nent : PEnt) : Except PyErr (List CheckRes) :=
  if refent.junk then .error .attributeError else
  match refent.key, l10nent.key with
  | .str rk, .str lk =>
    match PropCk.check { locale := locale, refComment := refent.comment, refKey := rk, refRaw := refent.raw,
                         l10nKey := lk, l10nAll := l10nent.all, l10nRaw := l10nent.raw } with
    | none => .error .valueError
    | some fs => .ok (fs.map ofFinding)
  | _, _ => .error .typeError

def dtdCatText : Dtd.Cat → Text
  | .encodings => encCat
  | .xmlparse => [120, 109, 108, 112, 97, 114, 115, 101]
  | .number => [110, 117, 109, 98, 101, 114]
  | .css => [99, 115, 115]
  | .android => [97, 110, 100, 114, 111, 105, 100]

def ofDtdResult (r : Dtd.Result) : CheckRes :=
  { sev := (match r.level with | .error => .error | .warning => .warning),
    pos := (match r.pos with | .lc l c => .tuple l c | .num n => .offset n | .entityPos n => .entityPos (n : Int)),
    msg := r.msg, cat := dtdCatText r.cat }

/-- what `DTDChecker.check` is called with.  `extra_tests` is None (no "android-dtd"); the reference was set by
    `checker.set_reference`.  Only `key`, `all`, `raw_val` are read, which a `Junk` has as well. -/
def dtdInp (c : CkCtx) (rk lk : Text) (refent l10nent : PEnt) : Dtd.Inp :=
  { android := false, reference := some c.refVals,
    ref := ⟨rk, refent.all, refent.raw⟩, l10n := ⟨lk, l10nent.all, l10nent.raw⟩ }

/-- `list(DTDChecker.check(refEnt, l10nEnt))`: an exception of the generator ends the comparison, whatever was yielded -/
def runDtd (c : CkCtx) (refent l10nent : PEnt) : Except PyErr (List CheckRes) :=
  match refent.key, l10nent.key with
  | .str rk, .str lk =>
    let out := Dtd.check c.xml (dtdInp c rk lk refent l10nent)
    match out.exc with
    | some .unicodeEncodeError => .error .unicodeEncodeError     -- `value.encode("utf-8")` on a lone surrogate
    | some .indexError => .error .indexError                     -- `lines[lnr - 1]` (ruled out since f80b06f)
    | some .unsupported => .error .unmodelled
    | none => .ok (out.results.map ofDtdResult)
  | _, _ => .error .typeError

/-- the two severities `FluentChecker` yields (the model Checks/Fluent.lean builds no other text) -/
def ftlSev (t : Text) : Checks.Severity := if t == Ftl.sevError then .error else .warning

/-- the tuples of `FluentChecker.check`: the first `nEnc` come from `super().check` and carry an `EntityPos`, the
    others a plain int -/
def ofFtlOuts (nEnc : Nat) (outs : List Ftl.Out) : List CheckRes :=
  (outs.take nEnc).map (fun o => { sev := ftlSev o.sev, pos := .entityPos o.pos, msg := o.text, cat := o.cat }) ++
  (outs.drop nEnc).map (fun o => { sev := ftlSev o.sev, pos := .offset o.pos, msg := o.text, cat := o.cat })

/-- `FluentChecker.check(refEnt, l10nEnt)`: `super().check` (EntityPos), then `l10nEnt.entry` / `refEnt.entry`
    (a `Junk` has no `entry`), then the messages with plain int positions; `error` of the model = the IndexError of
    `plurals.get_plural` -/
def runFluent (locale : Option Text) (refent l10nent : PEnt) : Except PyErr (List CheckRes) :=
  match refent.ftl, l10nent.ftl, l10nent.key with
  | some (ra, _), some (la, _), .str lk =>
    match Ftl.check locale lk l10nent.all ra la with
    | .error _ => .error .indexError
    | .ok outs => .ok (ofFtlOuts (Ftl.checkEncoding lk l10nent.all).length outs)
  | _, _, _ => .error .attributeError

/-- the message texts of checks/android.py (generated from the source text) -/
def androidMsgText (key : Text) : Android.Msg → Text
  | .mojibake => encPrefix ++ key
  | .incompatible => Gen.Tables.androidMsg_incompatible
  | .unsupported => Gen.Tables.androidMsg_unsupported
  | .notTranslatable => Gen.Tables.androidMsg_notTranslatable
  | .notPlain => Gen.Tables.androidMsg_notPlain
  | .doubleQuotes => Gen.Tables.androidMsg_doubleQuotes
  | .apostrophe => Gen.Tables.androidMsg_apostrophe
  | .conflict o f1 f2 => Lint.interleave Gen.Tables.androidMsg_conflict [natText o, f1, natText o, f2]
  | .notInRef o f => Lint.interleave Gen.Tables.androidMsg_notInRef [natText o, f]
  | .mismatch => Gen.Tables.androidMsg_mismatch
  | .notInL10n o f => Lint.interleave Gen.Tables.androidMsg_notInL10n [natText o, f]
  | .countMismatch => Gen.Tables.androidMsg_countMismatch

def androidCat : Text := [97, 110, 100, 114, 111, 105, 100]

/-- one tuple of `AndroidChecker.check`: the base check yields an `EntityPos`, the others a plain int -/
def ofAndroidResult (key : Text) (r : Android.Result) : CheckRes :=
  { sev := (match r.sev with | .error => .error | .warning => .warning),
    pos := (match r.msg with | .mojibake => .entityPos (r.pos : Int) | _ => .offset (r.pos : Int)),
    msg := androidMsgText key r.msg,
    cat := (match r.msg with | .mojibake => encCat | _ => androidCat) }

/-- `AndroidChecker.check(refEnt, l10nEnt)`: reads `.node` of both (an `XMLJunk` has none) -/
def runAndroid (refent l10nent : PEnt) : Except PyErr (List CheckRes) :=
  match refent.node, l10nent.node with
  | some rn, some ln =>
    match Android.check ⟨rn, refent.val, refent.all⟩ ⟨ln, l10nent.val, l10nent.all⟩ with
    | none => .error .unmodelled
    | some rs => .ok (rs.map (ofAndroidResult (keyText l10nent.key)))
  | _, _ => .error .attributeError

/-- `list(checker.check(refent, l10nent))` -/
def runChecker (c : CkCtx) (refent l10nent : PEnt) : Except PyErr (List CheckRes) :=
  match c.kind with
  | .base => .ok (runBase l10nent)
  | .properties => runProps c.locale refent l10nent
  | .dtd => runDtd c refent l10nent
  | .fluent => runFluent c.locale refent l10nent
  | .android => runAndroid refent l10nent

/-! ### positions, messages -/

/-- `l10nent.position(pos)` for an `EntityPos`, else `l10nent.value_position(pos)`; `none` = the call raises
    (a base `Junk` has no `value_position`; `assert self.val_span is not None`) -/
def resolvePos (s : Array Nat) (cls : Cls) (e : PEnt) (p : Pos.CheckPos) : Option (Int × Int) :=
  match cls with
  | .plain => Pos.resolveCheckPos s .plain e.entry p
  | .dtd => Pos.resolveCheckPos s .dtd e.entry p
  | .fluent =>
    if e.junk then (match p with | .entityPos n => Pos.position s e.entry n | _ => none)
    else Pos.resolveCheckPos s .fluent e.entry p
  | .node =>
    -- AndroidEntity / XMLJunk: `position(offset)` and `value_position(offset)` return `(0, offset)`
    match p with
    | .entityPos n => some (0, n)
    | .offset n => some (0, n)
    | .tuple _ _ => none

/-- `f"{entity_id} occurs {cnt} times"` -/
def dupMsg (k : Cmp.Key) (n : Nat) : Text :=
  Lint.interleave Gen.Tables.dupMsgParts [keyText k, natText n]

/-- `"%s at line %d, column %d for %s" % (msg, line, col, refent.key)` -/
def checkMsg (msg : Text) (line col : Int) (refKey : Cmp.Key) : Text :=
  Lint.interleave Gen.Tables.cmpCheckMsgParts [msg, Lint.showInt line, Lint.showInt col, keyText refKey]

/-- `junk.error_message()` for a Junk of the text `s` (`XMLJunk.position(offset)` is `(0, offset)`) -/
def junkMessage (s : Array Nat) (cls : Cls) (j : PEnt) : Except PyErr Text :=
  match (match cls with
         | .node => some ((0 : Int), (0 : Int), (0 : Int), (-1 : Int))
         | _ => Pos.junkMessagePositions s j.entry) with
  | none => .error .indexError
  | some (l1, c1, l2, c2) =>
    .ok (Lint.interleave Gen.Tables.junkMessageParts
      [j.val, Lint.showInt l1, Lint.showInt c1, Lint.showInt l2, Lint.showInt c2])

/-- `refent.equals(l10nent)`: `Entry.equals` compares key and val (a `Junk` has both); `FluentEntity.equals` compares
    `self.entry` with `other.entry` (a `Junk` has none) -/
def entEquals (cls : Cls) (refent l10nent : PEnt) : Except PyErr Bool :=
  match cls with
  | .fluent =>
    match refent.ftl, l10nent.ftl with
    | some a, some b => .ok (a.2 == b.2)
    | _, _ => .error .attributeError
  | _ => .ok (refent.key == l10nent.key && refent.val == l10nent.val)

/-- `skip.span`: `(None, None)` for an `AndroidEntity`, `(0, 0)` for an `XMLJunk` -/
def spanOf (cls : Cls) (e : PEnt) : Option (Nat × Nat) :=
  match cls with
  | .node => if e.junk then some (0, 0) else none
  | _ => some (e.entry.s, e.entry.e)

/-! ### the comparison -/

/-- what `compare` is called with, besides the two parsed files -/
structure Env where
  /-- `p.capabilities` -/
  caps : Nat
  cls : Cls
  /-- `getChecker(l10n, extra_tests=None)`, after `set_reference` -/
  ck : CkCtx
  /-- the localized `File` (path segments and locale are what the observers look at) -/
  file : ObsM.File
  /-- `merge_file is not None` -/
  mergeOn : Bool
  /-- `ctx.contents` of the localized file -/
  l10nText : Array Nat

/-- `self.observers.notify(category, l10n, data)` -/
def notify (env : Env) (obs : ObsM.ObsList) (cat : ObsM.Cat) (data : ObsM.Data) : Except PyErr (ObsM.ObsList × ObsM.Ret) :=
  match obs.notify cat env.file data with
  | .error e => .error (.observer e)
  | .ok r => .ok r

/-- local variables of `compare` -/
structure LoopSt where
  obs : ObsM.ObsList
  stats : Cmp.Stats := {}
  /-- `missings` -/
  missings : List Cmp.Key := []
  /-- `skips` (entity objects; `in` compares by identity) -/
  skips : List PEnt := []

def sevCat : Checks.Severity → ObsM.Cat
  | .error => .error
  | .warning => .warning

/-- `for tp, pos, msg, cat in checker.check(refent, l10nent): …` -/
def checkLoop (env : Env) (refent l10nent : PEnt) :
    List CheckRes → ObsM.ObsList × List PEnt → Except PyErr (ObsM.ObsList × List PEnt)
  | [], st => .ok st
  | c :: cs, (obs, skips) =>
    -- `l10nent.position(pos)` for an EntityPos, else `l10nent.value_position(pos)` (a Junk has none)
    match resolvePos env.l10nText env.cls l10nent c.pos with
    | none => .error (if l10nent.junk then .attributeError else .assertionError)
    | some (line, col) =>
      let skips := if c.sev == .error && env.mergeOn && !skips.contains l10nent then skips ++ [l10nent] else skips
      match notify env obs (sevCat c.sev) (.str (checkMsg c.msg line col refent.key)) with
      | .error e => .error e
      | .ok (obs', _) => checkLoop env refent l10nent cs (obs', skips)

/-- one iteration of `for action, entity_id in ar:` -/
def step (env : Env) (ref l10n : List PEnt) (st : LoopSt) (p : AR.Label × Cmp.Key) : Except PyErr LoopSt :=
  let entityId := p.2
  match p.1 with
  | .delete =>
    match lookup ref entityId with
    | .error e => .error e
    | .ok refent =>
      if refent.junk then
        match notify env st.obs .warning (.str Gen.Tables.cmpRefJunkMsg) with
        | .error e => .error e
        | .ok (obs, _) => .ok { st with obs := obs }
      else
        match notify env st.obs .missingEntity (keyData entityId) with
        | .error e => .error e
        | .ok (obs, rv) =>
          match rv with
          | .ignore => .ok { st with obs := obs }
          | .error =>
            .ok { st with obs := obs, missings := st.missings ++ [entityId],
                          stats := { st.stats with missing := st.stats.missing + 1,
                                                   missing_w := st.stats.missing_w + refent.words } }
          | .warning => .ok { st with obs := obs, stats := { st.stats with report := st.stats.report + 1 } }
  | .add =>
    match lookup l10n entityId with
    | .error e => .error e
    | .ok l10nent =>
      if l10nent.junk then
        match junkMessage env.l10nText env.cls l10nent with
        | .error e => .error e
        | .ok msg =>
          match notify env st.obs .error (.str msg) with
          | .error e => .error e
          | .ok (obs, _) =>
            .ok { st with obs := obs, skips := if env.mergeOn then st.skips ++ [l10nent] else st.skips }
      else
        match notify env st.obs .obsoleteEntity (keyData entityId) with
        | .error e => .error e
        | .ok (obs, rv) =>
          if rv != .ignore then .ok { st with obs := obs, stats := { st.stats with obsolete := st.stats.obsolete + 1 } }
          else .ok { st with obs := obs }
  | .equal =>
    match lookup ref entityId, lookup l10n entityId with
    | .error e, _ => .error e
    | .ok _, .error e => .error e
    | .ok refent, .ok l10nent =>
      let stats : Except PyErr Cmp.Stats :=
        if Cmp.keyMatch entityId then .ok { st.stats with keys := st.stats.keys + 1 }
        else if refent.junk then .error .attributeError          -- `refent.equals`: a Junk has no `equals`
        else
          match entEquals env.cls refent l10nent with
          | .error e => .error e
          | .ok true =>
            .ok { st.stats with unchanged := st.stats.unchanged + 1,
                                unchanged_w := st.stats.unchanged_w + refent.words }
          | .ok false =>
            .ok { st.stats with changed := st.stats.changed + 1,
                                changed_w := st.stats.changed_w + refent.words }
      match stats with
      | .error e => .error e
      | .ok stats =>
        match runChecker env.ck refent l10nent with
        | .error e => .error e
        | .ok results =>
          match checkLoop env refent l10nent results (st.obs, st.skips) with
          | .error e => .error e
          | .ok (obs, skips) => .ok { st with obs := obs, stats := stats, skips := skips }

/-- the two `findDuplicates` loops: one notification per key that occurs more than once -/
def notifyDups (env : Env) (cat : ObsM.Cat) : List (Cmp.Key × Nat) → ObsM.ObsList → Except PyErr ObsM.ObsList
  | [], obs => .ok obs
  | (k, n) :: rest, obs =>
    match notify env obs cat (.str (dupMsg k n)) with
    | .error e => .error e
    | .ok (obs', _) => notifyDups env cat rest obs'

def capsOf : P.Fmt → Nat
  | .properties => Gen.Tables.cap_properties
  | .dtd => Gen.Tables.cap_dtd
  | .ini => Gen.Tables.cap_ini
  | .inc => Gen.Tables.cap_inc
  | .po => Gen.Tables.cap_po

/-- `ref_entities[key].all` -/
def refAllOf (ref : List PEnt) (k : Cmp.Key) : Except PyErr Text :=
  match lookup ref k with
  | .error e => .error e
  | .ok r => .ok r.all

/-- the entry of `skips` as `merge` sees it (`skip.span`, Junk or not, `ref_entities[skip.key].all`) -/
def mkSkip (cls : Cls) (ref : List PEnt) (sk : PEnt) : Except PyErr Merge.Skip :=
  if sk.junk then .ok { span := spanOf cls sk, junk := true, refAll := [] }
  else
    match refAllOf ref sk.key with
    | .error e => .error e
    | .ok all => .ok { span := spanOf cls sk, junk := false, refAll := all }

/-- `self.merge(ref_entities, ref_file, l10n, merge_file, missings, skips, l10n_ctx, p.capabilities, p.encoding)` -/
def doMerge (env : Env) (ref : List PEnt) (missings : List Cmp.Key) (skips : List PEnt) : Except PyErr Merge.Outcome :=
  if !env.mergeOn then .ok .nothing else
  match mapE (refAllOf ref) missings with
  | .error e => .error e
  | .ok missingAlls =>
    match mapE (mkSkip env.cls ref) skips with
    | .error e => .error e
    | .ok sks =>
      match Merge.merge true env.caps env.l10nText.toList sks missingAlls with
      | .typeError => .error .typeError
      | o => .ok o

def statKeyOf (name : String) : Option ObsM.StatKey := ObsM.StatKey.all.find? (fun k => k.name == name)

/-- the `stats` dict handed to `updateStats` -/
def statsList (s : Cmp.Stats) : List (ObsM.StatKey × Nat) :=
  s.toDict.filterMap (fun p => (statKeyOf p.1).map (fun k => (k, p.2)))

/-- `ContentComparer.compare` after both files were read and parsed -/
def compareParsed (env : Env) (ref l10n : List PEnt) (obs0 : ObsM.ObsList) : Except PyErr (ObsM.ObsList × Merge.Outcome) :=
  let rk := ref.map (·.key)
  let lk := l10n.map (·.key)
  let ar := AR.addRemove rk lk
  match notifyDups env .warning (Hist.findDuplicates rk) obs0 with
  | .error e => .error e
  | .ok obs1 =>
    match notifyDups env .error (Hist.findDuplicates lk) obs1 with
    | .error e => .error e
    | .ok obs2 =>
      match foldE (step env ref l10n) ar { obs := obs2 } with
      | .error e => .error e
      | .ok st =>
        match doMerge env ref st.missings st.skips with
        | .error e => .error e
        | .ok outcome => .ok (st.obs.updateStats env.file (statsList st.stats), outcome)

/-! ### the report -/

/-- what `observers.toJSON()` shows after the comparison, and what happened to the merge file -/
structure Report where
  /-- `toJSON()["summary"]`: locale ↦ the eleven counters -/
  summary : List (Option Text × List (ObsM.StatKey × Nat))
  /-- `toJSON()["details"]`: dict keys from the root ↦ list of `{category: data}` items -/
  details : List (List Text × List ObsM.Detail)
  merge : Merge.Outcome
  deriving DecidableEq, Repr

def reportOf (l : ObsM.ObsList) (m : Merge.Outcome) : Report :=
  { summary := l.own.summary.map (fun p => (p.1, ObsM.StatKey.all.map (fun k => (k, p.2 k)))),
    details := (TreeM.toJSON l.own.details).leaves,
    merge := m }

/-- the environment of `compare` for a format with a regex parser: the checker `getChecker(l10n)` returns for the
    file name of the format, with `checker.locale = l10n.locale` and (DTD) `set_reference(ref_entities)` -/
def envOf (ext : Ext) (fmt : P.Fmt) (file : ObsM.File) (mergeOn : Bool) (ref : List PEnt) (l10nText : Array Nat) : Env :=
  { caps := capsOf fmt, cls := clsOf fmt,
    ck := { kind := checkerOf fmt, locale := file.locale, xml := ext.xml, refVals := ref.map (·.raw) },
    file := file, mergeOn := mergeOn, l10nText := l10nText }

/-- `ContentComparer.compare(ref_file, l10n, merge_file)` for a format with a regex parser, on decoded texts, in a
    process whose `Junk.junkid` is 0, reporting to `obs0` -/
def compareFiles (ext : Ext) (fmt : P.Fmt) (file : ObsM.File) (obs0 : ObsM.ObsList) (refText l10nText : Array Nat)
    (mergeOn : Bool) : Except PyErr Report :=
  match parseFile ext fmt refText 0 with
  | .error e => .error e
  | .ok (ref, n1) =>
    match parseFile ext fmt l10nText n1 with
    | .error e => .error e
    | .ok (l10n, _) =>
      match compareParsed (envOf ext fmt file mergeOn ref l10nText) ref l10n obs0 with
      | .error e => .error e
      | .ok (obs, outcome) => .ok (reportOf obs outcome)

/-- the file name the harness uses for a format (`a.ini`, `a.inc`, `a.po`, `a.properties`, `a.dtd`) -/
def fileName : P.Fmt → Text
  | .properties => [97, 46, 112, 114, 111, 112, 101, 114, 116, 105, 101, 115]
  | .dtd => [97, 46, 100, 116, 100]
  | .ini => [97, 46, 105, 110, 105]
  | .inc => [97, 46, 105, 110, 99]
  | .po => [97, 46, 112, 111]

/-- `File(path, "a.<ext>", locale="de")` (a locale with known plural categories, so that the plural check is active) -/
def stdFile (fmt : P.Fmt) : ObsM.File := { file := fileName fmt, module := none, locale := some [100, 101] }

/-- `cc = ContentComparer(); cc.observers.append(Observer())` -/
def stdObs : ObsM.ObsList := ObsM.ObsList.init 0 [ObsM.Obs.init 0 none]

/-- the whole comparison with one unfiltered observer -/
def compareTexts (ext : Ext) (fmt : P.Fmt) (refText l10nText : Array Nat) (mergeOn : Bool) : Except PyErr Report :=
  compareFiles ext fmt (stdFile fmt) stdObs refText l10nText mergeOn

/-! ### Fluent and Android: the pipeline from the external parser's output on

`fluent.syntax` and `xml.dom.minidom` are external: what they return is the INPUT here (entry kinds with spans and
the AST summary of C08's model; the node summary of C09's model).  Everything after that is modelled: the walk that
turns the body into entries (`P.fluentEntry`, C01), `Junk.junkid`, keys / `all`, the checker, the comparison. -/

/-- one entry of `resource.body` -/
structure FtlItem where
  fe : P.FEntry
  /-- the AST of a Message / Term -/
  ast : Option Ftl.Entry := none
  /-- `count_words()`: the `WordCounter` visitor over the AST -/
  words : Nat := 0
  /-- class of the AST under `BaseNode.equals(other, ignored_fields)` -/
  eqc : Nat := 0

/-- the objects `FluentParser.walk(only_localizable=True)` yields for one body entry, with `Junk.junkid = n` before -/
def ftlItemEnts (s : Array Nat) (it : FtlItem) : List P.Entry → Nat → List PEnt × Nat
  | [], n => ([], n)
  | e :: es, n =>
    if e.kind == .junk then
      let r := ftlItemEnts s it es (n + 1)
      (mkJunk s e (n + 1) :: r.1, r.2)
    else
      let r := ftlItemEnts s it es n
      -- FluentEntity: `pre_comment = None`, `key` / `raw_val` are slices of the contents, `val_span` may be None
      ({ entry := e, junk := false, key := .str (P.pySlice s e.ks e.ke), val := P.pySlice s e.vs e.ve,
         raw := P.pySlice s e.vs e.ve, all := P.Entry.all s e, comment := none, words := it.words,
         ftl := it.ast.map (fun a => (a, it.eqc)) } :: r.1, r.2)

/-- `p.readUnicode(text); p.parse()` of `FluentParser` given `resource.body` -/
def parseFtl (s : Array Nat) : List FtlItem → Nat → List PEnt × Nat
  | [], n => ([], n)
  | it :: rest, n =>
    let a := ftlItemEnts s it (P.fluentEntry s true it.fe) n
    let b := parseFtl s rest a.2
    (a.1 ++ b.1, b.2)

/-- `a.ftl` -/
def ftlFileName : Text := [97, 46, 102, 116, 108]

def ftlEnv (file : ObsM.File) (mergeOn : Bool) (l10nText : Array Nat) : Env :=
  { caps := Gen.Tables.cap_ftl, cls := .fluent, ck := { kind := .fluent, locale := file.locale },
    file := file, mergeOn := mergeOn, l10nText := l10nText }

/-- what the external parser did with one text: it returned `resource.body`, or it raised (class name, `str(e)`) — e.g.
    RecursionError "maximum recursion depth exceeded" on ~200 nested placeables (fluent.syntax is recursive descent) -/
inductive FtlParse
  | body (items : List FtlItem)
  | raises (name : String) (msg : Text)

/-- `File(path, "a.ftl" | "strings.xml", locale=None)`: the reference file as the harness passes it -/
def refFileNamed (name : Text) : ObsM.File := { file := name, module := none, locale := none }

/-- `ContentComparer.compare` on two `.ftl` files, from what `fluent.syntax` did with the two texts.
    Reading + parsing the reference is inside a `try` (upstream fix d91dd73): an exception becomes
    `notify("error", ref_file, str(e))` and `compare` returns; the same for the localization with
    `notify("error", l10n, str(e))` (no merge, no statistics in either case). -/
def compareFtlP (refFile file : ObsM.File) (obs0 : ObsM.ObsList) (l10nText : Array Nat) (refText : Array Nat)
    (refParse l10nParse : FtlParse) (mergeOn : Bool) : Except PyErr Report :=
  match refParse with
  | .raises _ msg =>
    match obs0.notify .error refFile (.str msg) with
    | .error e => .error (.observer e)
    | .ok (obs, _) => .ok (reportOf obs .nothing)
  | .body refBody =>
    match l10nParse with
    | .raises _ msg =>
      match obs0.notify .error file (.str msg) with
      | .error e => .error (.observer e)
      | .ok (obs, _) => .ok (reportOf obs .nothing)
    | .body l10nBody =>
      let r := parseFtl refText refBody 0
      let l := parseFtl l10nText l10nBody r.2
      match compareParsed (ftlEnv file mergeOn l10nText) r.1 l.1 obs0 with
      | .error e => .error e
      | .ok (obs, outcome) => .ok (reportOf obs outcome)

/-- the same when the parser returned a body for both texts -/
def compareFtl (file : ObsM.File) (obs0 : ObsM.ObsList) (l10nText : Array Nat) (refText : Array Nat)
    (refBody l10nBody : List FtlItem) (mergeOn : Bool) : Except PyErr Report :=
  compareFtlP (refFileNamed ftlFileName) file obs0 l10nText refText (.body refBody) (.body l10nBody) mergeOn

/-- one object of `AndroidParser.walk(only_localizable=True)`: an `XMLJunk(all)` (the whole text when minidom
    rejects it, `doc.toxml()` for a foreign root, `element.toxml()` for a child that is no named `<string>`) or an
    `AndroidEntity` with its `name` attribute, the text of the attached comment + white-space, and the node -/
inductive AItem
  | junk (all : Text)
  | entity (key : Text) (pre : Text) (node : Android.Node)

/-- an Android object has no spans -/
def noSpan (k : P.Kind) : P.Entry := { kind := k, full := 0, s := 0, e := 0 }

/-- `p.parse()` of `AndroidParser` given the walk's objects: `XMLJunk.__init__` bumps `Junk.junkid` with span (0, 0) -/
def parseAndroid : List AItem → Nat → List PEnt × Nat
  | [], n => ([], n)
  | .junk all :: rest, n =>
    let r := parseAndroid rest (n + 1)
    ({ entry := noSpan .junk, junk := true, key := .str (junkKeyText (n + 1) 0 0), val := all, raw := all, all := all,
       comment := none } :: r.1, r.2)
  | .entity key pre node :: rest, n =>
    let r := parseAndroid rest n
    let e := Android.mkEntity node pre
    ({ entry := noSpan .entity, junk := false, key := .str key, val := e.val, raw := e.val, all := e.all, comment := none,
       words := Cmp.countWords e.val, node := some node } :: r.1, r.2)

/-- `strings.xml` -/
def androidFileName : Text := [115, 116, 114, 105, 110, 103, 115, 46, 120, 109, 108]

def androidEnv (file : ObsM.File) (mergeOn : Bool) (l10nText : Array Nat) : Env :=
  { caps := Gen.Tables.cap_android, cls := .node, ck := { kind := .android, locale := file.locale },
    file := file, mergeOn := mergeOn, l10nText := l10nText }

/-- `ContentComparer.compare` on two `strings.xml` files, from the objects the walk over the minidom tree yields -/
def compareAndroid (file : ObsM.File) (obs0 : ObsM.ObsList) (l10nText : Array Nat) (refItems l10nItems : List AItem)
    (mergeOn : Bool) : Except PyErr Report :=
  let r := parseAndroid refItems 0
  let l := parseAndroid l10nItems r.2
  match compareParsed (androidEnv file mergeOn l10nText) r.1 l.1 obs0 with
  | .error e => .error e
  | .ok (obs, outcome) => .ok (reportOf obs outcome)

/-- `File(path, "a.ftl" | "strings.xml", locale="de")` -/
def fileNamed (name : Text) : ObsM.File := { file := name, module := none, locale := some [100, 101] }

/-! ### whole files: `ContentComparer.add` (missing localized file) and `ContentComparer.remove` (obsolete file) -/

/-- `ContentComparer.add(orig, missing, merge_file)` for a format with a regex parser: the reference is copied to the
    merge stage when the parser can copy or merge (`["trigger copy"]` stands for the missing strings), `missingFile` is
    notified, and unless the filters ignore the file the Entities of the reference and their words are counted as
    missing.  (`except Exception` around `readFile` / `parse` is not modelled: parsing never raises, `C05.parse_never_stuck`,
    `Pipe.parseFile_ok`.) -/
def addFile (ext : Ext) (fmt : P.Fmt) (file : ObsM.File) (obs0 : ObsM.ObsList) (refText : Array Nat) (mergeOn : Bool) :
    Except PyErr Report :=
  let caps := capsOf fmt
  let outcome : Merge.Outcome :=
    if Merge.hasCap caps Gen.Tables.CAN_COPY || Merge.hasCap caps Gen.Tables.CAN_MERGE then
      Merge.merge mergeOn Gen.Tables.CAN_COPY [] [] [[]]
    else .nothing
  match obs0.notify .missingFile file .none with
  | .error e => .error (.observer e)
  | .ok (obs, rv) =>
    if rv == .ignore then .ok (reportOf obs outcome) else
    match parseFile ext fmt refText 0 with
    | .error e => .error e
    | .ok (ents, _) =>
      let es := ents.filter (fun e => !e.junk)
      let obs1 := obs.updateStats file [(.missing, es.length)]
      let obs2 := obs1.updateStats file [(.missing_w, (es.map (·.words)).sum)]
      .ok (reportOf obs2 outcome)

/-- `ContentComparer.remove(ref_file, l10n, merge_file)`: `obsoleteFile` is notified and the localized file copied to
    the merge stage -/
def removeFile (file : ObsM.File) (obs0 : ObsM.ObsList) (mergeOn : Bool) : Except PyErr Report :=
  match obs0.notify .obsoleteFile file .none with
  | .error e => .error (.observer e)
  | .ok (obs, _) => .ok (reportOf obs (Merge.merge mergeOn Gen.Tables.CAN_COPY [] [] []))

/-- a family of filters for the correspondence: the verdict depends on the length of the entity id (file level: on
    `k` alone), so that all three verdicts occur for files, entities and the `entity=""` probe of `updateStats` -/
def testFilter (k : Nat) : ObsM.Filter := fun _ d =>
  let pick : Nat → ObsM.Ret := fun n => if n % 3 == 0 then .error else if n % 3 == 1 then .warning else .ignore
  match d with
  | .none => pick k
  | .str t => pick (t.length + k)
  | .tuple ps => pick ((match ps with | some t :: _ => t.length | _ => 0) + k)

/-- `cc = ContentComparer(); cc.observers.append(Observer(filter=testFilter k))` -/
def filterObs (k : Nat) : ObsM.ObsList := ObsM.ObsList.init 0 [ObsM.Obs.init 0 (some (testFilter k))]

/-! ### lint -/

def sevText : Checks.Severity → Text
  | .error => [101, 114, 114, 111, 114]
  | .warning => [119, 97, 114, 110, 105, 110, 103]

def toLintCheck (c : CheckRes) : Lint.Check :=
  { level := sevText c.sev,
    pos := (match c.pos with
      | .entityPos n => .entity n
      | .offset n => .value n
      | .tuple l cc => .lineCol l cc),
    msg := c.msg }

/-- `paths.REFERENCE_LOCALE`: "en-x-moz-reference" -/
def referenceLocale : Text := [101, 110, 45, 120, 45, 109, 111, 122, 45, 114, 101, 102, 101, 114, 101, 110, 99, 101]

def modeOf : Cls → Lint.Mode
  | .plain => .ctx
  | .dtd => .dtd
  | .fluent => .fluent
  | .node => .node

/-- the class of an entry under `equals`: key and val for `Entry.equals`, the AST class for `FluentEntity.equals`;
    `vals` fixes the numbering of the value classes -/
def eqOf (cls : Cls) (vals : List Text) (e : PEnt) : Nat :=
  match cls, e.ftl with
  | .fluent, some (_, c) => c
  | _, _ => vals.idxOf e.val

/-- the entity as the linter model sees it -/
def toLintEnt (c : CkCtx) (cls : Cls) (vals : List Text) (e : PEnt) : Except PyErr Lint.Ent :=
  if e.junk then
    .ok { kind := .junk, key := keyText e.key, eq := eqOf cls vals e, mode := (if cls == .node then .node else .ctx),
          s := e.entry.s, e := e.entry.e, lit := e.all }
  else
    match runChecker c e e with
    | .error x => .error x
    | .ok rs =>
      .ok { kind := .entity, key := keyText e.key, eq := eqOf cls vals e, mode := modeOf cls, s := e.entry.s, e := e.entry.e,
            vs := Pos.valSpan (cls == .fluent) e.entry, checks := rs.map toLintCheck }

def toRefEnt (cls : Cls) (vals : List Text) (e : PEnt) : Lint.RefEnt := { key := keyText e.key, eq := eqOf cls vals e }

/-- `current_entity.equals(reference_entity)` of a FluentEntity against a `Junk` of the reference under the same key:
    `other.entry` raises AttributeError -/
def lintJunkClash (cls : Cls) (reference cur : List PEnt) : Bool :=
  cls == .fluent && cur.any (fun e => !e.junk &&
    (match lookup reference e.key with
     | .ok r => r.junk
     | .error _ => false))

/-- `reference = {}` when there is no reference file -/
def refList : Option (List PEnt) → List PEnt
  | some r => r
  | none => []

/-- `lint_file` after parsing: `reference = none` stands for `reference = {}` (no reference file).  The checker is
    `getChecker(File(path, path, locale=REFERENCE_LOCALE))` with `set_reference(current)`. -/
def lintParsed (ext : Ext) (path : Text) (kind : CheckerKind) (cls : Cls) (reference : Option (List PEnt))
    (curText : Array Nat) (cur : List PEnt) : Except PyErr (List Lint.Result) :=
  let ref : List PEnt := refList reference
  let vals := (ref ++ cur).map (·.val)
  let c : CkCtx := { kind := kind, locale := some referenceLocale, xml := ext.xml, refVals := cur.map (·.raw) }
  if lintJunkClash cls ref cur then .error .attributeError else
  match mapE (toLintEnt c cls vals) cur with
  | .error e => .error e
  | .ok ents =>
    match Lint.lintFile { path := path, contents := curText, cur := ents,
                          ref := reference.map (fun r => r.map (toRefEnt cls vals)) } with
    | .error x => .error (.lint x)
    | .ok rs => .ok rs

/-- `list(L10nLinter().lint_file(path, ref, None))` on decoded texts (`refText = none`: no reference file), in a
    process whose `Junk.junkid` is 0: the reference is parsed first -/
def lintText (ext : Ext) (fmt : P.Fmt) (refText : Option (Array Nat)) (curText : Array Nat) : Except PyErr (List Lint.Result) :=
  match refText with
  | none =>
    match parseFile ext fmt curText 0 with
    | .error e => .error e
    | .ok (cur, _) => lintParsed ext (fileName fmt) (checkerOf fmt) (clsOf fmt) none curText cur
  | some t =>
    match parseFile ext fmt t 0 with
    | .error e => .error e
    | .ok (ref, n1) =>
      match parseFile ext fmt curText n1 with
      | .error e => .error e
      | .ok (cur, _) => lintParsed ext (fileName fmt) (checkerOf fmt) (clsOf fmt) (some ref) curText cur

/-- `lint_file` on an `.ftl` file from the bodies of the external parser -/
def lintFtl (refText : Option (Array Nat × List FtlItem)) (curText : Array Nat) (curBody : List FtlItem) :
    Except PyErr (List Lint.Result) :=
  match refText with
  | none => lintParsed default ftlFileName .fluent .fluent none curText (parseFtl curText curBody 0).1
  | some (t, body) =>
    let r := parseFtl t body 0
    lintParsed default ftlFileName .fluent .fluent (some r.1) curText (parseFtl curText curBody r.2).1

/-- the ONE result `lint_file` yields when reading / parsing the reference or the current file raises (upstream fix
    9f11b8c): `{"lineno": 1, "column": 1, "level": "error", "message": str(e)}` -/
def lintParseError (msg : Text) : Lint.Result :=
  { lineno := (Gen.Tables.lintParseErrLine : Int), column := (Gen.Tables.lintParseErrCol : Int),
    level := Gen.Tables.lintParseErrLevel, message := msg }

/-- `lint_file` on an `.ftl` file from what `fluent.syntax` did with the texts: the reference is parsed first -/
def lintFtlP (refT : Option (Array Nat × FtlParse)) (curText : Array Nat) (cur : FtlParse) : Except PyErr (List Lint.Result) :=
  match refT with
  | some (_, .raises _ msg) => .ok [lintParseError msg]
  | some (t, .body rb) =>
    (match cur with
     | .raises _ msg => .ok [lintParseError msg]
     | .body cb => lintFtl (some (t, rb)) curText cb)
  | none =>
    (match cur with
     | .raises _ msg => .ok [lintParseError msg]
     | .body cb => lintFtl none curText cb)

/-- `lint_file` on a `strings.xml` file from the walk's objects -/
def lintAndroid (refItems : Option (List AItem)) (curText : Array Nat) (curItems : List AItem) :
    Except PyErr (List Lint.Result) :=
  match refItems with
  | none => lintParsed default androidFileName .android .node none curText (parseAndroid curItems 0).1
  | some items =>
    let r := parseAndroid items 0
    lintParsed default androidFileName .android .node (some r.1) curText (parseAndroid curItems r.2).1

/-! ### compatibility with the models built on the four-format pipeline (C03 sessions, C10 composed world, C17)

Added when the DTD coverage was integrated; nothing above depends on it. -/

/-- ini / inc / po / properties: the formats of the base `Entity` class (`clsOf = .plain`) whose parse and comparison
    consult NO external function (`PipeBridge.parseFile_ext_irrel`, `PipeBridge.compareFiles_ext_irrel` in
    Proofs/FixPipeBridge.lean) — what `checkerOf fmt ≠ none` / `covered fmt` said before DTD was covered.  The composed
    models of C03 (Compare/Session.lean) and C10 (Compare/ProjectsPipe.lean) carry the COMPARISON of these only: their
    wire formats have no table of expat verdicts and their calls no `extra_tests` ("android-dtd"). -/
def plainFmt : P.Fmt → Bool
  | .dtd => false
  | _ => true

end Pipe

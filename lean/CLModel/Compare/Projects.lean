/-
Model of the orchestration layer that GENERATES the events the observers of C10 count (core Lean only):

  compare_locales/compare/__init__.py   compareProjects                      → `compareProjects`
  compare_locales/compare/content.py    ContentComparer.add / remove, the
                                        `getParser` gate of `compare`, the
                                        prints of `merge`                     → `ccAdd`, `ccRemove`, `ccCompare`, `mergeCopy`
  compare_locales/commands.py           CompareLocales.extract_positionals   → `extractPositionals`
                                        CompareLocales.handle                → `handle`
  compare_locales/mozpath.py            relpath, abspath (posixpath.relpath,
                                        abspath, normpath, join)             → `relpath`, `abspath`, `normpath`, `join2`

What is MODELLED here (transliterated, same branches in the same order):
* the observers created per project (filter disabled when `None in locales`), `all_locales`, `sorted(all_locales)`;
* per locale the clobber gate, per enumerated tuple the `module`/`fpath` computation (first matching matcher, `break`),
  the two `File` objects, the `REFERENCE_LOCALE` substitution (the loop variable `locale` is re-assigned INSIDE the inner
  loop), and the three-way decision add / remove / compare;
* `ContentComparer.add` and `remove` completely (observer side + the `print` of `merge`), of `compare` the `getParser`
  gate;
* of `handle`: `extract_positionals`, `config_env`, the `OSError` path, the printed blocks, the JSON data, the exit status.

What is an INPUT (record `World`; the driver operation instantiates it with other models or with tables):
* `projectFiles locale` = `paths.ProjectFiles(locale, project_configs, mergebase=merge_stage)`: its `matchers` (what
  `compareProjects` reads of them) and `list(files)`  — the model of C13 (`Paths/ProjectFiles*.lean`) in `c10.cpm`,
  tables read off the real objects in `c10.cp`;
* `pathExists` = `os.path.exists`, `isdir`/`isfile`, the current directory;
* `parserCaps name` = `parser.getParser(name).capabilities`; `parseRef` = what `add` learns from reading and parsing the
  reference file; `compareBody` = `ContentComparer.compare` after its `getParser` gate, as a transformer of the
  observers (the composed pipeline model of C05, `Pipe.compareParsed`, in the driver operations);
* `makeMergeDir` = `os.makedirs(dirname(merge_file), exist_ok=True)` failing with an `OSError`;
* `loadConfigs` = `TOMLParser().parse(...)`/`EnumerateApp(...).asConfig()` + `set_locales(..., deep=True)`: the projects
  (their `filter` and `all_locales`).

`St.calls` is a ghost trace of the `ContentComparer` methods called (compared with a recording wrapper around the real
methods); `St.out` are the `print` calls so far; `St.junk` is the process-wide `parser.Junk.junkid`.
-/
import CLModel.Compare.Observer
import CLModel.Compare.Merge
import CLModel.Gen.Cmd
import CLModel.Gen.Tables
namespace ProjM
open TreeM ObsM

abbrev Path := Text

/-- exceptions of the orchestration layer, by class -/
inductive PyErr
  | observer (e : TreeM.PyErr)   -- raised inside an observer / a serializer
  | typeError                    -- `sorted` over `None` and `str`; `os.path.exists(None)`; `{Matcher, …}` (unhashable)
  | valueError                   -- `os.path.relpath("")`; `str.partition("")`
  | osError (msg : Text)         -- any `OSError`: `handle` prints `FAIL: msg` and exits with 2
  | external (name : String)     -- an exception of an INPUT component, by class name
  | unmodelled                   -- `File(..., file=None)`: `fpath or refpath` with both falsy
  deriving Repr, DecidableEq, Inhabited

def PyErr.name : PyErr → String
  | .observer e => e.name
  | .typeError => "TypeError"
  | .valueError => "ValueError"
  | .osError _ => "OSError"
  | .external n => n
  | .unmodelled => "Unmodelled"

/-! ### `mozpath` -/

def dot : Text := [46]
def dotdot : Text := [46, 46]

/-- `posixpath.isabs` -/
def isAbs (p : Path) : Bool := p.head? == some 47

/-- `posixpath.join(a, b)` -/
def join2 (a b : Path) : Path :=
  if isAbs b then b
  else if a.isEmpty || a.getLast? == some 47 then a ++ b
  else a ++ 47 :: b

/-- the loop of `posixpath.normpath` over `path.split("/")`; `acc` is `new_comps` reversed -/
def normLoop (initial : Bool) : List Text → List Text → List Text
  | [], acc => acc.reverse
  | c :: cs, acc =>
    if c.isEmpty || c == dot then normLoop initial cs acc
    else if c != dotdot || (!initial && acc.isEmpty) || acc.head? == some dotdot then normLoop initial cs (c :: acc)
    else
      match acc with
      | _ :: acc' => normLoop initial cs acc'
      | [] => normLoop initial cs acc

/-- `posixpath.normpath` -/
def normpath (p : Path) : Path :=
  if p.isEmpty then dot
  else
    -- POSIX: exactly two leading slashes are kept
    let slashes := if p.take 2 == [47, 47] && p.take 3 != [47, 47, 47] then 2 else if isAbs p then 1 else 0
    let r := List.replicate slashes 47 ++ joinSlash (normLoop (slashes != 0) (splitSlash p) [])
    if r.isEmpty then dot else r

/-- `mozpath.abspath` = `os.path.abspath` in the directory `cwd` -/
def abspath (cwd p : Path) : Path := normpath (if isAbs p then p else join2 cwd p)

/-- `[x for x in abspath(p).split("/") if x]` -/
def absParts (cwd p : Path) : List Text := (splitSlash (abspath cwd p)).filter (fun x => !x.isEmpty)

/-- `os.path.relpath(path, start)` -/
def osRelpath (cwd path start : Path) : Except PyErr Path :=
  if path.isEmpty then .error .valueError
  else
    let startList := absParts cwd start
    let pathList := absParts cwd path
    let i := lcp startList pathList          -- len(commonprefix([start_list, path_list]))
    let rel := List.replicate (startList.length - i) dotdot ++ pathList.drop i
    if rel.isEmpty then .ok dot else .ok (joinSlash rel)

/-- `mozpath.relpath(path, start)`: `"" if rel == "." else rel` -/
def relpath (cwd path start : Path) : Except PyErr Path :=
  match osRelpath cwd path start with
  | .error e => .error e
  | .ok rel => .ok (if rel == dot then [] else rel)

/-! ### `sorted(all_locales)` -/

/-- insertion into a strictly sorted list (a set) -/
def insertText (x : Text) : List Text → List Text
  | [] => [x]
  | y :: ys => if x == y then y :: ys else if textLe x y then x :: y :: ys else y :: insertText x ys

/-- `sorted(set(l))` for `str` elements -/
def sortedSet (l : List Text) : List Text := l.foldr insertText []

/-- `sorted(all_locales)` for a set of `None`/`str`: a `None` next to a `str` cannot be compared (`TypeError`) -/
def sortedLocales (l : List (Option Text)) : Except PyErr (List (Option Text)) :=
  if !l.any (·.isNone) then .ok ((sortedSet (l.filterMap id)).map some)
  else if (l.filterMap id).isEmpty then .ok [none]
  else .error .typeError

/-! ### the inputs -/

/-- a `ProjectConfig` as far as `compareProjects` reads it -/
structure Project where
  /-- `project.filter` -/
  filter : Filter
  /-- `project.all_locales` (a frozenset: only used in `set.update`) -/
  allLocales : List Text

/-- one element of `files.matchers` as far as `compareProjects` reads it -/
structure MatcherInfo where
  /-- `_m["l10n"].match(path) is not None` -/
  l10nMatch : Path → Bool
  /-- `_m["l10n"].prefix` -/
  l10nPrefix : Path
  /-- `_m["module"]` -/
  module : Option Text
  /-- `_m.get("merge")` is a `Matcher` -/
  hasMerge : Bool

/-- one tuple yielded by a `ProjectFiles` object -/
structure Item where
  l10n : Path
  ref : Option Path
  merge : Option Path
  /-- `extra_tests` (a set of test names, as sorted ids) -/
  tests : List Nat
  deriving DecidableEq, Repr, Inhabited

/-- a `ProjectFiles` object: `files.matchers` and `list(files)` -/
structure Files where
  matchers : List MatcherInfo
  items : List Item

/-- which `ContentComparer` method was called with which files (ghost trace) -/
inductive CallKind | add | remove | compare
  deriving DecidableEq, Repr, Inhabited

structure Call where
  kind : CallKind
  ref : File
  refFull : Option Path
  l10n : File
  l10nFull : Path
  merge : Option Path
  tests : List Nat
  deriving DecidableEq, Repr, Inhabited

/-- state of a run -/
structure St where
  /-- `comparer.observers` -/
  obs : ObsList
  /-- the `print` calls so far -/
  out : List Text := []
  /-- ghost: the `ContentComparer` methods called so far -/
  calls : List Call := []
  /-- `parser.Junk.junkid` -/
  junk : Nat := 0

/-- an exception leaves behind what was printed before it -/
abbrev Res := Except (PyErr × List Text) St

def fail (st : St) (e : PyErr) : Res := .error (e, st.out)

structure World where
  cwd : Path
  /-- `paths.ProjectFiles(locale, project_configs, mergebase=merge_stage)` -/
  projectFiles : Option Text → Except PyErr Files
  /-- `os.path.exists(path)` -/
  pathExists : Path → Bool
  /-- `parser.getParser(name).capabilities`; `none` = `UserWarning` -/
  parserCaps : Text → Option Nat
  /-- `p.readFile(f); entities = p.parse()` in `add` for the file with that full path and name, starting at that junk id:
      `str(ex)` or (number of non-Junk entities, sum of their `count_words()`); and the junk id afterwards -/
  parseRef : Option Path → Text → Nat → Except Text (Nat × Nat) × Nat
  /-- `ContentComparer.compare` after its `getParser` gate: new observers, printed lines, junk id -/
  compareBody : Call → Nat → ObsList → Except PyErr (ObsList × List Text × Nat)
  /-- `os.makedirs(dirname(merge_file), exist_ok=True)` raising an `OSError`: `str(exc)` -/
  makeMergeDir : Path → Option Text

/-! ### `ContentComparer.add` / `remove` / `compare` -/

/-- the `print` of `ContentComparer.merge` for an outcome with those capabilities -/
def mergePrint (caps : Nat) (o : Merge.Outcome) (mf : Path) : List Text :=
  match o with
  | .nothing => []
  | .typeError => []
  | .copyRef => if Merge.hasCap caps Gen.Tables.CAN_COPY then [Gen.Cmd.mergeCopiedPrint ++ mf] else []
  | .copyL10n => if Merge.hasCap caps Gen.Tables.CAN_COPY then [Gen.Cmd.mergeCopiedPrint ++ mf] else []
  | .copyL10nPlus _ => [Gen.Cmd.mergeAddingPrint ++ mf]
  | .written _ => if Merge.hasCap caps Gen.Tables.CAN_MERGE then [Gen.Cmd.mergeAddingPrint ++ mf] else []

/-- `self.merge(KeyedTuple([]), ref_file, l10n, merge_file, missing, [], None, parser.CAN_COPY, None)`:
    the call of `add` (`missing = ["trigger copy"]`), of `remove` and of `compare` without a parser (`missing = []`) -/
def mergeCopy (w : World) (mergeFile : Option Path) (missing : List (List Nat)) (st : St) : Res :=
  match mergeFile with
  | none => .ok st
  | some mf =>
    match Merge.merge (!mf.isEmpty) Gen.Tables.CAN_COPY [] [] missing with
    | .nothing => .ok st
    | o =>
      -- `self.create_merge_dir(merge_file)`
      match w.makeMergeDir mf with
      | some msg => fail st (.osError msg)
      | none => .ok { st with out := st.out ++ mergePrint Gen.Tables.CAN_COPY o mf }

/-- `self.observers.notify(category, file, data)` -/
def stNotify (st : St) (cat : Cat) (file : File) (data : Data) : Except (PyErr × List Text) (St × Ret) :=
  match st.obs.notify cat file data with
  | .error e => .error (.observer e, st.out)
  | .ok (l, rv) => .ok ({ st with obs := l }, rv)

/-- the `missing` argument `["trigger copy"]` of the `merge` call in `add`: one (never looked at) entry -/
def triggerCopy : List (List Nat) := [[]]

/-- the first statements of `add`: `caps = p.capabilities if p else parser.CAN_COPY` and, if
    `caps & (parser.CAN_COPY | parser.CAN_MERGE)`, the `merge` call that pretends it can only copy -/
def addMerge (w : World) (c : Call) (st : St) : Res :=
  -- if we don't support this file, assume CAN_COPY
  let caps := match w.parserCaps c.ref.file with | some caps => caps | none => Gen.Tables.CAN_COPY
  if Merge.hasCap caps Gen.Tables.CAN_COPY || Merge.hasCap caps Gen.Tables.CAN_MERGE
  then mergeCopy w c.merge triggerCopy st else .ok st

/-- `ContentComparer.add(orig, missing, merge_file)` -/
def ccAdd (w : World) (c : Call) (st : St) : Res :=
  match addMerge w c st with
  | .error e => .error e
  | .ok st =>
    match stNotify st .missingFile c.l10n .none with
    | .error e => .error e
    | .ok (st, rv) =>
      if rv == .ignore then .ok st          -- filter said that we don't need this file, don't count it
      else
        match w.parserCaps c.ref.file with
        | none => .ok st                    -- We don't have a parser, cannot count missing strings
        | some _ =>
          match w.parseRef c.refFull c.ref.file st.junk with
          | (.error msg, junk) =>
            match stNotify { st with junk := junk } .error c.ref (.str msg) with
            | .error e => .error e
            | .ok (st, _) => .ok st
          | (.ok (n, words), junk) =>
            let obs := st.obs.updateStats c.l10n [(.missing, n)]
            let obs := obs.updateStats c.l10n [(.missing_w, words)]
            .ok { st with obs := obs, junk := junk }

/-- `ContentComparer.remove(ref_file, l10n, merge_file)` -/
def ccRemove (w : World) (c : Call) (st : St) : Res :=
  match stNotify st .obsoleteFile c.l10n .none with
  | .error e => .error e
  | .ok (st, _) => mergeCopy w c.merge [] st

/-- `ContentComparer.compare(ref_file, l10n, merge_file, extra_tests)` -/
def ccCompare (w : World) (c : Call) (st : St) : Res :=
  match w.parserCaps c.ref.file with
  | none => mergeCopy w c.merge [] st       -- no comparison; at least, merge
  | some _ =>
    match w.compareBody c st.junk st.obs with
    | .error e => fail st e
    | .ok (obs, printed, junk) => .ok { st with obs := obs, out := st.out ++ printed, junk := junk }

/-! ### `compareProjects` -/

structure Args where
  locales : List (Option Text)
  l10nBaseDir : Path
  mergeStage : Option Path := none
  clobberMerge : Bool := false
  quiet : Nat := 0

/-- Python truthiness of an optional `str` -/
def truthy : Option Text → Bool
  | some (_ :: _) => true
  | _ => false

/-- `for _m in files.matchers: if _m["l10n"].match(l10npath): …; break` : the new `(module, fpath)` -/
def moduleLoop (cwd l10npath : Path) : List MatcherInfo → Option Text × Path → Except PyErr (Option Text × Path)
  | [], acc => .ok acc
  | m :: rest, acc =>
    if m.l10nMatch l10npath then
      if truthy m.module then
        -- legacy ini support, set module, and resolve local path against the matcher prefix
        match relpath cwd l10npath m.l10nPrefix with
        | .error e => .error e
        | .ok fpath => .ok (m.module, fpath)
      else .ok acc
    else moduleLoop cwd l10npath rest acc

/-- `a or b` for a `str` and an optional `str` -/
def orPath (a : Path) (b : Option Path) : Option Path := if !a.isEmpty then some a else b

/-- which of `add` / `remove` / `compare` the loop body calls, from the two `os.path.exists` answers
    (`none`: `os.path.exists(None)` raises `TypeError`) -/
def decide3 (w : World) (it : Item) : Option CallKind :=
  if !w.pathExists it.l10n then some .add
  else
    match it.ref with
    | none => none
    | some r => if !w.pathExists r then some .remove else some .compare

def runCall (w : World) (c : Call) (st : St) : Res :=
  let st := { st with calls := st.calls ++ [c] }
  match c.kind with
  | .add => ccAdd w c st
  | .remove => ccRemove w c st
  | .compare => ccCompare w c st

/-- the `File` pair and the method of one loop iteration; `locale` is the CURRENT value of the loop variable
    (after the `REFERENCE_LOCALE` substitution) -/
def mkCall (w : World) (base : Path) (files : Files) (locale : Text) (it : Item) : Except PyErr Call :=
  -- module and file path are needed for legacy filter.py support
  match relpath w.cwd it.l10n base with
  | .error e => .error e
  | .ok fpath0 =>
    match moduleLoop w.cwd it.l10n files.matchers (none, fpath0) with
    | .error e => .error e
    | .ok (module, fpath) =>
      match orPath fpath it.ref, orPath fpath (some it.l10n) with
      | some rfile, some lfile =>
        match decide3 w it with
        | none => .error .typeError
        | some kind =>
          .ok { kind := kind, ref := { file := rfile, module := module, locale := none }, refFull := it.ref,
                l10n := { file := lfile, module := module, locale := some locale }, l10nFull := it.l10n,
                merge := it.merge, tests := it.tests }
      | _, _ => .error .unmodelled

/-- the loop variable `locale` after the body ran: "When validating the reference files, set locale to a private
    subtag" — the `if locale is None: locale = paths.REFERENCE_LOCALE` inside the inner loop -/
def localeAfter (locale : Option Text) : Text :=
  match locale with | none => Gen.Cmd.referenceLocale | some l => l

/-- `for l10npath, refpath, mergepath, extra_tests in files: …`; the first component of the state is the loop
    variable `locale` of the OUTER loop, which the body re-assigns -/
def itemLoop (w : World) (base : Path) (files : Files) : List Item → Option Text × St → Except (PyErr × List Text) (Option Text × St)
  | [], acc => .ok acc
  | it :: rest, (locale, st) =>
    let locale := localeAfter locale
    match mkCall w base files locale it with
    | .error e => .error (e, st.out)
    | .ok c =>
      match runCall w c st with
      | .error e => .error e
      | .ok st => itemLoop w base files rest (some locale, st)

/-- the clobber block: `mergematchers = {_m.get("merge") for _m in files.matchers}` hashes `Matcher` objects, which
    define `__eq__` without `__hash__` — `TypeError` as soon as one matcher has a merge matcher (every one has when
    `merge_stage` is given); the `shutil.rmtree` loop below it only ever sees the empty set -/
def clobber (a : Args) (files : Files) (st : St) : Res :=
  if a.mergeStage.isSome && a.clobberMerge then
    if files.matchers.any (·.hasMerge) then fail st .typeError else .ok st
  else .ok st

/-- `for locale in sorted(all_locales): …` -/
def localeLoop (w : World) (a : Args) : List (Option Text) → St → Res
  | [], st => .ok st
  | locale :: rest, st =>
    match w.projectFiles locale with
    | .error e => fail st e
    | .ok files =>
      match clobber a files st with
      | .error e => .error e
      | .ok st =>
        match itemLoop w a.l10nBaseDir files files.items (locale, st) with
        | .error e => .error e
        | .ok (_, st) => localeLoop w a rest st

/-- the observers `compareProjects` creates: the filter is disabled in validation mode -/
def mkObservers (projects : List Project) (a : Args) : List Obs :=
  projects.map (fun p => Obs.init a.quiet (if a.locales.contains none then none else some p.filter))

/-- `all_locales` before sorting -/
def allLocales (projects : List Project) (a : Args) : List (Option Text) :=
  a.locales ++ (if a.locales.isEmpty then projects.flatMap (fun p => p.allLocales.map some) else [])

/-- `compareProjects(project_configs, locales, l10n_base_dir, None, merge_stage, clobber_merge, quiet)`;
    `junk` = `parser.Junk.junkid` at the call -/
def compareProjects (w : World) (projects : List Project) (a : Args) (junk : Nat := 0) : Res :=
  let st : St := { obs := ObsList.init a.quiet (mkObservers projects a), junk := junk }
  match sortedLocales (allLocales projects a) with
  | .error e => fail st e
  | .ok sorted => localeLoop w a sorted st

/-! ### `CompareLocales.extract_positionals` -/

/-- `os.path.isdir` / `os.path.isfile` on the command line arguments -/
structure ArgFs where
  isdir : Text → Bool
  isfile : Text → Bool

/-- `"…%s…" % x` for a message split at its `%s` -/
def fill (parts : List Text) (x : Text) : Text :=
  match parts with
  | [] => []
  | [p] => p
  | p :: ps => p ++ x ++ fill ps x

/-- `extract_positionals`; `.error msg` = `self.parser.error(msg)` (usage + message on stderr, exit status 2) -/
def extractPositionals (fs : ArgFs) (cwd : Path) (validate : Bool) (configPaths : List Text) (l10nBaseDir : Text)
    (locales : List Text) : Except Text (List Text × Path × List (Option Text)) :=
  let allArgs := configPaths ++ [l10nBaseDir] ++ locales
  -- The first directory is our l10n base, split there.
  let cfgs := allArgs.takeWhile (fun x => !fs.isdir x)
  let rest := allArgs.dropWhile (fun x => !fs.isdir x)
  if cfgs.isEmpty then .error (fill Gen.Cmd.errNoConfig [])
  else
    match cfgs.find? (fun cf => !fs.isfile cf) with
    | some cf => .error (fill Gen.Cmd.errConfigNotFound cf)
    | none =>
      match rest with
      | [] => .error (fill Gen.Cmd.errNoBase [])
      | b :: more =>
        -- signal validation mode by setting locale list to [None]
        .ok (cfgs, abspath cwd b, if validate then [none] else more.map some)

/-! ### `CompareLocales.handle` -/

/-- `s.partition(sep)`: `(head, tail)`; without an occurrence `(s, "")` -/
def partitionAt (sep : Text) : Text → Text × Text
  | [] => ([], [])
  | c :: cs =>
    if sep.isPrefixOf (c :: cs) then ([], (c :: cs).drop sep.length)
    else
      let r := partitionAt sep cs
      (c :: r.1, r.2)

/-- `config_env = {"l10n_base": l10n_base_dir}` followed by `config_env[var] = value` for every define -/
def configEnv (base : Path) (defines : List Text) : List (Text × Text) :=
  defines.foldl (fun env d => let vv := partitionAt Gen.Cmd.defineSep d; dset env vv.1 vv.2) [(Gen.Cmd.envKey, base)]

structure HArgs where
  quiet : Nat := 0
  validate : Bool := false
  merge : Option Path := none
  configPaths : List Text := []
  l10nBaseDir : Text := []
  locales : List Text := []
  defines : List Text := []
  full : Bool := false
  returnZero : Bool := false
  clobber : Bool := false
  json : Option Text := none

/-- `SystemExit(n)` / `SystemExit("text")` -/
inductive Exit | code (n : Nat) | message (t : Text)
  deriving DecidableEq, Repr, Inhabited

inductive Outcome
  | returned (rv : Nat)
  | usage (msg : Text)             -- `self.parser.error(msg)`
  | sysExit (e : Exit)             -- `self.parser.exit(...)`
  | raised (e : PyErr)             -- an exception leaves `handle`
  deriving DecidableEq, Repr, Inhabited

/-- `observer.toJSON()` -/
structure ObsJson where
  summary : Summary
  details : J Detail

structure HResult where
  outcome : Outcome
  /-- the `print` calls, in order -/
  stdout : List Text := []
  /-- `json_dump(data, fh, …)`: (`fh is sys.stdout`, `data`) -/
  json : Option (Bool × List ObsJson) := none
  /-- ghost: the positionals and the `env` handed to `TOMLParser().parse` -/
  positionals : Option (List Text × Path × List (Option Text)) := none
  env : List (Text × Text) := []
  /-- ghost: the final state of `compareProjects` -/
  final : Option St := none

/-- everything `handle` reads from outside -/
structure HWorld where
  fs : ArgFs
  cwd : Path
  /-- the `for config_path in config_paths` loop: `.error name` = `ConfigNotFound(name)`; else the projects and, with
      them and the merge stage fixed, the rest of the world -/
  loadConfigs : List Text → List (Text × Text) → Bool → List (Option Text) → Except Text (List Project × World)
  junk : Nat := 0

/-- what `handle` prints before `print(observers.serializeSummaries())`: the details if there are any, and with more
    than one config the header naming the config files -/
def headBlocks (cfgPaths : List Text) (nconfigs : Nat) (details : Text) : List Text :=
  (if !details.isEmpty then [details] else []) ++
  (if nconfigs > 1 then
    (if !details.isEmpty then [Gen.Cmd.blankLine] else []) ++ [Gen.Cmd.summariesFor] ++
      cfgPaths.map (Gen.Cmd.configIndent ++ ·) ++ [Gen.Cmd.unionLine]
   else [])

/-- `data = [observer.toJSON() for observer in observers]` if `json is not None` -/
def jsonData (h : HArgs) (l : ObsList) : Option (Bool × List ObsJson) :=
  match h.json with
  | some j => some (j == Gen.Cmd.jsonStdout, l.observers.map (fun o => { summary := o.summary, details := toJSON o.details }))
  | none => none

/-- the part of `handle` after `compareProjects` returned `observers` -/
def report (h : HArgs) (cfgPaths : List Text) (nconfigs : Nat) (st : St) (r : HResult) : HResult :=
  let l := st.obs
  let done (printed : List Text) : HResult :=
    { r with outcome := .returned (exitStatus h.returnZero l), stdout := st.out ++ printed, json := jsonData h l,
             final := some st }
  -- `if json is None or json != "-":`
  if h.json == some Gen.Cmd.jsonStdout then done []
  else
    match serializeDetails l.own with
    | .error e => { r with outcome := .raised (.observer e), stdout := st.out, final := some st }
    | .ok details =>
      let head := headBlocks cfgPaths nconfigs details
      match serializeSummaries l with
      | .error e => { r with outcome := .raised (.observer e), stdout := st.out ++ head, final := some st }
      | .ok s => done (head ++ [s])

/-- `CompareLocales.handle(**kwargs)` -/
def handle (hw : HWorld) (h : HArgs) : HResult :=
  match extractPositionals hw.fs hw.cwd h.validate h.configPaths h.l10nBaseDir h.locales with
  | .error msg => { outcome := .usage msg }
  | .ok (cfgPaths, base, locales) =>
    let env := configEnv base h.defines
    let r : HResult := { outcome := .returned 0, positionals := some (cfgPaths, base, locales), env := env }
    -- when we compare disabled projects, we set our locales on all subconfigs, so deep is True.
    match hw.loadConfigs cfgPaths env h.full locales with
    | .error name => { r with outcome := .sysExit (.message (fill Gen.Cmd.configNotFoundParts name)) }
    | .ok (projects, w) =>
      match compareProjects w projects { locales := locales, l10nBaseDir := base, mergeStage := h.merge,
                                         clobberMerge := h.clobber, quiet := h.quiet } hw.junk with
      | .error (.osError msg, out) =>
        { r with outcome := .sysExit (.code 2), stdout := out ++ [Gen.Cmd.failPrefix ++ msg] }
      | .error (e, out) => { r with outcome := .raised e, stdout := out }
      | .ok st => report h cfgPaths projects.length st r

end ProjM

/-
Model of `compare_locales.compare.observer.Observer` / `ObserverList` and of the exit status
computed by `compare_locales.commands.CompareLocales.handle` (core Lean only).

* `Obs.notify`, `Obs.updateStats`  — `Observer.notify`, `Observer.updateStats`
* `ObsList.notify`, `ObsList.updateStats` — `ObserverList.*`
* `serializeDetails`, `serializeSummaries`, `exitStatus`
The details tree is `TreeM.Tree` (CLModel/Compare/Tree.lean).
-/
import CLModel.Compare.Tree
namespace ObsM
open TreeM

/-- `compare_locales.paths.File`: the attributes the observer looks at
    (`fullpath` is only seen by the filter, which is a function of the whole `File` here) -/
structure File where
  file : Text
  module : Option Text
  locale : Option Text
  deriving DecidableEq, Repr, Inhabited

/-- what a filter (and `notify`) returns -/
inductive Ret | error | warning | ignore
  deriving DecidableEq, Repr, Inhabited

/-- the `category` argument of `notify` (`other` = any other string) -/
inductive Cat | error | warning | missingEntity | obsoleteEntity | missingFile | obsoleteFile | other
  deriving DecidableEq, Repr, Inhabited

/-- keys of a per-locale summary dict, in the order of `Observer.__init__` -/
inductive StatKey
  | errors | warnings | missing | missing_w | report | obsolete | changed | changed_w | unchanged | unchanged_w | keys
  deriving DecidableEq, Repr, Inhabited

def StatKey.all : List StatKey :=
  [.errors, .warnings, .missing, .missing_w, .report, .obsolete, .changed, .changed_w, .unchanged, .unchanged_w, .keys]

/-- the `data` argument of `notify`, which is also the `entity` argument of a filter: `None`, a `str`
    (entity id or message) or a tuple key (gettext: `(msgid, msgctxt)` with `None` allowed) -/
inductive Data | none | str (t : Text) | tuple (parts : List (Option Text))
  deriving DecidableEq, Repr, Inhabited

/-- the value of a details item: the filter result for file categories, `data` otherwise -/
inductive DVal | ret (r : Ret) | data (d : Data)
  deriving DecidableEq, Repr, Inhabited

/-- one details item `{category: value}` -/
abbrev Detail := Cat × DVal

/-- a per-locale summary dict -/
abbrev Counters := StatKey → Nat
def Counters.zero : Counters := fun _ => 0

/-- `Observer.summary`: `defaultdict` locale → counters, in insertion order -/
abbrev Summary := List (Option Text × Counters)

/-- `c[key] += n` -/
def Counters.add (c : Counters) (key : StatKey) (n : Nat) : Counters := fun k => if k = key then c k + n else c k

/-- `summary[loc][key] += n` on the defaultdict: the entry of `loc` is updated in place, or created at the end -/
def bump : Summary → Option Text → StatKey → Nat → Summary
  | [], loc, key, n => [(loc, Counters.zero.add key n)]
  | p :: rest, loc, key, n =>
    if p.1 == loc then (p.1, p.2.add key n) :: rest else p :: bump rest loc key n

/-- `summary.get(loc, {}).get(key, 0)` -/
def getCount (s : Summary) (loc : Option Text) (key : StatKey) : Nat :=
  match s.find? (·.1 == loc) with
  | some p => p.2 key
  | none => 0

/-- a filter: `filter(file, entity=None)`; `ProjectConfig.filter` returns "error", "warning" or "ignore" -/
abbrev Filter := File → Data → Ret

structure Obs where
  quiet : Nat
  filter : Option Filter
  summary : Summary := []
  details : Tree Detail := Tree.empty
  error : Bool := false

/-- `Observer(quiet, filter)` -/
def Obs.init (quiet : Nat) (filter : Option Filter) : Obs := { quiet := quiet, filter := filter }

/-- the segments `Tree.__getitem__` computes for a `File` leaf -/
def partsOf (f : File) : Except PyErr (List Part) :=
  match f.module with
  | some m =>
    if !m.isEmpty then
      match f.locale with
      | some loc => .ok ([loc] ++ splitSlash m ++ splitSlash f.file)
      | none => .error .unmodelled
    else .ok (splitSlash f.file)
  | none => .ok (splitSlash f.file)

/-- `self.details[file].append(item)` -/
def appendDetail (t : Tree Detail) (file : File) (item : Detail) : Except PyErr (Tree Detail) := do
  let parts ← partsOf file
  getMod t parts (· ++ [item])

/-- `Observer.notify(category, file, data)`: new state and return value -/
def Obs.notify (o : Obs) (cat : Cat) (file : File) (data : Data) : Except PyErr (Obs × Ret) :=
  let rv := Ret.error
  if cat == .missingFile || cat == .obsoleteFile then
    let rv := match o.filter with
      | some f => f file .none
      | none => rv
    if rv == .ignore || o.quiet ≥ 2 then pure (o, rv)
    else if o.quiet == 0 || cat == .missingFile then do
      let d ← appendDetail o.details file (cat, .ret rv)
      pure ({ o with details := d }, rv)
    else pure (o, rv)
  else
    let rv := match o.filter with
      | some f => f file data
      | none => rv
    if o.filter.isSome && rv == .ignore then pure (o, rv)
    else if cat == .missingEntity || cat == .obsoleteEntity then
      if (cat == .missingEntity && o.quiet < 2) || (cat == .obsoleteEntity && o.quiet < 1) then do
        let d ← appendDetail o.details file (cat, .data data)
        pure ({ o with details := d }, rv)
      else pure (o, rv)
    else
      -- Set error independently of quiet
      let o := if cat == .error then { o with error := true } else o
      if cat == .error || cat == .warning then do
        let o ← if (cat == .error && o.quiet < 4) || (cat == .warning && o.quiet < 3) then do
            let d ← appendDetail o.details file (cat, .data data)
            pure { o with details := d }
          else pure o
        let key := if cat == .error then StatKey.errors else StatKey.warnings
        pure ({ o with summary := bump o.summary file.locale key 1 }, rv)
      else pure (o, rv)

/-- the loop of `Observer.updateStats` over `stats.items()` -/
def Obs.addStats (o : Obs) (loc : Option Text) : List (StatKey × Nat) → Obs
  | [] => o
  | (c, v) :: rest =>
    let o := if c == .errors then { o with error := true } else o
    Obs.addStats { o with summary := bump o.summary loc c v } loc rest

/-- `Observer.updateStats(file, stats)` -/
def Obs.updateStats (o : Obs) (file : File) (stats : List (StatKey × Nat)) : Obs :=
  match o.filter with
  | some f => if f file (.str []) == .ignore then o else o.addStats file.locale stats
  | none => o.addStats file.locale stats

/-! ### ObserverList -/

structure ObsList where
  /-- the list's own `Observer` state (`filter=None`) -/
  own : Obs
  observers : List Obs

/-- `ObserverList(quiet)` followed by `append` of the project observers -/
def ObsList.init (quiet : Nat) (observers : List Obs) : ObsList :=
  { own := Obs.init quiet none, observers := observers }

/-- `{observer.notify(category, file, data) for observer in self.observers}`:
    updated observers and the return values in call order -/
def notifyAll (cat : Cat) (file : File) (data : Data) : List Obs → Except PyErr (List Obs × List Ret)
  | [] => pure ([], [])
  | o :: rest => do
    let (o', rv) ← o.notify cat file data
    let (rest', rvs) ← notifyAll cat file data rest
    pure (o' :: rest', rv :: rvs)

/-- `ObserverList.notify` -/
def ObsList.notify (l : ObsList) (cat : Cat) (file : File) (data : Data) : Except PyErr (ObsList × Ret) := do
  let (obs', rvl) ← notifyAll cat file data l.observers
  let rvs := rvl.eraseDups            -- a Python set
  if rvs.all (· == .ignore) then pure ({ l with observers := obs' }, .ignore)
  else
    -- our return value doesn't count
    let (own', _) ← l.own.notify cat file data
    let rvs := rvs.filter (· != .ignore)
    let l' : ObsList := { own := own', observers := obs' }
    if rvs.contains .error then pure (l', .error)
    else match rvs with
      | [r] => pure (l', r)
      | _ => throw .assertion

/-- `ObserverList.updateStats` -/
def ObsList.updateStats (l : ObsList) (file : File) (stats : List (StatKey × Nat)) : ObsList :=
  { own := l.own.updateStats file stats, observers := l.observers.map (·.updateStats file stats) }

/-! ### histories -/

inductive Ev
  | notify (cat : Cat) (file : File) (data : Data)
  | stats (file : File) (st : List (StatKey × Nat))
  deriving Inhabited

def Ev.file : Ev → File
  | .notify _ f _ => f
  | .stats f _ => f

def Obs.step (o : Obs) : Ev → Except PyErr Obs
  | .notify c f d => do let (o', _) ← o.notify c f d; pure o'
  | .stats f st => pure (o.updateStats f st)

def Obs.run (o : Obs) : List Ev → Except PyErr Obs
  | [] => pure o
  | e :: rest => do let o' ← o.step e; Obs.run o' rest

def ObsList.step (l : ObsList) : Ev → Except PyErr ObsList
  | .notify c f d => do let (l', _) ← l.notify c f d; pure l'
  | .stats f st => pure (l.updateStats f st)

def ObsList.run (l : ObsList) : List Ev → Except PyErr ObsList
  | [] => pure l
  | e :: rest => do let l' ← l.step e; ObsList.run l' rest

/-- `rv = 1 if not return_zero and observers.error else 0` in `CompareLocales.handle` -/
def exitStatus (returnZero : Bool) (l : ObsList) : Nat :=
  if !returnZero && l.own.error then 1 else 0

/-- total of the `errors` counters over all locales -/
def totalErrors (s : Summary) : Nat := (s.map (fun p => p.2 .errors)).sum

/-! ### `ObserverList.serializeDetails` -/

def ofString (s : String) : Text := s.toList.map Char.toNat

def spaces (n : Nat) : Text := List.replicate n 32

/-- `"\n".join` -/
def joinNl : List Text → Text
  | [] => []
  | [l] => l
  | l :: ls => l ++ 10 :: joinNl ls

/-- `" | ".join` -/
def joinBar : List Text → Text
  | [] => []
  | [l] => l
  | l :: ls => l ++ 32 :: 124 :: 32 :: joinBar ls

/-- the text of `item["error"]` in `"ERROR: " + item["error"]`: only a `str` can be added to a `str` -/
def dataText : DVal → Option Text
  | .data (.str t) => some t
  | _ => none

/-- `entity_name(key)` in `serializeDetails`: tuple keys are joined with `" | "`, skipping `None` -/
def entityName : DVal → Option Text
  | .data (.str t) => some t
  | .data (.tuple ps) => some (joinBar (ps.filterMap id))
  | _ => none

/-- one line of `tostr` for a details item; `none` if no branch of the if/elif chain matches;
    `some none` stands for the `TypeError` of `str + None` -/
def itemLine (indent : Text) (it : Detail) : Option (Option Text) :=
  let withData (lead : String) (d : Option Text) : Option (Option Text) :=
    some (d.map (fun d => indent ++ ofString lead ++ d))
  match it.1 with
  | .error => withData "ERROR: " (dataText it.2)
  | .warning => withData "WARNING: " (dataText it.2)
  | .missingEntity => withData "+" (entityName it.2)
  | .obsoleteEntity => withData "-" (entityName it.2)
  | .missingFile => some (some (indent ++ ofString "// add and localize this file"))
  | .obsoleteFile => some (some (indent ++ ofString "// remove this file"))
  | .other => none

def tostr : Content Detail → Except PyErr Text
  | .key depth k => pure (spaces (2 * depth) ++ joinSlash k)
  | .value depth items => do
    let indent := spaces (2 * (depth + 1))
    let lines ← (items.filterMap (itemLine indent)).mapM (fun l => match l with
      | some t => pure t
      | none => throw PyErr.typeError)
    pure (joinNl lines)

def serializeDetails (o : Obs) : Except PyErr Text := do
  let rows ← (getContent o.details 0).mapM tostr
  pure (joinNl rows)

/-! ### `ObserverList.serializeSummaries` -/

def natText (n : Nat) : Text := ofString (toString n)

/-- `" {:6}".format(summary.get(key) or "")` -/
def cell (v : Option Nat) : Text :=
  match v with
  | some n => if n == 0 then spaces 7 else
      let d := natText n
      32 :: (spaces (6 - d.length) ++ d)
  | none => spaces 7

def StatKey.name : StatKey → String
  | .errors => "errors" | .warnings => "warnings" | .missing => "missing" | .missing_w => "missing_w"
  | .report => "report" | .obsolete => "obsolete" | .changed => "changed" | .changed_w => "changed_w"
  | .unchanged => "unchanged" | .unchanged_w => "unchanged_w" | .keys => "keys"

/-- the `keys` tuple of `serializeSummaries` (no `report`) -/
def summaryRows : List StatKey :=
  [.errors, .warnings, .missing, .missing_w, .obsolete, .changed, .changed_w, .unchanged, .unchanged_w, .keys]

/-- `f"{k:12}"` -/
def lead (k : StatKey) : Text :=
  let n := ofString k.name
  n ++ spaces (12 - n.length)

/-- `str.strip()` is non-empty (rows consist of spaces and digits only) -/
def nonBlank (t : Text) : Bool := t.any (· != 32)

def insertLoc (x : Text × β) : List (Text × β) → List (Text × β)
  | [] => [x]
  | y :: ys => if textLe x.1 y.1 then x :: y :: ys else y :: insertLoc x ys

/-- `sorted(summaries.items())`: `TypeError` when `None` and `str` locales are mixed -/
def sortLocales (l : List (Option Text × β)) : Except PyErr (List (Option Text × β)) :=
  let strs := l.filterMap (fun p => p.1.map (fun t => (t, p.2)))
  let nones := l.filter (·.1.isNone)
  if nones.isEmpty then pure ((strs.foldr insertLoc []).map (fun p => (some p.1, p.2)))
  else if strs.isEmpty then pure nones
  else throw .typeError

/-- `ObserverList.serializeSummaries` -/
def serializeSummaries (l : ObsList) : Except PyErr Text := do
  -- summaries = {loc: [...]}: per locale of the own summary, one optional counters dict per observer
  let perLoc : List (Option Text × List (Option Counters)) := l.own.summary.map (fun p =>
    let lst := l.observers.map (fun o => (o.summary.find? (·.1 == p.1)).map (·.2))
    let lst := if l.observers.length > 1 then lst ++ [some p.2] else lst
    (p.1, lst))
  let sorted ← sortLocales perLoc
  let blocks ← sorted.mapM (fun (p : Option Text × List (Option Counters)) => do
    let head : List Text := match p.1 with
      | some loc => if !loc.isEmpty then [loc ++ [58]] else []
      | none => []
    let rows := summaryRows.filterMap (fun k =>
      let row := (p.2.map (fun s => cell (s.map (· k)))).flatten
      if nonBlank row then some (lead k ++ row) else none)
    match p.2.getLast? with
    | none => throw PyErr.indexError
    | some last =>
      let get (k : StatKey) : Nat := match last with | some c => c k | none => 0
      let total := get .changed + get .unchanged + get .report + get .missing
      let rate := if total == 0 then 0 else (get .changed * 100) / total
      pure (head ++ rows ++ [natText rate ++ ofString "% of entries changed"]))
  pure (joinNl blocks.flatten)

end ObsM

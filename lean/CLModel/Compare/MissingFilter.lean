/-
Model of the filter → Observer → ContentComparer link for missing entities:
`compare/observer.py Observer.notify / ObserverList.notify / updateStats` (category "missingEntity",
quiet = 0) and the `action == "delete"` branch of `compare/content.py ContentComparer.compare`
(reference entity is not Junk).  Core Lean only.

An observer is its `filter` restricted to the localized file at hand: `Option (Text → Action)`
(`none` = `Observer(filter=None)`); for a project configuration it is
`fun key => Filt.filter cfg file (some key)`.
-/
import CLModel.Paths.Filter
namespace Filt

abbrev Obs := Option (Text → Action)

/-- `Observer.notify("missingEntity", file, key)` for `quiet < 2`:
    (return value, whether `{"missingEntity": key}` was appended to `self.details[file]`) -/
def observerNotifyMissing (o : Obs) (key : Text) : Action × Bool :=
  match o with
  | some f =>
    let rv := f key
    if rv == .ignore then (rv, false) else (rv, true)
  | none => (.error, true)

/-- the body of `ObserverList.notify` on the collected return values `rvs` (a Python set, here the
    list of the observers' answers):  (return value, whether the list's own `details` got the entry).
    `assert len(rvs) == 1; rvs.pop()` is modelled on the list of remaining values:
    non-empty and all equal, otherwise `AssertionError`. -/
def notifyRvs (rvs : List Action) : Except String (Action × Bool) :=
  if rvs.all (· == .ignore) then .ok (.ignore, false) else
  -- super().notify(...): own filter is None, the entry is recorded
  let rvs := rvs.filter (· != .ignore)          -- rvs.discard("ignore")
  if rvs.contains .error then .ok (.error, true) else
  match rvs with
  | a :: rest => if rest.all (· == a) then .ok (a, true) else .error "AssertionError"
  | [] => .error "AssertionError"

/-- `ObserverList.notify("missingEntity", file, key)` -/
def listNotifyMissing (observers : List Obs) (key : Text) : Except String (Action × Bool) :=
  notifyRvs (observers.map (fun o => (observerNotifyMissing o key).1))

structure MissAcc where
  missing : Nat
  report : Nat
  missings : List Text      -- handed to `merge()`: copied from the reference into the merged file
  shown : List Text         -- `{"missingEntity": key}` entries of `ObserverList.details[file]`
  deriving Repr, DecidableEq

def MissAcc.zero : MissAcc := ⟨0, 0, [], []⟩

/-- the `action == "delete"` branch of the loop in `ContentComparer.compare`, for the missing keys
    in the order `AddRemove` yields them -/
def missingLoop (observers : List Obs) : List Text → MissAcc → Except String MissAcc
  | [], acc => .ok acc
  | key :: rest, acc => do
    let (rv, recorded) ← listNotifyMissing observers key
    let acc := if recorded then { acc with shown := acc.shown ++ [key] } else acc
    if rv == .ignore then missingLoop observers rest acc            -- continue
    else if rv == .error then
      missingLoop observers rest { acc with missings := acc.missings ++ [key], missing := acc.missing + 1 }
    else
      missingLoop observers rest { acc with report := acc.report + 1 }

/-- `[]` is the entity key `""` that `Observer.updateStats` passes to the filter;
    `none` = the stats are dropped, `some (missing, report)` = added to `summary[file.locale]` -/
def observerUpdateStats (o : Obs) (acc : MissAcc) : Option (Nat × Nat) :=
  match o with
  | some f => if f [] == .ignore then none else some (acc.missing, acc.report)
  | none => some (acc.missing, acc.report)

structure CompareOut where
  acc : MissAcc
  summaries : List (Option (Nat × Nat))     -- per observer: (missing, report) added to its summary
  deriving Repr, DecidableEq

def compareMissing (observers : List Obs) (missingKeys : List Text) : Except String CompareOut := do
  let acc ← missingLoop observers missingKeys MissAcc.zero
  pure ⟨acc, observers.map (fun o => observerUpdateStats o acc)⟩

end Filt

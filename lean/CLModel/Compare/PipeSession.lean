/-
C05 — SESSIONS of the composed pipeline: ONE `ContentComparer` comparing a SEQUENCE of file pairs (the way
`compare_locales.compare.compareProjects` drives it), ONE `L10nLinter` linting a sequence of files (`L10nLinter.lint`).

  comparer = ContentComparer(); comparer.observers.append(Observer())
  for ref_file, l10n, merge_file in jobs: comparer.compare(ref_file, l10n, merge_file)        → `compareSession`
  L10nLinter().lint(paths, get_reference_and_tests)                                            → `lintSession`

What lives longer than one call is written down as the STATE of the session, every component explicit:

  `SessSt.obs`   the comparer's `ObserverList` (its own Observer state and the project observers), `ObsM.ObsList`
  `SessSt.ids`   the class attributes `Junk.junkid` and — from the first `XMLJunk` on — `XMLJunk.junkid`
                 (`self.__class__.junkid += 1` in `Junk.__init__` reads the inherited value and writes the subclass)

and NOTHING else: the parser objects are module-level singletons whose per-file data sits in a new `Context` per
`readFile`, `AddRemove`, the entity tuples, `missings`, `skips` are locals — and the CHECKER is a per-FILE value:
`getChecker(l10n, extra_tests)` builds a new object inside every `compare` / `lint_file` call (`Job.checker`), with the
file's locale, and `set_reference(ref_entities)` of THIS file when the class asks for it.  A checker (or anything it
computed from one file's contents) that survived into the next call would be a component missing here: the
correspondence `c05.session` / `c05.lintsession` breaks, and `C05.ufffd_warned_in_every_job` no longer speaks about the code.

A job is a file pair in the three shapes the pipeline model has: decoded TEXT of a format with a regex parser, or the
output of the external parser for Fluent / Android (Pipeline.lean).  Every Python operation that can raise is an
`Except`; a raising job ends the session (`compareSession` reports its index).  Core Lean only.
-/
import CLModel.Compare.Pipeline
namespace Pipe

/-! ### the junk counters -/

/-- `Junk.junkid` and `XMLJunk.__dict__.get("junkid")` -/
structure JunkIds where
  junk : Nat := 0
  xml : Option Nat := none
  deriving Repr, DecidableEq, Inhabited

/-- the value `self.__class__.junkid` an `XMLJunk` reads: its own class attribute once it exists, else the inherited one -/
def JunkIds.xmlStart (c : JunkIds) : Nat :=
  match c.xml with
  | some n => n
  | none => c.junk

/-- after Android files were parsed and left the counter at `n'`: the first `XMLJunk` created `XMLJunk.junkid` -/
def JunkIds.xmlDone (c : JunkIds) (n' : Nat) : JunkIds :=
  if n' == c.xmlStart then c else { c with xml := some n' }

/-! ### a job -/

/-- the two files of one `compare` call, as far as the composed model takes them apart -/
inductive JobSrc
  /-- ini / inc / po / properties / dtd: `ctx.contents` of the two files -/
  | text (fmt : P.Fmt) (refText l10nText : Array Nat)
  /-- `.ftl`: the texts and `resource.body` of `fluent.syntax` for each -/
  | ftl (refText l10nText : Array Nat) (refBody l10nBody : List FtlItem)
  /-- `strings.xml`: the localized text and the objects of `AndroidParser.walk` for each -/
  | android (l10nText : Array Nat) (refItems l10nItems : List AItem)

structure Job where
  src : JobSrc
  /-- the localized `File` (path and locale) -/
  file : ObsM.File
  /-- `merge_file is not None` -/
  mergeOn : Bool

/-- `p.readFile(ref_file); ref_entities = p.parse(); p.readFile(l10n); l10n_entities = p.parse()` with the counters `c`
    before: both entity lists and the counters after -/
def JobSrc.parse (ext : Ext) : JobSrc → JunkIds → Except PyErr (List PEnt × List PEnt × JunkIds)
  | .text fmt r l, c =>
    match parseFile ext fmt r c.junk with
    | .error e => .error e
    | .ok (ref, n1) =>
      match parseFile ext fmt l n1 with
      | .error e => .error e
      | .ok (l10n, n2) => .ok (ref, l10n, { c with junk := n2 })
  | .ftl rt lt rb lb, c =>
    let r := parseFtl rt rb c.junk
    let l := parseFtl lt lb r.2
    .ok (r.1, l.1, { c with junk := l.2 })
  | .android _ ri li, c =>
    let r := parseAndroid ri c.xmlStart
    let l := parseAndroid li r.2
    .ok (r.1, l.1, c.xmlDone l.2)

def JobSrc.l10nText : JobSrc → Array Nat
  | .text _ _ l => l
  | .ftl _ l _ _ => l
  | .android l _ _ => l

/-- which checker class `getChecker` picks for the file -/
def JobSrc.kind : JobSrc → CheckerKind
  | .text fmt _ _ => checkerOf fmt
  | .ftl _ _ _ _ => .fluent
  | .android _ _ _ => .android

def JobSrc.cls : JobSrc → Cls
  | .text fmt _ _ => clsOf fmt
  | .ftl _ _ _ _ => .fluent
  | .android _ _ _ => .node

/-- `p.capabilities` -/
def JobSrc.caps : JobSrc → Nat
  | .text fmt _ _ => capsOf fmt
  | .ftl _ _ _ _ => Gen.Tables.cap_ftl
  | .android _ _ _ => Gen.Tables.cap_android

/-! ### the checker: a value made for ONE file -/

/-- `getChecker(file, extra_tests=None)`: a NEW object of the class chosen by the file name, `checker.locale = file.locale`,
    `checker.reference = None`.  Only `DTDChecker` calls an XML parser. -/
def getChecker (ext : Ext) (kind : CheckerKind) (file : ObsM.File) : CkCtx :=
  { kind := kind, locale := file.locale,
    xml := (match kind with
      | .dtd => ext.xml
      | _ => fun _ => ⟨none, []⟩) }

/-- the class attribute `needs_reference` (True for `DTDChecker` only) -/
def needsReference : CheckerKind → Bool
  | .dtd => true
  | _ => false

/-- `checker.set_reference(entities)` -/
def setReference (c : CkCtx) (entities : List PEnt) : CkCtx := { c with refVals := entities.map (·.raw) }

/-- `checker = getChecker(l10n, extra_tests); if checker and checker.needs_reference: checker.set_reference(ref_entities)` -/
def fileChecker (ext : Ext) (kind : CheckerKind) (file : ObsM.File) (reference : List PEnt) : CkCtx :=
  let c := getChecker ext kind file
  if needsReference c.kind then setReference c reference else c

/-- the checker of this job: built from THIS job's file and THIS job's parsed reference, from nothing else -/
def Job.checker (ext : Ext) (j : Job) (ref : List PEnt) : CkCtx := fileChecker ext j.src.kind j.file ref

/-- everything `compare` works with after the two files are parsed -/
def Job.env (ext : Ext) (j : Job) (ref : List PEnt) : Env :=
  { caps := j.src.caps, cls := j.src.cls, ck := j.checker ext ref, file := j.file, mergeOn := j.mergeOn, l10nText := j.src.l10nText }

/-! ### the session of one comparer -/

structure SessSt where
  obs : ObsM.ObsList
  ids : JunkIds

/-- `cc = ContentComparer(); cc.observers.append(Observer())` in a fresh process -/
def SessSt.fresh : SessSt := { obs := stdObs, ids := {} }

/-- one `comparer.compare(ref_file, l10n, merge_file)`: `step : State → Job → State × Out` -/
def compareJob (ext : Ext) (st : SessSt) (j : Job) : Except PyErr (SessSt × Merge.Outcome) :=
  match j.src.parse ext st.ids with
  | .error e => .error e
  | .ok (ref, l10n, ids') =>
    match compareParsed (j.env ext ref) ref l10n st.obs with
    | .error e => .error e
    | .ok (obs', outcome) => .ok ({ obs := obs', ids := ids' }, outcome)

/-- the jobs in order; `.error (i, e)`: job `i` raised `e` -/
def compareSession (ext : Ext) : List Job → SessSt → Except (Nat × PyErr) (SessSt × List Merge.Outcome)
  | [], st => .ok (st, [])
  | j :: js, st =>
    match compareJob ext st j with
    | .error e => .error (0, e)
    | .ok (st1, o) =>
      match compareSession ext js st1 with
      | .error (i, e) => .error (i + 1, e)
      | .ok (st', os) => .ok (st', o :: os)

/-- `observers.toJSON()` after the session (one report for all files) and what happened to each merge file -/
structure SessReport where
  report : Report
  merges : List Merge.Outcome

def sessReport (st : SessSt) (os : List Merge.Outcome) : SessReport := { report := reportOf st.obs .nothing, merges := os }

/-- `File(path, rel, locale="de")` -/
def l10nFile (rel : Text) : ObsM.File := fileNamed rel

/-! ### the session of one linter

`L10nLinter` has no attributes at all: `lint` calls `lint_file` per path, which gets the (module-level) parser, parses the
reference and the file, builds a checker for THIS file (`getChecker(File(path, path, locale=REFERENCE_LOCALE))`,
`set_reference(current)`) and an `EntityLinter` for THIS file.  The state between files is the junk counters. -/

inductive LintSrc
  | text (fmt : P.Fmt) (refText : Option (Array Nat)) (curText : Array Nat)
  | ftl (ref : Option (Array Nat × List FtlItem)) (curText : Array Nat) (curBody : List FtlItem)
  | android (ref : Option (List AItem)) (curText : Array Nat) (curItems : List AItem)

/-- `list(lint_file(path, ref, None))` with the counters `c` before: the results and the counters after -/
def lintJob (ext : Ext) : LintSrc → JunkIds → Except PyErr (List Lint.Result × JunkIds)
  | .text fmt none cur, c =>
    match parseFile ext fmt cur c.junk with
    | .error e => .error e
    | .ok (ents, n) =>
      match lintParsed ext (fileName fmt) (checkerOf fmt) (clsOf fmt) none cur ents with
      | .error e => .error e
      | .ok rs => .ok (rs, { c with junk := n })
  | .text fmt (some t) cur, c =>
    match parseFile ext fmt t c.junk with
    | .error e => .error e
    | .ok (ref, n1) =>
      match parseFile ext fmt cur n1 with
      | .error e => .error e
      | .ok (ents, n) =>
        match lintParsed ext (fileName fmt) (checkerOf fmt) (clsOf fmt) (some ref) cur ents with
        | .error e => .error e
        | .ok rs => .ok (rs, { c with junk := n })
  | .ftl none cur body, c =>
    let p := parseFtl cur body c.junk
    match lintParsed default ftlFileName .fluent .fluent none cur p.1 with
    | .error e => .error e
    | .ok rs => .ok (rs, { c with junk := p.2 })
  | .ftl (some (t, rb)) cur body, c =>
    let r := parseFtl t rb c.junk
    let p := parseFtl cur body r.2
    match lintParsed default ftlFileName .fluent .fluent (some r.1) cur p.1 with
    | .error e => .error e
    | .ok rs => .ok (rs, { c with junk := p.2 })
  | .android none cur items, c =>
    let p := parseAndroid items c.xmlStart
    match lintParsed default androidFileName .android .node none cur p.1 with
    | .error e => .error e
    | .ok rs => .ok (rs, c.xmlDone p.2)
  | .android (some ri) cur items, c =>
    let r := parseAndroid ri c.xmlStart
    let p := parseAndroid items r.2
    match lintParsed default androidFileName .android .node (some r.1) cur p.1 with
    | .error e => .error e
    | .ok rs => .ok (rs, c.xmlDone p.2)

/-- `L10nLinter().lint(paths, …)`: the results per file, in order; `.error (i, e)`: file `i` raised `e` -/
def lintSession (ext : Ext) : List LintSrc → JunkIds → Except (Nat × PyErr) (List (List Lint.Result))
  | [], _ => .ok []
  | s :: rest, c =>
    match lintJob ext s c with
    | .error e => .error (0, e)
    | .ok (rs, c1) =>
      match lintSession ext rest c1 with
      | .error (i, e) => .error (i + 1, e)
      | .ok rss => .ok (rs :: rss)

/-- linting the localized file of a comparison job, with or without its reference -/
def Job.toLint (j : Job) (withRef : Bool) : LintSrc :=
  match j.src with
  | .text fmt r l => .text fmt (if withRef then some r else none) l
  | .ftl rt lt rb lb => .ftl (if withRef then some (rt, rb) else none) lt lb
  | .android l ri li => .android (if withRef then some ri else none) l li

end Pipe

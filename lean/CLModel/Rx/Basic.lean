/-
Model of the subset of CPython's `re` (sre) that compare-locales uses.
Leftmost, priority-ordered backtracking in continuation-passing style,
structurally recursive on the regex AST.  Subjects are arrays of code points.
Core Lean only (this file is linked into the native driver).
-/
import CLModel.Gen.Unicode
namespace Rx

inductive ClsItem where
  | ch (c : Nat)
  | range (lo hi : Nat)
  | word | digit | space
  | notWord | notDigit | notSpace
  deriving Repr, Inhabited, DecidableEq

inductive Re where
  | lit (c : Nat)
  | notLit (c : Nat)
  | any (dotall : Bool)
  | cls (neg : Bool) (items : List ClsItem)
  | seq (a b : Re)
  | alt (a b : Re)
  | eps
  | rep (min : Nat) (max : Option Nat) (greedy : Bool) (r : Re)
  | group (idx : Nat) (r : Re)
  | backref (idx : Nat)
  | bol (ml : Bool) | eol (ml : Bool) | eos
  | look (ahead : Bool) (neg : Bool) (r : Re)   -- lookbehind restricted to width-1 bodies
  deriving Repr, Inhabited

structure St where
  pos : Nat
  caps : List (Nat × Nat × Nat)     -- most recent first: (group, start, end)
  deriving Repr, Inhabited, DecidableEq

abbrev K := St → Option St

def inRanges (t : List (Nat × Nat)) (c : Nat) : Bool := t.any (fun p => p.1 ≤ c && c ≤ p.2)

def isWord (c : Nat) : Bool := inRanges Gen.Unicode.wordRanges c
def isDigit (c : Nat) : Bool := inRanges Gen.Unicode.digitRanges c
def isSpace (c : Nat) : Bool := inRanges Gen.Unicode.spaceRanges c

def ClsItem.has (c : Nat) : ClsItem → Bool
  | .ch d => c == d
  | .range lo hi => lo ≤ c && c ≤ hi
  | .word => isWord c
  | .digit => isDigit c
  | .space => isSpace c
  | .notWord => !isWord c
  | .notDigit => !isDigit c
  | .notSpace => !isSpace c

def capOf (caps : List (Nat × Nat × Nat)) (i : Nat) : Option (Nat × Nat) :=
  match caps.find? (·.1 == i) with
  | some (_, a, b) => some (a, b)
  | none => none

/-- The repeat loop.  Like sre, a further iteration that consumed nothing is refused. -/
def loop (body : St → K → Option St) (greedy : Bool) :
    Nat → Nat → Option Nat → St → K → Option St
  | 0, _, _, _, _ => none
  | fuel + 1, mn, mx, st, k =>
      let more : Option St :=
        if mx == some 0 then none else
        body st (fun st' =>
          if st'.pos ≤ st.pos then none else
          loop body greedy fuel (mn - 1) (mx.map (· - 1)) st' k)
      if mn > 0 then more
      else if greedy then more.orElse (fun _ => k st)
      else (k st).orElse (fun _ => more)

/-- `s` is the subject already truncated at endpos. -/
def m (s : Array Nat) : Re → St → K → Option St
  | .eps, st, k => k st
  | .lit c, st, k => if s[st.pos]? == some c then k { st with pos := st.pos + 1 } else none
  | .notLit c, st, k =>
      match s[st.pos]? with
      | some d => if d != c then k { st with pos := st.pos + 1 } else none
      | none => none
  | .any dotall, st, k =>
      match s[st.pos]? with
      | some d => if dotall || d != 10 then k { st with pos := st.pos + 1 } else none
      | none => none
  | .cls neg items, st, k =>
      match s[st.pos]? with
      | some c => if (items.any (·.has c)) != neg then k { st with pos := st.pos + 1 } else none
      | none => none
  | .seq a b, st, k => m s a st (fun st' => m s b st' k)
  | .alt a b, st, k => (m s a st k).orElse (fun _ => m s b st k)
  | .group i r, st, k =>
      m s r st (fun st' => k { st' with caps := (i, st.pos, st'.pos) :: st'.caps })
  | .backref i, st, k =>
      match capOf st.caps i with
      | some (a, b) =>
          let n := b - a
          if (List.range n).all (fun j => s[a + j]? == s[st.pos + j]? && (st.pos + j < s.size)) then
            k { st with pos := st.pos + n } else none
      | none => none
  | .bol ml, st, k =>
      if st.pos == 0 || (ml && s[st.pos - 1]? == some 10) then k st else none
  | .eol ml, st, k =>
      if st.pos == s.size || (ml && s[st.pos]? == some 10) ||
         (!ml && st.pos + 1 == s.size && s[st.pos]? == some 10) then k st else none
  | .eos, st, k => if st.pos == s.size then k st else none
  | .look true neg r, st, k =>
      match m s r st some with
      | some st' => if neg then none else k { st with caps := st'.caps }
      | none => if neg then k st else none
  | .look false neg r, st, k =>
      -- width-1 lookbehind
      let ok := if st.pos == 0 then none else
        m s r { st with pos := st.pos - 1 } (fun st' => if st'.pos == st.pos then some st' else none)
      match ok with
      | some _ => if neg then none else k st
      | none => if neg then k st else none
  | .rep mn mx greedy r, st, k =>
      loop (m s r) greedy (s.size + 2 - st.pos) mn mx st k

/-- `Pattern.match(s, pos)` -/
def matchAt (s : Array Nat) (r : Re) (pos : Nat) : Option St := m s r ⟨pos, []⟩ some

/-- non-empty-only variant used by finditer's must_advance -/
def matchAtNE (s : Array Nat) (r : Re) (pos : Nat) : Option St :=
  m s r ⟨pos, []⟩ (fun st => if st.pos == pos then none else some st)

/-- `Pattern.fullmatch`-like helper: match at pos that must end at the end of the subject -/
def matchFull (s : Array Nat) (r : Re) (pos : Nat) : Option St :=
  m s r ⟨pos, []⟩ (fun st => if st.pos == s.size then some st else none)

def searchFrom (s : Array Nat) (r : Re) : Nat → Nat → Option (Nat × St)
  | 0, _ => none
  | fuel + 1, pos =>
      if pos > s.size then none else
      match matchAt s r pos with
      | some st => some (pos, st)
      | none => searchFrom s r fuel (pos + 1)

/-- `Pattern.search(s, pos)` : first position ≥ pos at which the pattern matches -/
def search (s : Array Nat) (r : Re) (pos : Nat) : Option (Nat × St) := searchFrom s r (s.size + 2 - pos) pos

/-- finditer (CPython ≥ 3.7 rule): list of (start, final state) -/
def finditerAux (s : Array Nat) (r : Re) : Nat → Nat → Bool → List (Nat × St)
  | 0, _, _ => []
  | fuel + 1, pos, mustAdv =>
      if pos > s.size then [] else
      let here := if mustAdv then matchAtNE s r pos else matchAt s r pos
      match here with
      | some st =>
          (pos, st) :: finditerAux s r fuel st.pos (st.pos == pos)
      | none =>
          match search s r (pos + 1) with
          | some (q, st) => (q, st) :: finditerAux s r fuel st.pos (st.pos == q)
          | none => []

def finditer (s : Array Nat) (r : Re) : List (Nat × St) := finditerAux s r (2 * s.size + 3) 0 false

/-- span of a group in a final state; group 0 is supplied by the caller -/
def St.group (st : St) (i : Nat) : Option (Nat × Nat) := capOf st.caps i

/-- `re.sub(pattern, f, s)` with a callback on (start, state) -/
def subWith (s : Array Nat) (r : Re) (f : Nat → St → List Nat) : List Nat :=
  let ms := finditer s r
  let rec go (ms : List (Nat × St)) (last : Nat) : List Nat :=
    match ms with
    | [] => (s.extract last s.size).toList
    | (q, st) :: rest => (s.extract last q).toList ++ f q st ++ go rest st.pos
  go ms 0

end Rx

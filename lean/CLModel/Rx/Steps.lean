/-
A step-counting copy of the backtracking engine `Rx.m` (Rx/Basic.lean): the same exploration order, with a counter
of the atoms tried threaded through it and a budget that aborts the search.  CPython's sre is a backtracking engine
of the same kind: a regex that needs super-linearly many steps here (nested quantifiers, ambiguous alternations under
a repeat) needs them there.  Used by the C05 guard "no regex of compare-locales backtracks super-linearly on long
runs" (a hang of a parser is a violation of "always produce a report").
Core Lean only.
-/
import CLModel.Rx.Basic
namespace Rx

/-- outcome of a counted search: found with `n` steps done, failed with `n` steps done, or the budget ran out -/
inductive SR
  | ok (st : St) (n : Nat)
  | no (n : Nat)
  | over
  deriving Repr, Inhabited, DecidableEq

abbrev KS := St → Nat → SR

def SR.orElse (a : SR) (f : Nat → SR) : SR :=
  match a with
  | .no n => f n
  | r => r

/-- `Rx.loop` with the counter -/
def loopS (body : St → KS → Nat → SR) (greedy : Bool) :
    Nat → Nat → Option Nat → St → KS → Nat → SR
  | 0, _, _, _, _, n => .no n
  | fuel + 1, mn, mx, st, k, n =>
      let more : Nat → SR := fun n =>
        if mx == some 0 then .no n else
        body st (fun st' n' =>
          if st'.pos ≤ st.pos then .no n' else
          loopS body greedy fuel (mn - 1) (mx.map (· - 1)) st' k n') n
      if mn > 0 then more n
      else if greedy then (more n).orElse (fun n' => k st n')
      else (k st n).orElse more

/-- `Rx.m` with the counter: every atom tried (character test, anchor, back reference, look-around) is one step;
    `budget` steps at most -/
def mS (s : Array Nat) (budget : Nat) : Re → St → KS → Nat → SR
  | .eps, st, k, n => k st n
  | .lit c, st, k, n =>
      if n ≥ budget then .over else
      if s[st.pos]? == some c then k { st with pos := st.pos + 1 } (n + 1) else .no (n + 1)
  | .notLit c, st, k, n =>
      if n ≥ budget then .over else
      match s[st.pos]? with
      | some d => if d != c then k { st with pos := st.pos + 1 } (n + 1) else .no (n + 1)
      | none => .no (n + 1)
  | .any dotall, st, k, n =>
      if n ≥ budget then .over else
      match s[st.pos]? with
      | some d => if dotall || d != 10 then k { st with pos := st.pos + 1 } (n + 1) else .no (n + 1)
      | none => .no (n + 1)
  | .cls neg items, st, k, n =>
      if n ≥ budget then .over else
      match s[st.pos]? with
      | some c => if (items.any (·.has c)) != neg then k { st with pos := st.pos + 1 } (n + 1) else .no (n + 1)
      | none => .no (n + 1)
  | .seq a b, st, k, n => mS s budget a st (fun st' n' => mS s budget b st' k n') n
  | .alt a b, st, k, n => (mS s budget a st k n).orElse (fun n' => mS s budget b st k n')
  | .group i r, st, k, n =>
      mS s budget r st (fun st' n' => k { st' with caps := (i, st.pos, st'.pos) :: st'.caps } n') n
  | .backref i, st, k, n =>
      if n ≥ budget then .over else
      match capOf st.caps i with
      | some (a, b) =>
          let w := b - a
          if (List.range w).all (fun j => s[a + j]? == s[st.pos + j]? && (st.pos + j < s.size)) then
            k { st with pos := st.pos + w } (n + 1 + w) else .no (n + 1 + w)
      | none => .no (n + 1)
  | .bol ml, st, k, n =>
      if n ≥ budget then .over else
      if st.pos == 0 || (ml && s[st.pos - 1]? == some 10) then k st (n + 1) else .no (n + 1)
  | .eol ml, st, k, n =>
      if n ≥ budget then .over else
      if st.pos == s.size || (ml && s[st.pos]? == some 10) ||
         (!ml && st.pos + 1 == s.size && s[st.pos]? == some 10) then k st (n + 1) else .no (n + 1)
  | .eos, st, k, n =>
      if n ≥ budget then .over else
      if st.pos == s.size then k st (n + 1) else .no (n + 1)
  | .look true neg r, st, k, n =>
      match mS s budget r st (fun st' n' => .ok st' n') n with
      | .ok st' n' => if neg then .no n' else k { st with caps := st'.caps } n'
      | .no n' => if neg then k st n' else .no n'
      | .over => .over
  | .look false neg r, st, k, n =>
      let ok : SR := if st.pos == 0 then .no n else
        mS s budget r { st with pos := st.pos - 1 } (fun st' n' => if st'.pos == st.pos then .ok st' n' else .no n') n
      match ok with
      | .ok _ n' => if neg then .no n' else k st n'
      | .no n' => if neg then k st n' else .no n'
      | .over => .over
  | .rep mn mx greedy r, st, k, n =>
      loopS (mS s budget r) greedy (s.size + 2 - st.pos) mn mx st k n

/-- steps of `Pattern.match(s, pos)`; `none` = more than `budget` -/
def matchSteps (s : Array Nat) (r : Re) (pos budget : Nat) : Option Nat :=
  match mS s budget r ⟨pos, []⟩ (fun st n => .ok st n) 0 with
  | .ok _ n => some n
  | .no n => some n
  | .over => none

/-- steps of `Pattern.search(s)`: the attempts at every start position up to the first match, added up -/
def searchStepsFrom (s : Array Nat) (r : Re) (budget : Nat) : Nat → Nat → Nat → Option Nat
  | 0, _, n => some n
  | fuel + 1, pos, n =>
    if pos > s.size then some n else
    match mS s budget r ⟨pos, []⟩ (fun st n => .ok st n) n with
    | .ok _ n' => some n'
    | .no n' => searchStepsFrom s r budget fuel (pos + 1) n'
    | .over => none

def searchSteps (s : Array Nat) (r : Re) (budget : Nat) : Option Nat := searchStepsFrom s r budget (s.size + 2) 0 0

end Rx

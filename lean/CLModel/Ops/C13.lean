import CLModel.Proto
import CLModel.Paths.ProjectFiles
import CLModel.Paths.ProjectFilesM
import CLModel.Paths.TomlConfig
import CLModel.Paths.IniConfig
import CLModel.Paths.TomlSession
/-!
Driver operations of C13.

`pf.run <locale|-> <mergebase 0|1> P <n> <config>* S <n> <path text>* U <n> <sidx>* F <k>
        M <n> (<pfx sidx> <realpfx sidx> <pat> <literal 0|1>)* T <n> (<mid> <sidx> <gid>)* X <n> (<mid> <gid> <sidx>)*`

* `S` is the table of all path strings; every other path is an index into it

* `<config>` = `C <pathid> <locs> <npaths> <rule>* <nchildren> <config>* <nexcludes> <config>*`
* `<rule>`   = `R <l10n mid> <reference mid|-> <merge mid> <tests t:…|-> <locs>`
* `<locs>`   = `-` | `L <n> <text>*`
* `U` is the universe of paths (all are looked up with `match`), its first `k` entries are the regular
  files of the tree in `os.walk` order; `T` is the match relation over the universe, `X` the `sub` expansions.

Result: `ok|<item>;…|<lookup>;…` or `err:<exception>`.

`pfm.run <locale|-> <mergebase 0|1> P <n> <config>* S <n> <path text>* U <n> <sidx>* F <k> M <n> <matcher>*`
runs the composed model `ProjectFilesM` (Paths/ProjectFilesM.lean): the matcher table is given as TEXTS,
* `<matcher>` = `<root text|-> <pattern text> <n> (<key> <value>)* <nw|-> (<key> <value>)*`
  = `Matcher(pattern, env, root)` followed by `.with_env({...})` unless `-`,
and the match relation, `sub`, `prefix`, `literal` are computed by the `Matcher` model.  Same result format;
`unsupported:<why>` when the table leaves the class the composed model supports.
-/
namespace Ops.C13
open Proto PF

abbrev PM := StateT (List String) Option

def tok : PM String := fun s => match s with | [] => none | t :: r => some (t, r)
def nat : PM Nat := do let t ← tok; (parseNat t : Option Nat)
def text : PM (List Nat) := do let t ← tok; (parseText t : Option (List Nat))
def expect (w : String) : PM Unit := do let t ← tok; if t == w then pure () else failure

def many (p : PM α) : Nat → PM (List α)
  | 0 => pure []
  | n + 1 => do let x ← p; let xs ← many p n; pure (x :: xs)

def counted (p : PM α) : PM (List α) := do let n ← nat; many p n

def locs : PM (Option (List Loc)) := do
  let t ← tok
  if t == "-" then pure none
  else if t == "L" then do let l ← counted text; pure (some l)
  else failure

def optNat : PM (Option Nat) := do
  let t ← tok
  if t == "-" then pure none else (parseNat t).map some

def optText : PM (Option (List Nat)) := do
  let t ← tok
  if t == "-" then pure none else (parseText t).map some

def rule : PM PathRule := do
  expect "R"
  let l ← nat; let r ← optNat; let m ← nat; let t ← optText; let ls ← locs
  pure { l10n := l, reference := r, merge := m, test := t, locales := ls }

partial def config : PM Config := do
  expect "C"
  let p ← nat; let ls ← locs; let ps ← counted rule
  let ch ← counted config; let ex ← counted config
  pure (.mk p ls ps ch ex)

structure Case where
  locale : Option Loc
  mergebase : Bool
  projects : List Config
  univ : List Path
  nfiles : Nat
  env : MEnv

def lookup2 [BEq α] [BEq β] (tbl : List (α × β × γ)) (a : α) (b : β) : Option γ :=
  (tbl.find? fun e => e.1 == a && e.2.1 == b).map (·.2.2)

/-- value used for an entry missing from a harness table; not a character of any real path, so a
    missing entry shows as a disagreement -/
def missing : Path := [0]

def case : PM Case := do
  let loc ← optText
  let mb ← nat
  expect "P"; let ps ← counted config
  expect "S"; let strs ← counted text
  let sa := strs.toArray
  let str : Nat → Path := fun i => match sa[i]? with | some p => p | none => missing
  expect "U"; let u ← counted nat
  expect "F"; let k ← nat
  expect "M"; let ms ← counted (do let a ← nat; let b ← nat; let c ← nat; let d ← nat; pure (str a, str b, c, d == 1))
  expect "T"; let ts ← counted (do let m ← nat; let i ← nat; let g ← nat; pure (m, str i, g))
  expect "X"; let xs ← counted (do let m ← nat; let g ← nat; let p ← nat; pure (m, g, str p))
  let ma := ms.toArray
  let env : MEnv := {
    pfx := fun m => match ma[m]? with | some e => e.1 | none => missing
    realpfx := fun m => match ma[m]? with | some e => e.2.1 | none => missing
    pat := fun m => match ma[m]? with | some e => e.2.2.1 | none => 0
    literal := fun m => match ma[m]? with | some e => e.2.2.2 | none => false
    mtch := fun m p => lookup2 ts m p
    expand := fun m g => match lookup2 xs m g with | some p => p | none => missing }
  pure { locale := loc, mergebase := mb == 1, projects := ps, univ := u.map str, nfiles := k, env := env }

def showOptPath : Option Path → String
  | some p => showText p
  | none => "-"

def showItem (i : Item) : String :=
  s!"{showText i.path} {showOptPath i.reference} {showOptPath i.merge} {showText i.test}"

def showErr : Err → String
  | .runtimeMismatch => "RuntimeError"
  | .attributeNone => "AttributeError"
  | .typeErrorLocale => "TypeError"
  | .depth => "model-depth"

def opRun (toks : List String) : String :=
  match case.run toks with
  | some (c, []) =>
    match PF.new c.env c.locale c.projects c.mergebase with
    | .error e => "err:" ++ showErr e
    | .ok pf =>
      let fs : FS := { files := c.univ.take c.nfiles }
      let items := (pf.iter c.env fs).map showItem
      let looks := c.univ.map fun p =>
        match pf.matchPath c.env p with
        | some i => showItem i
        | none => "None"
      "ok|" ++ ";".intercalate items ++ "|" ++ ";".intercalate looks
  | _ => "bad-args"

def pairs : List Nat → Option (List (Nat × Nat))
  | [] => some []
  | k :: v :: r => (pairs r).map ((k, v) :: ·)
  | _ => none

/-- `pf.env <file env k,v,…> <parser env k,v,…>` : `ProjectConfig.environ` after `processEnv` -/
def opEnv (toks : List String) : String :=
  match toks with
  | [a, b] =>
    match (parseText a).bind pairs, (parseText b).bind pairs with
    | some f, some p => showText ((processEnv f p).flatMap fun kv => [kv.1, kv.2])
    | _, _ => "bad-args"
  | _ => "bad-args"

/-! ### the composed model: pattern texts instead of match tables -/

def kv : PM (List Nat × List Nat) := do let k ← text; let v ← text; pure (k, v)

def optPairs : PM (Option (List (List Nat × List Nat))) := do
  let t ← tok
  if t == "-" then pure none
  else do
    let n ← (parseNat t : Option Nat)
    let l ← many kv n
    pure (some l)

def mspec : PM PFM.MSpec := do
  let root ← optText
  let pat ← text
  let env ← counted kv
  let w ← optPairs
  pure { pattern := pat, env := env, root := root, withEnv := w }

structure CaseM where
  locale : Option Loc
  mergebase : Bool
  projects : List Config
  univ : List Path
  nfiles : Nat
  specs : List PFM.MSpec

def caseM : PM CaseM := do
  let loc ← optText
  let mb ← nat
  expect "P"; let ps ← counted config
  expect "S"; let strs ← counted text
  let sa := strs.toArray
  let str : Nat → Path := fun i => match sa[i]? with | some p => p | none => missing
  expect "U"; let u ← counted nat
  expect "F"; let k ← nat
  expect "M"; let ms ← counted mspec
  pure { locale := loc, mergebase := mb == 1, projects := ps, univ := u.map str, nfiles := k, specs := ms }

def showPyErr : PM.PyErr → String
  | .keyError => "KeyError" | .missingEnv => "MissingEnvironment" | .reError => "error"
  | .recursion => "RecursionError" | .typeError => "TypeError" | .indexError => "IndexError"
  | .notStr => "notStr"

def showMErr : PFM.MErr → String
  | .matcher i e => s!"unsupported:matcher-{i}-{showPyErr e}"
  | .unsupported => "unsupported:not-usable"
  | .badId => "unsupported:bad-id"
  | .init e => "err:" ++ showErr e
  | .sub => "unsupported:sub-raised"

def lookupsM (o : PFM.Obj) : List Path → Except PFM.MErr (List String)
  | [] => .ok []
  | p :: ps =>
    match o.matchM p with
    | .error e => .error e
    | .ok r =>
      match lookupsM o ps with
      | .error e => .error e
      | .ok rest => .ok ((match r with | some i => showItem i | none => "None") :: rest)

def opRunM (toks : List String) : String :=
  match caseM.run toks with
  | some (c, []) =>
    match PFM.newM c.specs c.locale c.projects c.mergebase with
    | .error e => showMErr e
    | .ok o =>
      let fs : FS := { files := c.univ.take c.nfiles }
      match o.iterM fs with
      | .error e => showMErr e
      | .ok items =>
        match lookupsM o c.univ with
        | .error e => showMErr e
        | .ok looks => "ok|" ++ ";".intercalate (items.map showItem) ++ "|" ++ ";".intercalate looks
  | _ => "bad-args"

/-! ### the TOML route: `TOMLParser` on the `toml.load` dictionaries (Paths/TomlConfig.lean)

`<tv>`    = `S <text>` | `O` | `A <n> <tv>*` | `D <n> (<key text> <tv>)*`           (the output of `toml.load`)
`<world>` = `<ignore 0|1> <cwd text> ENV <n> (<key> <value>)* W <n> (<path text> <tv>)*`

`c13.toml.parse <world> <path text> <deep: - | L n text*>` : `TOMLParser().parse(path, env, ignore)` (then
`set_locales(deep, deep=True)` unless `-`) as the canonical text of the `ProjectConfig` graph, or `err:<exception>`.

`c13.toml.same <world> <path a> <world'> <path b>` : `parse(a).same(parse(b))`, the second parse after the files were rewritten to `<world'>`.

`c13.toml.run <world> <locale|-> <mergebase text|-> P <n> <path text>* S <n> <text>* U <n> <sidx>* F <k> TT <n> <test name>* <root text>`
runs `TC.projectFiles` / enumeration / lookups: same result format as `pf.run`, every path with the prefix `<root>` cut off
the way the harness cuts the temp directory off (`!` + path if it is not below `<root>`), tests as indexes into `TT`. -/

open TC in
partial def tv : PM TV := do
  let t ← tok
  if t == "S" then do let s ← text; pure (.str s)
  else if t == "O" then pure .other
  else if t == "A" then do let l ← counted tv; pure (.arr l)
  else if t == "D" then do let l ← counted (do let k ← text; let v ← tv; pure (k, v)); pure (.tbl l)
  else failure

structure WorldArgs where
  ignore : Bool
  env : TC.Env
  w : TC.World

def world : PM WorldArgs := do
  let ig ← nat
  let cwd ← text
  expect "ENV"; let env ← counted kv
  expect "W"; let fs ← counted (do let p ← text; let v ← tv; pure (p, v))
  pure { ignore := ig == 1, env := env, w := { files := fs, cwd := cwd } }

def showLocs : Option (List (List Nat)) → String
  | none => "-"
  | some l => " ".intercalate (s!"L {l.length}" :: l.map showText)

def showOptText : Option (List Nat) → String
  | some p => showText p
  | none => "-"

def showEnvList (e : TC.Env) : String :=
  " ".intercalate (s!"E {e.length}" :: e.map fun kv => s!"{showText kv.1} {showText kv.2}")

/-- a stored `Matcher(text, env=environ, root=root)`: root as stored, pattern text, `=` for "env is the config's environ" -/
def showMatcher (cwd : List Nat) (root : Option (List Nat)) (t : List Nat) : String :=
  s!"m {showOptText (TC.matcherRoot cwd root)} {showText t} ="

def showPathD (cwd : List Nat) (root : Option (List Nat)) (d : TC.PathD) : String :=
  let r := match d.reference with
    | some t => showMatcher cwd root t
    | none => "-"
  let t := match d.test with
    | some ts => " ".intercalate (s!"T {ts.length}" :: ts.map showText)
    | none => "-"
  s!"p {showMatcher cwd root d.l10n} {r} {t} {showLocs d.locales} {showOptText d.module}"

def showRuleD (cwd : List Nat) (root : Option (List Nat)) (r : TC.RuleD) : String :=
  let k := match r.key with
    | some k => "k " ++ showText k.source
    | none => "-"
  s!"r {showMatcher cwd root r.path} {k} {showText r.action}"

mutual
partial def showPC (cwd : List Nat) : TC.PC → String
  | .mk p root e ps rs ls ch ex =>
    let c : TC.PC := .mk p root e ps rs ls ch ex
    " ".intercalate ([s!"C {showOptText p} {showOptText root} {showEnvList e}", s!"P {ps.length}"] ++ ps.map (showPathD cwd root) ++
      [s!"R {rs.length}"] ++ rs.map (showRuleD cwd root) ++ [showLocs ls, "A", showLocs (some c.allLocales),
       s!"I {ch.length}"] ++ ch.map (showPC cwd) ++ [s!"X {ex.length}"] ++ ex.map (showPC cwd))
end

def showTCErr : TC.Err → String
  | .configNotFound p => "err:ConfigNotFound " ++ showText p
  | .keyError k => "err:KeyError " ++ showText k
  | .excludeError => "err:ExcludeError"
  | .recursion => "err:RecursionError"
  | .matcher e => "err:matcher:" ++ showPyErr e
  | .illTyped => "unsupported:ill-typed"

def opTomlParse (toks : List String) : String :=
  match (do let a ← world; let p ← text; let d ← locs; pure (a, p, d) : PM _).run toks with
  | some ((a, p, deep), []) =>
    match TC.parse a.w a.env a.ignore p with
    | .error e => showTCErr e
    | .ok pc =>
      match deep with
      | none => showPC a.w.cwd pc
      | some ls => showPC a.w.cwd (pc.setLocalesDeep ls)
  | _ => "bad-args"

def opTomlSame (toks : List String) : String :=
  match (do let a ← world; let p ← text; let b ← world; let q ← text; pure (a, p, b, q) : PM _).run toks with
  | some ((a, p, b, q), []) =>
    match TC.parse a.w a.env a.ignore p, TC.parse b.w b.env b.ignore q with
    | .ok x, .ok y => if x.same y then "True" else "False"
    | .error e, _ => showTCErr e
    | _, .error e => showTCErr e
  | _ => "bad-args"

/-- the harness's `Strip`: cut the temp root off, `!` marks a path that is not below it -/
def stripRoot (root p : Path) : String :=
  if p == root || (root ++ [47]).isPrefixOf p then showText (p.drop root.length) else "!" ++ showText p

def showTests (tt : List (List Nat)) (codes : List Nat) : String :=
  let idx := codes.map fun c => tt.findIdx (· == PFM.decode c)
  showText (idx.foldl (fun s x => setInsert x s) [])

def showItemR (root : Path) (tt : List (List Nat)) (i : Item) : String :=
  let o : Option Path → String := fun x => match x with | some p => stripRoot root p | none => "-"
  s!"{stripRoot root i.path} {o i.reference} {o i.merge} {showTests tt i.test}"

def lookupsR (root : Path) (tt : List (List Nat)) (o : PFM.Obj) : List Path → Except PFM.MErr (List String)
  | [] => .ok []
  | p :: ps =>
    match o.matchM p with
    | .error e => .error e
    | .ok r =>
      match lookupsR root tt o ps with
      | .error e => .error e
      | .ok rest => .ok ((match r with | some i => showItemR root tt i | none => "None") :: rest)

def opTomlRun (toks : List String) : String :=
  let p : PM _ := do
    let a ← world
    let loc ← optText
    let mb ← optText
    expect "P"; let cfgs ← counted text
    expect "S"; let strs ← counted text
    let sa := strs.toArray
    let str : Nat → Path := fun i => match sa[i]? with | some p => p | none => missing
    expect "U"; let u ← counted nat
    expect "F"; let k ← nat
    expect "TT"; let tt ← counted text
    let root ← text
    pure (a, loc, mb, cfgs, u.map str, k, tt, root)
  match p.run toks with
  | some ((a, loc, mb, cfgs, univ, k, tt, root), []) =>
    match TC.projectFiles a.w a.env a.ignore cfgs loc mb with
    | .error (.parse i e) => s!"parse-{i}:" ++ showTCErr e
    | .error (.files e) => showMErr e
    | .ok o =>
      let fs : FS := { files := univ.take k }
      match o.iterM fs with
      | .error e => showMErr e
      | .ok items =>
        match lookupsR root tt o univ with
        | .error e => showMErr e
        | .ok looks => "ok|" ++ ";".intercalate (items.map (showItemR root tt)) ++ "|" ++ ";".intercalate looks
  | _ => "bad-args"

/-! ### the l10n.ini route (Paths/IniConfig.lean)

`<inidoc>`   = `<depth|-> <all|-> <includes: - | n (<title> <path>)*> <dirs|-> <n> (<title> <mozilla> <l10n.ini>)*`
`<iniworld>` = `<flavour: P | T <base> <n> (<from> <to>)*> <cwd> W <n> (<ini path> <inidoc>)* FL <n> <ini path>* LO <n> (<path> <n> <locale>*)*`

`c13.ini.config <iniworld> <inipath> <l10nbase>` : `EnumerateApp(inipath, l10nbase).asConfig()` (resp. `EnumerateSourceTreeApp`)
as the canonical text of the `ProjectConfig`, followed by ` FP <directory|->` (whose `filter.py` became `filter_py`), or `err:…`.

`c13.ini.run <iniworld> <inipath> <l10nbase> <locale|-> <mergebase|-> S <n> <text>* U <n> <sidx>* F <k> TT <n> <test>* <root>` :
`ProjectFiles(locale, [that config], mergebase)`, enumeration and lookups (format of `c13.toml.run`). -/

def optPairsT : PM (Option (List (List Nat × List Nat))) := optPairs

def inidoc : PM TI.IniDoc := do
  let depth ← optText
  let all ← optText
  let incs ← optPairsT
  let dirs ← optText
  let det ← counted (do let a ← text; let b ← text; let c ← text; pure (a, b, c))
  pure { depth := depth, all := all, includes := incs, dirs := dirs, details := det }

def flavour : PM TI.Flavour := do
  let t ← tok
  if t == "P" then pure .plain
  else if t == "T" then do let b ← text; let r ← counted kv; pure (.sourceTree b r)
  else failure

def iniworld : PM (TI.Flavour × TI.IniWorld) := do
  let fl ← flavour
  let cwd ← text
  expect "W"; let inis ← counted (do let p ← text; let d ← inidoc; pure (p, d))
  expect "FL"; let fs ← counted text
  expect "LO"; let ls ← counted (do let p ← text; let l ← counted text; pure (p, l))
  pure (fl, { inis := inis, filters := fs, locales := ls, cwd := cwd })

def showIniErr : TI.Err → String
  | .recursion => "err:RecursionError"
  | .noOption => "err:NoOptionError"
  | .openNone => "err:TypeError"
  | .fileNotFound p => "err:FileNotFoundError " ++ showText p
  | .matcher e => "err:matcher:" ++ showPyErr e

def opIniConfig (toks : List String) : String :=
  match (do let a ← iniworld; let p ← text; let b ← text; pure (a, p, b) : PM _).run toks with
  | some (((fl, w), p, b), []) =>
    match TI.enumerateApp w fl p b with
    | .error e => showIniErr e
    | .ok r => showPC w.cwd r.pc ++ " FP " ++ showOptText (r.filterFrom.map PF.dirname)
  | _ => "bad-args"

def opIniRun (toks : List String) : String :=
  let p : PM _ := do
    let a ← iniworld
    let ini ← text
    let base ← text
    let loc ← optText
    let mb ← optText
    expect "S"; let strs ← counted text
    let sa := strs.toArray
    let str : Nat → Path := fun i => match sa[i]? with | some p => p | none => missing
    expect "U"; let u ← counted nat
    expect "F"; let k ← nat
    expect "TT"; let tt ← counted text
    let root ← text
    pure (a, ini, base, loc, mb, u.map str, k, tt, root)
  match p.run toks with
  | some (((fl, w), ini, base, loc, mb, univ, k, tt, root), []) =>
    match TI.enumerateApp w fl ini base with
    | .error e => showIniErr e
    | .ok r =>
      let t := TC.toPFM { locale := loc, mergebase := mb, cwd := w.cwd } [r.pc]
      match PFM.newM t.1 loc t.2 mb.isSome with
      | .error e => showMErr e
      | .ok o =>
        let fs : FS := { files := univ.take k }
        match o.iterM fs with
        | .error e => showMErr e
        | .ok items =>
          match lookupsR root tt o univ with
          | .error e => showMErr e
          | .ok looks => "ok|" ++ ";".intercalate (items.map (showItemR root tt)) ++ "|" ++ ";".intercalate looks
  | _ => "bad-args"

/-! ### parser sessions (Paths/TomlSession.lean): a recorded history of calls on ONE `TOMLParser` object and on the
`ProjectConfig` graphs it returned

`c13.session <cwd> TT <n> <test>* <root> WORLDS <m> (<n> (<path> <tv>)*)* UNIVS <m> (<n> <text>* <k>)* OPS <n> <op>*`
* `<op>` = `PARSE <ignore 0|1> <env: - | n (<key> <value>)*> <world idx> <top path>`        `live.append(parser.parse(...))`
         | `DEEP <i> <n> <locale>*`                                                         `live[i].set_locales(ls, deep=True)`
         | `FILES <k> <i>* <locale|-> <mergebase|-> <universe idx>`                          `ProjectFiles(locale, [live[i]…], mergebase)`,
           enumeration over the first `k` paths of the universe (the regular files) and `match` of every path of it
* a world is the content of the configuration files WHEN the call was made (the harness rewrites files between calls)
Result: the results of the calls, then `END`, then the `ProjectConfig` graphs the caller holds at the end, joined by ` ## `
(formats of `c13.toml.parse` / `c13.toml.run`).

`c13.ini.session <iniworld> <inipath> <l10nbase> <n> <iniworld>*` : ONE `EnumerateApp` built in the first world, `asConfig()`
called once per following world; results in the format of `c13.ini.config`, joined by ` ## `. -/

def sessOp (cwd : List Nat) (worlds : Array TC.World) (univs : Array (List Path × Nat)) : PM TS.Op := do
  let t ← tok
  if t == "PARSE" then do
    let ig ← nat
    let env ← optPairs
    let wi ← nat
    let top ← text
    match worlds[wi]? with
    | some w => pure (.parse { w := w, env := env, ignore := ig == 1, path := top })
    | none => failure
  else if t == "DEEP" then do
    let i ← nat
    let ls ← counted text
    pure (.deep i ls)
  else if t == "FILES" then do
    let is ← counted nat
    let loc ← optText
    let mb ← optText
    let ui ← nat
    match univs[ui]? with
    | some (u, k) => pure (.files is loc mb cwd { files := u.take k } u)
    | none => failure
  else failure

def showListed (root : Path) (tt : List (List Nat)) : Except TC.EErr (List Item × List (Option Item)) → String
  | .error (.parse i e) => s!"parse-{i}:" ++ showTCErr e
  | .error (.files e) => showMErr e
  | .ok (its, ls) =>
    "ok|" ++ ";".intercalate (its.map (showItemR root tt)) ++ "|" ++
      ";".intercalate (ls.map fun r => match r with | some i => showItemR root tt i | none => "None")

def showOut (cwd root : Path) (tt : List (List Nat)) : TS.Out → String
  | .parsed (.ok pc) => showPC cwd pc
  | .parsed (.error e) => showTCErr e
  | .mutated pc => showPC cwd pc
  | .listed r => showListed root tt r
  | .badIndex => "bad-index"

def opSession (toks : List String) : String :=
  let p : PM _ := do
    let cwd ← text
    expect "TT"; let tt ← counted text
    let root ← text
    expect "WORLDS"
    let ws ← counted (do let fs ← counted (do let p ← text; let v ← tv; pure (p, v)); pure ({ files := fs, cwd := cwd } : TC.World))
    expect "UNIVS"
    let us ← counted (do let u ← counted text; let k ← nat; pure (u, k))
    expect "OPS"
    let ops ← counted (sessOp cwd ws.toArray us.toArray)
    pure (cwd, tt, root, ops)
  match p.run toks with
  | some ((cwd, tt, root, ops), []) =>
    let r := TS.run TS.State.init ops
    " ## ".intercalate (r.2.map (showOut cwd root tt) ++ ["END"] ++ r.1.live.map (showPC cwd))
  | _ => "bad-args"

def showIniResult (w : TI.IniWorld) : Except TI.Err TI.Result → String
  | .error e => showIniErr e
  | .ok r => showPC w.cwd r.pc ++ " FP " ++ showOptText (r.filterFrom.map PF.dirname)

def opIniSession (toks : List String) : String :=
  match (do let a ← iniworld; let p ← text; let b ← text; let ws ← counted iniworld; pure (a, p, b, ws) : PM _).run toks with
  | some (((fl, w), p, b, ws), []) =>
    match TS.EApp.new w fl p b with
    | .error e => showIniErr e
    | .ok app =>
      let worlds := ws.map (·.2)
      " ## ".intercalate ((worlds.zip (app.session worlds)).map fun x => showIniResult x.1 x.2)
  | _ => "bad-args"

def ops : List (String × (List String → String)) :=
  [("pf.run", opRun), ("pf.env", opEnv), ("pfm.run", opRunM),
   ("c13.toml.parse", opTomlParse), ("c13.toml.same", opTomlSame), ("c13.toml.run", opTomlRun),
   ("c13.ini.config", opIniConfig), ("c13.ini.run", opIniRun),
   ("c13.session", opSession), ("c13.ini.session", opIniSession)]
end Ops.C13

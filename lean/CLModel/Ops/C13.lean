import CLModel.Proto
import CLModel.Paths.ProjectFiles
import CLModel.Paths.ProjectFilesM
/-!
Driver operations of C13.

`pf.run <locale|-> <mergebase 0|1> P <n> <config>* S <n> <path text>* U <n> <sidx>* F <k>
        M <n> (<pfx sidx> <realpfx sidx> <pat> <literal 0|1>)* T <n> (<mid> <sidx> <gid>)* X <n> (<mid> <gid> <sidx>)*`

* `S` is the table of all path strings; every other path is an index into it

* `<config>` = `C <pathid> <locs> <npaths> <rule>* <nchildren> <config>* <nexcludes> <config>*`
* `<rule>`   = `R <l10n mid> <reference mid|-> <merge mid> <tests t:…|-> <locs>`
* `<locs>`   = `-` | `L <n> <text>*`
* `U` is the universe of paths (all are looked up with `match`), its first `k` entries are the regular
  files of the tree in `os.walk` order; `T` is the match relation over the universe, `X` the `sub` expansions.

Result: `ok|<item>;…|<lookup>;…` or `err:<exception>`.

`pfm.run <locale|-> <mergebase 0|1> P <n> <config>* S <n> <path text>* U <n> <sidx>* F <k> M <n> <matcher>*`
runs the composed model `ProjectFilesM` (Paths/ProjectFilesM.lean): the matcher table is given as TEXTS,
* `<matcher>` = `<root text|-> <pattern text> <n> (<key> <value>)* <nw|-> (<key> <value>)*`
  = `Matcher(pattern, env, root)` followed by `.with_env({...})` unless `-`,
and the match relation, `sub`, `prefix`, `literal` are computed by the `Matcher` model.  Same result format;
`unsupported:<why>` when the table leaves the class the composed model supports.
-/
namespace Ops.C13
open Proto PF

abbrev PM := StateT (List String) Option

def tok : PM String := fun s => match s with | [] => none | t :: r => some (t, r)
def nat : PM Nat := do let t ← tok; (parseNat t : Option Nat)
def text : PM (List Nat) := do let t ← tok; (parseText t : Option (List Nat))
def expect (w : String) : PM Unit := do let t ← tok; if t == w then pure () else failure

def many (p : PM α) : Nat → PM (List α)
  | 0 => pure []
  | n + 1 => do let x ← p; let xs ← many p n; pure (x :: xs)

def counted (p : PM α) : PM (List α) := do let n ← nat; many p n

def locs : PM (Option (List Loc)) := do
  let t ← tok
  if t == "-" then pure none
  else if t == "L" then do let l ← counted text; pure (some l)
  else failure

def optNat : PM (Option Nat) := do
  let t ← tok
  if t == "-" then pure none else (parseNat t).map some

def optText : PM (Option (List Nat)) := do
  let t ← tok
  if t == "-" then pure none else (parseText t).map some

def rule : PM PathRule := do
  expect "R"
  let l ← nat; let r ← optNat; let m ← nat; let t ← optText; let ls ← locs
  pure { l10n := l, reference := r, merge := m, test := t, locales := ls }

partial def config : PM Config := do
  expect "C"
  let p ← nat; let ls ← locs; let ps ← counted rule
  let ch ← counted config; let ex ← counted config
  pure (.mk p ls ps ch ex)

structure Case where
  locale : Option Loc
  mergebase : Bool
  projects : List Config
  univ : List Path
  nfiles : Nat
  env : MEnv

def lookup2 [BEq α] [BEq β] (tbl : List (α × β × γ)) (a : α) (b : β) : Option γ :=
  (tbl.find? fun e => e.1 == a && e.2.1 == b).map (·.2.2)

/-- value used for an entry missing from a harness table; not a character of any real path, so a
    missing entry shows as a disagreement -/
def missing : Path := [0]

def case : PM Case := do
  let loc ← optText
  let mb ← nat
  expect "P"; let ps ← counted config
  expect "S"; let strs ← counted text
  let sa := strs.toArray
  let str : Nat → Path := fun i => match sa[i]? with | some p => p | none => missing
  expect "U"; let u ← counted nat
  expect "F"; let k ← nat
  expect "M"; let ms ← counted (do let a ← nat; let b ← nat; let c ← nat; let d ← nat; pure (str a, str b, c, d == 1))
  expect "T"; let ts ← counted (do let m ← nat; let i ← nat; let g ← nat; pure (m, str i, g))
  expect "X"; let xs ← counted (do let m ← nat; let g ← nat; let p ← nat; pure (m, g, str p))
  let ma := ms.toArray
  let env : MEnv := {
    pfx := fun m => match ma[m]? with | some e => e.1 | none => missing
    realpfx := fun m => match ma[m]? with | some e => e.2.1 | none => missing
    pat := fun m => match ma[m]? with | some e => e.2.2.1 | none => 0
    literal := fun m => match ma[m]? with | some e => e.2.2.2 | none => false
    mtch := fun m p => lookup2 ts m p
    expand := fun m g => match lookup2 xs m g with | some p => p | none => missing }
  pure { locale := loc, mergebase := mb == 1, projects := ps, univ := u.map str, nfiles := k, env := env }

def showOptPath : Option Path → String
  | some p => showText p
  | none => "-"

def showItem (i : Item) : String :=
  s!"{showText i.path} {showOptPath i.reference} {showOptPath i.merge} {showText i.test}"

def showErr : Err → String
  | .runtimeMismatch => "RuntimeError"
  | .attributeNone => "AttributeError"
  | .typeErrorLocale => "TypeError"
  | .depth => "model-depth"

def opRun (toks : List String) : String :=
  match case.run toks with
  | some (c, []) =>
    match PF.new c.env c.locale c.projects c.mergebase with
    | .error e => "err:" ++ showErr e
    | .ok pf =>
      let fs : FS := { files := c.univ.take c.nfiles }
      let items := (pf.iter c.env fs).map showItem
      let looks := c.univ.map fun p =>
        match pf.matchPath c.env p with
        | some i => showItem i
        | none => "None"
      "ok|" ++ ";".intercalate items ++ "|" ++ ";".intercalate looks
  | _ => "bad-args"

def pairs : List Nat → Option (List (Nat × Nat))
  | [] => some []
  | k :: v :: r => (pairs r).map ((k, v) :: ·)
  | _ => none

/-- `pf.env <file env k,v,…> <parser env k,v,…>` : `ProjectConfig.environ` after `processEnv` -/
def opEnv (toks : List String) : String :=
  match toks with
  | [a, b] =>
    match (parseText a).bind pairs, (parseText b).bind pairs with
    | some f, some p => showText ((processEnv f p).flatMap fun kv => [kv.1, kv.2])
    | _, _ => "bad-args"
  | _ => "bad-args"

/-! ### the composed model: pattern texts instead of match tables -/

def kv : PM (List Nat × List Nat) := do let k ← text; let v ← text; pure (k, v)

def optPairs : PM (Option (List (List Nat × List Nat))) := do
  let t ← tok
  if t == "-" then pure none
  else do
    let n ← (parseNat t : Option Nat)
    let l ← many kv n
    pure (some l)

def mspec : PM PFM.MSpec := do
  let root ← optText
  let pat ← text
  let env ← counted kv
  let w ← optPairs
  pure { pattern := pat, env := env, root := root, withEnv := w }

structure CaseM where
  locale : Option Loc
  mergebase : Bool
  projects : List Config
  univ : List Path
  nfiles : Nat
  specs : List PFM.MSpec

def caseM : PM CaseM := do
  let loc ← optText
  let mb ← nat
  expect "P"; let ps ← counted config
  expect "S"; let strs ← counted text
  let sa := strs.toArray
  let str : Nat → Path := fun i => match sa[i]? with | some p => p | none => missing
  expect "U"; let u ← counted nat
  expect "F"; let k ← nat
  expect "M"; let ms ← counted mspec
  pure { locale := loc, mergebase := mb == 1, projects := ps, univ := u.map str, nfiles := k, specs := ms }

def showPyErr : PM.PyErr → String
  | .keyError => "KeyError" | .missingEnv => "MissingEnvironment" | .reError => "error"
  | .recursion => "RecursionError" | .typeError => "TypeError" | .indexError => "IndexError"
  | .notStr => "notStr"

def showMErr : PFM.MErr → String
  | .matcher i e => s!"unsupported:matcher-{i}-{showPyErr e}"
  | .unsupported => "unsupported:not-usable"
  | .badId => "unsupported:bad-id"
  | .init e => "err:" ++ showErr e
  | .sub => "unsupported:sub-raised"

def lookupsM (o : PFM.Obj) : List Path → Except PFM.MErr (List String)
  | [] => .ok []
  | p :: ps =>
    match o.matchM p with
    | .error e => .error e
    | .ok r =>
      match lookupsM o ps with
      | .error e => .error e
      | .ok rest => .ok ((match r with | some i => showItem i | none => "None") :: rest)

def opRunM (toks : List String) : String :=
  match caseM.run toks with
  | some (c, []) =>
    match PFM.newM c.specs c.locale c.projects c.mergebase with
    | .error e => showMErr e
    | .ok o =>
      let fs : FS := { files := c.univ.take c.nfiles }
      match o.iterM fs with
      | .error e => showMErr e
      | .ok items =>
        match lookupsM o c.univ with
        | .error e => showMErr e
        | .ok looks => "ok|" ++ ";".intercalate (items.map showItem) ++ "|" ++ ";".intercalate looks
  | _ => "bad-args"

def ops : List (String × (List String → String)) :=
  [("pf.run", opRun), ("pf.env", opEnv), ("pfm.run", opRunM)]
end Ops.C13

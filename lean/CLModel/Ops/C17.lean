import CLModel.Proto
import CLModel.Parser.Formats
import CLModel.Parser.Fluent
import CLModel.Parser.Position
import CLModel.Parser.PositionCache
import CLModel.Lint.Linter
import CLModel.Ops.C01
namespace Ops.C17
open Proto P Pos

/-- "L,C" or "X" (the Python call raised) -/
def showLC : Option (Int × Int) → String
  | some (l, c) => s!"{l},{c}"
  | none => "X"

def parseSpan (a b : String) : Option (Option (Int × Int)) :=
  if a == "N" then some none else
  match parseInt a, parseInt b with
  | some x, some y => some (some (x, y))
  | _, _ => none

/-- linecol <text> <pos> -/
def opLinecol (toks : List String) : String :=
  match toks with
  | [t, p] =>
    match parseText t, parseInt p with
    | some t, some p => showLC (linecol t.toArray p)
    | _, _ => "bad-args"
  | _ => "bad-args"

/-- c17.pos <text> <s> <e> <offset> : Entry.position / Junk.position -/
def opPos (toks : List String) : String :=
  match toks with
  | [t, s, e, o] =>
    match parseText t, parseNat s, parseNat e, parseInt o with
    | some t, some s, some e, some o =>
      showLC (position t.toArray { kind := .entity, full := s, s := s, e := e } o)
    | _, _, _, _ => "bad-args"
  | _ => "bad-args"

/-- c17.vpos <text> <vs|N> <ve|N> <offset> : Entry.value_position -/
def opVPos (toks : List String) : String :=
  match toks with
  | [t, a, b, o] =>
    match parseText t, parseSpan a b, parseInt o with
    | some t, some sp, some o => showLC (valuePosition t.toArray sp o)
    | _, _, _ => "bad-args"
  | _ => "bad-args"

/-- c17.dtd <text> <vs|N> <ve|N> <line_pos> <col_pos> : DTDEntity.value_position((line_pos, col_pos)) -/
def opDtd (toks : List String) : String :=
  match toks with
  | [t, a, b, l, c] =>
    match parseText t, parseSpan a b, parseInt l, parseInt c with
    | some t, some sp, some l, some c => showLC (dtdValuePositionTuple t.toArray sp l c)
    | _, _, _, _ => "bad-args"
  | _ => "bad-args"

/-- c17.ftl <text> <s> <e> <ke> <vs> <ve> <offset|N> : FluentEntity.value_position (vs = -1: no value) -/
def opFtl (toks : List String) : String :=
  match toks with
  | [t, s, e, ke, vs, ve, o] =>
    match parseText t, parseNat s, parseNat e, parseInt ke, parseInt vs, parseInt ve with
    | some t, some s, some e, some ke, some vs, some ve =>
      let ent : Entry := { kind := .entity, full := s, s := s, e := e, ke := ke, vs := vs, ve := ve }
      if o == "N" then showLC (fluentValuePosition t.toArray ent none)
      else match parseInt o with
        | some o => showLC (fluentValuePosition t.toArray ent (some o))
        | none => "bad-args"
    | _, _, _, _, _, _ => "bad-args"
  | _ => "bad-args"

/-- c17.junk <text> <s> <e> : the four numbers of Junk.error_message -/
def opJunk (toks : List String) : String :=
  match toks with
  | [t, s, e] =>
    match parseText t, parseNat s, parseNat e with
    | some t, some s, some e =>
      match junkMessagePositions t.toArray { kind := .junk, full := s, s := s, e := e } with
      | some (a, b, c, d) => s!"{a},{b},{c},{d}"
      | none => "X"
    | _, _, _ => "bad-args"
  | _ => "bad-args"

def parseCls : String → Option EntCls
  | "plain" => some .plain | "dtd" => some .dtd | "fluent" => some .fluent | _ => none

def parseKind : String → Option Kind
  | "E" => some .entity | "C" => some .comment | "W" => some .whitespace | "J" => some .junk
  | "S" => some .section | "I" => some .instruction | _ => none

/-- c17.resolve <cls> <text> <kind> <s> <e> <ke> <vs> <ve> <E|O|T> <a> <b> :
    the position ContentComparer.compare / EntityLinter.lint_value report for a checker position -/
def opResolve (toks : List String) : String :=
  match toks with
  | [cls, t, k, s, e, ke, vs, ve, tag, a, b] =>
    match parseCls cls, parseText t, parseKind k, parseNat s, parseNat e, parseInt ke, parseInt vs, parseInt ve,
          parseInt a, parseInt b with
    | some cls, some t, some k, some s, some e, some ke, some vs, some ve, some a, some b =>
      let ent : Entry := { kind := k, full := s, s := s, e := e, ke := ke, vs := vs, ve := ve }
      let p : Option CheckPos := match tag with
        | "E" => some (.entityPos a) | "O" => some (.offset a) | "T" => some (.tuple a b) | _ => none
      match p with
      | some p => showLC (resolveCheckPos t.toArray cls ent p)
      | none => "bad-args"
    | _, _, _, _, _, _, _, _, _, _ => "bad-args"
  | _ => "bad-args"

/-- every position the harness observes on one entry of a parsed file -/
def showEntryPositions (s : Array Nat) (fluent : Bool) (e : Entry) : String :=
  let mid : Int := ((e.e - e.s) / 2 : Nat)
  let p := s!"{showLC (position s e 0)} {showLC (position s e (-1))} {showLC (position s e mid)}"
  match e.kind with
  | .junk =>
    let m := match junkMessagePositions s e with
      | some (a, b, c, d) => s!"{a},{b},{c},{d}"
      | none => "X"
    s!"J {p} m={m}"
  | _ =>
    let vsp := valSpan fluent e
    let vmid : Int := ((e.ve - e.vs).toNat / 2 : Nat)
    let v := if fluent && e.kind == .entity then
        s!"{showLC (fluentValuePosition s e none)} {showLC (fluentValuePosition s e (some (-1)))} {showLC (fluentValuePosition s e (some mid))}"
      else
        s!"{showLC (valuePosition s vsp 0)} {showLC (valuePosition s vsp (-1))} {showLC (valuePosition s vsp vmid)}"
    s!"{Ops.C01.showKind e.kind} {p} {v}"

/-- c17.file <fmt> <text> : parse with the format's model, then all positions of every entry -/
def opFile (toks : List String) : String :=
  match toks with
  | [f, t] =>
    match Ops.C01.parseFmt f, parseText t with
    | some f, some t =>
      let s := t.toArray
      match walk f s with
      | .done es => " | ".intercalate ("done" :: es.map (showEntryPositions s false))
      | .stuck off _ => s!"stuck {off}"
    | _, _ => "bad-args"
  | _ => "bad-args"

/-- c17.fluent <text> (<kind> s e ks ke vs ve)* : FluentParser.walk over the given body, then all positions -/
def opFluentFile (toks : List String) : String :=
  match toks with
  | t :: body =>
    match parseText t, Ops.C01.parseBody body with
    | some t, some body =>
      let s := t.toArray
      " | ".intercalate ("done" :: (fluentWalk s body false).map (showEntryPositions s true))
    | _, _ => "bad-args"
  | _ => "bad-args"

/-- c17.lcseq <text> <p1> <p2> … : `linecol` for every position, in this order, on ONE `Parser.Context`
    (the first call builds the cached line table) -/
def opLcSeq (toks : List String) : String :=
  match toks with
  | t :: ps =>
    match parseText t, ps.mapM parseInt with
    | some t, some ps =>
      " ".intercalate ((({ contents := t.toArray } : Ctx).linecolSeq ps).1.map showLC)
    | _, _ => "bad-args"
  | _ => "bad-args"

/-- c17.junkmsg <text> <s> <e> : the whole text of `Junk.error_message()` (linter model of the message) -/
def opJunkMsg (toks : List String) : String :=
  match toks with
  | [t, s, e] =>
    match parseText t, parseNat s, parseNat e with
    | some t, some s, some e =>
      let ent : Lint.Ent := { kind := .junk, key := [], eq := 0, mode := .ctx, s := s, e := e }
      showText (Lint.errorMessage t.toArray (Lint.lineEnds t) ent)
    | _, _, _ => "bad-args"
  | _ => "bad-args"

/-- c17.node <offset> : `position(offset)` and `value_position(offset)` of an Android entity / XMLJunk (no spans) -/
def opNode (toks : List String) : String :=
  match toks with
  | [o] =>
    match parseInt o with
    | some o =>
      let ent : Lint.Ent := { kind := .entity, key := [], eq := 0, mode := .node, s := 0, e := 0 }
      let p := Lint.position [] ent o
      let v := match Lint.valuePosition [] ent (.value o) with
        | .ok (l, c) => s!"{l},{c}"
        | .error x => x
      s!"{p.1},{p.2} {v}"
    | none => "bad-args"
  | _ => "bad-args"

def ops : List (String × (List String → String)) :=
  [("c17.lcseq", opLcSeq), ("c17.junkmsg", opJunkMsg), ("c17.node", opNode), ("linecol", opLinecol), ("c17.pos", opPos), ("c17.vpos", opVPos), ("c17.dtd", opDtd), ("c17.ftl", opFtl),
   ("c17.junk", opJunk), ("c17.resolve", opResolve), ("c17.file", opFile), ("c17.fluent", opFluentFile)]
end Ops.C17

import CLModel.Proto
import CLModel.Compare.Merge
import CLModel.Compare.MergeBytes
namespace Ops.C04
open Proto Merge

def parseSkips : Nat → List String → Option (List Skip × List String)
  | 0, rest => some ([], rest)
  | n + 1, s :: e :: j :: t :: rest => do
    let s ← parseInt s
    let e ← parseInt e
    let t ← parseText t
    let (sk, r) ← parseSkips n rest
    let span := if s < 0 then none else some (s.toNat, e.toNat)
    pure ({ span := span, junk := j == "1", refAll := t } :: sk, r)
  | _, _ => none

def parseTexts : Nat → List String → Option (List (List Nat) × List String)
  | 0, rest => some ([], rest)
  | n + 1, t :: rest => do
    let t ← parseText t
    let (ts, r) ← parseTexts n rest
    pure (t :: ts, r)
  | _, _ => none

def showOutcome : Outcome → String
  | .nothing => "nothing"
  | .copyRef => "copy-ref"
  | .copyL10n => "copy-l10n"
  | .copyL10nPlus t => "copy-l10n+ " ++ showText t
  | .written t => "written " ++ showText t
  | .typeError => "TypeError"

/-- merge <0|1 mergeFile> <caps> <contents> <nskips> (s e junk refAll)* <nmissing> (refAll)* -/
def opMerge (toks : List String) : String :=
  match toks with
  | mf :: caps :: contents :: n :: rest =>
    match parseNat caps, parseText contents, parseNat n with
    | some caps, some contents, some n =>
      match parseSkips n rest with
      | some (skips, m :: rest2) =>
        match parseNat m with
        | some m =>
          match parseTexts m rest2 with
          | some (ms, []) => showOutcome (merge (mf == "1") caps contents skips ms)
          | _ => "bad-args"
        | none => "bad-args"
      | _ => "bad-args"
    | _, _, _ => "bad-args"
  | _ => "bad-args"

/-! ### round 4: bytes, quiet levels -/
open MergeB

def showFileOut : FileOut → String
  | .noFile => "nofile"
  | .bytes b => "bytes " ++ showText b
  | .typeError => "TypeError"
  | .encodeError => "EncodeError"

/-- c04.decode <bytes>: `Parser.readFile` (UTF-8 with replacement, universal newlines) -/
def opDecode (toks : List String) : String :=
  match toks with
  | [b] => match parseText b with
    | some b => showText (readFile b)
    | none => "bad-args"
  | _ => "bad-args"

/-- c04.decode8 <bytes>: `Parser.readContents` (UTF-8 with replacement, NO newline translation) -/
def opDecode8 (toks : List String) : String :=
  match toks with
  | [b] => match parseText b with
    | some b => showText (decodeUtf8 b)
    | none => "bad-args"
  | _ => "bad-args"

/-- c04.encode <text>: strict UTF-8 encoder -/
def opEncode (toks : List String) : String :=
  match toks with
  | [t] => match parseText t with
    | some t => (match encodeUtf8 t with | some b => showText b | none => "EncodeError")
    | none => "bad-args"
  | _ => "bad-args"

/-- c04.mergeb <0|1 mergeFile> <caps> <l10n bytes> <ref bytes> <nskips> (s e junk refAll)* <nmissing> (refAll)* -/
def opMergeB (toks : List String) : String :=
  match toks with
  | mf :: caps :: l10n :: ref :: n :: rest =>
    match parseNat caps, parseText l10n, parseText ref, parseNat n with
    | some caps, some l10n, some ref, some n =>
      match parseSkips n rest with
      | some (skips, m :: rest2) =>
        match parseNat m with
        | some m =>
          match parseTexts m rest2 with
          | some (ms, []) => showFileOut (mergeBytes (mf == "1") caps l10n ref skips ms)
          | _ => "bad-args"
        | none => "bad-args"
      | _ => "bad-args"
    | _, _, _, _ => "bad-args"
  | _ => "bad-args"

def retOfChar : Char → ObsM.Ret
  | 'w' => .warning
  | 'i' => .ignore
  | _ => .error

/-- (key, verdict per observer, refAll)* -/
def parseEnts : Nat → List String → Option (List (List Nat × List Char × List Nat) × List String)
  | 0, rest => some ([], rest)
  | n + 1, k :: v :: t :: rest => do
    let k ← parseText k
    let t ← parseText t
    let (es, r) ← parseEnts n rest
    pure ((k, v.toList, t) :: es, r)
  | _, _ => none

/-- the filter of observer `j`: the verdict table of the generated case (any other key: "error") -/
def tableFilter (ents : List (List Nat × List Char × List Nat)) (j : Nat) : ObsM.Filter :=
  fun _ d =>
    match d with
    | .str k =>
      match ents.find? (fun e => e.1 == k) with
      | some e => (match e.2.1[j]? with | some c => retOfChar c | none => .error)
      | none => .error
    | _ => .error

/-- c04.qmerge <quiet> <obsspec: one of f|n per observer> <file> <caps> <l10n bytes> <ref bytes>
      <nents> (key verdicts refAll)* <nskips> (s e junk refAll)*
    → `<FileOut> | missing=<n> report=<n>` or the Python exception -/
def opQMerge (toks : List String) : String :=
  match toks with
  | q :: spec :: file :: caps :: l10n :: ref :: n :: rest =>
    match parseNat q, parseText file, parseNat caps, parseText l10n, parseText ref, parseNat n with
    | some q, some file, some caps, some l10n, some ref, some n =>
      match parseEnts n rest with
      | some (ents, m :: rest2) =>
        match parseNat m with
        | some m =>
          match parseSkips m rest2 with
          | some (skips, []) =>
            let specs := spec.toList
            let filters : List (Option ObsM.Filter) :=
              (List.range specs.length).map (fun j => if specs[j]? == some 'f' then some (tableFilter ents j) else none)
            let f : ObsM.File := { file := file, module := none, locale := some [120, 120] }
            match compareMerge q filters f (ents.map (fun e => (ObsM.Data.str e.1, e.2.2))) caps l10n ref skips with
            | .ok (out, mi, re) => showFileOut out ++ s!" | missing={mi} report={re}"
            | .error e => e.name
          | _ => "bad-args"
        | none => "bad-args"
      | _ => "bad-args"
    | _, _, _, _, _, _ => "bad-args"
  | _ => "bad-args"

def ops : List (String × (List String → String)) :=
  [("merge", opMerge), ("c04.decode", opDecode), ("c04.decode8", opDecode8), ("c04.encode", opEncode), ("c04.mergeb", opMergeB), ("c04.qmerge", opQMerge)]
end Ops.C04

import CLModel.Proto
import CLModel.Compare.Merge
import CLModel.Compare.MergeBytes
import CLModel.Compare.MergeSession
namespace Ops.C04
open Proto Merge

def parseSkips : Nat → List String → Option (List Skip × List String)
  | 0, rest => some ([], rest)
  | n + 1, s :: e :: j :: t :: rest => do
    let s ← parseInt s
    let e ← parseInt e
    let t ← parseText t
    let (sk, r) ← parseSkips n rest
    let span := if s < 0 then none else some (s.toNat, e.toNat)
    pure ({ span := span, junk := j == "1", refAll := t } :: sk, r)
  | _, _ => none

def parseTexts : Nat → List String → Option (List (List Nat) × List String)
  | 0, rest => some ([], rest)
  | n + 1, t :: rest => do
    let t ← parseText t
    let (ts, r) ← parseTexts n rest
    pure (t :: ts, r)
  | _, _ => none

def showOutcome : Outcome → String
  | .nothing => "nothing"
  | .copyRef => "copy-ref"
  | .copyL10n => "copy-l10n"
  | .copyL10nPlus t => "copy-l10n+ " ++ showText t
  | .written t => "written " ++ showText t
  | .typeError => "TypeError"

/-- merge <0|1 mergeFile> <caps> <contents> <nskips> (s e junk refAll)* <nmissing> (refAll)* -/
def opMerge (toks : List String) : String :=
  match toks with
  | mf :: caps :: contents :: n :: rest =>
    match parseNat caps, parseText contents, parseNat n with
    | some caps, some contents, some n =>
      match parseSkips n rest with
      | some (skips, m :: rest2) =>
        match parseNat m with
        | some m =>
          match parseTexts m rest2 with
          | some (ms, []) => showOutcome (merge (mf == "1") caps contents skips ms)
          | _ => "bad-args"
        | none => "bad-args"
      | _ => "bad-args"
    | _, _, _ => "bad-args"
  | _ => "bad-args"

/-! ### round 4: bytes, quiet levels -/
open MergeB

def showFileOut : FileOut → String
  | .noFile => "nofile"
  | .bytes b => "bytes " ++ showText b
  | .typeError => "TypeError"
  | .encodeError => "EncodeError"

/-- c04.decode <bytes>: `Parser.readFile` (UTF-8 with replacement, universal newlines) -/
def opDecode (toks : List String) : String :=
  match toks with
  | [b] => match parseText b with
    | some b => showText (readFile b)
    | none => "bad-args"
  | _ => "bad-args"

/-- c04.decode8 <bytes>: `Parser.readContents` (UTF-8 with replacement, NO newline translation) -/
def opDecode8 (toks : List String) : String :=
  match toks with
  | [b] => match parseText b with
    | some b => showText (decodeUtf8 b)
    | none => "bad-args"
  | _ => "bad-args"

/-- c04.encode <text>: strict UTF-8 encoder -/
def opEncode (toks : List String) : String :=
  match toks with
  | [t] => match parseText t with
    | some t => (match encodeUtf8 t with | some b => showText b | none => "EncodeError")
    | none => "bad-args"
  | _ => "bad-args"

/-- c04.mergeb <0|1 mergeFile> <caps> <l10n bytes> <ref bytes> <nskips> (s e junk refAll)* <nmissing> (refAll)* -/
def opMergeB (toks : List String) : String :=
  match toks with
  | mf :: caps :: l10n :: ref :: n :: rest =>
    match parseNat caps, parseText l10n, parseText ref, parseNat n with
    | some caps, some l10n, some ref, some n =>
      match parseSkips n rest with
      | some (skips, m :: rest2) =>
        match parseNat m with
        | some m =>
          match parseTexts m rest2 with
          | some (ms, []) => showFileOut (mergeBytes (mf == "1") caps l10n ref skips ms)
          | _ => "bad-args"
        | none => "bad-args"
      | _ => "bad-args"
    | _, _, _, _ => "bad-args"
  | _ => "bad-args"

def retOfChar : Char → ObsM.Ret
  | 'w' => .warning
  | 'i' => .ignore
  | _ => .error

/-- (key, verdict per observer, refAll)* -/
def parseEnts : Nat → List String → Option (List (List Nat × List Char × List Nat) × List String)
  | 0, rest => some ([], rest)
  | n + 1, k :: v :: t :: rest => do
    let k ← parseText k
    let t ← parseText t
    let (es, r) ← parseEnts n rest
    pure ((k, v.toList, t) :: es, r)
  | _, _ => none

/-- the filter of observer `j`: the verdict table of the generated case (any other key: "error") -/
def tableFilter (ents : List (List Nat × List Char × List Nat)) (j : Nat) : ObsM.Filter :=
  fun _ d =>
    match d with
    | .str k =>
      match ents.find? (fun e => e.1 == k) with
      | some e => (match e.2.1[j]? with | some c => retOfChar c | none => .error)
      | none => .error
    | _ => .error

/-- c04.qmerge <quiet> <obsspec: one of f|n per observer> <file> <caps> <l10n bytes> <ref bytes>
      <nents> (key verdicts refAll)* <nskips> (s e junk refAll)*
    → `<FileOut> | missing=<n> report=<n>` or the Python exception -/
def opQMerge (toks : List String) : String :=
  match toks with
  | q :: spec :: file :: caps :: l10n :: ref :: n :: rest =>
    match parseNat q, parseText file, parseNat caps, parseText l10n, parseText ref, parseNat n with
    | some q, some file, some caps, some l10n, some ref, some n =>
      match parseEnts n rest with
      | some (ents, m :: rest2) =>
        match parseNat m with
        | some m =>
          match parseSkips m rest2 with
          | some (skips, []) =>
            let specs := spec.toList
            let filters : List (Option ObsM.Filter) :=
              (List.range specs.length).map (fun j => if specs[j]? == some 'f' then some (tableFilter ents j) else none)
            let f : ObsM.File := { file := file, module := none, locale := some [120, 120] }
            match compareMerge q filters f (ents.map (fun e => (ObsM.Data.str e.1, e.2.2))) caps l10n ref skips with
            | .ok (out, mi, re) => showFileOut out ++ s!" | missing={mi} report={re}"
            | .error e => e.name
          | _ => "bad-args"
        | none => "bad-args"
      | _ => "bad-args"
    | _, _, _, _, _, _ => "bad-args"
  | _ => "bad-args"

/-! ### round 5: sessions (one comparer, a sequence of jobs) -/
open MergeS in
/-- c04.capsof <name>: `parser.getParser(name).capabilities` or `none` (UserWarning) -/
def opCapsOf (toks : List String) : String :=
  match toks with
  | [n] => match parseText n with
    | some n => (match capsOfName n with | some c => toString c | none => "none")
    | none => "bad-args"
  | _ => "bad-args"

/-- the session's filter of observer `j`: file-level questions (`entity is None`) get `fv`, keys the verdict of the
    union of the jobs' tables, anything else "error" -/
def sessionFilter (fv : ObsM.Ret) (ents : List (List Nat × List Char × List Nat)) (j : Nat) : ObsM.Filter :=
  fun f d =>
    match d with
    | .none => fv
    | _ => tableFilter ents j f d

/-- <c|a|r> <name> <mergepath|-> <l10n> <ref> <nref> <nents> (key verdicts refAll)* <nskips> (s e junk refAll)* -/
def parseJobs : Nat → List String → Option (List (MergeS.Job × List (List Nat × List Char × List Nat)) × List String)
  | 0, rest => some ([], rest)
  | n + 1, k :: name :: mp :: l10n :: ref :: nref :: ne :: rest => do
    let kind ← (if k == "c" then some MergeS.Kind.compare else if k == "a" then some .add else if k == "r" then some .remove else none)
    let name ← parseText name
    let mp ← (if mp == "-" then some none else (parseText mp).map some)
    let l10n ← parseText l10n
    let ref ← parseText ref
    let nref ← parseNat nref
    let ne ← parseNat ne
    let (ents, rest1) ← parseEnts ne rest
    match rest1 with
    | ns :: rest2 =>
      let ns ← parseNat ns
      let (skips, rest3) ← parseSkips ns rest2
      let (js, r) ← parseJobs n rest3
      let job : MergeS.Job := { kind := kind, name := name, mergePath := mp, l10n := l10n, ref := ref, nref := nref,
                                ents := ents.map (fun e => (ObsM.Data.str e.1, e.2.2)), skips := skips }
      pure ((job, ents) :: js, r)
    | [] => none
  | _, _ => none

def insertPath {β : Type} (x : List Nat × β) : List (List Nat × β) → List (List Nat × β)
  | [] => [x]
  | y :: ys => if TreeM.textLe x.1 y.1 then x :: y :: ys else y :: insertPath x ys

/-- c04.session <quiet> <obsspec f|n per observer> <file verdict e|w|i> <njobs> job*
    → `<FileOut> ; … | files <path>=<bytes> … | dirs <path> … | missing=<n> report=<n>` (stage sorted by path; the
      counters of the first project observer for locale `xx`) or the Python exception of the observers -/
def opSession (toks : List String) : String :=
  match toks with
  | q :: spec :: fv :: n :: rest =>
    match parseNat q, parseNat n with
    | some q, some n =>
      match parseJobs n rest with
      | some (jes, []) =>
        let allEnts := (jes.map (·.2)).flatten
        let specs := spec.toList
        let fvr := retOfChar (match fv.toList with | c :: _ => c | [] => 'e')
        let filters : List (Option ObsM.Filter) :=
          (List.range specs.length).map (fun j => if specs[j]? == some 'f' then some (sessionFilter fvr allEnts j) else none)
        match MergeS.run (MergeS.St.init q filters) (jes.map (·.1)) with
        | .error e => e.name
        | .ok (s, outs) =>
          let files := (s.files.foldr insertPath []).map (fun (p, b) => showText p ++ "=" ++ showText b)
          let dirs := ((s.dirs.map (fun d => (d, ()))).foldr insertPath []).map (fun (d, _) => showText d)
          let cnt := match s.obs.observers with
            | o :: _ => s!"missing={ObsM.getCount o.summary (some [120, 120]) .missing} report={ObsM.getCount o.summary (some [120, 120]) .report}"
            | [] => "missing=- report=-"
          " ; ".intercalate (outs.map showFileOut) ++ " | files " ++ " ".intercalate files ++ " | dirs " ++ " ".intercalate dirs ++ " | " ++ cnt
      | _ => "bad-args"
    | _, _ => "bad-args"
  | _ => "bad-args"

def ops : List (String × (List String → String)) :=
  [("merge", opMerge), ("c04.decode", opDecode), ("c04.decode8", opDecode8), ("c04.encode", opEncode), ("c04.mergeb", opMergeB), ("c04.qmerge", opQMerge),
   ("c04.capsof", opCapsOf), ("c04.session", opSession)]
end Ops.C04

import CLModel.Proto
import CLModel.Compare.Merge
namespace Ops.C04
open Proto Merge

def parseSkips : Nat → List String → Option (List Skip × List String)
  | 0, rest => some ([], rest)
  | n + 1, s :: e :: j :: t :: rest => do
    let s ← parseInt s
    let e ← parseInt e
    let t ← parseText t
    let (sk, r) ← parseSkips n rest
    let span := if s < 0 then none else some (s.toNat, e.toNat)
    pure ({ span := span, junk := j == "1", refAll := t } :: sk, r)
  | _, _ => none

def parseTexts : Nat → List String → Option (List (List Nat) × List String)
  | 0, rest => some ([], rest)
  | n + 1, t :: rest => do
    let t ← parseText t
    let (ts, r) ← parseTexts n rest
    pure (t :: ts, r)
  | _, _ => none

def showOutcome : Outcome → String
  | .nothing => "nothing"
  | .copyRef => "copy-ref"
  | .copyL10n => "copy-l10n"
  | .copyL10nPlus t => "copy-l10n+ " ++ showText t
  | .written t => "written " ++ showText t
  | .typeError => "TypeError"

/-- merge <0|1 mergeFile> <caps> <contents> <nskips> (s e junk refAll)* <nmissing> (refAll)* -/
def opMerge (toks : List String) : String :=
  match toks with
  | mf :: caps :: contents :: n :: rest =>
    match parseNat caps, parseText contents, parseNat n with
    | some caps, some contents, some n =>
      match parseSkips n rest with
      | some (skips, m :: rest2) =>
        match parseNat m with
        | some m =>
          match parseTexts m rest2 with
          | some (ms, []) => showOutcome (merge (mf == "1") caps contents skips ms)
          | _ => "bad-args"
        | none => "bad-args"
      | _ => "bad-args"
    | _, _, _ => "bad-args"
  | _ => "bad-args"

def ops : List (String × (List String → String)) := [("merge", opMerge)]
end Ops.C04

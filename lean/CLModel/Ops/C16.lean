import CLModel.Proto
import CLModel.Serialize.Serializer
import CLModel.Serialize.Fluent
import CLModel.Serialize.Android
namespace Ops.C16
open Proto Ser

def parseFmt : String → Option P.Fmt
  | "properties" => some .properties | "dtd" => some .dtd | "ini" => some .ini
  | "inc" => some .inc | "po" => some .po | _ => none

/-- `<key> <val|None>` pairs; the dict is built the way Python builds it (later items overwrite) -/
def parseItems : Nat → List String → Option (NewData × List String)
  | 0, rest => some ([], rest)
  | n + 1, k :: v :: rest => do
    let k ← parseText k
    let v ← if v == "None" then pure none else (parseText v).map some
    let (items, rest') ← parseItems n rest
    pure ((k, v) :: items, rest')
  | _, _ => none

def mkNewData (items : NewData) : NewData := items.foldl (fun d p => AR.dset d p.1 p.2) []

/-- ser <fmt> <ref> <old> <n> (<key> <val|None>)* -/
def opSer (toks : List String) : String :=
  match toks with
  | f :: r :: o :: n :: rest =>
    match parseFmt f, parseText r, parseText o, parseNat n with
    | some f, some r, some o, some n =>
      match parseItems n rest with
      | some (items, []) =>
        match serializeText f r.toArray o.toArray (mkNewData items) with
        | some out => showText out
        | none => "stuck"
      | _ => "bad-args"
    | _, _, _, _ => "bad-args"
  | _ => "bad-args"

/-- synthetic entries: E key pre val post | W all | C all val | S key all | O key all | J all -/
def parseRecs : Nat → List String → Option (List Ent × List String)
  | 0, rest => some ([], rest)
  | n + 1, toks =>
    match toks with
    | "E" :: k :: pre :: v :: post :: rest => do
      let k ← parseText k
      let pre ← parseText pre
      let v ← parseText v
      let post ← parseText post
      let (es, rest') ← parseRecs n rest
      pure ({ kind := .entity, key := k, val := v, all := pre ++ v ++ post, pre := pre, post := post } :: es, rest')
    | "W" :: a :: rest => do
      let a ← parseText a
      let (es, rest') ← parseRecs n rest
      pure ({ kind := .whitespace, key := [], val := a, all := a } :: es, rest')
    | "C" :: a :: v :: rest => do
      let a ← parseText a
      let v ← parseText v
      let (es, rest') ← parseRecs n rest
      pure ({ kind := .comment, key := v, val := [], all := a } :: es, rest')
    | "S" :: k :: a :: rest => do
      let k ← parseText k
      let a ← parseText a
      let (es, rest') ← parseRecs n rest
      pure ({ kind := .sticky, key := k, val := a, all := a } :: es, rest')
    | "O" :: k :: a :: rest => do
      let k ← parseText k
      let a ← parseText a
      let (es, rest') ← parseRecs n rest
      pure ({ kind := .other, key := k, val := a, all := a } :: es, rest')
    | "J" :: a :: rest => do
      let a ← parseText a
      let (es, rest') ← parseRecs n rest
      pure ({ kind := .junk, key := [], val := a, all := a } :: es, rest')
    | _ => none

def showKind : Kind → String
  | .entity => "E" | .placeholder => "P" | .comment => "C" | .whitespace => "W" | .junk => "J"
  | .other => "O" | .sticky => "S"

/-- ser.ents <nref> recs… <nold> recs… <nnew> items… -> kinds of the pruned entries and the text -/
def opSerEnts (toks : List String) : String :=
  match toks with
  | n :: rest =>
    match (do
      let n ← parseNat n
      let (ref, rest) ← parseRecs n rest
      match rest with
      | m :: rest => do
        let m ← parseNat m
        let (old, rest) ← parseRecs m rest
        match rest with
        | q :: rest => do
          let q ← parseNat q
          let (items, rest) ← parseItems q rest
          if rest.isEmpty then pure (ref, old, items) else none
        | [] => none
      | [] => none) with
    | some (ref, old, items) =>
      let es := serializeEnts ref old (mkNewData items)
      let kinds := String.join (es.map (fun e => showKind e.kind))
      s!"k{kinds} {showText (serializeLegacy es)}"
    | none => "bad-args"
  | _ => "bad-args"

/-! ### round 4: Fluent (body of fluent.syntax as input) and Android (entries of the real walk as input) -/

def parseFKind : String → Option P.FKind
  | "M" => some .message | "T" => some .term | "J" => some .junk | "C" => some .comment | "O" => some .other | _ => none

/-- `<kind> s e ks ke vs ve <comment content|None>` -/
def parseFBody : Nat → List String → Option (List FBody × List String)
  | 0, rest => some ([], rest)
  | n + 1, k :: s :: e :: ks :: ke :: vs :: ve :: c :: rest => do
    let k ← parseFKind k
    let s ← parseNat s
    let e ← parseNat e
    let ks ← parseInt ks
    let ke ← parseInt ke
    let vs ← parseInt vs
    let ve ← parseInt ve
    let c ← if c == "None" then pure none else (parseText c).map some
    let (bs, rest') ← parseFBody n rest
    pure ({ entry := { kind := k, s := s, e := e, ks := ks, ke := ke, vs := vs, ve := ve }, comment := c } :: bs, rest')
  | _, _ => none

/-- c16.ftl <ref text> <n> body… <old text> <m> body… <q> items… -> the serialized text -/
def opFtl (toks : List String) : String :=
  match toks with
  | r :: n :: rest =>
    match (do
      let r ← parseText r
      let n ← parseNat n
      let (rb, rest) ← parseFBody n rest
      match rest with
      | o :: m :: rest => do
        let o ← parseText o
        let m ← parseNat m
        let (ob, rest) ← parseFBody m rest
        match rest with
        | q :: rest => do
          let q ← parseNat q
          let (items, rest) ← parseItems q rest
          if rest.isEmpty then pure (r, rb, o, ob, items) else none
        | [] => none
      | _ => none) with
    | some (r, rb, o, ob, items) => showText (serializeFluent r.toArray rb o.toArray ob (mkNewData items))
    | none => "bad-args"
  | _ => "bad-args"

def parseNodeKind : String → Option NodeKind
  | "T" => some .text | "D" => some .cdata | "M" => some .comment | "P" => some .pi | "X" => some .other | _ => none

/-- `<kind> <data> <xml>` per child node -/
def parseNodes : Nat → List String → Option (List XNode × List String)
  | 0, rest => some ([], rest)
  | n + 1, k :: d :: x :: rest => do
    let k ← parseNodeKind k
    let d ← parseText d
    let x ← parseText x
    let (ns, rest') ← parseNodes n rest
    pure ({ kind := k, data := d, xml := x } :: ns, rest')
  | _, _ => none

/-- Android entries: `A key pre all open tag <n> (kind data xml)*` | `S key all` | `W all` | `C all val` | `J all` -/
def parseARecs : Nat → List String → Option (List AEnt × List String)
  | 0, rest => some ([], rest)
  | n + 1, toks =>
    match toks with
    | "A" :: k :: pre :: a :: op :: tag :: cnt :: rest => do
      let k ← parseText k
      let pre ← parseText pre
      let a ← parseText a
      let op ← parseText op
      let tag ← parseText tag
      let cnt ← parseNat cnt
      let (ns, rest) ← parseNodes cnt rest
      let (es, rest') ← parseARecs n rest
      pure ({ ent := { kind := .entity, key := k, val := [], all := a }, pre := pre,
              el := some { open_ := op, tag := tag, children := ns } } :: es, rest')
    | "S" :: k :: a :: rest => do
      let k ← parseText k
      let a ← parseText a
      let (es, rest') ← parseARecs n rest
      pure ({ ent := { kind := .sticky, key := k, val := a, all := a } } :: es, rest')
    | "W" :: a :: rest => do
      let a ← parseText a
      let (es, rest') ← parseARecs n rest
      pure ({ ent := { kind := .whitespace, key := [], val := a, all := a } } :: es, rest')
    | "C" :: a :: v :: rest => do
      let a ← parseText a
      let v ← parseText v
      let (es, rest') ← parseARecs n rest
      pure ({ ent := { kind := .comment, key := v, val := [], all := a } } :: es, rest')
    | "J" :: a :: rest => do
      let a ← parseText a
      let (es, rest') ← parseARecs n rest
      pure ({ ent := { kind := .junk, key := [], val := a, all := a } } :: es, rest')
    | _ => none

def showXErr : XErr → String
  | .unboundChild => "exc:UnboundLocalError" | .cdataEnd => "exc:ValueError" | .commentDashes => "exc:ValueError"

/-- c16.android <nref> recs… <nold> recs… <nnew> items… -> the serialized text, or the exception -/
def opAndroid (toks : List String) : String :=
  match toks with
  | n :: rest =>
    match (do
      let n ← parseNat n
      let (ref, rest) ← parseARecs n rest
      match rest with
      | m :: rest => do
        let m ← parseNat m
        let (old, rest) ← parseARecs m rest
        match rest with
        | q :: rest => do
          let q ← parseNat q
          let (items, rest) ← parseItems q rest
          if rest.isEmpty then pure (ref, old, items) else none
        | [] => none
      | [] => none) with
    | some (ref, old, items) =>
      match serializeAndroid ref (old.map (·.ent)) (mkNewData items) with
      | .ok es => showText (serializeLegacy es)
      | .error x => showXErr x
    | none => "bad-args"
  | _ => "bad-args"

/-- c16.awrap key pre open tag <n> (kind data xml)* raw -> text of the wrapped entity, or the exception (AndroidEntity.wrap alone) -/
def opAWrap (toks : List String) : String :=
  match toks with
  | k :: pre :: op :: tag :: cnt :: rest =>
    match (do
      let k ← parseText k
      let pre ← parseText pre
      let op ← parseText op
      let tag ← parseText tag
      let cnt ← parseNat cnt
      let (ns, rest) ← parseNodes cnt rest
      match rest with
      | [raw] => do
        let raw ← parseText raw
        pure (k, pre, ({ open_ := op, tag := tag, children := ns } : XElem), raw)
      | _ => none) with
    | some (k, pre, el, raw) =>
      match androidWrap k pre el raw with
      | .ok e => showText e.all
      | .error x => showXErr x
    | none => "bad-args"
  | _ => "bad-args"

/-- c16.fcomment <content> -> serialize_comment -/
def opFComment (toks : List String) : String :=
  match toks with
  | [c] => match parseText c with | some c => showText (serializeComment c) | none => "bad-args"
  | _ => "bad-args"

def ops : List (String × (List String → String)) :=
  [("ser", opSer), ("ser.ents", opSerEnts), ("c16.ftl", opFtl), ("c16.android", opAndroid), ("c16.awrap", opAWrap),
   ("c16.fcomment", opFComment)]
end Ops.C16

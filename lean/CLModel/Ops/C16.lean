import CLModel.Proto
import CLModel.Serialize.Serializer
namespace Ops.C16
open Proto Ser

def parseFmt : String → Option P.Fmt
  | "properties" => some .properties | "dtd" => some .dtd | "ini" => some .ini
  | "inc" => some .inc | "po" => some .po | _ => none

/-- `<key> <val|None>` pairs; the dict is built the way Python builds it (later items overwrite) -/
def parseItems : Nat → List String → Option (NewData × List String)
  | 0, rest => some ([], rest)
  | n + 1, k :: v :: rest => do
    let k ← parseText k
    let v ← if v == "None" then pure none else (parseText v).map some
    let (items, rest') ← parseItems n rest
    pure ((k, v) :: items, rest')
  | _, _ => none

def mkNewData (items : NewData) : NewData := items.foldl (fun d p => AR.dset d p.1 p.2) []

/-- ser <fmt> <ref> <old> <n> (<key> <val|None>)* -/
def opSer (toks : List String) : String :=
  match toks with
  | f :: r :: o :: n :: rest =>
    match parseFmt f, parseText r, parseText o, parseNat n with
    | some f, some r, some o, some n =>
      match parseItems n rest with
      | some (items, []) =>
        match serializeText f r.toArray o.toArray (mkNewData items) with
        | some out => showText out
        | none => "stuck"
      | _ => "bad-args"
    | _, _, _, _ => "bad-args"
  | _ => "bad-args"

/-- synthetic entries: E key pre val post | W all | C all val | S key all | O key all | J all -/
def parseRecs : Nat → List String → Option (List Ent × List String)
  | 0, rest => some ([], rest)
  | n + 1, toks =>
    match toks with
    | "E" :: k :: pre :: v :: post :: rest => do
      let k ← parseText k
      let pre ← parseText pre
      let v ← parseText v
      let post ← parseText post
      let (es, rest') ← parseRecs n rest
      pure ({ kind := .entity, key := k, val := v, all := pre ++ v ++ post, pre := pre, post := post } :: es, rest')
    | "W" :: a :: rest => do
      let a ← parseText a
      let (es, rest') ← parseRecs n rest
      pure ({ kind := .whitespace, key := [], val := a, all := a } :: es, rest')
    | "C" :: a :: v :: rest => do
      let a ← parseText a
      let v ← parseText v
      let (es, rest') ← parseRecs n rest
      pure ({ kind := .comment, key := v, val := [], all := a } :: es, rest')
    | "S" :: k :: a :: rest => do
      let k ← parseText k
      let a ← parseText a
      let (es, rest') ← parseRecs n rest
      pure ({ kind := .sticky, key := k, val := a, all := a } :: es, rest')
    | "O" :: k :: a :: rest => do
      let k ← parseText k
      let a ← parseText a
      let (es, rest') ← parseRecs n rest
      pure ({ kind := .other, key := k, val := a, all := a } :: es, rest')
    | "J" :: a :: rest => do
      let a ← parseText a
      let (es, rest') ← parseRecs n rest
      pure ({ kind := .junk, key := [], val := a, all := a } :: es, rest')
    | _ => none

def showKind : Kind → String
  | .entity => "E" | .placeholder => "P" | .comment => "C" | .whitespace => "W" | .junk => "J"
  | .other => "O" | .sticky => "S"

/-- ser.ents <nref> recs… <nold> recs… <nnew> items… -> kinds of the pruned entries and the text -/
def opSerEnts (toks : List String) : String :=
  match toks with
  | n :: rest =>
    match (do
      let n ← parseNat n
      let (ref, rest) ← parseRecs n rest
      match rest with
      | m :: rest => do
        let m ← parseNat m
        let (old, rest) ← parseRecs m rest
        match rest with
        | q :: rest => do
          let q ← parseNat q
          let (items, rest) ← parseItems q rest
          if rest.isEmpty then pure (ref, old, items) else none
        | [] => none
      | [] => none) with
    | some (ref, old, items) =>
      let es := serializeEnts ref old (mkNewData items)
      let kinds := String.join (es.map (fun e => showKind e.kind))
      s!"k{kinds} {showText (serializeLegacy es)}"
    | none => "bad-args"
  | _ => "bad-args"

def ops : List (String × (List String → String)) :=
  [("ser", opSer), ("ser.ents", opSerEnts)]
end Ops.C16

/-
Driver operations of C08 (Fluent checker).

Wire format of the fluent.syntax AST (prefix notation, space separated tokens; texts as `t:`):
  entry    := "msg" start id ("1" pattern | "0") nattrs attr*  |  "term" start id pattern nattrs attr*
  attr     := start name pattern
  pattern  := "P" start n elem*
  elem     := "T" text | "X" expr
  expr     := "S" text | "N" text | "M" start id optid | "R" start id optid ("1" args | "0")
            | "V" id | "F" id args | "E" expr n variant* | "X" expr
  variant  := ("I" | "U") start text ("0"|"1") pattern
  args     := npos expr* nnamed (name ("S"|"N") text)*
  optid    := "-" | text
-/
import CLModel.Proto
import CLModel.Checks.Fluent
import CLModel.Checks.FluentExt
namespace Ops.C08
open Proto Ftl

abbrev Toks := List String

def pNat : Toks → Option (Nat × Toks)
  | t :: r => (parseNat t).map (·, r)
  | [] => none

def pText : Toks → Option (Str × Toks)
  | t :: r => (parseText t).map (·, r)
  | [] => none

def pOptText : Toks → Option (Option Str × Toks)
  | "-" :: r => some (none, r)
  | t :: r => (parseText t).map (fun x => (some x, r))
  | [] => none

def pNamed : Nat → Toks → Option (List NamedArg × Toks)
  | 0, ts => some ([], ts)
  | n + 1, ts => do
    let (name, ts) ← pText ts
    match ts with
    | k :: ts => do
      let (v, ts) ← pText ts
      let (r, ts) ← pNamed n ts
      pure ({ name := name, isNum := k == "N", value := v } :: r, ts)
    | [] => none

mutual
  partial def pPattern : Toks → Option (Pattern × Toks)
    | "P" :: ts => do
      let (s, ts) ← pNat ts
      let (n, ts) ← pNat ts
      let (els, ts) ← pElems n ts
      pure (.mk s els, ts)
    | _ => none
  partial def pElems : Nat → Toks → Option (List Elem × Toks)
    | 0, ts => some ([], ts)
    | n + 1, ts => do
      let (e, ts) ← pElem ts
      let (r, ts) ← pElems n ts
      pure (e :: r, ts)
  partial def pElem : Toks → Option (Elem × Toks)
    | "T" :: ts => do
      let (t, ts) ← pText ts
      pure (.text t, ts)
    | "X" :: ts => do
      let (e, ts) ← pExpr ts
      pure (.placeable e, ts)
    | _ => none
  partial def pExpr : Toks → Option (Expr × Toks)
    | "S" :: ts => do let (t, ts) ← pText ts; pure (.strLit t, ts)
    | "N" :: ts => do let (t, ts) ← pText ts; pure (.numLit t, ts)
    | "V" :: ts => do let (t, ts) ← pText ts; pure (.varRef t, ts)
    | "M" :: ts => do
      let (s, ts) ← pNat ts
      let (i, ts) ← pText ts
      let (a, ts) ← pOptText ts
      pure (.msgRef s i a, ts)
    | "R" :: ts => do
      let (s, ts) ← pNat ts
      let (i, ts) ← pText ts
      let (a, ts) ← pOptText ts
      match ts with
      | "1" :: ts => do
        let (c, ts) ← pArgs ts
        pure (.termRef s i a (some c), ts)
      | "0" :: ts => pure (.termRef s i a none, ts)
      | _ => none
    | "F" :: ts => do
      let (i, ts) ← pText ts
      let (c, ts) ← pArgs ts
      pure (.funRef i c, ts)
    | "E" :: ts => do
      let (sel, ts) ← pExpr ts
      let (n, ts) ← pNat ts
      let (vs, ts) ← pVariants n ts
      pure (.select sel vs, ts)
    | "X" :: ts => do
      let (e, ts) ← pExpr ts
      pure (.placeable e, ts)
    | _ => none
  partial def pVariants : Nat → Toks → Option (List Variant × Toks)
    | 0, ts => some ([], ts)
    | n + 1, ts => do
      let (v, ts) ← pVariant ts
      let (r, ts) ← pVariants n ts
      pure (v :: r, ts)
  partial def pVariant : Toks → Option (Variant × Toks)
    | k :: ts => do
      let (s, ts) ← pNat ts
      let (t, ts) ← pText ts
      match ts with
      | d :: ts => do
        let (p, ts) ← pPattern ts
        let key ← (if k == "I" then some (VKey.ident s t) else if k == "U" then some (VKey.num s t) else none)
        pure (.mk key p (d == "1"), ts)
      | [] => none
    | [] => none
  partial def pArgs : Toks → Option (CallArgs × Toks)
    | ts => do
      let (n, ts) ← pNat ts
      let (pos, ts) ← pExprs n ts
      let (k, ts) ← pNat ts
      let (named, ts) ← pNamed k ts
      pure (.mk pos named, ts)
  partial def pExprs : Nat → Toks → Option (List Expr × Toks)
    | 0, ts => some ([], ts)
    | n + 1, ts => do
      let (e, ts) ← pExpr ts
      let (r, ts) ← pExprs n ts
      pure (e :: r, ts)
end

def pAttrs : Nat → Toks → Option (List Attribute × Toks)
  | 0, ts => some ([], ts)
  | n + 1, ts => do
    let (s, ts) ← pNat ts
    let (name, ts) ← pText ts
    let (p, ts) ← pPattern ts
    let (r, ts) ← pAttrs n ts
    pure ({ start := s, name := name, value := p } :: r, ts)

def pEntry : Toks → Option (Entry × Toks)
  | "msg" :: ts => do
    let (s, ts) ← pNat ts
    let (i, ts) ← pText ts
    match ts with
    | "1" :: ts => do
      let (p, ts) ← pPattern ts
      let (n, ts) ← pNat ts
      let (as, ts) ← pAttrs n ts
      pure (.message { start := s, id := i, value := some p, attributes := as }, ts)
    | "0" :: ts => do
      let (n, ts) ← pNat ts
      let (as, ts) ← pAttrs n ts
      pure (.message { start := s, id := i, value := none, attributes := as }, ts)
    | _ => none
  | "term" :: ts => do
    let (s, ts) ← pNat ts
    let (i, ts) ← pText ts
    let (p, ts) ← pPattern ts
    let (n, ts) ← pNat ts
    let (as, ts) ← pAttrs n ts
    pure (.term { start := s, id := i, value := p, attributes := as }, ts)
  | _ => none

def showOut (o : Out) : String :=
  s!"{showText o.sev} {o.pos} {showText o.text} {showText o.cat}"

/-- ftl.check <locale|-> <key> <all> <ref entry> <l10n entry> -/
def opCheck (toks : Toks) : String :=
  match pOptText toks with
  | some (loc, ts) =>
    match pText ts with
    | some (key, ts) =>
      match pText ts with
      | some (all, ts) =>
        match pEntry ts with
        | some (ref, ts) =>
          match pEntry ts with
          | some (l10n, []) =>
            match check loc key all ref l10n with
            | .ok outs => " | ".intercalate ("ok" :: outs.map showOut)
            | .error _ => "IndexError"
          | _ => "bad-args"
        | none => "bad-args"
      | none => "bad-args"
    | none => "bad-args"
  | none => "bad-args"

def showCssErr : CssErr → String
  | .badContent p => s!"bad{p}"
  | .missingSemicolon p => s!"semi{p}"

/-- css.parse <text> : parse_css_spec -/
def opCss (toks : Toks) : String :=
  match toks with
  | [t] =>
    match parseText t with
    | some t =>
      let (m, e) := parseCssSpec t
      let ms := match m with
        | none => "None"
        | some d => "{" ++ ",".intercalate (d.map (fun (p, u) => showText p ++ "=" ++ showText (unitStr u))) ++ "}"
      let es := match e with
        | none => "None"
        | some l => "[" ++ ",".intercalate (l.map showCssErr) ++ "]"
      ms ++ " " ++ es
    | none => "bad-args"
  | _ => "bad-args"

/-- ftl.plural <locale|-> : get_plural -/
def opPlural (toks : Toks) : String :=
  match pOptText toks with
  | some (loc, []) =>
    match getPlural loc with
    | .ok none => "None"
    | .ok (some cats) => " ".intercalate (cats.map showText)
    | .error _ => "IndexError"
  | _ => "bad-args"

/-! ### round 4 -/

def showMsg (m : Msg) : String := s!"{showText m.sev} {m.pos} {showText m.text}"

def showRaw : Except RawErr (List Msg) → String
  | .ok msgs => " | ".intercalate ("ok" :: msgs.map showMsg)
  | .error .runtime => "RuntimeError"
  | .error .index => "IndexError"

/-- c08.rawmsg <locale|-> <ref entry> <l10n entry> : FluentChecker.check_message(ref, l10n), unsorted -/
def opRawMsg (toks : Toks) : String :=
  match pOptText toks with
  | some (loc, ts) =>
    match pEntry ts with
    | some (ref, ts) =>
      match pEntry ts with
      | some (l10n, []) => showRaw (rawWithLocale loc l10n (fun kp => checkMessageRaw kp ref l10n))
      | _ => "bad-args"
    | none => "bad-args"
  | none => "bad-args"

/-- c08.rawterm <locale|-> <l10n entry> : FluentChecker.check_term(l10n) -/
def opRawTerm (toks : Toks) : String :=
  match pOptText toks with
  | some (loc, ts) =>
    match pEntry ts with
    | some (l10n, []) => showRaw (rawWithLocale loc l10n (fun kp => checkTermRaw kp l10n))
    | _ => "bad-args"
  | none => "bad-args"

/-- c08.equals <entry> <entry> : FluentEntity.equals -/
def opEquals (toks : Toks) : String :=
  match pEntry toks with
  | some (a, ts) =>
    match pEntry ts with
    | some (b, []) => if entityEquals a b then "True" else "False"
    | _ => "bad-args"
  | none => "bad-args"

def pTexts : Nat → Toks → Option (List Str × Toks)
  | 0, ts => some ([], ts)
  | n + 1, ts => do
    let (t, ts) ← pText ts
    let (r, ts) ← pTexts n ts
    pure (t :: r, ts)

def pActions : Nat → Toks → Option (List Action × Toks)
  | 0, ts => some ([], ts)
  | n + 1, "setref" :: ts => do
    let (k, ts) ← pNat ts
    let (keys, ts) ← pTexts k ts
    let (r, ts) ← pActions n ts
    pure (.setRef keys :: r, ts)
  | n + 1, "case" :: ts => do
    let (key, ts) ← pText ts
    let (all, ts) ← pText ts
    let (ref, ts) ← pEntry ts
    let (l10n, ts) ← pEntry ts
    let (r, ts) ← pActions n ts
    pure (.case key all ref l10n :: r, ts)
  | _, _ => none

def showCheck : Except Unit (List Out) → String
  | .ok outs => " | ".intercalate ("ok" :: outs.map showOut)
  | .error _ => "IndexError"

/-- c08.seq <locale|-> <n> (setref k key* | case key all ref l10n)* : one FluentChecker instance over the calls -/
def opSeq (toks : Toks) : String :=
  match pOptText toks with
  | some (loc, ts) =>
    match pNat ts with
    | some (n, ts) =>
      match pActions n ts with
      | some (acts, []) =>
        let (rs, c) := (Checker.new loc).run acts
        let fin := match c.reference with
          | none => "None"
          | some ks => "[" ++ ",".intercalate (ks.map showText) ++ "]"
        " || ".intercalate (rs.map showCheck ++ ["reference=" ++ fin])
      | _ => "bad-args"
    | none => "bad-args"
  | none => "bad-args"

def showOuts (outs : List Out) : String := " | ".intercalate ("ok" :: outs.map showOut)

/-- c08.maybestyle <ref value> <l10n value> : CSSCheckMixin.maybe_style -/
def opMaybeStyle (toks : Toks) : String :=
  match toks with
  | [a, b] =>
    match parseText a, parseText b with
    | some a, some b => showOuts (maybeStyle a b)
    | _, _ => "bad-args"
  | _ => "bad-args"

def showMap (d : CssMap) : String :=
  "{" ++ ",".intercalate (d.map (fun (p, u) => showText p ++ "=" ++ showText (unitStr u))) ++ "}"

/-- c08.styleseq <ref value> <n> <l10n value>* : check_style repeatedly on one ref_map object -/
def opStyleSeq (toks : Toks) : String :=
  match pText toks with
  | some (rv, ts) =>
    match pNat ts with
    | some (n, ts) =>
      match pTexts n ts with
      | some (vs, []) =>
        let rm := match (parseCssSpec rv).1 with | some m => m | none => []
        let (outs, left) := styleSeq rm vs
        " || ".intercalate (outs.map showOuts) ++ " ## " ++ showMap left
      | _ => "bad-args"
    | none => "bad-args"
  | none => "bad-args"

def ops : List (String × (List String → String)) :=
  [("ftl.check", opCheck), ("css.parse", opCss), ("ftl.plural", opPlural),
   ("c08.rawmsg", opRawMsg), ("c08.rawterm", opRawTerm), ("c08.equals", opEquals), ("c08.seq", opSeq),
   ("c08.maybestyle", opMaybeStyle), ("c08.styleseq", opStyleSeq)]
end Ops.C08

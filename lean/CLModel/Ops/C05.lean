import CLModel.Proto
import CLModel.Checks.Base
import CLModel.Compare.Pipeline
import CLModel.Ops.C04
namespace Ops.C05
open Proto

/-- basecheck <all> -> positions of the "encodings" warnings -/
def opBase (toks : List String) : String :=
  match toks with
  | [t] =>
    match parseText t with
    | some t => " ".intercalate ((Checks.baseCheck t.toArray).map (fun r => s!"w{r.pos}:{r.category}"))
    | none => "bad-args"
  | _ => "bad-args"

/-! ### the composed pipeline (CLModel/Compare/Pipeline.lean) -/

def parseFmt : String → Option P.Fmt
  | "properties" => some .properties
  | "dtd" => some .dtd
  | "ini" => some .ini
  | "inc" => some .inc
  | "po" => some .po
  | _ => none

def showCat : ObsM.Cat → String
  | .error => "error" | .warning => "warning" | .missingEntity => "missingEntity" | .obsoleteEntity => "obsoleteEntity"
  | .missingFile => "missingFile" | .obsoleteFile => "obsoleteFile" | .other => "other"

def showRet : ObsM.Ret → String
  | .error => "error" | .warning => "warning" | .ignore => "ignore"

def showOptText : Option (List Nat) → String
  | some t => showText t
  | none => "N"

def showData : ObsM.Data → String
  | .none => "N"
  | .str t => "s" ++ showText t
  | .tuple ps => "T" ++ "/".intercalate (ps.map showOptText)

def showDVal : ObsM.DVal → String
  | .ret r => "r" ++ showRet r
  | .data d => showData d

/-- canonical text of a report:
    `ok summary[<locale>:<errors>,<warnings>,…,<keys>;…] details[<path>:<cat>=<data>|…;…] merge=<outcome>` -/
def showReport (r : Pipe.Report) : String :=
  let summ := ";".intercalate (r.summary.map (fun p =>
    showOptText p.1 ++ ":" ++ ",".intercalate (p.2.map (fun kv => toString kv.2))))
  let det := ";".intercalate (r.details.map (fun p =>
    "/".intercalate (p.1.map showText) ++ ":" ++ "|".intercalate (p.2.map (fun d => showCat d.1 ++ "=" ++ showDVal d.2))))
  s!"ok summary[{summ}] details[{det}] merge={Ops.C04.showOutcome r.merge}"

/-- c05.compare <fmt> <ref> <l10n> <merge 0|1> -/
def opCompare (toks : List String) : String :=
  match toks with
  | [f, r, l, m] =>
    match parseFmt f, parseText r, parseText l with
    | some f, some r, some l =>
      match Pipe.compareTexts f r.toArray l.toArray (m == "1") with
      | .ok rep => showReport rep
      | .error e => "raise " ++ e.name
    | _, _, _ => "bad-args"
  | _ => "bad-args"

def showLintResult (r : Lint.Result) : String :=
  s!"{r.lineno},{r.column},{showText r.level},{showText r.message}"

/-- c05.lint <fmt> <ref | -> <cur> -/
def opLint (toks : List String) : String :=
  match toks with
  | [f, r, c] =>
    match parseFmt f, (if r == "-" then some none else (parseText r).map some), parseText c with
    | some f, some r, some c =>
      match Pipe.lintText f (r.map List.toArray) c.toArray with
      | .ok rs => "ok " ++ "|".intercalate (rs.map showLintResult)
      | .error e => "raise " ++ e.name
    | _, _, _ => "bad-args"
  | _ => "bad-args"

def ops : List (String × (List String → String)) :=
  [("basecheck", opBase), ("c05.compare", opCompare), ("c05.lint", opLint)]
end Ops.C05

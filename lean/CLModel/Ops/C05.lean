import CLModel.Proto
import CLModel.Checks.Base
import CLModel.Compare.Pipeline
import CLModel.Compare.PipeSession
import CLModel.Compare.Decode
import CLModel.Rx.Steps
import CLModel.Ops.Rx
import CLModel.Ops.C04
import CLModel.Ops.C01
import CLModel.Ops.C07
import CLModel.Ops.C08
import CLModel.Ops.C09
namespace Ops.C05
open Proto

/-- basecheck <all> -> positions of the "encodings" warnings -/
def opBase (toks : List String) : String :=
  match toks with
  | [t] =>
    match parseText t with
    | some t => " ".intercalate ((Checks.baseCheck t.toArray).map (fun r => s!"w{r.pos}:{r.category}"))
    | none => "bad-args"
  | _ => "bad-args"

/-! ### the composed pipeline (CLModel/Compare/Pipeline.lean) -/

def parseFmt : String → Option P.Fmt
  | "properties" => some .properties
  | "dtd" => some .dtd
  | "ini" => some .ini
  | "inc" => some .inc
  | "po" => some .po
  | _ => none

def showCat : ObsM.Cat → String
  | .error => "error" | .warning => "warning" | .missingEntity => "missingEntity" | .obsoleteEntity => "obsoleteEntity"
  | .missingFile => "missingFile" | .obsoleteFile => "obsoleteFile" | .other => "other"

def showRet : ObsM.Ret → String
  | .error => "error" | .warning => "warning" | .ignore => "ignore"

def showOptText : Option (List Nat) → String
  | some t => showText t
  | none => "N"

def showData : ObsM.Data → String
  | .none => "N"
  | .str t => "s" ++ showText t
  | .tuple ps => "T" ++ "/".intercalate (ps.map showOptText)

def showDVal : ObsM.DVal → String
  | .ret r => "r" ++ showRet r
  | .data d => showData d

/-- canonical text of a report:
    `ok summary[<locale>:<errors>,<warnings>,…,<keys>;…] details[<path>:<cat>=<data>|…;…] merge=<outcome>` -/
def showReport (r : Pipe.Report) : String :=
  let summ := ";".intercalate (r.summary.map (fun p =>
    showOptText p.1 ++ ":" ++ ",".intercalate (p.2.map (fun kv => toString kv.2))))
  let det := ";".intercalate (r.details.map (fun p =>
    "/".intercalate (p.1.map showText) ++ ":" ++ "|".intercalate (p.2.map (fun d => showCat d.1 ++ "=" ++ showDVal d.2))))
  s!"ok summary[{summ}] details[{det}] merge={Ops.C04.showOutcome r.merge}"

/-! ### the external functions as finite tables (what the real run observed)

`X <n> (<doc> <line|-> <col> <msg> <text>)*n`: expat's verdict per document handed to `parser.parse` (a document that
is not in the table gets the verdict "no-verdict": the model built a document the code did not);
`U <k> (<raw> <val>)*k`: `html.unescape(raw)` per raw value (texts without `&` are returned as they are, as the
library does; any other miss gives "no-unescape"). -/

def parseXmlTable : Nat → List String → Option (List (Dtd.Bytes × Dtd.ParseRes) × List String)
  | 0, rest => some ([], rest)
  | n + 1, d :: l :: c :: m :: t :: rest => do
    let d ← parseText d
    let c ← parseNat c
    let m ← parseText m
    let t ← parseText t
    let v : Dtd.ParseRes ← (if l == "-" then some ⟨none, t⟩ else (parseNat l).map (fun l => ⟨some (l, c, m), t⟩))
    let (tb, r) ← parseXmlTable n rest
    pure ((d, v) :: tb, r)
  | _, _ => none

def parseUnescTable : Nat → List String → Option (List (List Nat × List Nat) × List String)
  | 0, rest => some ([], rest)
  | n + 1, a :: b :: rest => do
    let a ← parseText a
    let b ← parseText b
    let (tb, r) ← parseUnescTable n rest
    pure ((a, b) :: tb, r)
  | _, _ => none

def tableUnescape (tbl : List (List Nat × List Nat)) (raw : List Nat) : List Nat :=
  match tbl.find? (·.1 == raw) with
  | some (_, v) => v
  | none => if raw.contains 38 then [110, 111, 45, 117, 110, 101, 115, 99, 97, 112, 101] else raw

/-- `[X <n> … U <k> …]` → the externals; no tokens = nothing is called -/
def parseExt : List String → Option Pipe.Ext
  | [] => some default
  | "X" :: n :: rest => do
    let n ← parseNat n
    let (xt, rest) ← parseXmlTable n rest
    match rest with
    | "U" :: k :: rest => do
      let k ← parseNat k
      let (ut, rest) ← parseUnescTable k rest
      if rest.isEmpty then pure { xml := Ops.C07.tableParse xt, unescape := tableUnescape ut } else none
    | _ => none
  | _ => none

def showRes : Except Pipe.PyErr Pipe.Report → String
  | .ok rep => showReport rep
  | .error e => "raise " ++ e.name

def showLintResult (r : Lint.Result) : String :=
  s!"{r.lineno},{r.column},{showText r.level},{showText r.message}"

def showLint : Except Pipe.PyErr (List Lint.Result) → String
  | .ok rs => "ok " ++ "|".intercalate (rs.map showLintResult)
  | .error e => "raise " ++ e.name

/-- c05.compare <fmt> <ref> <l10n> <merge 0|1> [X … U …] -/
def opCompare (toks : List String) : String :=
  match toks with
  | f :: r :: l :: m :: ext =>
    match parseFmt f, parseText r, parseText l, parseExt ext with
    | some f, some r, some l, some ext => showRes (Pipe.compareTexts ext f r.toArray l.toArray (m == "1"))
    | _, _, _, _ => "bad-args"
  | _ => "bad-args"

/-- c05.lint <fmt> <ref | -> <cur> [X … U …] -/
def opLint (toks : List String) : String :=
  match toks with
  | f :: r :: c :: ext =>
    match parseFmt f, (if r == "-" then some none else (parseText r).map some), parseText c, parseExt ext with
    | some f, some r, some c, some ext => showLint (Pipe.lintText ext f (r.map List.toArray) c.toArray)
    | _, _, _, _ => "bad-args"
  | _ => "bad-args"

/-! ### Fluent / Android: the external parser's output is part of the input

  ftl body    := <n> item*n          item := <kind> s e ks ke vs ve ("A" <words> <eqc> <entry of Ops/C08> | "-")
  android     := <n> aitem*n         aitem := "J" <all> | "E" <key> <node of Ops/C09 (with pre)> -/

def parseFtlItems : Nat → List String → Option (List Pipe.FtlItem × List String)
  | 0, rest => some ([], rest)
  | n + 1, k :: s :: e :: ks :: ke :: vs :: ve :: rest => do
    let k ← Ops.C01.parseFKind k
    let s ← parseNat s
    let e ← parseNat e
    let ks ← parseInt ks
    let ke ← parseInt ke
    let vs ← parseInt vs
    let ve ← parseInt ve
    let fe : P.FEntry := { kind := k, s := s, e := e, ks := ks, ke := ke, vs := vs, ve := ve }
    match rest with
    | "-" :: rest => do
      let (is, r) ← parseFtlItems n rest
      pure ({ fe := fe } :: is, r)
    | "A" :: w :: c :: rest => do
      let w ← parseNat w
      let c ← parseNat c
      let (a, rest) ← Ops.C08.pEntry rest
      let (is, r) ← parseFtlItems n rest
      pure ({ fe := fe, ast := some a, words := w, eqc := c } :: is, r)
    | _ => none
  | _, _ => none

def parseFtlBody : List String → Option (List Pipe.FtlItem × List String)
  | n :: rest => do
    let n ← parseNat n
    parseFtlItems n rest
  | [] => none

/-- `<n> item*n` (a body) or `! <class name as text> <str(e)>` (the external parser raised) -/
def parseFtlParse : List String → Option (Pipe.FtlParse × List String)
  | "!" :: name :: msg :: rest => do
    let name ← parseText name
    let msg ← parseText msg
    pure (.raises (String.ofList (name.map Char.ofNat)) msg, rest)
  | toks => (parseFtlBody toks).map (fun p => (.body p.1, p.2))

def parseAItems : Nat → List String → Option (List Pipe.AItem × List String)
  | 0, rest => some ([], rest)
  | n + 1, "J" :: a :: rest => do
    let a ← parseText a
    let (is, r) ← parseAItems n rest
    pure (.junk a :: is, r)
  | n + 1, "E" :: k :: rest => do
    let k ← parseText k
    let (node, pre, rest) ← Ops.C09.parseNode rest
    let (is, r) ← parseAItems n rest
    pure (.entity k pre node :: is, r)
  | _, _ => none

def parseABody : List String → Option (List Pipe.AItem × List String)
  | n :: rest => do
    let n ← parseNat n
    parseAItems n rest
  | [] => none

/-- c05.cmpftl <ref text> <l10n text> <merge 0|1> <ref parse> <l10n parse> -/
def opCmpFtl (toks : List String) : String :=
  match toks with
  | r :: l :: m :: rest =>
    match parseText r, parseText l, parseFtlParse rest with
    | some r, some l, some (rb, rest) =>
      match parseFtlParse rest with
      | some (lb, []) =>
        showRes (Pipe.compareFtlP (Pipe.refFileNamed Pipe.ftlFileName) (Pipe.fileNamed Pipe.ftlFileName) Pipe.stdObs l.toArray r.toArray rb lb (m == "1"))
      | _ => "bad-args"
    | _, _, _ => "bad-args"
  | _ => "bad-args"

/-- c05.lintftl <cur text> <cur parse> ("-" | <ref text> <ref parse>) -/
def opLintFtl (toks : List String) : String :=
  match toks with
  | c :: rest =>
    match parseText c, parseFtlParse rest with
    | some c, some (cb, rest) =>
      match rest with
      | ["-"] => showLint (Pipe.lintFtlP none c.toArray cb)
      | r :: rest =>
        match parseText r, parseFtlParse rest with
        | some r, some (rb, []) => showLint (Pipe.lintFtlP (some (r.toArray, rb)) c.toArray cb)
        | _, _ => "bad-args"
      | _ => "bad-args"
    | _, _ => "bad-args"
  | _ => "bad-args"

/-- c05.cmpxml <l10n text> <merge 0|1> <ref items> <l10n items> -/
def opCmpXml (toks : List String) : String :=
  match toks with
  | l :: m :: rest =>
    match parseText l, parseABody rest with
    | some l, some (ri, rest) =>
      match parseABody rest with
      | some (li, []) =>
        showRes (Pipe.compareAndroid (Pipe.fileNamed Pipe.androidFileName) Pipe.stdObs l.toArray ri li (m == "1"))
      | _ => "bad-args"
    | _, _ => "bad-args"
  | _ => "bad-args"

/-- c05.lintxml <cur text> <cur items> ("-" | <ref items>) -/
def opLintXml (toks : List String) : String :=
  match toks with
  | c :: rest =>
    match parseText c, parseABody rest with
    | some c, some (ci, rest) =>
      match rest with
      | ["-"] => showLint (Pipe.lintAndroid none c.toArray ci)
      | _ =>
        match parseABody rest with
        | some (ri, []) => showLint (Pipe.lintAndroid (some ri) c.toArray ci)
        | _ => "bad-args"
    | _, _ => "bad-args"
  | _ => "bad-args"

/-- c05.decode <bytes> : `ctx.contents` after `Parser.readFile` of a file with these bytes -/
def opDecode (toks : List String) : String :=
  match toks with
  | [b] =>
    match parseText b with
    | some b => showText (Pipe.decode b)
    | none => "bad-args"
  | _ => "bad-args"

/-- c05.cmpbytes <fmt> <ref bytes> <l10n bytes> <merge 0|1> [X … U …] : the comparison from the bytes of the files -/
def opCmpBytes (toks : List String) : String :=
  match toks with
  | f :: r :: l :: m :: ext =>
    match parseFmt f, parseText r, parseText l, parseExt ext with
    | some f, some r, some l, some ext =>
      showRes (Pipe.compareBytes ext f (Pipe.stdFile f) Pipe.stdObs r l (m == "1"))
    | _, _, _, _ => "bad-args"
  | _ => "bad-args"

/-- c05.rxsteps <@name | inline regex> ; <mode match|search> <budget> <text> : steps of the counted engine, or "over" -/
def opRxSteps (toks : List String) : String :=
  match Ops.Rx.lookupRe toks with
  | some (r, [mode, budget, txt]) =>
    match parseNat budget, parseText txt with
    | some b, some t =>
      let res := if mode == "search" then Rx.searchSteps t.toArray r b else Rx.matchSteps t.toArray r 0 b
      match res with
      | some n => toString n
      | none => "over"
    | _, _ => "bad-args"
  | _ => "bad-re"

def obsOf (k : String) : Option ObsM.ObsList :=
  if k == "-" then some Pipe.stdObs else (parseNat k).map Pipe.filterObs

/-- c05.comparef <filter k | -> <fmt> <ref> <l10n> <merge 0|1> [X … U …] : compare with `Observer(filter=testFilter k)` -/
def opCompareF (toks : List String) : String :=
  match toks with
  | k :: f :: r :: l :: m :: ext =>
    match obsOf k, parseFmt f, parseText r, parseText l, parseExt ext with
    | some obs, some f, some r, some l, some ext =>
      showRes (Pipe.compareFiles ext f (Pipe.stdFile f) obs r.toArray l.toArray (m == "1"))
    | _, _, _, _, _ => "bad-args"
  | _ => "bad-args"

/-- c05.addfile <filter k | -> <fmt> <ref> <merge 0|1> [X … U …] : ContentComparer.add -/
def opAddFile (toks : List String) : String :=
  match toks with
  | k :: f :: r :: m :: ext =>
    match obsOf k, parseFmt f, parseText r, parseExt ext with
    | some obs, some f, some r, some ext => showRes (Pipe.addFile ext f (Pipe.stdFile f) obs r.toArray (m == "1"))
    | _, _, _, _ => "bad-args"
  | _ => "bad-args"

/-- c05.removefile <filter k | -> <fmt> <merge 0|1> : ContentComparer.remove -/
def opRemoveFile (toks : List String) : String :=
  match toks with
  | [k, f, m] =>
    match obsOf k, parseFmt f with
    | some obs, some f => showRes (Pipe.removeFile (Pipe.stdFile f) obs (m == "1"))
    | _, _ => "bad-args"
  | _ => "bad-args"

/-! ### sessions (CLModel/Compare/PipeSession.lean): one comparer / one linter over a sequence of files

  job := "T" <rel path> <merge 0|1> <fmt> <ref text> <l10n text>
       | "F" <rel path> <merge 0|1> <ref text> <l10n text> <ref body> <l10n body>
       | "A" <rel path> <merge 0|1> <l10n text> <ref items> <l10n items> -/

def parseJob : List String → Option (Pipe.Job × List String)
  | "T" :: rel :: m :: f :: r :: l :: rest => do
    let rel ← parseText rel
    let f ← parseFmt f
    let r ← parseText r
    let l ← parseText l
    pure ({ src := .text f r.toArray l.toArray, file := Pipe.l10nFile rel, mergeOn := m == "1" }, rest)
  | "F" :: rel :: m :: r :: l :: rest => do
    let rel ← parseText rel
    let r ← parseText r
    let l ← parseText l
    let (rb, rest) ← parseFtlBody rest
    let (lb, rest) ← parseFtlBody rest
    pure ({ src := .ftl r.toArray l.toArray rb lb, file := Pipe.l10nFile rel, mergeOn := m == "1" }, rest)
  | "A" :: rel :: m :: l :: rest => do
    let rel ← parseText rel
    let l ← parseText l
    let (ri, rest) ← parseABody rest
    let (li, rest) ← parseABody rest
    pure ({ src := .android l.toArray ri li, file := Pipe.l10nFile rel, mergeOn := m == "1" }, rest)
  | _ => none

def parseJobs : Nat → List String → Option (List Pipe.Job × List String)
  | 0, rest => some ([], rest)
  | n + 1, toks => do
    let (j, rest) ← parseJob toks
    let (js, rest) ← parseJobs n rest
    pure (j :: js, rest)

/-- c05.session <n> job*n [X … U …] : ONE comparer (one unfiltered Observer) compares the n file pairs in order; the report
    after the last one and the outcome of every merge file, or `raise <exception> at <index of the job>` -/
def opSession (toks : List String) : String :=
  match toks with
  | n :: rest =>
    match (parseNat n).bind (fun n => parseJobs n rest) with
    | some (jobs, ext) =>
      match parseExt ext with
      | some ext =>
        match Pipe.compareSession ext jobs Pipe.SessSt.fresh with
        | .error (i, e) => s!"raise {e.name} at {i}"
        | .ok (st, os) =>
          let r := (Pipe.sessReport st os).report
          let summ := ";".intercalate (r.summary.map (fun p =>
            showOptText p.1 ++ ":" ++ ",".intercalate (p.2.map (fun kv => toString kv.2))))
          let det := ";".intercalate (r.details.map (fun p =>
            "/".intercalate (p.1.map showText) ++ ":" ++ "|".intercalate (p.2.map (fun d => showCat d.1 ++ "=" ++ showDVal d.2))))
          s!"ok summary[{summ}] details[{det}] merge={"&".intercalate (os.map Ops.C04.showOutcome)}"
      | none => "bad-args"
    | none => "bad-args"
  | _ => "bad-args"

def parseLintJobs : Nat → List String → Option (List Pipe.LintSrc × List String)
  | 0, rest => some ([], rest)
  | n + 1, lr :: toks => do
    let (j, rest) ← parseJob toks
    let (js, rest) ← parseLintJobs n rest
    pure (j.toLint (lr == "1") :: js, rest)
  | _, _ => none

/-- c05.lintsession <n> (<with reference 0|1> job)*n [X … U …] : ONE `L10nLinter.lint` over the localized files of the jobs -/
def opLintSession (toks : List String) : String :=
  match toks with
  | n :: rest =>
    match (parseNat n).bind (fun n => parseLintJobs n rest) with
    | some (jobs, ext) =>
      match parseExt ext with
      | some ext =>
        match Pipe.lintSession ext jobs {} with
        | .error (i, e) => s!"raise {e.name} at {i}"
        | .ok rss => "ok " ++ " & ".intercalate (rss.map (fun rs => "|".intercalate (rs.map showLintResult)))
      | none => "bad-args"
    | none => "bad-args"
  | _ => "bad-args"

def ops : List (String × (List String → String)) :=
  [("basecheck", opBase), ("c05.rxsteps", opRxSteps), ("c05.comparef", opCompareF), ("c05.addfile", opAddFile),
   ("c05.removefile", opRemoveFile), ("c05.decode", opDecode), ("c05.cmpbytes", opCmpBytes), ("c05.compare", opCompare), ("c05.lint", opLint),
   ("c05.cmpftl", opCmpFtl), ("c05.lintftl", opLintFtl), ("c05.cmpxml", opCmpXml), ("c05.lintxml", opLintXml),
   ("c05.session", opSession), ("c05.lintsession", opLintSession)]
end Ops.C05

import CLModel.Proto
import CLModel.Checks.Base
namespace Ops.C05
open Proto

/-- basecheck <all> -> positions of the "encodings" warnings -/
def opBase (toks : List String) : String :=
  match toks with
  | [t] =>
    match parseText t with
    | some t => " ".intercalate ((Checks.baseCheck t.toArray).map (fun r => s!"w{r.pos}:{r.category}"))
    | none => "bad-args"
  | _ => "bad-args"

def ops : List (String × (List String → String)) := [("basecheck", opBase)]
end Ops.C05

import CLModel.Proto
import CLModel.Compare.AddRemove
namespace Ops.C20
open Proto

def showLabel : AR.Label → String
  | .equal => "e" | .delete => "d" | .add => "a"

/-- ar <left> <right> : key ids as "texts" -/
def opAR (toks : List String) : String :=
  match toks with
  | [l, r] =>
    match parseText l, parseText r with
    | some l, some r =>
      " ".intercalate ((AR.addRemove l r).map (fun (lab, k) => showLabel lab ++ toString k))
    | _, _ => "bad-args"
  | _ => "bad-args"

/-- keyed <keys> <query> -> index of the entity `kt[query]` or `none`, and membership -/
def opKeyed (toks : List String) : String :=
  match toks with
  | [ks, q] =>
    match parseText ks, parseNat q with
    | some ks, some q =>
      let idx := match AR.keyedIndex ks q with | some i => toString i | none => "none"
      s!"{idx} {AR.keyedContains ks q}"
    | _, _ => "bad-args"
  | _ => "bad-args"

def ops : List (String × (List String → String)) :=
  [("ar", opAR), ("keyed", opKeyed)]
end Ops.C20

import CLModel.Proto
import CLModel.Compare.AddRemove
import CLModel.Compare.AddRemoveObj
import CLModel.Compare.KeyedTuple
import CLModel.Compare.C20Heap
namespace Ops.C20
open Proto

def showLabel : AR.Label → String
  | .equal => "e" | .delete => "d" | .add => "a"

/-- ar <left> <right> : key ids as "texts" -/
def opAR (toks : List String) : String :=
  match toks with
  | [l, r] =>
    match parseText l, parseText r with
    | some l, some r =>
      " ".intercalate ((AR.addRemove l r).map (fun (lab, k) => showLabel lab ++ toString k))
    | _, _ => "bad-args"
  | _ => "bad-args"

/-- keyed <keys> <query> -> index of the entity `kt[query]` or `none`, and membership -/
def opKeyed (toks : List String) : String :=
  match toks with
  | [ks, q] =>
    match parseText ks, parseNat q with
    | some ks, some q =>
      let idx := match AR.keyedIndex ks q with | some i => toString i | none => "none"
      s!"{idx} {AR.keyedContains ks q}"
    | _, _ => "bad-args"
  | _ => "bad-args"

/-! ### round 4: the `AddRemove` object driven by operation sequences -/

def showDiff (d : List (AR.Label × Nat)) : String :=
  "[" ++ ",".intercalate (d.map (fun (lab, k) => showLabel lab ++ toString k)) ++ "]"

/-- token of one object operation: `L:1,2` = set_left([1,2]), `R:` = set_right([]), `I` = list(ar) -/
def parseObjOp (tok : String) : Option (C20M.Op Nat) :=
  match tok.toList with
  | ['I'] => some .iterate
  | 'L' :: rest => (parseText (String.ofList ('t' :: rest))).map .setLeft
  | 'R' :: rest => (parseText (String.ofList ('t' :: rest))).map .setRight
  | _ => none

def showOut : C20M.Out Nat → Option String
  | none => none
  | some (.ok d) => some (showDiff d)
  | some (.error e) => some e

/-- c20.sm <op> <op> ... : ONE `AddRemove()` instance, the operations in order; result = what every
    `I` observed -/
def opSM (toks : List String) : String :=
  match toks.mapM parseObjOp with
  | some ops => " ".intercalate ((C20M.Obj.trace C20M.Obj.init ops).filterMap showOut)
  | none => "bad-args"

/-- c20.specd <left> <right> : the closed form (duplicates allowed), natively -/
def opSpecD (toks : List String) : String :=
  match toks with
  | [l, r] =>
    match parseText l, parseText r with
    | some l, some r => showDiff (C20M.specD l r)
    | _, _ => "bad-args"
  | _ => "bad-args"

/-! ### round 4: one `KeyedTuple` instance queried by a sequence -/

open C20K in
def parseArg (cs : List Char) : Option (Arg Nat) :=
  match cs with
  | 'k' :: r => (natOfChars r).map .key
  | 'i' :: r => (parseInt (String.ofList r)).map .int
  | ['u'] => some .unhashable
  | 'e' :: r => match splitChars ':' r with
    | [k, i] => match natOfChars k, natOfChars i with
      | some k, some i => some (.ent { key := k, id := i })
      | _, _ => none
    | _ => none
  | 's' :: r => match splitChars ':' r with
    | [lo, hi] =>
      let p (x : List Char) : Option (Option Int) :=
        if x.isEmpty then some none else (parseInt (String.ofList x)).map some
      match p lo, p hi with
      | some lo, some hi => some (.slice lo hi)
      | _, _ => none
    | _ => none
  | _ => none

/-- entities of a key list: the i-th has id `base + i` -/
def mkEnts (base : Nat) (ks : List Nat) : List (C20K.Ent Nat) :=
  ks.zipIdx.map (fun (k, i) => { key := k, id := base + i })

open C20K in
def parseQ (tok : String) : Option (Q Nat) :=
  match tok.toList with
  | 'g' :: r => (parseArg r).map .getitem
  | 'c' :: r => (parseArg r).map .contains
  | ['K'] => some .keys
  | ['V'] => some .values
  | ['I'] => some .items
  | ['T'] => some .iter
  | ['N'] => some .len
  | 'A' :: r => (parseText (String.ofList ('t' :: r))).map (fun ks => .concat (mkEnts 100 ks))
  | _ => none

def showIds (es : List (C20K.Ent Nat)) : String := ",".intercalate (es.map (fun e => toString e.id))

open C20K in
def showRes : Res Nat → String
  | .ent e => s!"E{e.id}"
  | .tuple es => s!"tuple[{showIds es}]"
  | .keyed es => s!"KeyedTuple[{showIds es}]"
  | .bool b => toString b
  | .keys ks => "keys[" ++ ",".intercalate (ks.map toString) ++ "]"
  | .items kvs => "items[" ++ ",".intercalate (kvs.map (fun (k, e) => s!"{k}:{e.id}")) ++ "]"
  | .len n => toString n
  | .err e => e

/-- c20.kt <keys> <query> ... : ONE `KeyedTuple`, the queries in order -/
def opKT (toks : List String) : String :=
  match toks with
  | ks :: qs =>
    match parseText ks, qs.mapM parseQ with
    | some ks, some qs => " ".intercalate (((C20K.KT.new (mkEnts 0 ks)).run qs).map showRes)
    | _, _ => "bad-args"
  | _ => "bad-args"

/-! ### round 5: an INTERACTION history over a heap of objects (`Compare/C20Heap.lean`)

Objects are numbered per kind in order of creation: key lists `L0, L1, …` (every `nl`, every `kl`, and
every `sl`/`sr` whose argument is not a list — that list is `ar.left` / `ar.right`), entity lists
`M0, …` (`ne`, `vl`, `il`), KeyedTuples `T0, …` (`kt:`), AddRemoves `A0, …` (`ar`).

    nl:1,2          L = [k1, k2]                     ne:1,2        M = [E(k1), E(k2)]
    ml0:a3 ml0:p ml0:r ml0:c ml0:i3                  L0.append(k3) / pop / reverse / clear / insert(0, k3)
    me0:a3 …                                         the same on M0 (a new entity)
    kt:l:1,2 (kt:t: kt:g:)   KeyedTuple([E…]) from a list / tuple / generator
    kt:m0  KeyedTuple(M0)    kt:v0  KeyedTuple(T0.values())   kt:i0  KeyedTuple(v for _, v in T0.items())
    kt:c0,1  KeyedTuple(T0 + T1)
    ar                       AddRemove()
    sl0:L1  A0.set_left(L1)  sl0:K2  A0.set_left(T2.keys())   sl0:t:1,2 / sl0:g:1,2  tuple / generator
    sr0:…                    set_right
    kl0 / vl0 / il0          x = T0.keys() / values() / items(); x if isinstance(x, list) else list(x)
    it0                      list(A0)
    rl0 / re0                look at L0 / M0
    q0:<query>               a query of `c20.kt` on T0
-/

open C20H in
def parseMut (cs : List Char) : Option (Mut Nat) :=
  match cs with
  | 'a' :: r => (natOfChars r).map .append
  | 'i' :: r => (natOfChars r).map .insert0
  | ['p'] => some .pop
  | ['r'] => some .reverse
  | ['c'] => some .clear
  | _ => none

def parseKeys (cs : List Char) : Option (List Nat) := parseText (String.ofList ('t' :: ':' :: cs))

/-- split at the FIRST `:` -/
def splitFirst (cs : List Char) : List Char × List Char :=
  (cs.takeWhile (· != ':'), (cs.dropWhile (· != ':')).drop 1)

open C20H in
def parseSrc (cs : List Char) : Option (Src Nat) :=
  match cs with
  | 'L' :: r => (natOfChars r).map .ref
  | 'K' :: r => (natOfChars r).map .keysOf
  | 't' :: ':' :: r => (parseKeys r).map .lit
  | 'g' :: ':' :: r => (parseKeys r).map .lit
  | _ => none

open C20H in
def parseKSrc (cs : List Char) : Option (KSrc Nat) :=
  match cs with
  | 'l' :: ':' :: r => (parseKeys r).map .lit
  | 't' :: ':' :: r => (parseKeys r).map .lit
  | 'g' :: ':' :: r => (parseKeys r).map .lit
  | 'm' :: r => (natOfChars r).map .elist
  | 'v' :: r => (natOfChars r).map .valuesOf
  | 'i' :: r => (natOfChars r).map .itemsOf
  | 'c' :: r => match splitChars ',' r with
    | [t, u] => match natOfChars t, natOfChars u with
      | some t, some u => some (.concat t u)
      | _, _ => none
    | _ => none
  | _ => none

open C20H in
def parseHeapOp (tok : String) : Option (C20H.Op Nat) :=
  match tok.toList with
  | ['a', 'r'] => some .newAR
  | 'n' :: 'l' :: ':' :: r => (parseKeys r).map .newList
  | 'n' :: 'e' :: ':' :: r => (parseKeys r).map .newEList
  | 'm' :: 'l' :: r =>
    let (x, m) := splitFirst r
    match natOfChars x, parseMut m with
    | some x, some m => some (.mutList x m)
    | _, _ => none
  | 'm' :: 'e' :: r =>
    let (x, m) := splitFirst r
    match natOfChars x, parseMut m with
    | some x, some m => some (.mutEList x m)
    | _, _ => none
  | 'k' :: 't' :: ':' :: r => (parseKSrc r).map .newKT
  | 's' :: 'l' :: r =>
    let (a, s) := splitFirst r
    match natOfChars a, parseSrc s with
    | some a, some s => some (.setLeft a s)
    | _, _ => none
  | 's' :: 'r' :: r =>
    let (a, s) := splitFirst r
    match natOfChars a, parseSrc s with
    | some a, some s => some (.setRight a s)
    | _, _ => none
  | 'k' :: 'l' :: r => (natOfChars r).map .keysToList
  | 'v' :: 'l' :: r => (natOfChars r).map .valuesToList
  | 'i' :: 'l' :: r => (natOfChars r).map .itemsToList
  | 'i' :: 't' :: r => (natOfChars r).map .iterate
  | 'r' :: 'l' :: r => (natOfChars r).map .readList
  | 'r' :: 'e' :: r => (natOfChars r).map .readEList
  | 'q' :: r =>
    let (t, q) := splitFirst r
    match natOfChars t, parseQ (String.ofList q) with
    | some t, some q => some (.ask t q)
    | _, _ => none
  | _ => none

open C20H in
def showHeapOut : Out Nat → Option String
  | .nothing => none
  | .diff (.ok d) => some (showDiff d)
  | .diff (.error e) => some e
  | .keys ks => some ("keys[" ++ ",".intercalate (ks.map toString) ++ "]")
  | .ents es => some s!"ents[{showIds es}]"
  | .res r => some (showRes r)
  | .badRef => some "badref"

/-- c20.heap <op> <op> … : one history over the heap; result = what every observing operation saw -/
def opHeap (toks : List String) : String :=
  match toks.mapM parseHeapOp with
  | some ops => " ".intercalate ((C20H.Heap.trace C20H.Heap.init ops).filterMap showHeapOut)
  | none => "bad-args"

def ops : List (String × (List String → String)) :=
  [("ar", opAR), ("keyed", opKeyed), ("c20.sm", opSM), ("c20.specd", opSpecD), ("c20.kt", opKT), ("c20.heap", opHeap)]
end Ops.C20

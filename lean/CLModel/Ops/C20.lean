import CLModel.Proto
import CLModel.Compare.AddRemove
import CLModel.Compare.AddRemoveObj
import CLModel.Compare.KeyedTuple
namespace Ops.C20
open Proto

def showLabel : AR.Label → String
  | .equal => "e" | .delete => "d" | .add => "a"

/-- ar <left> <right> : key ids as "texts" -/
def opAR (toks : List String) : String :=
  match toks with
  | [l, r] =>
    match parseText l, parseText r with
    | some l, some r =>
      " ".intercalate ((AR.addRemove l r).map (fun (lab, k) => showLabel lab ++ toString k))
    | _, _ => "bad-args"
  | _ => "bad-args"

/-- keyed <keys> <query> -> index of the entity `kt[query]` or `none`, and membership -/
def opKeyed (toks : List String) : String :=
  match toks with
  | [ks, q] =>
    match parseText ks, parseNat q with
    | some ks, some q =>
      let idx := match AR.keyedIndex ks q with | some i => toString i | none => "none"
      s!"{idx} {AR.keyedContains ks q}"
    | _, _ => "bad-args"
  | _ => "bad-args"

/-! ### round 4: the `AddRemove` object driven by operation sequences -/

def showDiff (d : List (AR.Label × Nat)) : String :=
  "[" ++ ",".intercalate (d.map (fun (lab, k) => showLabel lab ++ toString k)) ++ "]"

/-- token of one object operation: `L:1,2` = set_left([1,2]), `R:` = set_right([]), `I` = list(ar) -/
def parseObjOp (tok : String) : Option (C20M.Op Nat) :=
  match tok.toList with
  | ['I'] => some .iterate
  | 'L' :: rest => (parseText (String.ofList ('t' :: rest))).map .setLeft
  | 'R' :: rest => (parseText (String.ofList ('t' :: rest))).map .setRight
  | _ => none

def showOut : C20M.Out Nat → Option String
  | none => none
  | some (.ok d) => some (showDiff d)
  | some (.error e) => some e

/-- c20.sm <op> <op> ... : ONE `AddRemove()` instance, the operations in order; result = what every
    `I` observed -/
def opSM (toks : List String) : String :=
  match toks.mapM parseObjOp with
  | some ops => " ".intercalate ((C20M.Obj.trace C20M.Obj.init ops).filterMap showOut)
  | none => "bad-args"

/-- c20.specd <left> <right> : the closed form (duplicates allowed), natively -/
def opSpecD (toks : List String) : String :=
  match toks with
  | [l, r] =>
    match parseText l, parseText r with
    | some l, some r => showDiff (C20M.specD l r)
    | _, _ => "bad-args"
  | _ => "bad-args"

/-! ### round 4: one `KeyedTuple` instance queried by a sequence -/

open C20K in
def parseArg (cs : List Char) : Option (Arg Nat) :=
  match cs with
  | 'k' :: r => (natOfChars r).map .key
  | 'i' :: r => (parseInt (String.ofList r)).map .int
  | ['u'] => some .unhashable
  | 'e' :: r => match splitChars ':' r with
    | [k, i] => match natOfChars k, natOfChars i with
      | some k, some i => some (.ent { key := k, id := i })
      | _, _ => none
    | _ => none
  | 's' :: r => match splitChars ':' r with
    | [lo, hi] =>
      let p (x : List Char) : Option (Option Int) :=
        if x.isEmpty then some none else (parseInt (String.ofList x)).map some
      match p lo, p hi with
      | some lo, some hi => some (.slice lo hi)
      | _, _ => none
    | _ => none
  | _ => none

/-- entities of a key list: the i-th has id `base + i` -/
def mkEnts (base : Nat) (ks : List Nat) : List (C20K.Ent Nat) :=
  ks.zipIdx.map (fun (k, i) => { key := k, id := base + i })

open C20K in
def parseQ (tok : String) : Option (Q Nat) :=
  match tok.toList with
  | 'g' :: r => (parseArg r).map .getitem
  | 'c' :: r => (parseArg r).map .contains
  | ['K'] => some .keys
  | ['V'] => some .values
  | ['I'] => some .items
  | ['T'] => some .iter
  | ['N'] => some .len
  | 'A' :: r => (parseText (String.ofList ('t' :: r))).map (fun ks => .concat (mkEnts 100 ks))
  | _ => none

def showIds (es : List (C20K.Ent Nat)) : String := ",".intercalate (es.map (fun e => toString e.id))

open C20K in
def showRes : Res Nat → String
  | .ent e => s!"E{e.id}"
  | .tuple es => s!"tuple[{showIds es}]"
  | .keyed es => s!"KeyedTuple[{showIds es}]"
  | .bool b => toString b
  | .keys ks => "keys[" ++ ",".intercalate (ks.map toString) ++ "]"
  | .items kvs => "items[" ++ ",".intercalate (kvs.map (fun (k, e) => s!"{k}:{e.id}")) ++ "]"
  | .len n => toString n
  | .err e => e

/-- c20.kt <keys> <query> ... : ONE `KeyedTuple`, the queries in order -/
def opKT (toks : List String) : String :=
  match toks with
  | ks :: qs =>
    match parseText ks, qs.mapM parseQ with
    | some ks, some qs => " ".intercalate (((C20K.KT.new (mkEnts 0 ks)).run qs).map showRes)
    | _, _ => "bad-args"
  | _ => "bad-args"

def ops : List (String × (List String → String)) :=
  [("ar", opAR), ("keyed", opKeyed), ("c20.sm", opSM), ("c20.specd", opSpecD), ("c20.kt", opKT)]
end Ops.C20

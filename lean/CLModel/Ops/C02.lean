import CLModel.Proto
import CLModel.Parser.Values
import CLModel.Ops.C01
namespace Ops.C02
open Proto P

def showOptText : Option (List Nat) → String
  | some t => showText t
  | none => "None"

def showView (v : EntView) : String :=
  let ctxt := match v.ctxt with
    | some c => " x:" ++ showOptText c
    | none => ""
  let val := match v.val with | some t => showText t | none => "?"
  s!"E k:{showText v.key}{ctxt} r:{showText v.raw} v:{val} c:{showOptText v.comment}"

def showEnt (f : Fmt) (s : Array Nat) (e : Entry) : String :=
  match e.kind with
  | .entity => match entView f s e with | some v => showView v | none => "E BadEntity"
  | .junk => "J " ++ showText (slice s e.s e.e)
  | .comment => "C " ++ showText (commentVal (commentStyleOf f) (slice s e.s e.e))
  | .whitespace => "W"
  | .section => "S " ++ showText (pySlice s e.vs e.ve)
  | .instruction => "I " ++ showText (pySlice s e.vs e.ve)

/-- ents <fmt> <text> : the strings the entries evaluate to -/
def opEnts (toks : List String) : String :=
  match toks with
  | [f, t] =>
    match Ops.C01.parseFmt f, parseText t with
    | some f, some t =>
      let s := t.toArray
      let (hd, es) := match walk f s with
        | .done es => ("done", es)
        | .stuck off es => (s!"stuck {off}", es)
      " | ".intercalate (hd :: es.map (showEnt f s))
    | _, _ => "bad-args"
  | _ => "bad-args"

/-! ### round 5: histories on one parser object, shown as the strings the entries evaluate to -/

def showOutEnts (f : Fmt) (c : Option C01M.CtxO) (o : C01M.Out) : String :=
  let s := match c with | some c => c.s | none => #[]
  let (hd, es) := match o with
    | .part es => ("part", es)
    | .full (.done es) => ("done", es)
    | .full (.stuck off es) => (s!"stuck {off}", es)
  " | ".intercalate (hd :: es.map (showEnt f s))

/-- the consuming operations of a history with the views of the entries (keys, raw values, values, comments, junk texts):
    an entry indexes into the contents of the Context its generator is bound to -/
def runHist (f : Fmt) : C01M.Obj → List C01M.Op → List String
  | _, [] => []
  | σ, op :: ops =>
    let c : Option C01M.CtxO := match op with
      | .next g _ => C01M.genCtx σ g
      | .drain g => C01M.genCtx σ g
      | _ => none
    match C01M.stepG f σ op with
    | (σ', some o) => showOutEnts f c o :: runHist f σ' ops
    | (σ', none) => runHist f σ' ops

/-- c02.hist <fmt> (R <text> | G <0|1> | N <g> <k> | D <g> | X <g>)* -/
def opHist (toks : List String) : String :=
  match toks with
  | f :: cmds =>
    match Ops.C01.parseFmt f, Ops.C01.parseGenOps cmds with
    | some f, some cmds => " || ".intercalate (runHist f {} cmds)
    | _, _ => "bad-args"
  | _ => "bad-args"

def op1 (f : List Nat → String) (toks : List String) : String :=
  match toks with
  | [t] => match parseText t with | some t => f t | none => "bad-args"
  | _ => "bad-args"

def parseStyle : String → Option CommentStyle
  | "plain" => some .plain
  | "offset1" => some (.offset Gen.Tables.offsetCommentDefault)
  | "offset2" => some (.offset Gen.Tables.offsetCommentDefines)
  | "dtd" => some .dtd
  | _ => none

/-- comment.val <style> <all> -/
def opCommentVal (toks : List String) : String :=
  match toks with
  | [st, t] =>
    match parseStyle st, parseText t with
    | some st, some t => showText (commentVal st t)
    | _, _ => "bad-args"
  | _ => "bad-args"

def ops : List (String × (List String → String)) :=
  [("ents", opEnts),
   ("props.val", op1 (fun t => showOptText (propsVal t))),
   ("props.spec", op1 (fun t => showText (propsUnescapeSpec t))),
   ("po.unescape", op1 (fun t => showOptText (poUnescape t))),
   ("po.onepass", op1 (fun t => showText (poOnePassText t))),
   ("comment.val", opCommentVal),
   ("c02.hist", opHist)]
end Ops.C02

import CLModel.Proto
import CLModel.Checks.Dtd
import CLModel.Checks.XmlContent
namespace Ops.C07
open Proto Dtd

def showLevel : Level → String | .warning => "W" | .error => "E"
def showCat : Cat → String
  | .encodings => "encodings" | .xmlparse => "xmlparse" | .number => "number" | .css => "css" | .android => "android"
def showPos : Pos → String
  | .lc l c => s!"L{l},{c}" | .num n => s!"N{n}" | .entityPos n => s!"P{n}"
def showExc : Exc → String
  | .unicodeEncodeError => "!UnicodeEncodeError" | .indexError => "!IndexError" | .unsupported => "!unsupported"

def showResult (r : Result) : String :=
  s!"{showLevel r.level} {showPos r.pos} {showText r.msg} {showCat r.cat}"

def showOut (o : Out) : String :=
  " | ".intercalate ("res" :: o.results.map showResult ++ (match o.exc with | some e => [showExc e] | none => []))

/-- <android 0|1> <hasRef 0|1> <n> <refval>*n <rkey> <rall> <rval> <lkey> <lall> <lval> rest… -/
def parseInp (toks : List String) : Option (Inp × List String) :=
  match toks with
  | a :: r :: n :: rest => do
    let n ← parseNat n
    let vals ← (rest.take n).mapM parseText
    match rest.drop n with
    | rk :: ra :: rv :: lk :: la :: lv :: rest' => do
      let rk ← parseText rk
      let ra ← parseText ra
      let rv ← parseText rv
      let lk ← parseText lk
      let la ← parseText la
      let lv ← parseText lv
      pure ({ android := a == "1", reference := if r == "1" then some vals else none,
              ref := ⟨rk, ra, rv⟩, l10n := ⟨lk, la, lv⟩ }, rest')
    | _ => none
  | _ => none

def showDoc : Option Bytes → String
  | some d => showText d
  | none => "X"

/-- dtd.docs <inp> : the four template documents as byte lists -/
def opDocs (toks : List String) : String :=
  match parseInp toks with
  | some (i, []) => " ".intercalate ("docs" :: (docs i).map showDoc)
  | _ => "bad-args"

/-- verdict tokens: <line|-> <col> <msg> <text> -/
def parseVerdicts : List String → Option (List ParseRes)
  | [] => some []
  | l :: c :: m :: t :: rest => do
    let c ← parseNat c
    let m ← parseText m
    let t ← parseText t
    let vs ← parseVerdicts rest
    if l == "-" then pure (⟨none, t⟩ :: vs)
    else do
      let l ← parseNat l
      pure (⟨some (l, c, m), t⟩ :: vs)
  | _ => none

/-- the external parser as a finite table from documents to verdicts -/
def tableParse (tbl : List (Bytes × ParseRes)) (d : Bytes) : ParseRes :=
  match tbl.find? (·.1 == d) with
  | some (_, r) => r
  | none => ⟨some (0, 0, [110, 111, 45, 118, 101, 114, 100, 105, 99, 116]), []⟩      -- "no-verdict"

/-- dtd.check <inp> <verdict>*4 -/
def opCheck (toks : List String) : String :=
  match parseInp toks with
  | some (i, rest) =>
    match parseVerdicts rest with
    | some vs =>
      let tbl := ((docs i).zip vs).filterMap (fun (d, v) => d.map (fun d => (d, v)))
      showOut (check (tableParse tbl) i)
    | none => "bad-args"
  | none => "bad-args"

/-- dtd.wf <inp> : the recogniser on the localized value with the names the model declares -/
def opDtdWf (toks : List String) : String :=
  match parseInp toks with
  | some (i, []) =>
    s!"wf={XmlContent.wf (declaredNames i) i.l10n.val} wfvalue={XmlContent.wfValue (declaredNames i) i.l10n.key i.l10n.val} refwf={XmlContent.wf (reflistOf i) i.ref.val}"
  | _ => "bad-args"

def parseNames : List String → Option (List (List Nat) × List String)
  | n :: rest => do
    let n ← parseNat n
    let names ← (rest.take n).mapM parseText
    pure (names, rest.drop n)
  | _ => none

/-- xml.wf <n> <name>*n <value> -/
def opWf (toks : List String) : String :=
  match parseNames toks with
  | some (names, [v]) =>
    match parseText v with
    | some v => toString (XmlContent.wf names v)
    | none => "bad-args"
  | _ => "bad-args"

/-- xml.wfvalue <n> <name>*n <key> <value> -/
def opWfValue (toks : List String) : String :=
  match parseNames toks with
  | some (names, [k, v]) =>
    match parseText k, parseText v with
    | some k, some v => toString (XmlContent.wfValue names k v)
    | _, _ => "bad-args"
  | _ => "bad-args"

def ops : List (String × (List String → String)) :=
  [("dtd.docs", opDocs), ("dtd.check", opCheck), ("dtd.wf", opDtdWf), ("xml.wf", opWf), ("xml.wfvalue", opWfValue)]
end Ops.C07

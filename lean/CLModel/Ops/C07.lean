import CLModel.Proto
import CLModel.Checks.Dtd
import CLModel.Checks.XmlContent
import CLModel.Checks.DtdState
import CLModel.Checks.DtdNamed
namespace Ops.C07
open Proto Dtd

def showLevel : Level → String | .warning => "W" | .error => "E"
def showCat : Cat → String
  | .encodings => "encodings" | .xmlparse => "xmlparse" | .number => "number" | .css => "css" | .android => "android"
def showPos : Pos → String
  | .lc l c => s!"L{l},{c}" | .num n => s!"N{n}" | .entityPos n => s!"P{n}"
def showExc : Exc → String
  | .unicodeEncodeError => "!UnicodeEncodeError" | .indexError => "!IndexError" | .unsupported => "!unsupported"

def showResult (r : Result) : String :=
  s!"{showLevel r.level} {showPos r.pos} {showText r.msg} {showCat r.cat}"

def showOut (o : Out) : String :=
  " | ".intercalate ("res" :: o.results.map showResult ++ (match o.exc with | some e => [showExc e] | none => []))

/-- <android 0|1> <hasRef 0|1> <n> <refval>*n <rkey> <rall> <rval> <lkey> <lall> <lval> rest… -/
def parseInp (toks : List String) : Option (Inp × List String) :=
  match toks with
  | a :: r :: n :: rest => do
    let n ← parseNat n
    let vals ← (rest.take n).mapM parseText
    match rest.drop n with
    | rk :: ra :: rv :: lk :: la :: lv :: rest' => do
      let rk ← parseText rk
      let ra ← parseText ra
      let rv ← parseText rv
      let lk ← parseText lk
      let la ← parseText la
      let lv ← parseText lv
      pure ({ android := a == "1", reference := if r == "1" then some vals else none,
              ref := ⟨rk, ra, rv⟩, l10n := ⟨lk, la, lv⟩ }, rest')
    | _ => none
  | _ => none

def showDoc : Option Bytes → String
  | some d => showText d
  | none => "X"

/-- dtd.docs <inp> : the four template documents as byte lists -/
def opDocs (toks : List String) : String :=
  match parseInp toks with
  | some (i, []) => " ".intercalate ("docs" :: (docs i).map showDoc)
  | _ => "bad-args"

/-- verdict tokens: <line|-> <col> <msg> <text> -/
def parseVerdicts : List String → Option (List ParseRes)
  | [] => some []
  | l :: c :: m :: t :: rest => do
    let c ← parseNat c
    let m ← parseText m
    let t ← parseText t
    let vs ← parseVerdicts rest
    if l == "-" then pure (⟨none, t⟩ :: vs)
    else do
      let l ← parseNat l
      pure (⟨some (l, c, m), t⟩ :: vs)
  | _ => none

/-- the external parser as a finite table from documents to verdicts -/
def tableParse (tbl : List (Bytes × ParseRes)) (d : Bytes) : ParseRes :=
  match tbl.find? (·.1 == d) with
  | some (_, r) => r
  | none => ⟨some (0, 0, [110, 111, 45, 118, 101, 114, 100, 105, 99, 116]), []⟩      -- "no-verdict"

/-- dtd.check <inp> <verdict>*4 -/
def opCheck (toks : List String) : String :=
  match parseInp toks with
  | some (i, rest) =>
    match parseVerdicts rest with
    | some vs =>
      let tbl := ((docs i).zip vs).filterMap (fun (d, v) => d.map (fun d => (d, v)))
      showOut (check (tableParse tbl) i)
    | none => "bad-args"
  | none => "bad-args"

/-- dtd.wf <inp> : the recogniser on the localized value with the names the model declares -/
def opDtdWf (toks : List String) : String :=
  match parseInp toks with
  | some (i, []) =>
    s!"wf={XmlContent.wf (declaredNames i) i.l10n.val} wfvalue={XmlContent.wfValue (declaredNames i) i.l10n.key i.l10n.val} refwf={XmlContent.wf (reflistOf i) i.ref.val}"
  | _ => "bad-args"

def parseNames : List String → Option (List (List Nat) × List String)
  | n :: rest => do
    let n ← parseNat n
    let names ← (rest.take n).mapM parseText
    pure (names, rest.drop n)
  | _ => none

/-- xml.wf <n> <name>*n <value> -/
def opWf (toks : List String) : String :=
  match parseNames toks with
  | some (names, [v]) =>
    match parseText v with
    | some v => toString (XmlContent.wf names v)
    | none => "bad-args"
  | _ => "bad-args"

/-- xml.wfvalue <n> <name>*n <key> <value> -/
def opWfValue (toks : List String) : String :=
  match parseNames toks with
  | some (names, [k, v]) =>
    match parseText k, parseText v with
    | some k, some v => toString (XmlContent.wfValue names k v)
    | _, _ => "bad-args"
  | _ => "bad-args"

/-! ### round 4: one checker instance over a sequence of entity pairs -/

def parseEnts : Nat → List String → Option (List (Ent × Ent) × List String)
  | 0, rest => some ([], rest)
  | k + 1, rk :: ra :: rv :: lk :: la :: lv :: rest => do
    let rk ← parseText rk
    let ra ← parseText ra
    let rv ← parseText rv
    let lk ← parseText lk
    let la ← parseText la
    let lv ← parseText lv
    let (ps, rest') ← parseEnts k rest
    pure ((⟨rk, ra, rv⟩, ⟨lk, la, lv⟩) :: ps, rest')
  | _, _ => none

def parseTable : Nat → List String → Option (List (Bytes × ParseRes))
  | 0, [] => some []
  | 0, _ => none
  | k + 1, d :: l :: c :: m :: t :: rest => do
    let d ← parseText d
    let vs ← parseVerdicts [l, c, m, t]
    let tl ← parseTable k rest
    match vs with
    | [v] => pure ((d, v) :: tl)
    | _ => none
  | _, _ => none

def showState (st : DtdState.State) : String :=
  let known := match st.known with
    | none => "X"
    | some ks => " ".intercalate (toString ks.length :: ks.map showText)
  s!"known={known} text={showText st.textcontent} css={if st.cssCompiled then 1 else 0}"

/-- c07.seq <android 0|1> <hasRef 0|1> <text0> <n> <refval>*n <k> (<rkey> <rall> <rval> <lkey> <lall> <lval>)*k
            <nv> (<doc> <line|-> <col> <msg> <text>)*nv
    one `DTDChecker` (`__init__`, `set_reference` if hasRef), then `check` per pair: verdicts and state after each -/
def opSeq (toks : List String) : String :=
  match toks with
  | a :: r :: t0 :: n :: rest =>
    match parseText t0, parseNat n with
    | some t0, some n =>
      match (rest.take n).mapM parseText, rest.drop n with
      | some vals, k :: rest1 =>
        match parseNat k with
        | some k =>
          match parseEnts k rest1 with
          | some (pairs, nv :: rest2) =>
            match parseNat nv with
            | some nv =>
              match parseTable nv rest2 with
              | some tbl =>
                let st0 := DtdState.init (a == "1") t0
                let st1 := if r == "1" then DtdState.setReference st0 vals else st0
                let outs := DtdState.runSeq (tableParse tbl) st1 pairs
                " || ".intercalate (outs.map (fun so => showOut so.2 ++ " # " ++ showState so.1))
              | none => "bad-args"
            | none => "bad-args"
          | _ => "bad-args"
        | none => "bad-args"
      | _, _ => "bad-args"
    | _, _ => "bad-args"
  | _ => "bad-args"

/-- c07.uescape <k> <known name>*k <val> : `DTDChecker.unicode_escape(val)` — "fine" or "error <pos> <reason>" -/
def opUEscape (toks : List String) : String :=
  match parseNames toks with
  | some (names, [v]) =>
    match parseText v with
    | some v =>
      (match DtdNamed.unicodeEscapeN (fun nm => names.contains nm) v with
       | some .fine => "fine"
       | some (.error n reason) => s!"error {n} {showText reason}"
       | some .unsupported => "unsupported"
       | none => "encode-error")
    | none => "bad-args"
  | _ => "bad-args"

def ops : List (String × (List String → String)) :=
  [("dtd.docs", opDocs), ("dtd.check", opCheck), ("dtd.wf", opDtdWf), ("xml.wf", opWf), ("xml.wfvalue", opWfValue),
   ("c07.seq", opSeq), ("c07.uescape", opUEscape)]
end Ops.C07

import CLModel.Proto
import CLModel.Checks.Android
namespace Ops.C09
open Proto Android

/-- child tokens: `T <text>` | `C <text>` | `O` -/
def parseChildren : Nat → List String → Option (List Child × List String)
  | 0, rest => some ([], rest)
  | n + 1, "T" :: d :: rest => do
    let d ← parseText d
    let (cs, r) ← parseChildren n rest
    pure (.text d :: cs, r)
  | n + 1, "C" :: d :: rest => do
    let d ← parseText d
    let (cs, r) ← parseChildren n rest
    pure (.cdata d :: cs, r)
  | n + 1, "O" :: rest => do
    let (cs, r) ← parseChildren n rest
    pure (.other :: cs, r)
  | _, _ => none

/-- node tokens: `<name> <translatable|-> <toxml> <pre> <n> child*`  -> (node, pre, rest) -/
def parseNode : List String → Option (Node × List Nat × List String)
  | name :: tr :: xml :: pre :: n :: rest => do
    let name ← parseText name
    let tr ← if tr == "-" then pure none else (parseText tr).map some
    let xml ← parseText xml
    let pre ← parseText pre
    let n ← parseNat n
    let (cs, r) ← parseChildren n rest
    pure ({ name := name, translatable := tr, children := cs, xml := xml }, pre, r)
  | _ => none

def showSev : Sev → String
  | .error => "e" | .warning => "w"

def showMsg : Msg → String
  | .mojibake => "moji"
  | .incompatible => "incompat"
  | .unsupported => "unsupp"
  | .notTranslatable => "notrans"
  | .notPlain => "notplain"
  | .doubleQuotes => "dq"
  | .apostrophe => "apos"
  | .conflict o f1 f2 => s!"conflict/{o}/{showText f1}/{showText f2}"
  | .notInRef o f => s!"noref/{o}/{showText f}"
  | .mismatch => "mismatch"
  | .notInL10n o f => s!"nol10n/{o}/{showText f}"
  | .countMismatch => "count"

def showResult (r : Result) : String := s!"{showSev r.sev} {r.pos} {showMsg r.msg}"

/-- android.check <ref node> <l10n node> : entity values as the parser computes them, then the results -/
def opCheck (toks : List String) : String :=
  match parseNode toks with
  | some (rn, rpre, rest) =>
    match parseNode rest with
    | some (ln, lpre, []) =>
      let re := mkEntity rn rpre
      let le := mkEntity ln lpre
      match check re le with
      | some rs => " | ".intercalate (s!"ok {showText re.val} {showText le.val}" :: rs.map showResult)
      | none => "raise"
    | _ => "bad-args"
  | none => "bad-args"

/-- android.params <text> : get_params([text]) -> params (insertion order), count, errors -/
def opParams (toks : List String) : String :=
  match toks with
  | [t] =>
    match parseText t with
    | some t =>
      match getParams [.str t] with
      | some p =>
        let ps := " ".intercalate (p.params.map (fun x => s!"{x.1}={showText x.2}"))
        let es := " ".intercalate (p.errors.map (fun x => s!"{x.2}:{showMsg x.1}"))
        s!"ok [{ps}] {p.count} [{es}]"
      | none => "raise"
    | none => "bad-args"
  | _ => "bad-args"

/-- android.apos <text> : check_apostrophes(text) -/
def opApos (toks : List String) : String :=
  match toks with
  | [t] =>
    match parseText t with
    | some t => " | ".intercalate ("ok" :: (checkApostrophes t).map showResult)
    | none => "bad-args"
  | _ => "bad-args"

def ops : List (String × (List String → String)) :=
  [("android.check", opCheck), ("android.params", opParams), ("android.apos", opApos)]
end Ops.C09

import CLModel.Proto
import CLModel.Checks.Android
import CLModel.Checks.AndroidParser
namespace Ops.C09
open Proto Android

/-- child tokens: `T <text>` | `C <text>` | `O` -/
def parseChildren : Nat → List String → Option (List Child × List String)
  | 0, rest => some ([], rest)
  | n + 1, "T" :: d :: rest => do
    let d ← parseText d
    let (cs, r) ← parseChildren n rest
    pure (.text d :: cs, r)
  | n + 1, "C" :: d :: rest => do
    let d ← parseText d
    let (cs, r) ← parseChildren n rest
    pure (.cdata d :: cs, r)
  | n + 1, "O" :: rest => do
    let (cs, r) ← parseChildren n rest
    pure (.other :: cs, r)
  | _, _ => none

/-- node tokens: `<name> <translatable|-> <toxml> <pre> <n> child*`  -> (node, pre, rest) -/
def parseNode : List String → Option (Node × List Nat × List String)
  | name :: tr :: xml :: pre :: n :: rest => do
    let name ← parseText name
    let tr ← if tr == "-" then pure none else (parseText tr).map some
    let xml ← parseText xml
    let pre ← parseText pre
    let n ← parseNat n
    let (cs, r) ← parseChildren n rest
    pure ({ name := name, translatable := tr, children := cs, xml := xml }, pre, r)
  | _ => none

def showSev : Sev → String
  | .error => "e" | .warning => "w"

def showMsg : Msg → String
  | .mojibake => "moji"
  | .incompatible => "incompat"
  | .unsupported => "unsupp"
  | .notTranslatable => "notrans"
  | .notPlain => "notplain"
  | .doubleQuotes => "dq"
  | .apostrophe => "apos"
  | .conflict o f1 f2 => s!"conflict/{o}/{showText f1}/{showText f2}"
  | .notInRef o f => s!"noref/{o}/{showText f}"
  | .mismatch => "mismatch"
  | .notInL10n o f => s!"nol10n/{o}/{showText f}"
  | .countMismatch => "count"

def showResult (r : Result) : String := s!"{showSev r.sev} {r.pos} {showMsg r.msg}"

/-- android.check <ref node> <l10n node> : entity values as the parser computes them, then the results -/
def opCheck (toks : List String) : String :=
  match parseNode toks with
  | some (rn, rpre, rest) =>
    match parseNode rest with
    | some (ln, lpre, []) =>
      let re := mkEntity rn rpre
      let le := mkEntity ln lpre
      match check re le with
      | some rs => " | ".intercalate (s!"ok {showText re.val} {showText le.val}" :: rs.map showResult)
      | none => "raise"
    | _ => "bad-args"
  | none => "bad-args"

/-- android.params <text> : get_params([text]) -> params (insertion order), count, errors -/
def opParams (toks : List String) : String :=
  match toks with
  | [t] =>
    match parseText t with
    | some t =>
      match getParams [.str t] with
      | some p =>
        let ps := " ".intercalate (p.params.map (fun x => s!"{x.1}={showText x.2}"))
        let es := " ".intercalate (p.errors.map (fun x => s!"{x.2}:{showMsg x.1}"))
        s!"ok [{ps}] {p.count} [{es}]"
      | none => "raise"
    | none => "bad-args"
  | _ => "bad-args"

/-- android.apos <text> : check_apostrophes(text) -/
def opApos (toks : List String) : String :=
  match toks with
  | [t] =>
    match parseText t with
    | some t => " | ".intercalate ("ok" :: (checkApostrophes t).map showResult)
    | none => "bad-args"
  | _ => "bad-args"

/-! ### round 4: the parser model (`AndroidP`) -/
open AndroidP in
/-- node tokens (prefix form):
    `E <name> <k> (<attr name> <attr value>)^k <n> node^n` | `T <data>` | `C <data>` | `M <data>` (comment) |
    `P <target> <data>` | `D <name> <publicId> <systemId|-> <internalSubset|->` -/
partial def parseDNode : List String → Option (DNode × List String)
  | "T" :: d :: rest => (parseText d).map (fun d => (.text d, rest))
  | "C" :: d :: rest => (parseText d).map (fun d => (.cdata d, rest))
  | "M" :: d :: rest => (parseText d).map (fun d => (.comment d, rest))
  | "P" :: t :: d :: rest => do
    let t ← parseText t
    let d ← parseText d
    pure (.pi t d, rest)
  | "D" :: n :: p :: s :: i :: rest => do
    let n ← parseText n
    let p ← parseText p
    let s ← if s == "-" then pure none else (parseText s).map some
    let i ← if i == "-" then pure none else (parseText i).map some
    pure (.doctype n p s i, rest)
  | "E" :: name :: k :: rest => do
    let name ← parseText name
    let k ← parseNat k
    let rec attrs : Nat → List String → Option (List (List Nat × List Nat) × List String)
      | 0, r => some ([], r)
      | j + 1, a :: v :: r => do
        let a ← parseText a
        let v ← parseText v
        let (as, r') ← attrs j r
        pure ((a, v) :: as, r')
      | _, _ => none
    let (as, rest) ← attrs k rest
    match rest with
    | n :: rest => do
      let n ← parseNat n
      let (cs, rest) ← parseDNodes n rest
      pure (.element name as cs, rest)
    | [] => none
  | _ => none
where
  parseDNodes : Nat → List String → Option (List AndroidP.DNode × List String)
    | 0, r => some ([], r)
    | j + 1, r => do
      let (c, r') ← parseDNode r
      let (cs, r'') ← parseDNodes j r'
      pure (c :: cs, r'')

open AndroidP in
/-- `none` | `err <contents>` | `doc <contents> <n> node^n` -/
def parseCtx : List String → Option (Option (List Nat × Parsed) × List String)
  | "none" :: rest => some (none, rest)
  | "err" :: c :: rest => (parseText c).map (fun c => (some (c, .error), rest))
  | "doc" :: c :: n :: rest => do
    let c ← parseText c
    let n ← parseNat n
    let (cs, rest) ← parseDNode.parseDNodes n rest
    pure (some (c, .doc cs), rest)
  | _ => none

def showLit (tag : String) : Option AndroidP.Lit → String
  | some l => s!"{tag}:{showText l.all};{showText l.val}"
  | none => s!"{tag}:-"

def showOptText : Option (List Nat) → String
  | some t => showText t
  | none => "-"

/-- one entry: class, `all`, `key`, `raw_val` and the class specific literals; junk with its counter value -/
def showEntry (e : AndroidP.Entry) (ctr : Option Nat) : String :=
  match e with
  | .wrapper .. => s!"W {showOptText e.key?} {showText e.all} {showText e.rawVal}"
  | .white _ => s!"S {showOptText e.key?} {showText e.all} {showText e.rawVal}"
  | .comment _ => s!"K {showOptText e.key?} {showText e.all} {showText e.rawVal}"
  | .entity pre inner _ _ _ _ valLit =>
    s!"N {showOptText e.key?} {showText e.all} {showText e.rawVal} {showText valLit} {showLit "p" pre} {showLit "i" inner}"
  | .junk _ =>
    let c := match ctr with
      | some c => toString c
      | none => "?"
    s!"J {c} {showText e.all} {showText e.rawVal}"

def showEntries (start : Nat) (es : List AndroidP.Entry) : String :=
  " | ".intercalate ("ok" :: (es.zip (AndroidP.junkCounters start es)).map (fun p => showEntry p.1 p.2))

/-- c09.toxml <node> : `node.toxml()` -/
def opToxml (toks : List String) : String :=
  match parseDNode toks with
  | some (n, []) =>
    match n.toxml? with
    | some x => s!"ok {showText x}"
    | none => "raise"
  | _ => "bad-args"

/-- c09.walk <only_localizable 0|1> <XMLJunk.junkid before> <ctx> : the entries of `AndroidParser.walk` -/
def opWalk (toks : List String) : String :=
  match toks with
  | ol :: start :: rest =>
    match parseNat start, parseCtx rest with
    | some start, some (ctx, []) =>
      match AndroidP.walk ctx (ol == "1") with
      | some es => showEntries start es
      | none => "raise"
    | _, _ => "bad-args"
  | _ => "bad-args"

/-- c09.norm <text> : `normalize(text)` and `text.count("\n")` as walk / handleComment count it -/
def opNorm (toks : List String) : String :=
  match toks with
  | [t] =>
    match parseText t with
    | some t => s!"ok {showText (AndroidP.normalize t)} {AndroidP.count Gen.TablesAndroid.walk_nl t} {AndroidP.count Gen.TablesAndroid.comment_nl t}"
    | none => "bad-args"
  | _ => "bad-args"

/-- c09.pos <offset> <ctx> : `position(offset)` and `value_position(offset)` of every entry of `walk()` -/
def opPos (toks : List String) : String :=
  match toks with
  | off :: rest =>
    match parseInt off, parseCtx rest with
    | some off, some (ctx, []) =>
      match AndroidP.walk ctx false with
      | some es => " | ".intercalate ("ok" :: es.map (fun e =>
          let p := e.position off
          let v := e.valuePosition off
          s!"{p.1} {p.2} {v.1} {v.2}"))
      | none => "raise"
    | _, _ => "bad-args"
  | _ => "bad-args"

/-- c09.doccheck <ref ctx> <l10n ctx> : both documents through `walk(only_localizable=True)`, then every localized
    entity that the reference has through `AndroidChecker.check` -/
def opDocCheck (toks : List String) : String :=
  match parseCtx toks with
  | some (rctx, rest) =>
    match parseCtx rest with
    | some (lctx, []) =>
      match AndroidP.walk rctx true, AndroidP.walk lctx true with
      | some res, some les =>
        " | ".intercalate ("ok" :: (AndroidP.docCheck res les).map (fun p =>
          match p.2 with
          | some rs => " ; ".intercalate (showText p.1 :: rs.map (fun x =>
              let bad := if x.2.1 == 0 && x.2.2 ≥ 0 then "" else s!"?{x.2.1},"
              s!"{showSev x.1.sev} {bad}{x.2.2} {showMsg x.1.msg}"))
          | none => s!"{showText p.1} ; raise"))
      | _, _ => "raise"
    | _ => "bad-args"
  | none => "bad-args"

/-- c09.wrap <raw> <ctx> : `e.wrap(raw)` for every AndroidEntity of `walk(only_localizable=True)` -/
def opWrap (toks : List String) : String :=
  match toks with
  | raw :: rest =>
    match parseText raw, parseCtx rest with
    | some raw, some (ctx, []) =>
      match AndroidP.walk ctx true with
      | some es => " | ".intercalate ("ok" :: (es.filter AndroidP.Entry.isEntity).map (fun e =>
          match e.wrap raw with
          | .ok (k, v, a) => s!"{showText k} {showText v} {showText a}"
          | .error .unbound => "raise:UnboundLocalError"
          | .error .value => "raise:ValueError"
          | .error .notEntity => "raise:?"))
      | none => "raise"
    | _, _ => "bad-args"
  | _ => "bad-args"

def ops : List (String × (List String → String)) :=
  [("android.check", opCheck), ("android.params", opParams), ("android.apos", opApos),
   ("c09.toxml", opToxml), ("c09.walk", opWalk), ("c09.norm", opNorm), ("c09.pos", opPos),
   ("c09.doccheck", opDocCheck), ("c09.wrap", opWrap)]
end Ops.C09

/- Driver operations for C11/C12 (paths/matcher.py, mozpath.match). -/
import CLModel.Proto
import CLModel.Paths.Matcher
namespace Ops.C11
open Proto PM

def showErr : PyErr → String
  | .keyError => "E:KeyError" | .missingEnv => "E:MissingEnvironment" | .reError => "E:error"
  | .recursion => "E:RecursionError" | .typeError => "E:TypeError" | .indexError => "E:IndexError"
  | .notStr => "E:?notStr"

def showB (b : Bool) : String := if b then "1" else "0"

def showCls : Rx.ClsItem → String
  | .ch c => s!"c{c}" | .range lo hi => s!"r{lo}-{hi}"
  | .word => "w" | .digit => "d" | .space => "s" | .notWord => "W" | .notDigit => "D" | .notSpace => "X"

/-- the wire format of `translate.to_wire` -/
def showRe : Rx.Re → List String
  | .lit c => [s!"L{c}"]
  | .notLit c => [s!"N{c}"]
  | .any d => ["A" ++ showB d]
  | .cls neg items => ["C" ++ showB neg, toString items.length] ++ items.map showCls
  | .seq a b => "S" :: (showRe a ++ showRe b)
  | .alt a b => "|" :: (showRe a ++ showRe b)
  | .eps => ["E"]
  | .rep mn mx g r => ["R" ++ showB g, toString mn, (match mx with | some n => toString n | none => "-")] ++ showRe r
  | .group i r => s!"G{i}" :: showRe r
  | .backref i => [s!"B{i}"]
  | .bol ml => ["^" ++ showB ml]
  | .eol ml => ["$" ++ showB ml]
  | .eos => ["Z"]
  | .look a n r => ("K" ++ showB a ++ showB n) :: showRe r

def showNode : Node → String
  | .lit s => "L" ++ showText s
  | .var n r => "V" ++ showB r ++ showText n
  | .android r => "A" ++ showB r
  | .star n => s!"S{n}"
  | .starstar n sfx => s!"D{n}" ++ showText sfx

def showPattern (p : Pattern) : String :=
  ",".intercalate (toString p.prefixLen :: p.nodes.map showNode)

def showExc {α} (f : α → String) : Except PyErr α → String
  | .ok a => f a
  | .error e => showErr e

def showOptText : Option Text → String
  | some t => showText t
  | none => "None"

def showDict (d : GroupDict) : String :=
  "{" ++ ",".intercalate (d.map (fun p => showText p.1 ++ "=" ++ showOptText p.2)) ++ "}"

def showMatch : Except PyErr (Option GroupDict) → String
  | .ok none => "None"
  | .ok (some d) => showDict d
  | .error e => showErr e

/-- tokens `<n> k v k v …` -/
def parsePairs : Nat → List String → Option (List (Text × Text) × List String)
  | 0, rest => some ([], rest)
  | n + 1, k :: v :: rest => do
    let k ← parseText k
    let v ← parseText v
    let (ps, r) ← parsePairs n rest
    pure ((k, v) :: ps, r)
  | _, _ => none

structure MArgs where
  root : Option Text
  pat : Text
  env : List (Text × Text)
  withEnv : Option (List (Text × Text))

/-- `<root|-> <pattern> <n> (k v)* <nw|-> (k v)*` -/
def parseMatcherArgs (toks : List String) : Option (MArgs × List String) :=
  match toks with
  | root :: pat :: n :: rest => do
    let root ← if root == "-" then pure none else (parseText root).map some
    let pat ← parseText pat
    let n ← parseNat n
    let (env, r) ← parsePairs n rest
    match r with
    | "-" :: r' => pure ({ root := root, pat := pat, env := env, withEnv := none }, r')
    | nw :: r' => do
      let nw ← parseNat nw
      let (w, r'') ← parsePairs nw r'
      pure ({ root := root, pat := pat, env := env, withEnv := some w }, r'')
    | [] => none
  | _ => none

def build (a : MArgs) : Except PyErr Matcher := do
  let m ← mkMatcher a.pat a.env a.root
  match a.withEnv with
  | none => pure m
  | some w => m.withEnv w

/-- pm.parse <pattern> -/
def opParse (toks : List String) : String :=
  match toks with
  | [p] => match parseText p with
    | some p => showExc showPattern (parsePattern p)
    | none => "bad-args"
  | _ => "bad-args"

/-- pm.info <matcher> : regex (wire, names), prefix, str -/
def opInfo (toks : List String) : String :=
  match parseMatcherArgs toks with
  | some (a, []) =>
    match build a with
    | .error e => showErr e
    | .ok m =>
      let rx := match m.regexOf with
        | .ok (re, names) => " ".intercalate (showRe re) ++ " ; " ++ ",".intercalate (names.map showText)
        | .error e => showErr e
      rx ++ " | " ++ showExc showText m.prefix ++ " | " ++ showExc showText m.str
  | _ => "bad-args"

/-- pm.match <matcher> <path>* : one result per path, separated by " | " -/
def opMatch (toks : List String) : String :=
  match parseMatcherArgs toks with
  | some (a, paths) =>
    match paths.mapM parseText with
    | some paths =>
      match build a with
      | .error e => showErr e
      | .ok m => " | ".intercalate (paths.map (fun p => showMatch (m.match p)))
    | none => "bad-args"
  | none => "bad-args"

/-- pm.sub <matcher a> <matcher b> <path>* : a.sub(b, path) and, when that is a path, b.sub(a, that) -/
def opSub (toks : List String) : String :=
  match parseMatcherArgs toks with
  | some (a, rest) =>
    match parseMatcherArgs rest with
    | some (b, paths) =>
      match paths.mapM parseText with
      | some paths =>
        match build a, build b with
        | .ok ma, .ok mb =>
          " | ".intercalate (paths.map (fun p =>
            match ma.sub mb p with
            | .error e => showErr e
            | .ok none => "None"
            | .ok (some q) =>
              showText q ++ " " ++ (match mb.sub ma q with
                | .error e => showErr e
                | .ok none => "None"
                | .ok (some r) => showText r)))
        | .error e, _ => showErr e
        | _, .error e => showErr e
      | none => "bad-args"
    | none => "bad-args"
  | none => "bad-args"

/-- pm.android <locale> : BCP 47 -> Android and back -/
def opAndroid (toks : List String) : String :=
  match toks with
  | [l] => match parseText l with
    | some l =>
      match toAndroid l with
      | .error e => showErr e
      | .ok a => showText a ++ " " ++ showExc showText (toStandard a)
    | none => "bad-args"
  | _ => "bad-args"

/-- moz.match <pattern> <path>* -/
def opMoz (toks : List String) : String :=
  match toks with
  | pat :: paths =>
    match parseText pat, paths.mapM parseText with
    | some pat, some paths =>
      let rx := if pat.isEmpty then "-" else
        match mozRegex pat with
        | .ok re => " ".intercalate (showRe re)
        | .error e => showErr e
      rx ++ " | " ++ " ".intercalate (paths.map (fun p => showExc showB (mozMatch p pat)))
    | _, _ => "bad-args"
  | _ => "bad-args"

def ops : List (String × (List String → String)) :=
  [("pm.parse", opParse), ("pm.info", opInfo), ("pm.match", opMatch), ("pm.sub", opSub),
   ("pm.android", opAndroid), ("moz.match", opMoz)]
end Ops.C11

import CLModel.Proto
import CLModel.Checks.Properties
import CLModel.Checks.PrintfToks
namespace Ops.C06
open Proto PropCk

def showSev : Sev → String | .error => "error" | .warning => "warning"
def showCat : Cat → String
  | .encodings => "encodings" | .escape => "escape" | .printf => "printf" | .plural => "plural"
def showPos : Pos → String | .val n => s!"v{n}" | .ent n => s!"e{n}"

def showFinding (f : Finding) : String :=
  s!"{showSev f.sev} {showPos f.pos} {showCat f.cat} {showText f.msg}"

def showFindings : Option (List Finding) → String
  | none => "raise"
  | some fs => " | ".intercalate ("ok" :: fs.map showFinding)

def parseOptText (tok : String) : Option (Option Text) :=
  if tok == "-" then some none else (parseText tok).map some

/-- pcheck <locale|-> <refComment|-> <refKey> <refRaw> <l10nKey> <l10nAll> <l10nRaw> -/
def opCheck (toks : List String) : String :=
  match toks with
  | [loc, com, rk, rr, lk, la, lr] =>
    match parseOptText loc, parseOptText com, parseText rk, parseText rr, parseText lk, parseText la, parseText lr with
    | some loc, some com, some rk, some rr, some lk, some la, some lr =>
      showFindings (check ⟨loc, com, rk, rr, lk, la, lr⟩)
    | _, _, _, _, _, _, _ => "bad-args"
  | _ => "bad-args"

def showSpecs (l : List (Option Text)) : String :=
  " ".intercalate (l.map (fun o => match o with | some t => showText t | none => "None"))

/-- pspecs <value> : getPrintfSpecs -/
def opSpecs (toks : List String) : String :=
  match toks with
  | [v] =>
    match parseText v with
    | some v =>
      match getPrintfSpecs v with
      | .ok l => "ok " ++ showSpecs l
      | .error (.printf msg pos) => s!"err {pos} {showText msg}"
      | .error .other => "raise"
    | none => "bad-args"
  | _ => "bad-args"

def showTag : Difflib.Tag → String
  | .replace => "replace" | .delete => "delete" | .insert => "insert" | .equal => "equal"

/-- popcodes <a> <b> : SequenceMatcher opcodes of two integer sequences -/
def opOpcodes (toks : List String) : String :=
  match toks with
  | [a, b] =>
    match parseText a, parseText b with
    | some a, some b =>
      match Difflib.opcodes a b with
      | none => "raise"
      | some ops => " ".intercalate ("ok" :: ops.map (fun o => s!"{showTag o.tag},{o.i1},{o.i2},{o.j1},{o.j2}"))
    | _, _ => "bad-args"
  | _ => "bad-args"

/-- pplural <locale|-> : number of plural categories, `None`, or raise -/
def opPlural (toks : List String) : String :=
  match toks with
  | [loc] =>
    match parseOptText loc with
    | some loc =>
      match getPlural loc with
      | none => "raise"
      | some none => "None"
      | some (some cats) => " ".intercalate (cats.map showText)
    | none => "bad-args"
  | _ => "bad-args"

/-- punescape <raw> : PropertiesEntity.val -/
def opUnescape (toks : List String) : String :=
  match toks with
  | [r] =>
    match parseText r with
    | some r => match unescape r with | some t => showText t | none => "raise"
    | none => "bad-args"
  | _ => "bad-args"


/-! ### round 4 -/

def showATok : ATok → String
  | .lone => "lone"
  | .pct => "pct"
  | .arg none sp => s!"arg:-:{showText sp}"
  | .arg (some n) sp => s!"arg:{n}:{showText sp}"

/-- c06.toks <value> : the tokens of `printf.finditer(value)` with their offsets (`atoks`, the object of
    `C06.atoks_iff_lex`) -/
def opToks (toks : List String) : String :=
  match toks with
  | [v] =>
    match parseText v with
    | some v =>
      match atoks v with
      | some ts => " ".intercalate ("ok" :: ts.map (fun t => s!"{t.1}:{showATok t.2}"))
      | none => "raise"
    | none => "bad-args"
  | _ => "bad-args"

/-- c06.rule <locale|-> : `get_plural_rule(locale)` and the number of forms of `get_plural(locale)` -/
def opRule (toks : List String) : String :=
  match toks with
  | [loc] =>
    match parseOptText loc with
    | some loc =>
      match getPluralRule loc, getPlural loc with
      | _, none => "raise"
      | none, some none => "None None"
      | some i, some (some cats) => s!"{i} {cats.length}"
      | none, some (some _) => "inconsistent"
      | some _, some none => "inconsistent"
    | none => "bad-args"
  | _ => "bad-args"

/-- c06.pvars <value> : `[int(m.group(1)) for m in re.finditer("#([0-9]+)", value)]` -/
def opPVars (toks : List String) : String :=
  match toks with
  | [v] =>
    match parseText v with
    | some v =>
      match pluralVars Gen.Pat.checks_properties_PropertiesChecker_check_plural_0 v,
            pluralVars Gen.Pat.checks_properties_PropertiesChecker_check_plural_1 v with
      | some a, some b => if a == b then " ".intercalate ("ok" :: a.map toString) else "differ"
      | _, _ => "raise"
    | none => "bad-args"
  | _ => "bad-args"

/-- the specifier list `[c1, c2, …]` of one-character types -/
def specList (t : Text) : List (Option Text) := t.map (fun c => some [c])

/-- c06.verdict <refSpecs> <l10nValue> : `checkPrintf(refSpecs, l10nValue)` for a reference specifier list of
    one-character types (each code point of the first argument is one specifier) -/
def opVerdict (toks : List String) : String :=
  match toks with
  | [r, v] =>
    match parseText r, parseText v with
    | some r, some v => showFindings (checkPrintf (specList r) v)
    | _, _ => "bad-args"
  | _ => "bad-args"

def ops : List (String × (List String → String)) :=
  [("pcheck", opCheck), ("pspecs", opSpecs), ("popcodes", opOpcodes), ("pplural", opPlural), ("punescape", opUnescape),
   ("c06.toks", opToks), ("c06.rule", opRule), ("c06.pvars", opPVars), ("c06.verdict", opVerdict)]
end Ops.C06

import CLModel.Proto
import CLModel.Compare.Projects
import CLModel.Compare.ProjectsPipe
import CLModel.Paths.ProjectFilesM
import CLModel.Lint.Linter
import CLModel.Ops.C10
import CLModel.Ops.C13
/-
Driver operations of C10 for the orchestration layer (CLModel/Compare/Projects.lean).

`c10.rel <cwd> <path> <start>`            → `mozpath.relpath(path, start)` and `mozpath.abspath(path)` in the directory `cwd`
`c10.pos <validate> CWD <cwd> A <n> <text>* B <text> L <n> <text>* DIRS <n> <text>* FILES <n> <text>*`
                                          → `CompareLocales.extract_positionals`
`c10.handle Q <quiet> V <0|1> FULL <0|1> RZ <0|1> CL <0|1> JK <junkid>
            MERGE <text|-> JSON <text|-> CWD <text>
            A <n> <text>* B <text> L <n> <text>* D <n> <text>* DIRS <n> <text>* FILES <n> <text>*
            LOAD <text|->                                        ConfigNotFound(name) while loading the configs
            P <n> (<n> <locale>* FT <n> (<file> <module|-> <locale|-> <data> <ret>)*)*
                                                                 the loaded projects: all_locales, filter as a table
            X <n> <path>*                                        the paths for which os.path.exists
            MD <n> (<merge file> <message>)*                     os.makedirs(dirname(merge_file)) raising OSError
            C <n> (<path> (T <text> | E <message>))*             Parser.readFile: decoded contents or str(exception)
            E <n> (<locale|-> <enumeration>)*                    ProjectFiles(locale, configs, mergebase) per locale
   <enumeration> = ERR <exception name>
                 | TAB <n> (<l10n prefix> <module|-> <has merge 0|1> <n> <matched path>*)*
                       <n> (<l10n path> <reference|-> <merge|-> <tests t:…>)*
                 | PFM <the arguments of pfm.run (Ops/C13.lean)> MOD <n> (<matcher id> <module>)*`
  → the whole of `CompareLocales.handle`: outcome, positionals, config env, stdout, JSON data, the calls of the
    ContentComparer methods, the final observers.  With `TAB` the enumeration is a table read off the real
    `ProjectFiles` object, with `PFM` it is computed by the model of C13 (`PFM.newM` / `iterM`) from the pattern texts
    of the configuration and the list of regular files.  `ContentComparer.compare` behind its `getParser` gate is the
    composed pipeline model of C05 (`Pipe.parseFile`, `Pipe.compareParsed`), `add` parses the reference with it.
-/
namespace Ops.C10P
open Proto TreeM ObsM ProjM ProjPipe Ops.C10

/-! ### canonical output -/

def showOptTxt : Option Text → String
  | none => "-"
  | some t => showTxt t

def showTexts (l : List Text) : String := ",".intercalate (l.map showTxt)

def showLocales (l : List (Option Text)) : String := ",".intercalate (l.map showOptTxt)

def showKind : CallKind → String
  | .add => "add" | .remove => "remove" | .compare => "compare"

def showCall (c : Call) : String :=
  s!"{showKind c.kind}:{showTxt c.ref.file},{showOptTxt c.ref.module},{showOptTxt c.refFull},{showTxt c.l10n.file}," ++
    -- `extra_tests` is handed to `compare` only
    s!"{showOptTxt c.l10n.locale},{showTxt c.l10nFull},{showOptTxt c.merge},{showText (if c.kind == .compare then c.tests else [])}"

def showOutcome : Outcome → String
  | .returned rv => s!"returned:{rv}"
  | .usage msg => "usage:" ++ showTxt msg
  | .sysExit (.code n) => s!"exit:{n}"
  | .sysExit (.message t) => "exit:" ++ showTxt t
  | .raised e => "raise:" ++ e.name

/-- what `print` writes: every line followed by a newline -/
def stdoutText (lines : List Text) : Text := lines.flatMap (· ++ [10])

def showObsJson (o : ObsJson) : String :=
  s!"sum={showSummary o.summary} det={showJ showDetail o.details}"

def showResult (r : HResult) : String :=
  "outcome=" ++ showOutcome r.outcome ++
  " |pos=" ++ (match r.positionals with
    | none => "-"
    | some (cfgs, base, locs) => showTexts cfgs ++ ";" ++ showTxt base ++ ";" ++ showLocales locs) ++
  " |env=" ++ ";".intercalate (r.env.map (fun kv => showTxt kv.1 ++ "=" ++ showTxt kv.2)) ++
  " |out=" ++ showTxt (stdoutText r.stdout) ++
  " |json=" ++ (match r.json with
    | none => "-"
    | some (toStdout, data) => (if toStdout then "stdout:" else "file:") ++ " & ".intercalate (data.map showObsJson)) ++
  " |calls=" ++ (match r.final with
    | none => "-"
    | some st => ";".intercalate (st.calls.map showCall)) ++
  (match r.final with
    | none => ""
    | some st => " |L " ++ showObs st.obs.own ++ String.join (st.obs.observers.map (fun o => " |O " ++ showObs o)))

/-! ### paths -/

def opRel (toks : List String) : String :=
  match toks.mapM parseText with
  | some [cwd, path, start] =>
    (match relpath cwd path start with
      | .ok r => showTxt r
      | .error e => "!" ++ e.name) ++ " abs=" ++ showTxt (abspath cwd path)
  | _ => "bad-args"

/-! ### positionals -/

structure PosArgs where
  cwd : Text
  configPaths : List Text
  base : Text
  locales : List Text
  fs : ArgFs

def pArgFs : P ArgFs := do
  expect "DIRS"
  let dirs ← counted text
  expect "FILES"
  let files ← counted text
  pure { isdir := fun x => dirs.contains x, isfile := fun x => files.contains x }

def opPos (toks : List String) : String :=
  let p : P (Bool × PosArgs) := do
    let v ← nat
    expect "CWD"; let cwd ← text
    expect "A"; let a ← counted text
    expect "B"; let b ← text
    expect "L"; let l ← counted text
    let fs ← pArgFs
    pure (v != 0, { cwd := cwd, configPaths := a, base := b, locales := l, fs := fs })
  match p.run toks with
  | some ((v, a), []) =>
    match extractPositionals a.fs a.cwd v a.configPaths a.base a.locales with
    | .error msg => "usage:" ++ showTxt msg
    | .ok (cfgs, base, locs) => "ok " ++ showTexts cfgs ++ ";" ++ showTxt base ++ ";" ++ showLocales locs
  | _ => "bad-args"

/-! ### the world of `c10.handle` -/

/-- a filter as the table of its values; the key is everything a filter can look at through this model's `File`
    (the harness checks that `fullpath` is a function of it) -/
def filterOfRows (rows : List (File × Data × Ret)) : Filter :=
  fun f d =>
    match rows.find? (fun e => e.1 == f && e.2.1 == d) with
    | some e => e.2.2
    | none => .error

def pProject : P Project := do
  let locs ← counted text
  expect "FT"
  let rows ← counted (do let f ← pFile; let d ← pData; let r ← pRet; pure (f, d, r))
  pure { filter := filterOfRows rows, allLocales := locs }

def pContent : P (Path × ProjPipe.Content) := do
  let p ← text
  match (← tok) with
  | "T" => do let t ← text; pure (p, .text t)
  | "E" => do let m ← text; pure (p, .error m)
  | _ => failure

/-! ### enumerations -/

def pItem : P Item := do
  let l ← text
  let r ← optText
  let m ← optText
  let t ← text
  pure { l10n := l, ref := r, merge := m, tests := t }

def pMatcherRow : P MatcherInfo := do
  let pre ← text
  let mod ← optText
  let hm ← nat
  let matched ← counted text
  pure { l10nMatch := fun p => matched.contains p, l10nPrefix := pre, module := mod, hasMerge := hm != 0 }

def errOfC13 : PF.Err → String
  | .runtimeMismatch => "RuntimeError"
  | .attributeNone => "AttributeError"
  | .typeErrorLocale => "TypeError"
  | .depth => "model-depth"

/-- the enumeration computed by the model of C13 on pattern texts -/
def filesOfPFM (c : Ops.C13.CaseM) (mods : List (Nat × Text)) : Except ProjM.PyErr Files :=
  match PFM.newM c.specs c.locale c.projects c.mergebase with
  | .error (.init e) => .error (.external (errOfC13 e))
  | .error _ => .error (.external "unsupported")
  | .ok o =>
    let fs : PF.FS := { files := c.univ.take c.nfiles }
    match o.iterM fs with
    | .error _ => .error (.external "unsupported")
    | .ok items =>
      .ok { matchers := o.pf.matchers.map (fun r =>
              { l10nMatch := fun p => (o.env.mtch r.l10n p).isSome, l10nPrefix := o.env.pfx r.l10n,
                module := (mods.find? (·.1 == r.l10n)).map (·.2), hasMerge := r.merge.isSome }),
            items := items.map (fun i => { l10n := i.path, ref := i.reference, merge := i.merge, tests := i.test }) }

def pEnum : P (Except ProjM.PyErr Files) := do
  match (← tok) with
  | "ERR" => do let n ← tok; pure (.error (.external n))
  | "TAB" => do
    let ms ← counted pMatcherRow
    let items ← counted pItem
    pure (.ok { matchers := ms, items := items })
  | "PFM" => do
    let c ← Ops.C13.caseM
    expect "MOD"
    let mods ← counted (do let i ← nat; let m ← text; pure (i, m))
    pure (filesOfPFM c mods)
  | _ => failure

/-! ### `c10.handle` -/

def pOptTextTok : P (Option Text) := optText

def opHandle (toks : List String) : String :=
  let p : P (HWorld × HArgs) := do
    expect "Q"; let q ← nat
    expect "V"; let v ← nat
    expect "FULL"; let full ← nat
    expect "RZ"; let rz ← nat
    expect "CL"; let cl ← nat
    expect "JK"; let jk ← nat
    expect "MERGE"; let merge ← optText
    expect "JSON"; let json ← optText
    expect "CWD"; let cwd ← text
    expect "A"; let a ← counted text
    expect "B"; let b ← text
    expect "L"; let l ← counted text
    expect "D"; let d ← counted text
    let fs ← pArgFs
    expect "LOAD"; let load ← optText
    expect "P"; let projects ← counted pProject
    expect "X"; let existing ← counted text
    expect "MD"; let md ← counted (do let p ← text; let m ← text; pure (p, m))
    expect "C"; let cs ← counted pContent
    expect "E"; let enums ← counted (do let loc ← optText; let e ← pEnum; pure (loc, e))
    -- the wire format carries no table of external functions: `default` is the `Pipe.Ext` the C05 operations use when
    -- no table is sent.  ini / inc / po / properties never consult it (`PipeBridge.parseFile_ext_irrel`), `compare` on
    -- DTD is not carried by this world (`Pipe.plainFmt`); `add` of a `.dtd` reference counts the words of `raw_val`.
    let w : World := worldOf default cwd enums existing md cs
    let hw : HWorld := {
      fs := fs, cwd := cwd, junk := jk
      loadConfigs := fun _ _ _ _ =>
        match load with
        | some name => .error name
        | none => .ok (projects, w) }
    let h : HArgs := { quiet := q, validate := v != 0, merge := merge, configPaths := a, l10nBaseDir := b, locales := l,
                       defines := d, full := full != 0, returnZero := rz != 0, clobber := cl != 0, json := json }
    pure (hw, h)
  match p.run toks with
  | some ((hw, h), []) => showResult (handle hw h)
  | _ => "bad-args"

def ops : List (String × (List String → String)) :=
  [("c10.rel", opRel), ("c10.pos", opPos), ("c10.handle", opHandle)]
end Ops.C10P

import CLModel.Proto
import CLModel.Paths.Filter
import CLModel.Compare.MissingFilter
import CLModel.Paths.FilterM
namespace Ops.C14
open Proto Filt

/-- the finite universe of a case: locale codes and full paths (as texts) -/
structure Universe where
  locales : Array Text
  paths : Array Text

/-- a path matcher given extensionally: the cells `li * |paths| + pi` at which the real
    `Matcher(...).with_env({"locale": locales[li]}).match(paths[pi])` succeeded -/
def mkPathM (u : Universe) (cells : List Nat) : PathM :=
  ⟨fun loc fp =>
    match u.locales.findIdx? (· == loc), u.paths.findIdx? (· == fp) with
    | some i, some j => cells.contains (i * u.paths.size + j)
    | _, _ => false⟩

def takeN {α : Type} (f : List String → Option (α × List String)) : Nat → List String → Option (List α × List String)
  | 0, toks => some ([], toks)
  | n + 1, toks => do
    let (a, r1) ← f toks
    let (as, r2) ← takeN f n r1
    pure (a :: as, r2)

def parseCounted {α : Type} (f : List String → Option (α × List String)) : List String → Option (List α × List String)
  | n :: rest => do
    let n ← parseNat n
    takeN f n rest
  | [] => none

def parseTexts : List String → Option (List Text × List String) :=
  parseCounted (fun toks => match toks with
    | t :: rest => (parseText t).map (fun x => (x, rest))
    | [] => none)

def parseLocs (u : Universe) : List String → Option (Option (List Text) × List String)
  | "N" :: rest => some (none, rest)
  | t :: rest => do
    let idx ← parseText t
    let ls ← idx.mapM (fun i => u.locales[i]?)
    pure (some ls, rest)
  | [] => none

def parsePathM (u : Universe) : List String → Option (PathM × List String)
  | t :: rest => (parseText t).map (fun cells => (mkPathM u cells, rest))
  | [] => none

def parsePathEntry (u : Universe) (toks : List String) : Option (PathEntry × List String) := do
  let (m, r1) ← parsePathM u toks
  let (ls, r2) ← parseLocs u r1
  pure (⟨m, ls⟩, r2)

def parseRawKey : List String → Option (RawKey × List String)
  | t :: rest => do
    let txt ← parseText t
    let (re, r1) ← parseRe rest
    pure (⟨txt, re⟩, r1)
  | [] => none

def parseAction : String → Option Action
  | "e" => some .error | "w" => some .warning | "i" => some .ignore | _ => none

def parseRawRule (u : Universe) : List String → Option (RawRule × List String)
  | "R" :: act :: rest => do
    let act ← parseAction act
    let (path, r1) ← match rest with
      | "1" :: r => (parsePathM u r).map (fun (m, r') => (OneOrMany.one m, r'))
      | "L" :: r => (parseCounted (parsePathM u) r).map (fun (ms, r') => (OneOrMany.many ms, r'))
      | _ => none
    let (key, r2) ← match r1 with
      | "N" :: r => some (none, r)
      | "1" :: r => (parseRawKey r).map (fun (k, r') => (some (OneOrMany.one k), r'))
      | "L" :: r => (parseCounted parseRawKey r).map (fun (ks, r') => (some (OneOrMany.many ks), r'))
      | _ => none
    pure (⟨path, key, act⟩, r2)
  | _ => none

/-- CFG := C LOCS npaths PATHENT* nrules RAWRULE* nchildren CFG* nexcludes CFG* -/
partial def parseCfg (u : Universe) : List String → Option (Config × List String)
  | "C" :: rest => do
    let (locs, r1) ← parseLocs u rest
    let (paths, r2) ← parseCounted (parsePathEntry u) r1
    let (raws, r3) ← parseCounted (parseRawRule u) r2
    let (children, r4) ← parseCounted (parseCfg u) r3
    let (excludes, r5) ← parseCounted (parseCfg u) r4
    -- cfg.add_rules(*raws) on a fresh configuration
    pure (Config.mk locs paths (addRules [] raws) children excludes, r5)
  | _ => none

def parseUniverse (toks : List String) : Option (Universe × List String) := do
  let (ls, r1) ← parseTexts toks
  let (ps, r2) ← parseTexts r1
  pure (⟨ls.toArray, ps.toArray⟩, r2)

def showAction : Action → String
  | .error => "e" | .warning => "w" | .ignore => "i"

def parseQuery (u : Universe) : List String → Option ((File × Option Text) × List String)
  | li :: pi :: k :: rest => do
    let li ← parseNat li
    let pi ← parseNat pi
    let loc ← u.locales[li]?
    let fp ← u.paths[pi]?
    let key ← if k == "-" then pure none else (parseText k).map some
    pure ((⟨fp, loc⟩, key), rest)
  | _ => none

/-- c14.filter UNIVERSE CFG nq (li pi key|-)* -> one letter per query -/
def opFilter (toks : List String) : String :=
  match (do
    let (u, r1) ← parseUniverse toks
    let (cfg, r2) ← parseCfg u r1
    let (qs, r3) ← parseCounted (parseQuery u) r2
    if r3.isEmpty then pure (cfg, qs) else none) with
  | some (cfg, qs) => String.join (qs.map (fun (f, k) => showAction (filter cfg f k)))
  | none => "bad-args"

def showIdx (keys : List Text) (ks : List Text) : String :=
  ",".intercalate (ks.map (fun k => match keys.findIdx? (· == k) with | some i => toString i | none => "?"))

def parseObsCfg (u : Universe) : List String → Option (Option Config × List String)
  | "F" :: r => some (none, r)
  | t => (parseCfg u t).map (fun (c, r) => (some c, r))

/-- c14.compare UNIVERSE nobs (CFG|"F")* li pi nk key* : observers with a project filter (`F` = Observer(filter=None)) -/
def opCompare (toks : List String) : String :=
  match (do
    let (u, r1) ← parseUniverse toks
    let (cfgs, r2) ← parseCounted (parseObsCfg u) r1
    match r2 with
    | li :: pi :: r3 => do
      let li ← parseNat li
      let pi ← parseNat pi
      let loc ← u.locales[li]?
      let fp ← u.paths[pi]?
      let (keys, r4) ← parseTexts r3
      if r4.isEmpty then pure (cfgs, (⟨fp, loc⟩ : File), keys) else none
    | _ => none) with
  | some (cfgs, file, keys) =>
    let obs : List Obs := cfgs.map (fun c => c.map (fun cfg => fun key => filter cfg file (some key)))
    match compareMissing obs keys with
    | .ok out =>
      let sums := out.summaries.map (fun s => match s with | some (m, r) => s!"{m}:{r}" | none => "-")
      s!"ok m={out.acc.missing} r={out.acc.report} M={showIdx keys out.acc.missings} S={showIdx keys out.acc.shown} U={"|".intercalate sums}"
    | .error e => "raise " ++ e
  | none => "bad-args"


/-! ### the composed model: pattern TEXTS instead of match tables (`c14.filterm`) -/

def parseTextTok : List String → Option (Text × List String)
  | t :: rest => (parseText t).map (fun x => (x, rest))
  | [] => none

def parsePair (toks : List String) : Option ((Text × Text) × List String) := do
  let (k, r1) ← parseTextTok toks
  let (v, r2) ← parseTextTok r1
  pure ((k, v), r2)

def parseRootM : List String → Option (Option Text × List String)
  | "-" :: rest => some (none, rest)
  | t :: rest => (parseText t).map (fun x => (some x, rest))
  | [] => none

def parsePathEntryM (u : Universe) (toks : List String) : Option (FiltM.PathEntryM × List String) := do
  let (pat, r1) ← parseTextTok toks
  let (ls, r2) ← parseLocs u r1
  pure (⟨pat, ls⟩, r2)

def parseRawRuleM : List String → Option (FiltM.RawRuleM × List String)
  | "R" :: act :: rest => do
    let act ← parseAction act
    let (path, r1) ← match rest with
      | "1" :: r => (parseTextTok r).map (fun (m, r') => (OneOrMany.one m, r'))
      | "L" :: r => (parseCounted parseTextTok r).map (fun (ms, r') => (OneOrMany.many ms, r'))
      | _ => none
    let (key, r2) ← match r1 with
      | "N" :: r => some (none, r)
      | "1" :: r => (parseRawKey r).map (fun (k, r') => (some (OneOrMany.one k), r'))
      | "L" :: r => (parseCounted parseRawKey r).map (fun (ks, r') => (some (OneOrMany.many ks), r'))
      | _ => none
    pure (⟨path, key, act⟩, r2)
  | _ => none

/-- CFGM := C LOCS nenv (name value)* ROOT npaths (pattern LOCS)* nrules RAWRULEM* nchildren CFGM* nexcludes CFGM* -/
partial def parseCfgM (u : Universe) : List String → Option (FiltM.ConfigM × List String)
  | "C" :: rest => do
    let (locs, r1) ← parseLocs u rest
    let (env, r2) ← parseCounted parsePair r1
    let (root, r3) ← parseRootM r2
    let (paths, r4) ← parseCounted (parsePathEntryM u) r3
    let (raws, r5) ← parseCounted parseRawRuleM r4
    let (children, r6) ← parseCounted (parseCfgM u) r5
    let (excludes, r7) ← parseCounted (parseCfgM u) r6
    -- cfg.add_rules(*raws) on a fresh configuration
    pure (FiltM.ConfigM.mk locs env root paths (FiltM.addRulesM [] raws) children excludes, r7)
  | _ => none

def showPyErr : PM.PyErr → String
  | .keyError => "K" | .missingEnv => "M" | .reError => "R" | .recursion => "C" | .typeError => "T"
  | .indexError => "I" | .notStr => "?"

/-- c14.filterm UNIVERSE CFGM nq (li pi key|-)* -> one letter per query (a verdict, or the exception class);
    `B<letter>` when a `Matcher(...)` constructor raised while the configuration was built.
    The configuration is built once (`FiltM.filterM cfg f k = build cfg >>= (filterS · f k)`). -/
def opFilterM (toks : List String) : String :=
  match (do
    let (u, r1) ← parseUniverse toks
    let (cfg, r2) ← parseCfgM u r1
    let (qs, r3) ← parseCounted (parseQuery u) r2
    if r3.isEmpty then pure (cfg, qs) else none) with
  | some (cfg, qs) =>
    match FiltM.build cfg with
    | .error e => "B" ++ showPyErr e
    | .ok s => String.join (qs.map (fun (f, k) =>
        match FiltM.filterS s f k with
        | .ok a => showAction a
        | .error e => showPyErr e))
  | none => "bad-args"

def ops : List (String × (List String → String)) :=
  [("c14.filter", opFilter), ("c14.compare", opCompare), ("c14.filterm", opFilterM)]
end Ops.C14

import CLModel.Proto
import CLModel.Paths.Filter
import CLModel.Compare.MissingFilter
import CLModel.Paths.FilterM
import CLModel.Compare.FilterObserver
import CLModel.Paths.FilterPy
namespace Ops.C14
open Proto Filt

/-- the finite universe of a case: locale codes and full paths (as texts) -/
structure Universe where
  locales : Array Text
  paths : Array Text

/-- a path matcher given extensionally: the cells `li * |paths| + pi` at which the real
    `Matcher(...).with_env({"locale": locales[li]}).match(paths[pi])` succeeded -/
def mkPathM (u : Universe) (cells : List Nat) : PathM :=
  ⟨fun loc fp =>
    match u.locales.findIdx? (· == loc), u.paths.findIdx? (· == fp) with
    | some i, some j => cells.contains (i * u.paths.size + j)
    | _, _ => false⟩

def takeN {α : Type} (f : List String → Option (α × List String)) : Nat → List String → Option (List α × List String)
  | 0, toks => some ([], toks)
  | n + 1, toks => do
    let (a, r1) ← f toks
    let (as, r2) ← takeN f n r1
    pure (a :: as, r2)

def parseCounted {α : Type} (f : List String → Option (α × List String)) : List String → Option (List α × List String)
  | n :: rest => do
    let n ← parseNat n
    takeN f n rest
  | [] => none

def parseTexts : List String → Option (List Text × List String) :=
  parseCounted (fun toks => match toks with
    | t :: rest => (parseText t).map (fun x => (x, rest))
    | [] => none)

def parseLocs (u : Universe) : List String → Option (Option (List Text) × List String)
  | "N" :: rest => some (none, rest)
  | t :: rest => do
    let idx ← parseText t
    let ls ← idx.mapM (fun i => u.locales[i]?)
    pure (some ls, rest)
  | [] => none

def parsePathM (u : Universe) : List String → Option (PathM × List String)
  | t :: rest => (parseText t).map (fun cells => (mkPathM u cells, rest))
  | [] => none

def parsePathEntry (u : Universe) (toks : List String) : Option (PathEntry × List String) := do
  let (m, r1) ← parsePathM u toks
  let (ls, r2) ← parseLocs u r1
  pure (⟨m, ls⟩, r2)

def parseRawKey : List String → Option (RawKey × List String)
  | t :: rest => do
    let txt ← parseText t
    let (re, r1) ← parseRe rest
    pure (⟨txt, re⟩, r1)
  | [] => none

def parseAction : String → Option Action
  | "e" => some .error | "w" => some .warning | "i" => some .ignore | _ => none

def parseRawRule (u : Universe) : List String → Option (RawRule × List String)
  | "R" :: act :: rest => do
    let act ← parseAction act
    let (path, r1) ← match rest with
      | "1" :: r => (parsePathM u r).map (fun (m, r') => (OneOrMany.one m, r'))
      | "L" :: r => (parseCounted (parsePathM u) r).map (fun (ms, r') => (OneOrMany.many ms, r'))
      | _ => none
    let (key, r2) ← match r1 with
      | "N" :: r => some (none, r)
      | "1" :: r => (parseRawKey r).map (fun (k, r') => (some (OneOrMany.one k), r'))
      | "L" :: r => (parseCounted parseRawKey r).map (fun (ks, r') => (some (OneOrMany.many ks), r'))
      | _ => none
    pure (⟨path, key, act⟩, r2)
  | _ => none

/-- CFG := C LOCS npaths PATHENT* nrules RAWRULE* nchildren CFG* nexcludes CFG* -/
partial def parseCfg (u : Universe) : List String → Option (Config × List String)
  | "C" :: rest => do
    let (locs, r1) ← parseLocs u rest
    let (paths, r2) ← parseCounted (parsePathEntry u) r1
    let (raws, r3) ← parseCounted (parseRawRule u) r2
    let (children, r4) ← parseCounted (parseCfg u) r3
    let (excludes, r5) ← parseCounted (parseCfg u) r4
    -- cfg.add_rules(*raws) on a fresh configuration
    pure (Config.mk locs paths (addRules [] raws) children excludes, r5)
  | _ => none

def parseUniverse (toks : List String) : Option (Universe × List String) := do
  let (ls, r1) ← parseTexts toks
  let (ps, r2) ← parseTexts r1
  pure (⟨ls.toArray, ps.toArray⟩, r2)

def showAction : Action → String
  | .error => "e" | .warning => "w" | .ignore => "i"

def parseQuery (u : Universe) : List String → Option ((File × Option Text) × List String)
  | li :: pi :: k :: rest => do
    let li ← parseNat li
    let pi ← parseNat pi
    let loc ← u.locales[li]?
    let fp ← u.paths[pi]?
    let key ← if k == "-" then pure none else (parseText k).map some
    pure ((⟨fp, loc⟩, key), rest)
  | _ => none

/-- c14.filter UNIVERSE CFG nq (li pi key|-)* -> one letter per query -/
def opFilter (toks : List String) : String :=
  match (do
    let (u, r1) ← parseUniverse toks
    let (cfg, r2) ← parseCfg u r1
    let (qs, r3) ← parseCounted (parseQuery u) r2
    if r3.isEmpty then pure (cfg, qs) else none) with
  | some (cfg, qs) => String.join (qs.map (fun (f, k) => showAction (filter cfg f k)))
  | none => "bad-args"

def showIdx (keys : List Text) (ks : List Text) : String :=
  ",".intercalate (ks.map (fun k => match keys.findIdx? (· == k) with | some i => toString i | none => "?"))

def parseObsCfg (u : Universe) : List String → Option (Option Config × List String)
  | "F" :: r => some (none, r)
  | t => (parseCfg u t).map (fun (c, r) => (some c, r))

/-- c14.compare UNIVERSE nobs (CFG|"F")* li pi nk key* : observers with a project filter (`F` = Observer(filter=None)) -/
def opCompare (toks : List String) : String :=
  match (do
    let (u, r1) ← parseUniverse toks
    let (cfgs, r2) ← parseCounted (parseObsCfg u) r1
    match r2 with
    | li :: pi :: r3 => do
      let li ← parseNat li
      let pi ← parseNat pi
      let loc ← u.locales[li]?
      let fp ← u.paths[pi]?
      let (keys, r4) ← parseTexts r3
      if r4.isEmpty then pure (cfgs, (⟨fp, loc⟩ : File), keys) else none
    | _ => none) with
  | some (cfgs, file, keys) =>
    let obs : List Obs := cfgs.map (fun c => c.map (fun cfg => fun key => filter cfg file (some key)))
    match compareMissing obs keys with
    | .ok out =>
      let sums := out.summaries.map (fun s => match s with | some (m, r) => s!"{m}:{r}" | none => "-")
      s!"ok m={out.acc.missing} r={out.acc.report} M={showIdx keys out.acc.missings} S={showIdx keys out.acc.shown} U={"|".intercalate sums}"
    | .error e => "raise " ++ e
  | none => "bad-args"


/-! ### the composed model: pattern TEXTS instead of match tables (`c14.filterm`) -/

def parseTextTok : List String → Option (Text × List String)
  | t :: rest => (parseText t).map (fun x => (x, rest))
  | [] => none

def parsePair (toks : List String) : Option ((Text × Text) × List String) := do
  let (k, r1) ← parseTextTok toks
  let (v, r2) ← parseTextTok r1
  pure ((k, v), r2)

def parseRootM : List String → Option (Option Text × List String)
  | "-" :: rest => some (none, rest)
  | t :: rest => (parseText t).map (fun x => (some x, rest))
  | [] => none

def parsePathEntryM (u : Universe) (toks : List String) : Option (FiltM.PathEntryM × List String) := do
  let (pat, r1) ← parseTextTok toks
  let (ls, r2) ← parseLocs u r1
  pure (⟨pat, ls⟩, r2)

def parseRawRuleM : List String → Option (FiltM.RawRuleM × List String)
  | "R" :: act :: rest => do
    let act ← parseAction act
    let (path, r1) ← match rest with
      | "1" :: r => (parseTextTok r).map (fun (m, r') => (OneOrMany.one m, r'))
      | "L" :: r => (parseCounted parseTextTok r).map (fun (ms, r') => (OneOrMany.many ms, r'))
      | _ => none
    let (key, r2) ← match r1 with
      | "N" :: r => some (none, r)
      | "1" :: r => (parseRawKey r).map (fun (k, r') => (some (OneOrMany.one k), r'))
      | "L" :: r => (parseCounted parseRawKey r).map (fun (ks, r') => (some (OneOrMany.many ks), r'))
      | _ => none
    pure (⟨path, key, act⟩, r2)
  | _ => none

/-- CFGM := C LOCS nenv (name value)* ROOT npaths (pattern LOCS)* nrules RAWRULEM* nchildren CFGM* nexcludes CFGM* -/
partial def parseCfgM (u : Universe) (toml : Bool := false) : List String → Option (FiltM.ConfigM × List String)
  | "C" :: rest => do
    let (locs, r1) ← parseLocs u rest
    let (env, r2) ← parseCounted parsePair r1
    let (root, r3) ← parseRootM r2
    let (paths, r4) ← parseCounted (parsePathEntryM u) r3
    let (raws, r5) ← parseCounted parseRawRuleM r4
    let (children, r6) ← parseCounted (parseCfgM u toml) r5
    let (excludes, r7) ← parseCounted (parseCfgM u toml) r6
    -- cfg.add_rules(*raws) on a fresh configuration; for a TOML file: TOMLParser.processFilters on its [[filters]]
    let rules := if toml then FiltM.processFiltersM raws else FiltM.addRulesM [] raws
    pure (FiltM.ConfigM.mk locs env root paths rules children excludes, r7)
  | _ => none

def showPyErr : PM.PyErr → String
  | .keyError => "K" | .missingEnv => "M" | .reError => "R" | .recursion => "C" | .typeError => "T"
  | .indexError => "I" | .notStr => "?"

/-- c14.filterm UNIVERSE CFGM nq (li pi key|-)* -> one letter per query (a verdict, or the exception class);
    `B<letter>` when a `Matcher(...)` constructor raised while the configuration was built.
    The configuration is built once (`FiltM.filterM cfg f k = build cfg >>= (filterS · f k)`). -/
def opFilterM (toml : Bool) (toks : List String) : String :=
  match (do
    let (u, r1) ← parseUniverse toks
    let (cfg, r2) ← parseCfgM u toml r1
    let (qs, r3) ← parseCounted (parseQuery u) r2
    if r3.isEmpty then pure (cfg, qs) else none) with
  | some (cfg, qs) =>
    match FiltM.build cfg with
    | .error e => "B" ++ showPyErr e
    | .ok s => String.join (qs.map (fun (f, k) =>
        match FiltM.filterS s f k with
        | .ok a => showAction a
        | .error e => showPyErr e))
  | none => "bad-args"

/-! ### filter ∘ Observer ∘ ContentComparer at a quiet level (`c14.compareq`) -/
section CompareQ
open ObsM FiltObs

def showTxtQ (t : Text) : String := "t" ++ ".".intercalate (t.map toString)

def showRetQ : Ret → String
  | .error => "e" | .warning => "w" | .ignore => "i"

def showCatQ : Cat → String
  | .error => "e" | .warning => "w" | .missingEntity => "me" | .obsoleteEntity => "oe"
  | .missingFile => "mf" | .obsoleteFile => "of" | .other => "x"

def showDetailQ (d : Detail) : String :=
  showCatQ d.1 ++ ":" ++ (match d.2 with
    | .ret r => "r" ++ showRetQ r
    | .data .none => "d-"
    | .data (.str t) => "d" ++ showTxtQ t
    | .data (.tuple _) => "dT")

/-- summary entry of the locale (the 11 counters in `Observer.__init__` order) and the error flag -/
def showObsQ (o : ObsM.Obs) (loc : Option Text) : String :=
  let sum := match o.summary.find? (·.1 == loc) with
    | some p => ":".intercalate (StatKey.all.map (fun k => toString (p.2 k)))
    | none => "-"
  let dets := (TreeM.flatten o.details).flatMap (·.2)
  sum ++ (if o.error then "!E" else "") ++ "[" ++ ",".intercalate (dets.map showDetailQ) ++ "]"

def parseKeyEv : List String → Option (KeyEv × List String)
  | "m" :: k :: w :: rest => do
    let k ← parseText k
    let w ← parseNat w
    pure (.missing k w, rest)
  | "o" :: k :: rest => (parseText k).map (fun k => (.obsolete k, rest))
  | "j" :: m :: rest => (parseText m).map (fun m => (.refJunk m, rest))
  | "J" :: m :: rest => (parseText m).map (fun m => (.l10nJunk m, rest))
  | "n" :: c :: m :: rest => do
    let c ← match c with | "e" => some Cat.error | "w" => some Cat.warning | _ => none
    let m ← parseText m
    pure (.note c m, rest)
  | _ => none

/-- c14.compareq UNIVERSE quiet nobs (CFG|"F")* li pi FILE nev EV* changed changed_w unchanged unchanged_w keys
    `ContentComparer(quiet)` with `Observer(quiet, filter=cfg.filter)` per CFG (`F`: `Observer(quiet)`), the key
    loop over the events and `updateStats`.  Result: counters, merged keys (indices into the missing events),
    the verdicts returned by `notify`, then summary/error flag/details of the list and of every observer. -/
def opCompareQ (toks : List String) : String :=
  match (do
    let (u, r1) ← parseUniverse toks
    match r1 with
    | q :: r1' => do
      let q ← parseNat q
      let (cfgs, r2) ← parseCounted (parseObsCfg u) r1'
      match r2 with
      | li :: pi :: fl :: r3 => do
        let li ← parseNat li
        let pi ← parseNat pi
        let loc ← u.locales[li]?
        let fp ← u.paths[pi]?
        let fl ← parseText fl
        let (evs, r4) ← parseCounted parseKeyEv r3
        match r4 with
        | [a, b, c, d, e] => do
          let a ← parseNat a; let b ← parseNat b; let c ← parseNat c; let d ← parseNat d; let e ← parseNat e
          pure (q, cfgs, loc, fp, fl, evs, (⟨a, b, c, d, e⟩ : BothCounts))
        | _ => none
      | _ => none
    | [] => none) with
  | some (q, cfgs, loc, fp, fl, evs, b) =>
    let file : ObsM.File := ⟨fl, none, some loc⟩
    let flts : List (Option Filter) := cfgs.map (fun c => c.map (fun cfg => projectFilter cfg (fun _ => fp)))
    match compareQ (fresh q flts) file evs b with
    | .ok (l, acc) =>
      let mkeys := evs.filterMap (fun e => match e with | .missing k _ => some k | _ => none)
      s!"ok m={acc.missing} mw={acc.missingW} r={acc.report} o={acc.obsolete} M={showIdx mkeys acc.missings} " ++
      s!"V={String.join (acc.rvs.map showRetQ)} own={showObsQ l.own (some loc)} " ++
      s!"obs={"|".intercalate (l.observers.map (fun o => showObsQ o (some loc)))}"
    | .error e => "raise " ++ e.name
  | none => "bad-args"

/-- c14.filesq UNIVERSE quiet nobs (CFG|"F")* li pi FILE n w
    `ContentComparer(quiet).add(ref, missing_file, …)` and, on fresh observers, `.remove(ref, file, …)`:
    the verdicts `notify` returned and summary / error flag / details of the list and of every observer -/
def opFilesQ (toks : List String) : String :=
  match (do
    let (u, r1) ← parseUniverse toks
    match r1 with
    | q :: r1' => do
      let q ← parseNat q
      let (cfgs, r2) ← parseCounted (parseObsCfg u) r1'
      match r2 with
      | [li, pi, fl, n, w] => do
        let li ← parseNat li
        let pi ← parseNat pi
        let loc ← u.locales[li]?
        let fp ← u.paths[pi]?
        let fl ← parseText fl
        let n ← parseNat n
        let w ← parseNat w
        pure (q, cfgs, loc, fp, fl, n, w)
      | _ => none
    | [] => none) with
  | some (q, cfgs, loc, fp, fl, n, w) =>
    let file : ObsM.File := ⟨fl, none, some loc⟩
    let flts : List (Option Filter) := cfgs.map (fun c => c.map (fun cfg => projectFilter cfg (fun _ => fp)))
    let show1 (r : Except TreeM.PyErr (ObsList × Ret)) : String := match r with
      | .ok (l, rv) => s!"{showRetQ rv} own={showObsQ l.own (some loc)} obs={"|".intercalate (l.observers.map (fun o => showObsQ o (some loc)))}"
      | .error e => "raise " ++ e.name
    "add " ++ show1 (addFileQ (fresh q flts) file n w) ++ " remove " ++ show1 (removeFileQ (fresh q flts) file)
  | none => "bad-args"

end CompareQ

/-- c14.keytext KEY RE : `KEY` a rule key as written, `RE` the translation of `rule["key"].pattern` of the rule the
    real `_compile_rule` yields for it.  Result: the pattern text the model says is compiled, the branch taken, and
    for the literal branch whether `RE` is `escapedDollar KEY`; then the answers of the compiled key for the probe
    entities that follow (`n e1 … en`), computed from `compileKey` with `RE` as the compiled expression. -/
def opKeyText (toks : List String) : String :=
  match (do
    let (k, r1) ← parseRawKey toks
    let (ents, r2) ← parseTexts r1
    if r2.isEmpty then pure (k, ents) else none) with
  | some (k, ents) =>
    let isRe := Gen.Tables.ruleKeyRePrefix.isPrefixOf k.text
    let shape := if isRe then "re" else (if litDollarText k.compiled == some k.text then "lit=1" else "lit=0")
    let pred := compileKey k
    showText (compiledKeyText k.text) ++ " " ++ shape ++ " " ++
      String.join (ents.map (fun e => if pred.matches e then "1" else "0"))
  | none => "bad-args"

/-! ### legacy filter.py, the guards of the object graph, set_locales(deep) (`c14.filterp`) -/
section FilterPyOp
open FiltP

/-- one clause of a generated `filter.py` test function: conditions on module / path / entity, and the outcome -/
structure PyClause where
  module : Option (Option Text)      -- none = any; some none = `module is None`; some (some m) = `module == m`
  pathSub : Text                     -- `sub in path` (the empty text is in every path)
  entity : Option (Option (Option Text))   -- none = any; some none = `entity is not None`; some (some e) = `entity == e` (e none: `is None`)
  out : PyOut

def isInfix (sub t : Text) : Bool := (List.range (t.length + 1)).any (fun i => sub.isPrefixOf (t.drop i))

def PyClause.holds (c : PyClause) (m : Option Text) (p : Text) (e : Option Text) : Bool :=
  (match c.module with | none => true | some m' => m == m') && isInfix c.pathSub p &&
  (match c.entity with | none => true | some none => e.isSome | some (some e') => e == e')

/-- the generated function: the first clause that holds decides, else the default -/
def tablePy (dflt : PyOut) (cs : List PyClause) : PyFilter := fun m p e =>
  match cs.find? (fun c => c.holds m p e) with
  | some c => c.out
  | none => dflt

def parsePyOut : List String → Option (PyOut × List String)
  | "R" :: r => some (.raised, r) | "T" :: r => some (.bool true, r) | "F" :: r => some (.bool false, r)
  | "N" :: r => some (.none, r) | "U" :: r => some (.unhashable, r) | "O" :: r => some (.other, r)
  | "s" :: t :: r => (parseText t).map (fun t => (.str t, r))
  | _ => none

def parsePyClause : List String → Option (PyClause × List String)
  | m :: p :: e :: rest => do
    let m ← if m == "*" then pure none else if m == "-" then pure (some none) else (parseText m).map (fun x => some (some x))
    let p ← parseText p
    let e ← if e == "*" then pure none else if e == "+" then pure (some none) else if e == "-" then pure (some (some none))
            else (parseText e).map (fun x => some (some (some x)))
    let (o, r) ← parsePyOut rest
    pure (⟨m, p, e, o⟩, r)
  | _ => none

/-- a configuration as the harness builds it, step by step -/
inductive SpecP where
  | mk (locales : Option (List Text)) (paths : List PathEntry) (order : List Char) (raws : List RawRule)
       (py : Option PyFilter) (children : List SpecP) (excludes : List SpecP)

partial def parseSpecP (u : Universe) : List String → Option (SpecP × List String)
  | "P" :: rest => do
    let (locs, r1) ← parseLocs u rest
    let (paths, r2) ← parseCounted (parsePathEntry u) r1
    match r2 with
    | order :: r3 => do
      let (raws, r4) ← parseCounted (parseRawRule u) r3
      let (py, r5) ← match r4 with
        | "-" :: r => some (none, r)
        | "Y" :: r => do
          let (d, r') ← parsePyOut r
          let (cs, r'') ← parseCounted parsePyClause r'
          pure (some (tablePy d cs), r'')
        | _ => none
      let (children, r6) ← parseCounted (parseSpecP u) r5
      let (excludes, r7) ← parseCounted (parseSpecP u) r6
      pure (SpecP.mk locs paths (order.toList.filter (· != '.')) raws py children excludes, r7)
    | [] => none
  | _ => none

/-- the construction sequence of the harness (`impl/project.py build_p`): `set_locales`, `add_paths`, then
    `add_rules(*rules)` / `set_filter_py(f)` in the given order, `add_child(build(c))` for the included and
    `exclude(build(e))` for the excluded configurations -/
partial def buildP : SpecP → Except PyErr ConfigP
  | .mk locales paths order raws py children excludes => do
    let c := addPathsP (setLocalesShallow ConfigP.empty locales) paths
    let c ← order.foldlM (fun c step =>
      if step == 'r' then addRulesP c raws
      else match py with
        | some f => setFilterPy c f
        | none => pure c) c
    let c ← children.foldlM (fun c ch => do addChild c (← buildP ch)) c
    excludes.foldlM (fun c ex => do excludeP c (← buildP ex)) c

def showPyErrP : PyErr → String
  | .assertion => "A" | .typeError => "T" | .excludeError => "E" | .unmodelled => "?"

def parsePost (u : Universe) : List String → Option ((Bool × Option (List Text)) × List String)
  | "D" :: r => (parseLocs u r).map (fun (l, r') => ((true, l), r'))
  | "S" :: r => (parseLocs u r).map (fun (l, r') => ((false, l), r'))
  | _ => none

def parseQueryP (u : Universe) : List String → Option ((FileP × Option Text) × List String)
  | li :: pi :: m :: fl :: k :: rest => do
    let li ← parseNat li
    let pi ← parseNat pi
    let loc ← u.locales[li]?
    let fp ← u.paths[pi]?
    let m ← if m == "-" then pure none else (parseText m).map some
    let fl ← parseText fl
    let key ← if k == "-" then pure none else (parseText k).map some
    pure ((⟨fp, loc, m, fl⟩, key), rest)
  | _ => none

/-- c14.filterp UNIVERSE SPECP npost (D|S LOCS)* nq (li pi module|- file key|-)*  -> one letter per query:
    e / w / i, `N` for `None`, `A` AssertionError, `T` TypeError; `B<letter>` when building the objects raised -/
def opFilterP (toks : List String) : String :=
  match (do
    let (u, r1) ← parseUniverse toks
    let (spec, r2) ← parseSpecP u r1
    let (posts, r3) ← parseCounted (parsePost u) r2
    let (qs, r4) ← parseCounted (parseQueryP u) r3
    if r4.isEmpty then pure (spec, posts, qs) else none) with
  | some (spec, posts, qs) =>
    match buildP spec with
    | .error e => "B" ++ showPyErrP e
    | .ok cfg =>
      let cfg := posts.foldl (fun c (deep, ls) => if deep then setLocalesDeep c ls else setLocalesShallow c ls) cfg
      String.join (qs.map (fun (f, k) =>
        match filterP cfg f k with
        | .ok (some a) => showAction a
        | .ok none => "N"
        | .error e => showPyErrP e))
  | none => "bad-args"

end FilterPyOp

def ops : List (String × (List String → String)) :=
  [("c14.filter", opFilter), ("c14.compare", opCompare), ("c14.filterm", opFilterM false), ("c14.compareq", opCompareQ), ("c14.filesq", opFilesQ),
   -- the same composed model, the rules being what `TOMLParser.processFilters` makes of the `[[filters]]` tables
   ("c14.filtert", opFilterM true), ("c14.keytext", opKeyText), ("c14.filterp", opFilterP)]
end Ops.C14

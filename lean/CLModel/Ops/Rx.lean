import CLModel.Proto
import CLModel.Gen.Regexes
namespace Ops.Rx
open Proto

def lookupRe (toks : List String) : Option (Rx.Re × List String) :=
  match toks with
  | tok :: rest =>
    if tok.startsWith "@" then
      match Gen.Pat.table.find? (fun p => "@" ++ p.1 == tok) with
      | some (_, r) => some (r, rest)
      | none => none
    else parseRe toks
  | [] => none

def showMatch (ng : Nat) (start : Nat) (st : Rx.St) : String :=
  let gs := (List.range ng).map (fun i => showOptSpan (st.group (i + 1)))
  " ".intercalate (s!"{start} {st.pos}" :: gs)

/-- rx.match <re> ; ng pos endpos|- text -/
def opMatch (toks : List String) : String :=
  match lookupRe toks with
  | some (r, [ng, pos, endpos, txt]) =>
    match parseNat ng, parseNat pos, parseText txt with
    | some ng, some pos, some t =>
      let t := match parseNat endpos with | some e => t.take e | none => t
      let s := t.toArray
      if pos > s.size then "none" else
      match Rx.matchAt s r pos with
      | some st => showMatch ng pos st
      | none => "none"
    | _, _, _ => "bad-args"
  | _ => "bad-re"

def opSearch (toks : List String) : String :=
  match lookupRe toks with
  | some (r, [ng, pos, endpos, txt]) =>
    match parseNat ng, parseNat pos, parseText txt with
    | some ng, some pos, some t =>
      let t := match parseNat endpos with | some e => t.take e | none => t
      let s := t.toArray
      match Rx.search s r pos with
      | some (q, st) => showMatch ng q st
      | none => "none"
    | _, _, _ => "bad-args"
  | _ => "bad-re"

def opFinditer (toks : List String) : String :=
  match lookupRe toks with
  | some (r, [ng, txt]) =>
    match parseNat ng, parseText txt with
    | some ng, some t =>
      let s := t.toArray
      " ; ".intercalate ((Rx.finditer s r).map (fun (q, st) => showMatch ng q st))
    | _, _ => "bad-args"
  | _ => "bad-re"

def ops : List (String × (List String → String)) :=
  [("rx.match", opMatch), ("rx.search", opSearch), ("rx.finditer", opFinditer)]

end Ops.Rx

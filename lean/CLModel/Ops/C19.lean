import CLModel.Proto
import CLModel.Lint.Linter
import CLModel.Lint.Run
import CLModel.Lint.Util
import CLModel.Lint.Cli
import CLModel.Lint.Keyed
namespace Ops.C19
open Proto Lint

/-! token-stream parsers: each consumes a prefix of the token list -/

def pCheck : List String → Option (Check × List String)
  | lv :: "P" :: off :: msg :: rest => do
    pure ({ level := ← parseText lv, pos := .entity (← parseInt off), msg := ← parseText msg }, rest)
  | lv :: "V" :: off :: msg :: rest => do
    pure ({ level := ← parseText lv, pos := .value (← parseInt off), msg := ← parseText msg }, rest)
  | lv :: "T" :: l :: c :: msg :: rest => do
    pure ({ level := ← parseText lv, pos := .lineCol (← parseInt l) (← parseInt c), msg := ← parseText msg }, rest)
  | _ => none

def pMany {α : Type} (p : List String → Option (α × List String)) : Nat → List String → Option (List α × List String)
  | 0, toks => some ([], toks)
  | n + 1, toks => do
    let (a, r1) ← p toks
    let (as, r2) ← pMany p n r1
    pure (a :: as, r2)

def pKind : String → Option Kind
  | "E" => some .entity | "J" => some .junk | _ => none

def pMode : String → Option Mode
  | "c" => some .ctx | "d" => some .dtd | "f" => some .fluent | "n" => some .node | _ => none

def pVs : List String → Option (Option (Int × Int) × List String)
  | "X" :: rest => some (none, rest)
  | "V" :: a :: b :: rest => do pure (some (← parseInt a, ← parseInt b), rest)
  | _ => none

/-- `<E|J> <key> <eq> <mode> <s> <e> (X | V a b) <lit> <n> check*n` -/
def pEnt : List String → Option (Ent × List String)
  | k :: key :: eq :: md :: s :: e :: rest => do
    let (vs, r1) ← pVs rest
    match r1 with
    | lit :: n :: r2 =>
      let (cs, r3) ← pMany pCheck (← parseNat n) r2
      pure ({ kind := ← pKind k, key := ← parseText key, eq := ← parseNat eq, mode := ← pMode md,
              s := ← parseNat s, e := ← parseNat e, vs := vs, lit := ← parseText lit, checks := cs }, r3)
    | _ => none
  | _ => none

def pRefEnt : List String → Option (RefEnt × List String)
  | key :: eq :: rest => do pure ({ key := ← parseText key, eq := ← parseNat eq }, rest)
  | _ => none

def pRef : List String → Option (Option (List RefEnt) × List String)
  | "N" :: rest => some (none, rest)
  | "R" :: n :: rest => do
    let (rs, r) ← pMany pRefEnt (← parseNat n) rest
    pure (some rs, r)
  | _ => none

/-- `<path> <contents> (N | R n ref*n) <m> ent*m` -/
def pFile : List String → Option (FileIn × List String)
  | path :: contents :: rest => do
    let (ref, r1) ← pRef rest
    match r1 with
    | m :: r2 =>
      let (cur, r3) ← pMany pEnt (← parseNat m) r2
      pure ({ path := ← parseText path, contents := (← parseText contents).toArray, cur := cur, ref := ref }, r3)
    | _ => none
  | _ => none

def showResult (p : Text × Result) : String :=
  s!"{p.2.lineno} {p.2.column} {showText p.2.level} {showText p.2.message} {showText p.1}"

/-- lint <n> file*n  ->  `ok | result | …` or `raise <exception>` -/
def opLint (toks : List String) : String :=
  match toks with
  | n :: rest =>
    match (do let (fs, r) ← pMany pFile (← parseNat n) rest; if r.isEmpty then pure fs else none) with
    | some fs =>
      match lint fs with
      | .ok rs => " | ".intercalate ("ok" :: rs.map showResult)
      | .error x => "raise " ++ x
    | none => "bad-args"
  | _ => "bad-args"

/-- getparser <path> -> class name of the parser or `none` -/
def opGetParser (toks : List String) : String :=
  match toks with
  | [p] =>
    match parseText p with
    | some p => match getParserName p with | some n => showText n | none => "none"
    | none => "bad-args"
  | _ => "bad-args"

/-- linecol <contents> <pos> -/
def opLinecol (toks : List String) : String :=
  match toks with
  | [t, p] =>
    match parseText t, parseInt p with
    | some t, some p => let r := linecol (lineEnds t) p; s!"{r.1} {r.2}"
    | _, _ => "bad-args"
  | _ => "bad-args"

/-! ## round 4: the run with its state, getChecker, lint/util.py, lint/cli.py main, KeyedTuple fall-backs -/

/-- run <n> file*n  ->  `ok | result | … ;; asked <path>*` or `raise <exception>` -/
def opRun (toks : List String) : String :=
  match toks with
  | n :: rest =>
    match (do let (fs, r) ← pMany pFile (← parseNat n) rest; if r.isEmpty then pure fs else none) with
    | some fs =>
      match lintRun fs with
      | .ok st => " | ".intercalate ("ok" :: st.results.map showResult) ++ " ;; asked" ++
                  String.join (st.asked.map (fun p => " " ++ showText p))
      | .error x => "raise " ++ x
    | none => "bad-args"
  | _ => "bad-args"

/-- getchecker <path> -> `<class name> <needs_reference>` -/
def opGetChecker (toks : List String) : String :=
  match toks with
  | [p] =>
    match parseText p with
    | some p =>
      let c := getCheckerCls p
      match c.name, c.needsReference with
      | some n, some b => showText n ++ (if b then " 1" else " 0")
      | _, _ => "no-table"
    | none => "bad-args"
  | _ => "bad-args"

/-! ### wire format of the real Matcher / ProjectFiles objects -/

def pBool : String → Option Bool
  | "1" => some true | "0" => some false | _ => none

def pOptText : String → Option (Option Text)
  | "-" => some none
  | t => (parseText t).map some

/-- `L <text>` | `V <rep> <name>` | `A <rep>` | `S <n>` | `D <n> <suffix>` -/
def pNode : List String → Option (PM.Node × List String)
  | "L" :: t :: rest => do pure (.lit (← parseText t), rest)
  | "V" :: r :: n :: rest => do pure (.var (← parseText n) (← pBool r), rest)
  | "A" :: r :: rest => do pure (.android (← pBool r), rest)
  | "S" :: n :: rest => do pure (.star (← parseNat n), rest)
  | "D" :: n :: s :: rest => do pure (.starstar (← parseNat n) (← parseText s), rest)
  | _ => none

/-- `<root|-> <prefix_length> <n> node*n` -/
def pPattern : List String → Option (PM.Pattern × List String)
  | root :: pl :: n :: rest => do
    let (nodes, r) ← pMany pNode (← parseNat n) rest
    pure ({ nodes := nodes, root := ← pOptText root, prefixLen := ← parseNat pl }, r)
  | _ => none

def pEnvEntry : List String → Option ((Text × PM.Val) × List String)
  | k :: rest => do
    let (p, r) ← pPattern rest
    pure ((← parseText k, .pat p), r)
  | _ => none

/-- `M <pattern> <n> (name pattern)*n` -/
def pMatcher : List String → Option (PM.Matcher × List String)
  | "M" :: rest => do
    let (p, r1) ← pPattern rest
    match r1 with
    | n :: r2 =>
      let (env, r3) ← pMany pEnvEntry (← parseNat n) r2
      pure ({ pattern := p, env := env }, r3)
    | _ => none
  | _ => none

def pOptMatcher : List String → Option (Option PM.Matcher × List String)
  | "-" :: rest => some (none, rest)
  | toks => do let (m, r) ← pMatcher toks; pure (some m, r)

def pTextTok : List String → Option (Text × List String)
  | t :: rest => do pure (← parseText t, rest)
  | _ => none

/-- `-` | `<n> text*n` -/
def pTests : List String → Option (Option LintUtil.Tests × List String)
  | "-" :: rest => some (none, rest)
  | n :: rest => do let (ts, r) ← pMany pTextTok (← parseNat n) rest; pure (some ts, r)
  | _ => none

/-- `<l10n matcher> <reference|-> <merge|-> <tests>` -/
def pRule (toks : List String) : Option (LintUtil.Rule × List String) := do
  let (l, r1) ← pMatcher toks
  let (rf, r2) ← pOptMatcher r1
  let (mg, r3) ← pOptMatcher r2
  let (ts, r4) ← pTests r3
  pure ({ l10n := l, reference := rf, merge := mg, test := ts }, r4)

/-- `F <locale|-> <n> rule*n (X | F …)`; the first argument bounds the nesting of `exclude` -/
def pFiles : Nat → List String → Option (LintUtil.Files × List String)
  | 0, _ => none
  | d + 1, "F" :: loc :: n :: rest => do
    let (rules, r1) ← pMany pRule (← parseNat n) rest
    match r1 with
    | "X" :: r2 => pure (.mk (← pOptText loc) rules none, r2)
    | r2 => do
      let (ex, r3) ← pFiles d r2
      pure (.mk (← pOptText loc) rules (some ex), r3)
  | _, _ => none

def showOptT : Option Text → String
  | some t => showText t
  | none => "None"

def showTests : Option LintUtil.Tests → String
  | none => "None"
  | some ts => "{" ++ ",".intercalate (ts.map showText) ++ "}"

def showRefTests (rt : LintUtil.RefTests) : String := showOptT rt.1 ++ " " ++ showTests rt.2

def pUtilMode : String → Option LintUtil.Mode
  | "default" => some .default | "l10n_base" => some .l10nBase | "mirror" => some .mirror | _ => none

/-- refs <mode> <root> <files> <n> path*n  ->  `<ref|None> <tests|None>` per path, joined by ` | ` -/
def opRefs (toks : List String) : String :=
  match toks with
  | mode :: root :: rest =>
    match (do
      let (files, r1) ← pFiles 4 rest
      match r1 with
      | n :: r2 =>
        let (ps, r3) ← pMany pTextTok (← parseNat n) r2
        if r3.isEmpty then pure (← pUtilMode mode, ← parseText root, files, ps) else none
      | _ => none) with
    | some (mode, root, files, ps) =>
      " | ".intercalate (ps.map (fun p =>
        match LintUtil.getRefTests mode files root p with
        | .ok rt => showRefTests rt
        | .error e => "raise " ++ LintCli.showPyErr e))
    | none => "bad-args"
  | _ => "bad-args"

def pFsEntry : List String → Option ((Text × List RefEnt) × List String)
  | p :: n :: rest => do
    let (rs, r) ← pMany pRefEnt (← parseNat n) rest
    pure ((← parseText p, rs), r)
  | _ => none

def pRelEntry : List String → Option ((Text × Text) × List String)
  | a :: b :: rest => do pure ((← parseText a, ← parseText b), rest)
  | _ => none

/-- main <W> <l10n_reference|-> <ref_project|-> <split locale> <isdir> <ref root> <files> <nfs> (path n ref*n)*
         <nlinted> file* <nrel> (path rel)*
    -> `usage` | `raise <exc>` | `done <rv> ;; <path> <ref> <tests> | … ;; <result> | … ;; <printed line> | …` -/
def opMain (toks : List String) : String :=
  match toks with
  | w :: lr :: rp :: sl :: isd :: root :: rest =>
    match (do
      let (files, r1) ← pFiles 4 rest
      match r1 with
      | nfs :: r2 =>
        let (fs, r3) ← pMany pFsEntry (← parseNat nfs) r2
        match r3 with
        | nl :: r4 =>
          let (ls, r5) ← pMany pFile (← parseNat nl) r4
          match r5 with
          | nr :: r6 =>
            let (rel, r7) ← pMany pRelEntry (← parseNat nr) r6
            if !r7.isEmpty then none else
            let inp : LintCli.MainIn :=
              { w := ← pBool w, l10nReference := ← pOptText lr, refProject := ← pOptText rp, splitLocale := ← parseText sl,
                isdir := ← pBool isd, files := files, refRoot := ← parseText root, fs := fs,
                linted := ls.map (fun (f : FileIn) => ({ path := f.path, contents := f.contents, cur := f.cur } : LintCli.Linted)) }
            pure (inp, rel)
          | _ => none
        | _ => none
      | _ => none) with
    | some (inp, rel) =>
      match LintCli.main inp with
      | .usage => "usage"
      | .raised x => "raise " ++ x
      | .done rv tr results =>
        let relOf : Text → Text := fun p => match rel.lookup p with | some r => r | none => p
        s!"done {rv} ;; " ++ " | ".intercalate (tr.map (fun (x : Text × LintUtil.RefTests) => showText x.1 ++ " " ++ showRefTests x.2)) ++ " ;; " ++
          " | ".intercalate (results.map showResult) ++ " ;; " ++
          showText (LintCli.stdoutText relOf results)
    | none => "bad-args"
  | _ => "bad-args"

def pOptInt : String → Option (Option Int)
  | "-" => some none
  | t => (parseInt t).map some

/-- `<level> <lineno|-> <column|-> <message> <relative path>` -/
def pRaw : List String → Option ((Text × LintCli.RawResult) × List String)
  | lv :: ln :: col :: msg :: rel :: rest => do
    pure ((← parseText rel, { level := ← parseText lv, lineno := ← pOptInt ln, column := ← pOptInt col, message := ← parseText msg }), rest)
  | _ => none

/-- cliout <W> <n> raw*n  ->  `<return value of main> <stdout>` for a linter that returned these result dicts -/
def opCliOut (toks : List String) : String :=
  match toks with
  | w :: n :: rest =>
    match (do
      let (rs, r) ← pMany pRaw (← parseNat n) rest
      if r.isEmpty then pure (← pBool w, rs) else none) with
    | some (w, rs) =>
      let results : List PResult := rs.map (fun (x : Text × LintCli.RawResult) => (x.1, x.2.toResult))
      s!"{LintCli.exitCode results w} " ++ showText (LintCli.stdoutText (fun p => p) results)
    | none => "bad-args"
  | _ => "bad-args"

def pItem : List String → Option ((Nat × Nat) × List String)
  | k :: i :: rest => do pure ((← parseNat k, ← parseNat i), rest)
  | _ => none

def pQuery : List String → Option LintKeyed.Query
  | ["K", k] => (parseNat k).map .key
  | ["O", i] => (parseNat i).map .item
  | ["U"] => some .unhashable
  | ["I", i] => (parseInt i).map .index
  | _ => none

/-- keyed <n> (key ident)*n <query>  ->  `<contains> <ident of kt[q] | raise …>` -/
def opKeyed (toks : List String) : String :=
  match toks with
  | n :: rest =>
    match (do
      let (items, r) ← pMany pItem (← parseNat n) rest
      pure (items, ← pQuery r)) with
    | some (items, q) =>
      (if LintKeyed.contains items q then "1 " else "0 ") ++
        (match LintKeyed.getItem items q with
         | .ok x => toString x.2
         | .error e => "raise " ++ e)
    | none => "bad-args"
  | _ => "bad-args"

def ops : List (String × (List String → String)) :=
  [("c19.lint", opLint), ("c19.getparser", opGetParser), ("c19.linecol", opLinecol),
   ("c19.run", opRun), ("c19.getchecker", opGetChecker), ("c19.refs", opRefs), ("c19.main", opMain),
   ("c19.cliout", opCliOut), ("c19.keyed", opKeyed)]
end Ops.C19

import CLModel.Proto
import CLModel.Lint.Linter
namespace Ops.C19
open Proto Lint

/-! token-stream parsers: each consumes a prefix of the token list -/

def pCheck : List String → Option (Check × List String)
  | lv :: "P" :: off :: msg :: rest => do
    pure ({ level := ← parseText lv, pos := .entity (← parseInt off), msg := ← parseText msg }, rest)
  | lv :: "V" :: off :: msg :: rest => do
    pure ({ level := ← parseText lv, pos := .value (← parseInt off), msg := ← parseText msg }, rest)
  | lv :: "T" :: l :: c :: msg :: rest => do
    pure ({ level := ← parseText lv, pos := .lineCol (← parseInt l) (← parseInt c), msg := ← parseText msg }, rest)
  | _ => none

def pMany {α : Type} (p : List String → Option (α × List String)) : Nat → List String → Option (List α × List String)
  | 0, toks => some ([], toks)
  | n + 1, toks => do
    let (a, r1) ← p toks
    let (as, r2) ← pMany p n r1
    pure (a :: as, r2)

def pKind : String → Option Kind
  | "E" => some .entity | "J" => some .junk | _ => none

def pMode : String → Option Mode
  | "c" => some .ctx | "d" => some .dtd | "f" => some .fluent | "n" => some .node | _ => none

def pVs : List String → Option (Option (Int × Int) × List String)
  | "X" :: rest => some (none, rest)
  | "V" :: a :: b :: rest => do pure (some (← parseInt a, ← parseInt b), rest)
  | _ => none

/-- `<E|J> <key> <eq> <mode> <s> <e> (X | V a b) <lit> <n> check*n` -/
def pEnt : List String → Option (Ent × List String)
  | k :: key :: eq :: md :: s :: e :: rest => do
    let (vs, r1) ← pVs rest
    match r1 with
    | lit :: n :: r2 =>
      let (cs, r3) ← pMany pCheck (← parseNat n) r2
      pure ({ kind := ← pKind k, key := ← parseText key, eq := ← parseNat eq, mode := ← pMode md,
              s := ← parseNat s, e := ← parseNat e, vs := vs, lit := ← parseText lit, checks := cs }, r3)
    | _ => none
  | _ => none

def pRefEnt : List String → Option (RefEnt × List String)
  | key :: eq :: rest => do pure ({ key := ← parseText key, eq := ← parseNat eq }, rest)
  | _ => none

def pRef : List String → Option (Option (List RefEnt) × List String)
  | "N" :: rest => some (none, rest)
  | "R" :: n :: rest => do
    let (rs, r) ← pMany pRefEnt (← parseNat n) rest
    pure (some rs, r)
  | _ => none

/-- `<path> <contents> (N | R n ref*n) <m> ent*m` -/
def pFile : List String → Option (FileIn × List String)
  | path :: contents :: rest => do
    let (ref, r1) ← pRef rest
    match r1 with
    | m :: r2 =>
      let (cur, r3) ← pMany pEnt (← parseNat m) r2
      pure ({ path := ← parseText path, contents := (← parseText contents).toArray, cur := cur, ref := ref }, r3)
    | _ => none
  | _ => none

def showResult (p : Text × Result) : String :=
  s!"{p.2.lineno} {p.2.column} {showText p.2.level} {showText p.2.message} {showText p.1}"

/-- lint <n> file*n  ->  `ok | result | …` or `raise <exception>` -/
def opLint (toks : List String) : String :=
  match toks with
  | n :: rest =>
    match (do let (fs, r) ← pMany pFile (← parseNat n) rest; if r.isEmpty then pure fs else none) with
    | some fs =>
      match lint fs with
      | .ok rs => " | ".intercalate ("ok" :: rs.map showResult)
      | .error x => "raise " ++ x
    | none => "bad-args"
  | _ => "bad-args"

/-- getparser <path> -> class name of the parser or `none` -/
def opGetParser (toks : List String) : String :=
  match toks with
  | [p] =>
    match parseText p with
    | some p => match getParserName p with | some n => showText n | none => "none"
    | none => "bad-args"
  | _ => "bad-args"

/-- linecol <contents> <pos> -/
def opLinecol (toks : List String) : String :=
  match toks with
  | [t, p] =>
    match parseText t, parseInt p with
    | some t, some p => let r := linecol (lineEnds t) p; s!"{r.1} {r.2}"
    | _, _ => "bad-args"
  | _ => "bad-args"

def ops : List (String × (List String → String)) :=
  [("c19.lint", opLint), ("c19.getparser", opGetParser), ("c19.linecol", opLinecol)]
end Ops.C19

import CLModel.Proto
import CLModel.Compare.Content
namespace Ops.C03
open Proto Cmp

def parseCodes (cs : List Char) : Option (List Nat) :=
  if cs.isEmpty then some [] else (splitChars ',' cs).mapM natOfChars

/-- key token: `t:<codes>` (str) | `p:<msgid codes>/<msgctxt codes>` | `p:<msgid codes>/` followed by a dash (msgctxt None) -/
def parseKey (tok : String) : Option Key :=
  match tok.toList with
  | 't' :: ':' :: body => (parseCodes body).map Key.str
  | 'p' :: ':' :: body =>
    match splitChars '/' body with
    | [a, b] => do
      let a ← parseCodes a
      if b == ['-'] then pure (Key.tup a none) else do
        let b ← parseCodes b
        pure (Key.tup a (some b))
    | _ => none
  | _ => none

def showCodes (l : List Nat) : String := ",".intercalate (l.map toString)

def showKey : Key → String
  | .str t => "t:" ++ showCodes t
  | .tup a none => "p:" ++ showCodes a ++ "/-"
  | .tup a (some b) => "p:" ++ showCodes a ++ "/" ++ showCodes b

def parseVerdict : String → Option Verdict
  | "0" => some .error | "1" => some .warning | "2" => some .ignore | _ => none

def showVerdict : Verdict → String
  | .error => "error" | .warning => "warning" | .ignore => "ignore"

/-- `n` entities, five tokens each: key junk(0|1) words cls msg -/
def parseEnts : Nat → List String → Option (List Ent × List String)
  | 0, rest => some ([], rest)
  | n + 1, k :: j :: w :: c :: m :: rest => do
    let k ← parseKey k
    let j ← parseNat j
    let w ← parseNat w
    let c ← parseNat c
    let m ← parseNat m
    let (es, rest) ← parseEnts n rest
    pure ({ key := k, junk := j != 0, words := w, cls := c, msg := m } :: es, rest)
  | _, _ => none

def parseVerdicts : List String → Option (List (Key × Verdict))
  | [] => some []
  | k :: v :: rest => do
    let k ← parseKey k
    let v ← parseVerdict v
    let r ← parseVerdicts rest
    pure ((k, v) :: r)
  | _ => none

def showMsg (lvl : String) : Msg → String
  | .refJunk => lvl ++ ":refjunk"
  | .junk m => lvl ++ s!":junk:{m}"
  | .dup k n => lvl ++ ":dup:" ++ showKey k ++ s!":{n}"

def showNote : Note → String
  | .warning m => showMsg "W" m
  | .error m => showMsg "E" m
  | .missingEntity k => "M:" ++ showKey k
  | .obsoleteEntity k => "O:" ++ showKey k
  | .missingFile v => "F:" ++ showVerdict v

def showReport (r : Report) : String :=
  let ups := r.updates.map (fun d => ",".intercalate (d.map (fun p => s!"{p.1}={p.2}")))
  "ok " ++ ";".intercalate ups ++ " |" ++ String.join (r.notes.map (fun n => " " ++ showNote n))

def showErr : PyErr → String
  | .keyError => "raise KeyError" | .indexError => "raise IndexError"

/-- c03.cmp <nref> <nl10n> <entity>*(nref+nl10n) (<key> <verdict code>)* -/
def opCmp (toks : List String) : String :=
  match toks with
  | nr :: nl :: rest =>
    match parseNat nr, parseNat nl with
    | some nr, some nl =>
      match parseEnts nr rest with
      | some (ref, rest) =>
        match parseEnts nl rest with
        | some (l10n, rest) =>
          match parseVerdicts rest with
          | some vs =>
            let verdict (k : Key) : Verdict :=
              match vs.find? (fun p => p.1 == k) with
              | some p => p.2
              | none => .error
            match compareEntities ref l10n verdict with
            | .ok r => showReport r
            | .error e => showErr e
          | none => "bad-args"
        | none => "bad-args"
      | none => "bad-args"
    | _, _ => "bad-args"
  | _ => "bad-args"

/-- c03.add <file verdict code> <n> <entity>*n -/
def opAdd (toks : List String) : String :=
  match toks with
  | v :: n :: rest =>
    match parseVerdict v, parseNat n with
    | some v, some n =>
      match parseEnts n rest with
      | some (ref, []) => showReport (addMissing ref v)
      | _ => "bad-args"
    | _, _ => "bad-args"
  | _ => "bad-args"

/-- c03.words <text> : `Entry.count_words` of a value -/
def opWords (toks : List String) : String :=
  match toks with
  | [t] =>
    match parseText t with
    | some t => toString (countWords t)
    | none => "bad-args"
  | _ => "bad-args"

def ops : List (String × (List String → String)) :=
  [("c03.cmp", opCmp), ("c03.add", opAdd), ("c03.words", opWords)]
end Ops.C03

import CLModel.Proto
import CLModel.Compare.Content
import CLModel.Compare.Session
import CLModel.Compare.FluentEnt
import CLModel.Ops.C04
import CLModel.Ops.C05
import CLModel.Ops.C08
import CLModel.Ops.C10
namespace Ops.C03
open Proto Cmp

def parseCodes (cs : List Char) : Option (List Nat) :=
  if cs.isEmpty then some [] else (splitChars ',' cs).mapM natOfChars

/-- key token: `t:<codes>` (str) | `p:<msgid codes>/<msgctxt codes>` | `p:<msgid codes>/` followed by a dash (msgctxt None) -/
def parseKey (tok : String) : Option Key :=
  match tok.toList with
  | 't' :: ':' :: body => (parseCodes body).map Key.str
  | 'p' :: ':' :: body =>
    match splitChars '/' body with
    | [a, b] => do
      let a ← parseCodes a
      if b == ['-'] then pure (Key.tup a none) else do
        let b ← parseCodes b
        pure (Key.tup a (some b))
    | _ => none
  | _ => none

def showCodes (l : List Nat) : String := ",".intercalate (l.map toString)

def showKey : Key → String
  | .str t => "t:" ++ showCodes t
  | .tup a none => "p:" ++ showCodes a ++ "/-"
  | .tup a (some b) => "p:" ++ showCodes a ++ "/" ++ showCodes b

def parseVerdict : String → Option Verdict
  | "0" => some .error | "1" => some .warning | "2" => some .ignore | _ => none

def showVerdict : Verdict → String
  | .error => "error" | .warning => "warning" | .ignore => "ignore"

/-- `n` entities, five tokens each: key junk(0|1) words cls msg -/
def parseEnts : Nat → List String → Option (List Ent × List String)
  | 0, rest => some ([], rest)
  | n + 1, k :: j :: w :: c :: m :: rest => do
    let k ← parseKey k
    let j ← parseNat j
    let w ← parseNat w
    let c ← parseNat c
    let m ← parseNat m
    let (es, rest) ← parseEnts n rest
    pure ({ key := k, junk := j != 0, words := w, cls := c, msg := m } :: es, rest)
  | _, _ => none

def parseVerdicts : List String → Option (List (Key × Verdict))
  | [] => some []
  | k :: v :: rest => do
    let k ← parseKey k
    let v ← parseVerdict v
    let r ← parseVerdicts rest
    pure ((k, v) :: r)
  | _ => none

def showMsg (lvl : String) : Msg → String
  | .refJunk => lvl ++ ":refjunk"
  | .junk m => lvl ++ s!":junk:{m}"
  | .dup k n => lvl ++ ":dup:" ++ showKey k ++ s!":{n}"

def showNote : Note → String
  | .warning m => showMsg "W" m
  | .error m => showMsg "E" m
  | .missingEntity k => "M:" ++ showKey k
  | .obsoleteEntity k => "O:" ++ showKey k
  | .missingFile v => "F:" ++ showVerdict v

def showReport (r : Report) : String :=
  let ups := r.updates.map (fun d => ",".intercalate (d.map (fun p => s!"{p.1}={p.2}")))
  "ok " ++ ";".intercalate ups ++ " |" ++ String.join (r.notes.map (fun n => " " ++ showNote n))

def showErr : PyErr → String
  | .keyError => "raise KeyError" | .indexError => "raise IndexError"

/-- c03.cmp <nref> <nl10n> <entity>*(nref+nl10n) (<key> <verdict code>)* -/
def opCmp (toks : List String) : String :=
  match toks with
  | nr :: nl :: rest =>
    match parseNat nr, parseNat nl with
    | some nr, some nl =>
      match parseEnts nr rest with
      | some (ref, rest) =>
        match parseEnts nl rest with
        | some (l10n, rest) =>
          match parseVerdicts rest with
          | some vs =>
            let verdict (k : Key) : Verdict :=
              match vs.find? (fun p => p.1 == k) with
              | some p => p.2
              | none => .error
            match compareEntities ref l10n verdict with
            | .ok r => showReport r
            | .error e => showErr e
          | none => "bad-args"
        | none => "bad-args"
      | none => "bad-args"
    | _, _ => "bad-args"
  | _ => "bad-args"

/-- c03.add <file verdict code> <n> <entity>*n -/
def opAdd (toks : List String) : String :=
  match toks with
  | v :: n :: rest =>
    match parseVerdict v, parseNat n with
    | some v, some n =>
      match parseEnts n rest with
      | some (ref, []) => showReport (addMissing ref v)
      | _ => "bad-args"
    | _, _ => "bad-args"
  | _ => "bad-args"

/-- c03.words <text> : `Entry.count_words` of a value -/
def opWords (toks : List String) : String :=
  match toks with
  | [t] =>
    match parseText t with
    | some t => toString (countWords t)
    | none => "bad-args"
  | _ => "bad-args"

/-! ### round 4: one comparer, a sequence of jobs (CLModel/Compare/Session.lean)

`c03.sess <quiet> F <nfiles> (<file> <module|-> <locale|->)*
          O <nobs> (N | R <n> (<fileidx|*> <data|*> <e|w|i>)*)*
          J <njobs> job*`
  job := cmp <refidx> <l10nidx> <merge 0|1> body | add <origidx> <missingidx> <merge> abody | rm <refidx> <l10nidx> <merge>
  body  := np | re <text> | le <text>
         | en <nref> <nl10n> entity*(nref+nl10n) <nmsgs> <text>* <nchecks> (<key> <n> (<e|w> <text>)*)*
         | tx <fmt> <ref text> <l10n text>
  abody := np | re <caps> <text> | en <caps> <n> entity*n | tx <fmt> <text>
result: `ok m=<merge outcome>,… |L <list's own observer> |O <project observer>…` (observers as in `obs`) -/

open Ops.C10 (P tok nat text optText many counted expect pFile pData pRet showObs) in
section
def pEnts (n : Nat) : P (List Ent) := do
  match parseEnts n (← get) with
  | some (es, rest) => set rest; pure es
  | none => failure

def pKey : P Key := do
  match parseKey (← tok) with
  | some k => pure k
  | none => failure

def pFmt : P P.Fmt := do
  match Ops.C05.parseFmt (← tok) with
  | some f => pure f
  | none => failure

def pFileIdx (files : List ObsM.File) : P ObsM.File := do
  match files[(← nat)]? with
  | some f => pure f
  | none => failure

def pRule (files : List ObsM.File) : P Sess.Rule := do
  let ft ← tok
  let f ← (if ft == "*" then pure none else
    match parseNat ft with
    | some i => (match files[i]? with | some f => pure (some f) | none => failure)
    | none => failure)
  -- `*` = any entity argument
  let d ← (do
    match (← get) with
    | "*" :: rest => set rest; pure none
    | _ => let d ← pData; pure (some d))
  let r ← pRet
  pure { file := f, data := d, ret := r }

def pSessFilter (files : List ObsM.File) : P (Option ObsM.Filter) := do
  match (← tok) with
  | "N" => pure none
  | "R" =>
    let rules ← counted (pRule files)
    pure (some (Sess.filterOfRules rules))
  | _ => failure

def pCheck : P (Bool × List Nat) := do
  let s ← tok
  let t ← text
  if s == "e" then pure (true, t) else if s == "w" then pure (false, t) else failure

def pCmpBody : P Sess.CmpBody := do
  match (← tok) with
  | "np" => pure .noParser
  | "re" => let m ← text; pure (.refReadError m)
  | "le" => let m ← text; pure (.l10nReadError m)
  | "en" =>
    let nr ← nat
    let nl ← nat
    let ref ← pEnts nr
    let l10n ← pEnts nl
    let msgs ← counted text
    let checks ← counted (do let k ← pKey; let cs ← counted pCheck; pure (k, cs))
    pure (.ents { ref := ref, l10n := l10n, msgs := msgs, checks := checks })
  | "tx" =>
    let f ← pFmt
    let r ← text
    let l ← text
    pure (.text f r.toArray l.toArray)
  | _ => failure

def pAddBody : P Sess.AddBody := do
  match (← tok) with
  | "np" => pure .noParser
  | "re" => let c ← nat; let m ← text; pure (.readError c m)
  | "en" => let c ← nat; let n ← nat; let es ← pEnts n; pure (.ents c es)
  | "tx" => let f ← pFmt; let r ← text; pure (.text f r.toArray)
  | _ => failure

def pJob (files : List ObsM.File) : P Sess.Job := do
  match (← tok) with
  | "cmp" =>
    let r ← pFileIdx files
    let l ← pFileIdx files
    let m ← nat
    let b ← pCmpBody
    pure (.compare r l (m != 0) b)
  | "add" =>
    let r ← pFileIdx files
    let l ← pFileIdx files
    let m ← nat
    let b ← pAddBody
    pure (.add r l (m != 0) b)
  | "rm" =>
    let r ← pFileIdx files
    let l ← pFileIdx files
    let m ← nat
    pure (.remove r l (m != 0))
  | _ => failure

def opSess (toks : List String) : String :=
  let p : P (Nat × List (Option ObsM.Filter) × List Sess.Job) := do
    let q ← nat
    expect "F"
    let files ← counted pFile
    expect "O"
    let filters ← counted (pSessFilter files)
    expect "J"
    let jobs ← counted (pJob files)
    pure (q, filters, jobs)
  match p.run toks with
  | some ((q, filters, jobs), []) =>
    let l0 := ObsM.ObsList.init q (filters.map (ObsM.Obs.init q))
    -- the wire format carries no table of external functions: `default` is the `Pipe.Ext` the C05 operations use when no
    -- table is sent.  `tx` jobs are sent for properties / ini / inc / po, which never consult it
    -- (`PipeBridge.parseFile_ext_irrel`); a DTD `tx` comparison is `Unmodelled` as before (`Pipe.plainFmt`).
    match Sess.run default l0 jobs with
    | .error e => "raise " ++ e.name
    | .ok (l, outcomes) =>
      "ok m=" ++ ",".intercalate (outcomes.map Ops.C04.showOutcome) ++ " |L " ++ showObs l.own ++
        String.join (l.observers.map (fun o => " |O " ++ showObs o))
  | _ => "bad-args"

/-! ### round 5: one PROCESS, several comparers, a history of calls (`Sess.Proc`)

`c03.proc C <ncomparers> (<quiet> F <nfiles> file* O <nobs> filter*)* H <ncalls> (<comparer idx> job)*`
  (file / filter / job as in `c03.sess`; a job's file indices refer to the table of ITS comparer)
result: `ok m=<merge outcome per call, in call order> (|C |L <own observer> (|O <project observer>)*)*` -/

def opProc (toks : List String) : String :=
  let p : P (List (Nat × List ObsM.File × List (Option ObsM.Filter)) × List (Nat × Sess.Job)) := do
    expect "C"
    let comps ← counted (do
      let q ← nat
      expect "F"
      let files ← counted pFile
      expect "O"
      let filters ← counted (pSessFilter files)
      pure (q, files, filters))
    expect "H"
    let calls ← counted (do
      let c ← nat
      match comps[c]? with
      | some (_, files, _) => let j ← pJob files; pure (c, j)
      | none => failure)
    pure (comps, calls)
  match p.run toks with
  | some ((comps, calls), []) =>
    let p0 := Sess.Proc.fresh (comps.map (fun c => (c.1, c.2.2)))
    match Sess.Proc.run default p0 calls with
    | .error e => "raise " ++ e.name
    | .ok (p1, outcomes) =>
      "ok m=" ++ ",".intercalate (outcomes.map Ops.C04.showOutcome) ++
        String.join (p1.comparers.map (fun l => " |C |L " ++ showObs l.own ++
          String.join (l.observers.map (fun o => " |O " ++ showObs o))))
  | _ => "bad-args"
end

/-! ### round 4: Fluent `count_words` / `equals` on the fluent.syntax AST (CLModel/Compare/FluentEnt.lean)

entries in the wire format of Ops/C08.lean.
`c03.ftlwords <entry>`                 → `FluentEntity.count_words()`
`c03.ftleq <entry a> <entry b>`        → `a.equals(b)`, `b.equals(a)`, and `FluentAttribute.equals` of the attributes paired by position
`c03.ftlcmp <nref> <nl10n> item* [<key> <verdict>]*`, item := `J <key> <msg>` | `E <key> <entry>` → as `c03.cmp` -/

def showBool (b : Bool) : String := if b then "1" else "0"

def opFtlWords (toks : List String) : String :=
  match Ops.C08.pEntry toks with
  | some (e, []) => toString (FtlC.countWords e)
  | _ => "bad-args"

def opFtlEq (toks : List String) : String :=
  match Ops.C08.pEntry toks with
  | some (a, rest) =>
    match Ops.C08.pEntry rest with
    | some (b, []) =>
      let attrs := (List.zip (FtlC.entAttrs a) (FtlC.entAttrs b)).map (fun p => showBool (FtlC.eqAttr p.1 p.2))
      s!"{showBool (FtlC.equals a b)} {showBool (FtlC.equals b a)} [{",".intercalate attrs}]"
    | _ => "bad-args"
  | none => "bad-args"

def pItems : Nat → List String → Option (List FtlC.Item × List String)
  | 0, rest => some ([], rest)
  | n + 1, "J" :: k :: m :: rest => do
    let k ← parseKey k
    let m ← parseNat m
    let (r, rest) ← pItems n rest
    pure (.junk k m :: r, rest)
  | n + 1, "E" :: k :: rest => do
    let k ← parseKey k
    let (e, rest) ← Ops.C08.pEntry rest
    let (r, rest) ← pItems n rest
    pure (.ent k none e :: r, rest)
  | _, _ => none

def opFtlCmp (toks : List String) : String :=
  match toks with
  | nr :: nl :: rest =>
    match parseNat nr, parseNat nl with
    | some nr, some nl =>
      match pItems nr rest with
      | some (ref, rest) =>
        match pItems nl rest with
        | some (l10n, rest) =>
          match parseVerdicts rest with
          | some vs =>
            let verdict (k : Key) : Verdict :=
              match vs.find? (fun p => p.1 == k) with
              | some p => p.2
              | none => .error
            match FtlC.compareFluent ref l10n verdict with
            | .ok r => showReport r
            | .error e => showErr e
          | none => "bad-args"
        | none => "bad-args"
      | none => "bad-args"
    | _, _ => "bad-args"
  | _ => "bad-args"

/-- `c03.keyed <n> entity*n <probe>`, probe := `k <key>` | `o <i>` | `i <int>` | `u` → `<contains 0|1> <getitem: item i | TypeError | IndexError>` -/
def opKeyed (toks : List String) : String :=
  match toks with
  | n :: rest =>
    match parseNat n with
    | some n =>
      match parseEnts n rest with
      | some (es, probe) =>
        let pr : Option Sess.Probe := match probe with
          | ["k", k] => (parseKey k).map Sess.Probe.key
          | ["o", i] => (parseNat i).map Sess.Probe.item
          | ["i", i] => (parseInt i).map Sess.Probe.index
          | ["u"] => some .unhashable
          | _ => none
        match pr with
        | some pr =>
          let g := match Sess.keyedGetProbe es pr with
            | .item i => s!"item {i}"
            | .typeError => "TypeError"
            | .indexError => "IndexError"
          s!"{showBool (Sess.keyedContainsProbe es pr)} {g}"
        | none => "bad-args"
      | none => "bad-args"
    | none => "bad-args"
  | _ => "bad-args"

def ops : List (String × (List String → String)) :=
  [("c03.cmp", opCmp), ("c03.add", opAdd), ("c03.words", opWords), ("c03.sess", opSess), ("c03.proc", opProc), ("c03.keyed", opKeyed),
   ("c03.ftlwords", opFtlWords), ("c03.ftleq", opFtlEq), ("c03.ftlcmp", opFtlCmp)]
end Ops.C03

import CLModel.Proto
import CLModel.History.State
import CLModel.History.Machine
import CLModel.History.World
import CLModel.Ops.C11
import CLModel.Ops.C14
namespace Ops.C18
open Proto P Hist

def cps (s : String) : List Nat := s.toList.map Char.toNat

def showKind : Kind → String
  | .entity => "E" | .comment => "C" | .whitespace => "W" | .junk => "J" | .section => "S" | .instruction => "I"

def parseFmt : String → Option Fmt
  | "properties" => some .properties | "dtd" => some .dtd | "ini" => some .ini
  | "inc" => some .inc | "po" => some .po | _ => none

/-- one entry of a parse listing, as `harness/impl/history.py: model_entry` prints it -/
def showEnt (f : Fmt) (c : Array Nat) (e : Ent) : String :=
  match e.entry.kind with
  | .junk => s!"J {showText (e.key f c).render} {e.entry.s} {e.entry.e}"
  | .entity => s!"E {showText (e.key f c).render} {showText (e.val c)} {e.entry.full} {e.entry.s} {e.entry.e}"
  | k => s!"{showKind k} {e.entry.s} {e.entry.e}"

def showParsed (f : Fmt) (c : Array Nat) (st : Option Nat) (ents : List Ent) : String :=
  let hd := match st with | none => "done" | some o => s!"stuck {o}"
  " | ".intercalate (hd :: ents.map (showEnt f c))

def showMsg : Msg (List Nat) → String
  | .dupRef k n => "warning " ++ showText (k ++ cps s!" occurs {n} times")
  | .dupL10n k n => "error " ++ showText (k ++ cps s!" occurs {n} times")
  | .parserErrRef => "warning " ++ showText (cps "Parser error in en-US")
  | .missing k => "missingEntity " ++ showText k
  | .junkErr v p1 p2 =>
    "error " ++ showText (cps "Unparsed content \"" ++ v
      ++ cps s!"\" from line {p1.1} column {p1.2} to line {p2.1} column {p2.2}")
  | .obsolete k => "obsoleteEntity " ++ showText k
  | .mochibake k p r =>
    "warning " ++ showText ([65533] ++ cps " in: " ++ k ++ cps s!" at line {p.1}, column {p.2} for " ++ r)

def showReport : Except String (Acc (List Nat)) → String
  | .error e => "exc " ++ e
  | .ok (msgs, st) =>
    let errors := (msgs.filter Msg.isError).length
    let warnings := (msgs.filter Msg.isWarning).length
    let summ := s!"errors={errors} warnings={warnings} missing={st.missing} missing_w={st.missing_w} report=0 " ++
      s!"obsolete={st.obsolete} changed={st.changed} changed_w={st.changed_w} unchanged={st.unchanged} " ++
      s!"unchanged_w={st.unchanged_w} keys={st.keys}"
    " ; ".intercalate (["ok"] ++ msgs.map showMsg ++ [summ])

/-- parse the operations of a history -/
def parseOps : Nat → List String → Option (List Op)
  | _, [] => some []
  | 0, _ => none
  | fuel + 1, "parse" :: f :: t :: rest => do
    let f ← parseFmt f
    let t ← parseText t
    let r ← parseOps fuel rest
    pure (.parse f t.toArray :: r)
  | fuel + 1, "compare" :: f :: a :: b :: rest => do
    let f ← parseFmt f
    let a ← parseText a
    let b ← parseText b
    let r ← parseOps fuel rest
    pure (.compare f a.toArray b.toArray :: r)
  | _, _ => none

def showOut : Op → Out → String
  | .parse f text, .parsed st ents => showParsed f text st ents
  | _, .report r => showReport r
  | _, _ => "?"

/-- c18.run [<junkid0>] (parse <fmt> <text> | compare <fmt> <ref> <l10n>)* : the whole history through `Hist.run`
    from the initial state of a fresh interpreter; results joined by " || " -/
def opRun (toks : List String) : String :=
  match parseOps (toks.length + 1) toks with
  | none => "bad-args"
  | some ops =>
    let (_, outs) := Hist.run G.init ops
    " || ".intercalate ((ops.zip outs).map (fun (o, r) => showOut o r))

/-- c18.junkkey <id> <s> <e> -/
def opJunkKey (toks : List String) : String :=
  match toks with
  | [a, b, c] =>
    match parseNat a, parseNat b, parseNat c with
    | some a, some b, some c => showText (junkKey a b c)
    | _, _, _ => "bad-args"
  | _ => "bad-args"


/-! ### round 4: the whole state machine `HistM` (`c18.mrun`) -/

open HistM in
def showLMsg : LMsg (List Nat) → String
  | .junk v p1 p2 =>
    s!"error {p1.1} {p1.2} " ++ showText (cps "Unparsed content \"" ++ v
      ++ cps s!"\" from line {p1.1} column {p1.2} to line {p2.1} column {p2.2}")
  | .dup k p => s!"error {p.1} {p.2} " ++ showText (cps "Duplicate string with ID: " ++ k)
  | .changed k p => s!"warning {p.1} {p.2} " ++ showText (cps "Changes to string require a new ID: " ++ k)
  | .moch k p => s!"warning {p.1} {p.2} " ++ showText ([65533] ++ cps " in: " ++ k)

def showLint : Except String (List (HistM.LMsg (List Nat))) → String
  | .error e => "exc " ++ e
  | .ok ms => " ; ".intercalate ("ok" :: ms.map showLMsg)

/-- the text the merge file holds afterwards (`none`: no file) -/
def mergedText (ref l10n : Array Nat) : Merge.Outcome → String
  | .nothing => "nofile"
  | .copyRef => showText ref.toList
  | .copyL10n => showText l10n.toList
  | .copyL10nPlus tr => showText (l10n.toList ++ tr)
  | .written t => showText t
  | .typeError => "exc TypeError"

def showChanErr : Merge.Err → String
  | .mergeNotSupported => "MergeNotSupportedError" | .emptySequence => "TypeError" | .hang => "Hang"
  | .external => "external" | .internal => "internal"

def showOptT : Option (List Nat) → String
  | some t => showText t
  | none => "-"

/-- a set of names as `sorted(...)` prints it -/
def showNames (l : List (List Nat)) : String := ",".intercalate ((Dtd.sOfList l).map showText)

/-- canonical result of one operation; `ctxText` = contents of the Context a `rewalk` walked -/
def showOutM (op : HistM.Op) (ctxText : Option (Array Nat)) : HistM.Out → String
  | .base o =>
    match op, o with
    | .base bop, _ => showOut bop o
    | .rewalk f, .parsed st ents =>
      (match ctxText with
       | some t => showParsed f t st ents
       | none => showParsed f #[] st ents)
    | _, _ => "?"
  | .lint r => showLint r
  | .merged r o =>
    showReport r ++ " ;; " ++
      (match op, o with
       | _, none => "-"
       | _, some (.error e) => "exc " ++ e
       | .merge _ ref l10n, some (.ok oc) => mergedText ref l10n oc
       | _, _ => "?")
  | .bytes r => (match r with | some t => "ok " ++ showText t | none => "none")
  | .chan r => (match r with | .ok t => "ok " ++ showText t | .error e => "exc " ++ showChanErr e)
  | .parser c => (match c with | some (cls, sh) => showText cls ++ (if sh then " shared" else " new") | none => "none")
  | .bool r => Ops.C11.showExc Ops.C11.showB r
  | .unit r => Ops.C11.showExc (fun _ => "ok") r
  | .mres r => Ops.C11.showMatch r
  | .sub r => Ops.C11.showExc Ops.C11.showOptText r
  | .action r => Ops.C11.showExc Ops.C14.showAction r
  | .names l => showNames l
  | .text t => showOptT t
  | .noObject => "no-object"

def flag (b : Bool) : String := if b then "1" else "0"

def showFC (fc : HistM.FCObj) : String :=
  showText fc.locale ++ ":" ++ String.join (fc.l10nPaths.map (fun o => flag o.cached.isSome)) ++ ":" ++
    String.join (fc.rules.map (fun r => flag r.path.cached.isSome))

/-- digest of the state components, as `harness/impl/history.py: state_digest` prints the real ones -/
def showState (s : HistM.S) : String :=
  s!"j={s.g.junkid} f={flag s.incFlag} r=" ++ ";".intercalate (s.reCache.map (fun p => showText p.1)) ++
  " m=" ++ ",".intercalate (s.matchers.map (fun p => s!"{p.1}:" ++ flag p.2.cached.isSome)) ++
  " c=" ++ ",".intercalate (s.configs.map (fun p => s!"{p.1}:" ++ flag p.2.allLoc.isSome ++ ":" ++
      (match p.2.cache with | some fc => showFC fc | none => "-"))) ++
  " k=" ++ ",".intercalate (s.checkers.map (fun p => s!"{p.1}:" ++ flag p.2.known.isSome)) ++
  " t=" ++ showText s.textcontent

def parseLocsM : List String → Option (Option (List (List Nat)) × List String)
  | "N" :: rest => some (none, rest)
  | toks => (Ops.C14.parseTexts toks).map (fun (ls, r) => (some ls, r))

def parsePathEnt (toks : List String) : Option (FiltM.PathEntryM × List String) := do
  let (pat, r1) ← Ops.C14.parseTextTok toks
  let (ls, r2) ← parseLocsM r1
  pure (⟨pat, ls⟩, r2)

/-- `<pattern> (- | L <key> | X <regex>) <action>`: a compiled rule -/
def parseRuleM (toks : List String) : Option (FiltM.RuleM × List String) := do
  let (pat, r1) ← Ops.C14.parseTextTok toks
  match r1 with
  | "-" :: a :: r2 => do
    pure (⟨pat, none, ← Ops.C14.parseAction a⟩, r2)
  | "L" :: k :: a :: r2 => do
    pure (⟨pat, some (Filt.KeyPred.literal (← parseText k)), ← Ops.C14.parseAction a⟩, r2)
  | "X" :: r2 => do
    let (re, r3) ← parseRe r2
    match r3 with
    | a :: r4 => do pure (⟨pat, some (Filt.KeyPred.regex re), ← Ops.C14.parseAction a⟩, r4)
    | [] => none
  | _ => none

def parseEnv (toks : List String) : Option (List (List Nat × List Nat) × List String) :=
  match toks with
  | n :: rest => do
    let n ← parseNat n
    Ops.C11.parsePairs n rest
  | [] => none

def parseOptT : List String → Option (Option (List Nat) × List String)
  | "-" :: rest => some (none, rest)
  | t :: rest => (parseText t).map (fun x => (some x, rest))
  | [] => none

def parseNd (toks : List String) : Option (Ser.NewData × List String) :=
  Ops.C14.parseCounted (fun ts => do
    let (k, r1) ← Ops.C14.parseTextTok ts
    let (v, r2) ← parseOptT r1
    pure ((k, v), r2)) toks

def parseArrs (toks : List String) : Option (List (Array Nat) × List String) :=
  (Ops.C14.parseTexts toks).map (fun (ts, r) => (ts.map List.toArray, r))

/-- one operation of `HistM` and the remaining tokens -/
def parseOpM : List String → Option (HistM.Op × List String)
  | "parse" :: f :: t :: rest => do
    pure (.base (.parse (← parseFmt f) (← parseText t).toArray), rest)
  | "compare" :: f :: a :: b :: rest => do
    pure (.base (.compare (← parseFmt f) (← parseText a).toArray (← parseText b).toArray), rest)
  | "rewalk" :: f :: rest => do pure (.rewalk (← parseFmt f), rest)
  | "read" :: f :: t :: rest => do pure (.read (← parseFmt f) (← parseText t).toArray, rest)
  | "lint" :: f :: r :: c :: rest => do
    let ref ← if r == "-" then pure none else (parseText r).map (fun t => some t.toArray)
    pure (.lint (← parseFmt f) ref (← parseText c).toArray, rest)
  | "merge" :: f :: a :: b :: rest => do
    pure (.merge (← parseFmt f) (← parseText a).toArray (← parseText b).toArray, rest)
  | "serialize" :: f :: a :: b :: rest => do
    let (nd, r) ← parseNd rest
    pure (.serialize (← parseFmt f) (← parseText a).toArray (← parseText b).toArray nd, r)
  | "chan" :: f :: rest => do
    let (ts, r) ← parseArrs rest
    pure (.mergeChannels (← parseFmt f) ts, r)
  | "getparser" :: p :: rest => do pure (.getParser (← parseText p), rest)
  | "moz" :: p :: pat :: rest => do pure (.mozMatch (← parseText p) (← parseText pat), rest)
  | "mnew" :: id :: pat :: rest => do
    let (env, r1) ← parseEnv rest
    let (root, r2) ← parseOptT r1
    pure (.mNew (← parseNat id) (← parseText pat) env root, r2)
  | "mwith" :: id :: nid :: rest => do
    let (env, r1) ← parseEnv rest
    pure (.mWithEnv (← parseNat id) (← parseNat nid) env, r1)
  | "mmatch" :: id :: p :: rest => do pure (.mMatch (← parseNat id) (← parseText p), rest)
  | "msub" :: id :: o :: p :: rest => do pure (.mSub (← parseNat id) (← parseNat o) (← parseText p), rest)
  | "cnew" :: id :: rest => do
    let (locs, r1) ← parseLocsM rest
    let (env, r2) ← parseEnv r1
    let (root, r3) ← parseOptT r2
    let (paths, r4) ← Ops.C14.parseCounted parsePathEnt r3
    let (rules, r5) ← Ops.C14.parseCounted parseRuleM r4
    pure (.cNew (← parseNat id) locs env root paths rules, r5)
  | "csetloc" :: id :: rest => do
    let (locs, r1) ← parseLocsM rest
    pure (.cSetLocales (← parseNat id) locs, r1)
  | "caddrules" :: id :: rest => do
    let (rules, r1) ← Ops.C14.parseCounted parseRuleM rest
    pure (.cAddRules (← parseNat id) rules, r1)
  | "caddpaths" :: id :: rest => do
    let (paths, r1) ← Ops.C14.parseCounted parsePathEnt rest
    pure (.cAddPaths (← parseNat id) paths, r1)
  | "cfilter" :: id :: fp :: loc :: k :: rest => do
    let key ← if k == "-" then pure none else (parseText k).map some
    pure (.cFilter (← parseNat id) ⟨← parseText fp, ← parseText loc⟩ key, rest)
  | "calllocales" :: id :: rest => do pure (.cAllLocales (← parseNat id), rest)
  | "dnew" :: id :: a :: rest => do
    let (ref, r1) ← parseLocsM rest
    pure (.dNew (← parseNat id) (a == "1") ref, r1)
  | "dknown" :: id :: v :: rest => do pure (.dKnown (← parseNat id) (← parseText v), rest)
  | "dtext" :: id :: v :: rest => do
    let (cs, r1) ← Ops.C14.parseTexts rest
    pure (.dCheckText (← parseNat id) (← parseText v) cs, r1)
  | _ => none

def parseOpsM : Nat → List String → Option (List HistM.Op)
  | _, [] => some []
  | 0, _ => none
  | fuel + 1, toks => do
    let (op, rest) ← parseOpM toks
    let ops ← parseOpsM fuel rest
    pure (op :: ops)

/-- `U` | `P n (regex class)*` -/
def parseEp : List String → Option (HistM.EpEnv × List String)
  | "U" :: rest => some (.unavailable, rest)
  | "P" :: rest =>
    (Ops.C14.parseCounted (fun ts => do
      let (re, r1) ← parseRe ts
      let (cls, r2) ← Ops.C14.parseTextTok r1
      pure ((re, cls), r2)) rest).map (fun (ps, r) => (.plugins ps, r))
  | _ => none

def runShow : HistM.S → List HistM.Op → List String
  | _, [] => []
  | s, op :: ops =>
    let ctxText : Option (Array Nat) :=
      match op with
      | .rewalk f => (s.g.pctx f).bind (fun a => (s.g.heap[a]?).map (·.contents))
      | _ => none
    let r := HistM.step s op
    (showOutM op ctxText r.2 ++ " @@ " ++ showState r.1) :: runShow r.1 ops

/-- c18.mrun <EP> <op>* : a whole history through `HistM.step` from the state of a fresh interpreter; per
    operation `result @@ state digest`, joined by " || " -/
def opMRun (toks : List String) : String :=
  match parseEp toks with
  | none => "bad-args"
  | some (ep, rest) =>
    match parseOpsM (rest.length + 1) rest with
    | none => "bad-args"
    | some ops => " || ".intercalate (runShow { HistM.S.init with ep := ep } ops)

/-! ### round 5: process + file system `HistW` (`c18.wrun`) -/

def showRErr : HistW.RErr → String
  | .enoent => "enoent" | .eloop => "eloop"

/-- `str(e)` of the OSError `open(<ROOT>/p)` raises -/
def errMsg (e : HistW.RErr) (p : List Nat) : List Nat :=
  match e with
  | .enoent => cps "[Errno 2] No such file or directory: '<ROOT>/" ++ p ++ cps "'"
  | .eloop => cps "[Errno 40] Too many levels of symbolic links: '<ROOT>/" ++ p ++ cps "'"

def showNode : Option HistW.Node → String
  | none => "nofile"
  | some (.file b) => showText b.toList
  | some (.link t) => ">" ++ showText t

def ltPath : List Nat → List Nat → Bool
  | [], [] => false
  | [], _ => true
  | _, [] => false
  | a :: as, b :: bs => if a < b then true else if b < a then false else ltPath as bs

def insertFS (x : HistW.Path × HistW.Node) : HistW.FS → HistW.FS
  | [] => [x]
  | y :: ys => if ltPath x.1 y.1 then x :: y :: ys else y :: insertFS x ys

/-- every file and link of the world, sorted by path -/
def showFS (fs : HistW.FS) : String :=
  ";".intercalate ((fs.foldl (fun acc x => insertFS x acc) []).map (fun x =>
    match x.2 with
    | .file b => showText x.1 ++ "=" ++ showText b.toList
    | .link t => showText x.1 ++ ">" ++ showText t))

def zeroSummary (errors : Nat) : String :=
  s!"errors={errors} warnings=0 missing=0 missing_w=0 report=0 obsolete=0 changed=0 changed_w=0 unchanged=0 unchanged_w=0 keys=0"

/-- canonical result of one operation of `HistW`; `fs'` = the world afterwards, `top` = the path-free operation it
    resolved to, `ctxText` as in `showOutM` -/
def showOutW (op : HistW.Op) (top : Option HistM.Op) (ctxText : Option (Array Nat)) (fs' : HistW.FS) : HistW.Out → String
  | .fsok => "ok"
  | .fserr e => showRErr e
  | .added n w => s!"ok missing={n} missing_w={w}"
  | .unreadable side p e =>
    match op with
    | .compare _ _ _ mg =>
      "ok ; error " ++ showText (errMsg e p) ++ " ; " ++ zeroSummary (if side == .l10n then 1 else 0) ++
        (match mg with | some mp => " ;; " ++ showNode (HistW.look fs' mp) | none => "")
    | .lint .. => "ok ; error 1 1 " ++ showText (errMsg e p)
    | _ => "noread " ++ showText (errMsg e p)
  | .m o =>
    match op, o with
    | .compare _ _ _ (some mp), .merged r (some (.ok _)) => showReport r ++ " ;; " ++ showNode (HistW.look fs' mp)
    | _, _ =>
      match top with
      | some t => showOutM t ctxText o
      | none => "?"

def parsePathTok (toks : List String) : Option (List Nat × List String) := Ops.C14.parseTextTok toks

def parseOpW : List String → Option (HistW.Op × List String)
  | "write" :: p :: t :: rest => do pure (.write (← parseText p) (← parseText t).toArray, rest)
  | "remove" :: p :: rest => do pure (.remove (← parseText p), rest)
  | "rename" :: a :: b :: rest => do pure (.rename (← parseText a) (← parseText b), rest)
  | "copy" :: a :: b :: rest => do pure (.copy (← parseText a) (← parseText b), rest)
  | "symlink" :: p :: t :: rest => do pure (.symlink (← parseText p) (← parseText t), rest)
  | "readfile" :: f :: p :: rest => do pure (.readFile (← parseFmt f) (← parseText p), rest)
  | "wcompare" :: f :: r :: l :: m :: rest => do
    let mg ← if m == "-" then pure none else (parseText m).map some
    pure (.compare (← parseFmt f) (← parseText r) (← parseText l) mg, rest)
  | "wadd" :: f :: r :: rest => do pure (.add (← parseFmt f) (← parseText r), rest)
  | "wlint" :: f :: c :: r :: rest => do
    let ref ← if r == "-" then pure none else (parseText r).map some
    pure (.lint (← parseFmt f) (← parseText c) ref, rest)
  | toks => (parseOpM toks).map (fun (op, rest) => (.lift op, rest))

def parseOpsW : Nat → List String → Option (List HistW.Op)
  | _, [] => some []
  | 0, _ => none
  | fuel + 1, toks => do
    let (op, rest) ← parseOpW toks
    let ops ← parseOpsW fuel rest
    pure (op :: ops)

def runShowW : HistW.W → List HistW.Op → List String
  | _, [] => []
  | w, op :: ops =>
    let top := HistW.textOp (HistW.look w.fs) op
    let ctxText : Option (Array Nat) :=
      match top with
      | some (.rewalk f) => (w.s.g.pctx f).bind (fun a => (w.s.g.heap[a]?).map (·.contents))
      | _ => none
    let r := HistW.step w op
    (showOutW op top ctxText r.1.fs r.2 ++ s!" @@ j={r.1.s.g.junkid} f={flag r.1.s.incFlag} w=" ++ showFS r.1.fs)
      :: runShowW r.1 ops

/-- c18.wrun <op>* : a whole history of process + file system through `HistW.step`, from a fresh interpreter on an
    empty directory; per operation `result @@ junk counter, inc flag, every file of the world`, joined by " || " -/
def opWRun (toks : List String) : String :=
  match parseOpsW (toks.length + 1) toks with
  | none => "bad-args"
  | some ops => " || ".intercalate (runShowW {} ops)

def ops : List (String × (List String → String)) :=
  [("c18.run", opRun), ("c18.junkkey", opJunkKey), ("c18.mrun", opMRun), ("c18.wrun", opWRun)]
end Ops.C18

import CLModel.Proto
import CLModel.History.State
namespace Ops.C18
open Proto P Hist

def cps (s : String) : List Nat := s.toList.map Char.toNat

def showKind : Kind → String
  | .entity => "E" | .comment => "C" | .whitespace => "W" | .junk => "J" | .section => "S" | .instruction => "I"

def parseFmt : String → Option Fmt
  | "properties" => some .properties | "dtd" => some .dtd | "ini" => some .ini
  | "inc" => some .inc | "po" => some .po | _ => none

/-- one entry of a parse listing, as `harness/impl/history.py: model_entry` prints it -/
def showEnt (f : Fmt) (c : Array Nat) (e : Ent) : String :=
  match e.entry.kind with
  | .junk => s!"J {showText (e.key f c).render} {e.entry.s} {e.entry.e}"
  | .entity => s!"E {showText (e.key f c).render} {showText (e.val c)} {e.entry.full} {e.entry.s} {e.entry.e}"
  | k => s!"{showKind k} {e.entry.s} {e.entry.e}"

def showParsed (f : Fmt) (c : Array Nat) (st : Option Nat) (ents : List Ent) : String :=
  let hd := match st with | none => "done" | some o => s!"stuck {o}"
  " | ".intercalate (hd :: ents.map (showEnt f c))

def showMsg : Msg (List Nat) → String
  | .dupRef k n => "warning " ++ showText (k ++ cps s!" occurs {n} times")
  | .dupL10n k n => "error " ++ showText (k ++ cps s!" occurs {n} times")
  | .parserErrRef => "warning " ++ showText (cps "Parser error in en-US")
  | .missing k => "missingEntity " ++ showText k
  | .junkErr v p1 p2 =>
    "error " ++ showText (cps "Unparsed content \"" ++ v
      ++ cps s!"\" from line {p1.1} column {p1.2} to line {p2.1} column {p2.2}")
  | .obsolete k => "obsoleteEntity " ++ showText k
  | .mochibake k p r =>
    "warning " ++ showText ([65533] ++ cps " in: " ++ k ++ cps s!" at line {p.1}, column {p.2} for " ++ r)

def showReport : Except String (Acc (List Nat)) → String
  | .error e => "exc " ++ e
  | .ok (msgs, st) =>
    let errors := (msgs.filter Msg.isError).length
    let warnings := (msgs.filter Msg.isWarning).length
    let summ := s!"errors={errors} warnings={warnings} missing={st.missing} missing_w={st.missing_w} report=0 " ++
      s!"obsolete={st.obsolete} changed={st.changed} changed_w={st.changed_w} unchanged={st.unchanged} " ++
      s!"unchanged_w={st.unchanged_w} keys={st.keys}"
    " ; ".intercalate (["ok"] ++ msgs.map showMsg ++ [summ])

/-- parse the operations of a history -/
def parseOps : Nat → List String → Option (List Op)
  | _, [] => some []
  | 0, _ => none
  | fuel + 1, "parse" :: f :: t :: rest => do
    let f ← parseFmt f
    let t ← parseText t
    let r ← parseOps fuel rest
    pure (.parse f t.toArray :: r)
  | fuel + 1, "compare" :: f :: a :: b :: rest => do
    let f ← parseFmt f
    let a ← parseText a
    let b ← parseText b
    let r ← parseOps fuel rest
    pure (.compare f a.toArray b.toArray :: r)
  | _, _ => none

def showOut : Op → Out → String
  | .parse f text, .parsed st ents => showParsed f text st ents
  | _, .report r => showReport r
  | _, _ => "?"

/-- c18.run [<junkid0>] (parse <fmt> <text> | compare <fmt> <ref> <l10n>)* : the whole history through `Hist.run`
    from the initial state of a fresh interpreter; results joined by " || " -/
def opRun (toks : List String) : String :=
  match parseOps (toks.length + 1) toks with
  | none => "bad-args"
  | some ops =>
    let (_, outs) := Hist.run G.init ops
    " || ".intercalate ((ops.zip outs).map (fun (o, r) => showOut o r))

/-- c18.junkkey <id> <s> <e> -/
def opJunkKey (toks : List String) : String :=
  match toks with
  | [a, b, c] =>
    match parseNat a, parseNat b, parseNat c with
    | some a, some b, some c => showText (junkKey a b c)
    | _, _, _ => "bad-args"
  | _ => "bad-args"

def ops : List (String × (List String → String)) :=
  [("c18.run", opRun), ("c18.junkkey", opJunkKey)]
end Ops.C18

import CLModel.Proto
import CLModel.Parser.Formats
import CLModel.Parser.Fluent
import CLModel.Parser.C01Sess
import CLModel.Parser.C01Gen
namespace Ops.C01
open Proto P

def showKind : Kind → String
  | .entity => "E" | .comment => "C" | .whitespace => "W" | .junk => "J" | .section => "S" | .instruction => "I"

def showEntry (e : Entry) : String :=
  let pc := match e.pc with | some (a, b) => s!"{a} {b}" | none => "-1 -1"
  s!"{showKind e.kind} {e.full} {e.s} {e.e} {e.ks} {e.ke} {e.vs} {e.ve} {pc}"

def parseFmt : String → Option Fmt
  | "properties" => some .properties | "dtd" => some .dtd | "ini" => some .ini
  | "inc" => some .inc | "po" => some .po | _ => none

def showWalk (r : WalkResult) : String :=
  let (hd, es) := match r with
    | .done es => ("done", es)
    | .stuck off es => (s!"stuck {off}", es)
  " | ".intercalate (hd :: es.map showEntry)

/-- parse <fmt> <text> : full walk -/
def opParse (loc : Bool) (toks : List String) : String :=
  match toks with
  | [f, t] =>
    match parseFmt f, parseText t with
    | some f, some t => showWalk (if loc then walkLoc f t.toArray else walk f t.toArray)
    | _, _ => "bad-args"
  | _ => "bad-args"

def parseFKind : String → Option FKind
  | "M" => some .message | "T" => some .term | "J" => some .junk | "C" => some .comment | "O" => some .other
  | _ => none

def parseBody : List String → Option (List FEntry)
  | [] => some []
  | k :: s :: e :: ks :: ke :: vs :: ve :: rest => do
    let k ← parseFKind k
    let s ← parseNat s
    let e ← parseNat e
    let ks ← parseInt ks
    let ke ← parseInt ke
    let vs ← parseInt vs
    let ve ← parseInt ve
    let r ← parseBody rest
    pure ({ kind := k, s := s, e := e, ks := ks, ke := ke, vs := vs, ve := ve } :: r)
  | _ => none

/-- fluentwalk <0|1 onlyLocalizable> <text> (<kind> s e ks ke vs ve)* -/
def opFluent (toks : List String) : String :=
  match toks with
  | ol :: t :: body =>
    match parseText t, parseBody body with
    | some t, some body =>
      " | ".intercalate ("done" :: (fluentWalk t.toArray body (ol == "1")).map showEntry)
    | _, _ => "bad-args"
  | _ => "bad-args"

/-- po.strings <text> <start> : evaluated msgid / msgctxt / msgstr of the entity created at start -/
def opPoStrings (toks : List String) : String :=
  match toks with
  | [t, st] =>
    match parseText t, parseNat st with
    | some t, some st =>
      let s := t.toArray
      match poCreate s st with
      | none => "BadEntity"
      | some p =>
        let sh := fun (fr : List (Nat × Nat)) => match poEval s fr with | some t => showText t | none => "KeyError"
        let ctxt := match p.msgctxt with | some fr => sh fr | none => "None"
        s!"{sh p.msgid} {ctxt} {sh p.msgstr}"
    | _, _ => "bad-args"
  | _ => "bad-args"

/-! ### round 4 -/

def parseCmds : List String → Option (List C01M.Cmd)
  | [] => some []
  | "R" :: t :: rest => do
    let t ← parseText t
    let r ← parseCmds rest
    pure (.read t.toArray :: r)
  | "W" :: l :: rest => do
    let r ← parseCmds rest
    pure (.walk (l == "1") :: r)
  | _ => none

/-- c01.sess <fmt> (R <text> | W <0|1>)* : the walks of one parser object, in order -/
def opSess (toks : List String) : String :=
  match toks with
  | f :: cmds =>
    match parseFmt f, parseCmds cmds with
    | some f, some cmds => " || ".intercalate ((C01M.run f none cmds).map showWalk)
    | _, _ => "bad-args"
  | _ => "bad-args"

def parseBodyC : List String → Option (List C01M.FBody)
  | [] => some []
  | k :: s :: e :: ks :: ke :: vs :: ve :: c :: rest => do
    let k ← parseFKind k
    let s ← parseNat s
    let e ← parseNat e
    let ks ← parseInt ks
    let ke ← parseInt ke
    let vs ← parseInt vs
    let ve ← parseInt ve
    let c ← parseText c
    let r ← parseBodyC rest
    pure ({ b := { kind := k, s := s, e := e, ks := ks, ke := ke, vs := vs, ve := ve }, content := c } :: r)
  | _ => none

/-- c01.fluentc <0|1 onlyLocalizable> <text|none> (<kind> s e ks ke vs ve <content>)* :
    verdict of the fluent.syntax contract, then the walk that reads `entry.content` -/
def opFluentC (toks : List String) : String :=
  match toks with
  | ol :: t :: body =>
    let ctx : Option (Option (List Nat)) := if t == "none" then some none else (parseText t).map some
    match ctx, parseBodyC body with
    | some ctx, some body =>
      let ok := match ctx with | some t => C01M.contractB t.toArray body 0 | none => true
      " | ".intercalate ((if ok then "contract=1" else "contract=0") ::
        (C01M.fluentWalkC (ctx.map (·.toArray)) body (ol == "1")).map showEntry)
    | _, _ => "bad-args"
  | _ => "bad-args"

/-! ### round 5: generator objects of one parser object -/

def parseGenOps : List String → Option (List C01M.Op)
  | [] => some []
  | "R" :: t :: rest => do
    let t ← parseText t
    let r ← parseGenOps rest
    pure (.read t.toArray :: r)
  | "G" :: l :: rest => do
    let r ← parseGenOps rest
    pure (.mk (l == "1") :: r)
  | "N" :: g :: k :: rest => do
    let g ← parseNat g
    let k ← parseNat k
    let r ← parseGenOps rest
    pure (.next g k :: r)
  | "D" :: g :: rest => do
    let g ← parseNat g
    let r ← parseGenOps rest
    pure (.drain g :: r)
  | "X" :: g :: rest => do
    let g ← parseNat g
    let r ← parseGenOps rest
    pure (.close g :: r)
  | _ => none

def showOut (o : C01M.Out) : String :=
  match o with
  | .part es => " | ".intercalate ("part" :: es.map showEntry)
  | .full r => showWalk r

/-- c01.gen <fmt> (R <text> | G <0|1> | N <g> <k> | D <g> | X <g>)* :
    what the consuming operations (N, D) of a history on one parser object show, in order -/
def opGen (toks : List String) : String :=
  match toks with
  | f :: cmds =>
    match parseFmt f, parseGenOps cmds with
    | some f, some cmds => " || ".intercalate ((C01M.runG f {} cmds).map showOut)
    | _, _ => "bad-args"
  | _ => "bad-args"

def ops : List (String × (List String → String)) :=
  [("parse", opParse false), ("parse.loc", opParse true), ("fluentwalk", opFluent), ("po.strings", opPoStrings),
   ("c01.sess", opSess), ("c01.fluentc", opFluentC), ("c01.gen", opGen)]
end Ops.C01

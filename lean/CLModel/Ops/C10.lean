import CLModel.Proto
import CLModel.Compare.Observer
/-
Driver operations of C10.

`tree <n> (<nparts> <part>* <a|g>)*`
    n raw `Tree.__get(parts)` calls on a fresh `Tree(list)`, the i-th one followed by `.append(i)` if flagged `a`;
    result: full structure (dict order), `toJSON`, `getContent`, flattened view.
`obs <quiet> <rz> F <nfiles> (<file> <module|-> <locale|->)* O <nobs> (N | T <n> (<fileidx> <data> <ret>)*)*
     E <nev> (n <cat> <fileidx> <data>  |  s <fileidx> <n> (<key> <val>)*)*`
    a history run through an `ObserverList` with the given project observers; result: return values,
    error flag / summary / details JSON of the list and of every observer, `serializeDetails`,
    `serializeSummaries`, exit status.
-/
namespace Ops.C10
open Proto TreeM ObsM

/-! ### canonical output -/

def showTxt (t : Text) : String := "t" ++ ".".intercalate (t.map toString)

def showKey (k : Key) : String := "/".intercalate (k.map showTxt)

def showRet : Ret → String
  | .error => "e" | .warning => "w" | .ignore => "i"

def showCat : Cat → String
  | .error => "e" | .warning => "w" | .missingEntity => "me" | .obsoleteEntity => "oe"
  | .missingFile => "mf" | .obsoleteFile => "of" | .other => "x"

def showDetail (d : Detail) : String :=
  showCat d.1 ++ ":" ++ (match d.2 with
    | .ret r => "r" ++ showRet r
    | .data .none => "d-"
    | .data (.str t) => "d" ++ showTxt t
    | .data (.tuple ps) => "dT" ++ "|".intercalate (ps.map (fun p => match p with | none => "-" | some t => showTxt t)))

def showOptList {V} (sv : V → String) : Option (List V) → String
  | none => "N"
  | some l => "L" ++ ",".intercalate (l.map sv)

mutual
def showTree {V} (sv : V → String) : Tree V → String
  | .node br val => "<" ++ showOptList sv val ++ showBr sv br ++ ">"
def showBr {V} (sv : V → String) : List (Key × Tree V) → String
  | [] => ""
  | (k, v) :: rest => "(" ++ showKey k ++ ")" ++ showTree sv v ++ showBr sv rest
end

def showJ {V} (sv : V → String) : J V → String
  | .list v => "[" ++ ",".intercalate (v.map sv) ++ "]"
  | .dict es => "{" ++ go es ++ "}"
where
  go : List (Text × J V) → String
    | [] => ""
    | (k, j) :: rest => showTxt k ++ ">" ++ showJ sv j ++ ";" ++ go rest

def showContent {V} (sv : V → String) : Content V → String
  | .key d k => s!"k{d}:" ++ showKey k
  | .value d v => s!"v{d}:" ++ ",".intercalate (v.map sv)

def showErr (e : PyErr) : String := "!" ++ e.name

def showExceptText : Except PyErr Text → String
  | .ok t => showTxt t
  | .error e => showErr e

/-! ### token parser -/

abbrev P := StateT (List String) Option

def tok : P String := do
  match (← get) with
  | [] => failure
  | t :: rest => set rest; pure t

def nat : P Nat := do
  match parseNat (← tok) with
  | some n => pure n
  | none => failure

def text : P Text := do
  match parseText (← tok) with
  | some t => pure t
  | none => failure

def optText : P (Option Text) := do
  let t ← tok
  if t == "-" then pure none else
  match parseText t with
  | some t => pure (some t)
  | none => failure

def many (n : Nat) (p : P α) : P (List α) :=
  match n with
  | 0 => pure []
  | n + 1 => do let x ← p; let xs ← many n p; pure (x :: xs)

def counted (p : P α) : P (List α) := do let n ← nat; many n p

def expect (s : String) : P Unit := do
  let t ← tok
  if t == s then pure () else failure

/-! ### tree -/

def runTree (ops : List (List Part × Bool)) : String :=
  let rec go (t : Tree Nat) (i : Nat) : List (List Part × Bool) → Except (Nat × PyErr) (Tree Nat)
    | [] => .ok t
    | (p, app) :: rest =>
      match getMod t p (if app then (· ++ [i]) else id) with
      | .ok t' => go t' (i + 1) rest
      | .error e => .error (i, e)
  match go Tree.empty 0 ops with
  | .error (i, e) => s!"{showErr e}@{i}"
  | .ok t =>
    let sv := fun (n : Nat) => toString n
    showTree sv t ++ " json=" ++ showJ sv (toJSON t) ++ " content=" ++
      " ".intercalate ((getContent t 0).map (showContent sv)) ++ " flat=" ++
      ";".intercalate ((flatten t).map (fun pv => showKey pv.1 ++ "=" ++ ",".intercalate (pv.2.map sv)))

def opTree (toks : List String) : String :=
  match (counted (do let p ← counted text; let a ← tok; pure (p, a != "g"))).run toks with
  | some (ops, []) => runTree ops
  | _ => "bad-args"

/-! ### observers -/

/-- `-` = None, `t:…` = str, `T <n> (<t:…>|-)*` = tuple -/
def pData : P Data := do
  let t ← tok
  if t == "-" then pure .none
  else if t == "T" then do
    let ps ← counted optText
    pure (.tuple ps)
  else match parseText t with
    | some t => pure (.str t)
    | none => failure

def pFile : P File := do
  let f ← text
  let m ← optText
  let l ← optText
  pure { file := f, module := m, locale := l }

def pRet : P Ret := do
  match (← tok) with
  | "e" => pure .error | "w" => pure .warning | "i" => pure .ignore
  | _ => failure

def pCat : P Cat := do
  match (← tok) with
  | "e" => pure .error | "w" => pure .warning | "me" => pure .missingEntity | "oe" => pure .obsoleteEntity
  | "mf" => pure .missingFile | "of" => pure .obsoleteFile | "x" => pure .other
  | _ => failure

/-- a filter given by its table on the queries of the history (anything else: "error") -/
def filterOfTable (files : List File) (tbl : List (Nat × Data × Ret)) : Filter :=
  fun f d =>
    match tbl.find? (fun e => files[e.1]? == some f && e.2.1 == d) with
    | some e => e.2.2
    | none => .error

def pFilter (files : List File) : P (Option Filter) := do
  match (← tok) with
  | "N" => pure none
  | "T" =>
    let tbl ← counted (do let i ← nat; let d ← pData; let r ← pRet; pure (i, d, r))
    pure (some (filterOfTable files tbl))
  | _ => failure

def pStatKey : P StatKey := do
  match StatKey.all[(← nat)]? with
  | some k => pure k
  | none => failure

def pEv (files : List File) : P Ev := do
  match (← tok) with
  | "n" =>
    let c ← pCat
    let i ← nat
    let d ← pData
    match files[i]? with
    | some f => pure (.notify c f d)
    | none => failure
  | "s" =>
    let i ← nat
    let st ← counted (do let k ← pStatKey; let v ← nat; pure (k, v))
    match files[i]? with
    | some f => pure (.stats f st)
    | none => failure
  | _ => failure

def showLoc : Option Text → String
  | none => "-"
  | some t => showTxt t

def showSummary (s : Summary) : String :=
  ";".intercalate (s.map (fun p => showLoc p.1 ++ ":" ++ ",".intercalate (StatKey.all.map (fun k => toString (p.2 k)))))

def showObs (o : Obs) : String :=
  s!"err={if o.error then 1 else 0} sum={showSummary o.summary} det={showJ showDetail (toJSON o.details)}"

/-- run the history, collecting the return values -/
def runList (l : ObsList) (i : Nat) (acc : List String) : List Ev → Except (Nat × PyErr) (ObsList × List String)
  | [] => .ok (l, acc.reverse)
  | .notify c f d :: rest =>
    match l.notify c f d with
    | .ok (l', rv) => runList l' (i + 1) (showRet rv :: acc) rest
    | .error e => .error (i, e)
  | .stats f st :: rest => runList (l.updateStats f st) (i + 1) ("-" :: acc) rest

def opObs (toks : List String) : String :=
  let p : P (Nat × Bool × List (Option Filter) × List Ev) := do
    let q ← nat
    let rz ← nat
    expect "F"
    let files ← counted pFile
    expect "O"
    let filters ← counted (pFilter files)
    expect "E"
    let evs ← counted (pEv files)
    pure (q, rz != 0, filters, evs)
  match p.run toks with
  | some ((q, rz, filters, evs), []) =>
    let l0 := ObsList.init q (filters.map (Obs.init q))
    match runList l0 0 [] evs with
    | .error (i, e) => s!"{showErr e}@{i}"
    | .ok (l, rets) =>
      "rets=" ++ ",".intercalate rets ++ " |L " ++ showObs l.own ++
        String.join (l.observers.map (fun o => " |O " ++ showObs o)) ++
        " |sd=" ++ showExceptText (serializeDetails l.own) ++
        " |ss=" ++ showExceptText (serializeSummaries l) ++
        s!" |exit={exitStatus rz l}"
  | _ => "bad-args"

def ops : List (String × (List String → String)) :=
  [("tree", opTree), ("obs", opObs)]
end Ops.C10

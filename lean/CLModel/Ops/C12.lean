/- Driver operations added in round 4 for C11/C12: mozpath helpers, Matcher equality / concat / construction from
   a matcher / module function `expand` / encoding branches.  (The older operations are in Ops/C11.lean.) -/
import CLModel.Proto
import CLModel.Paths.MatcherX
import CLModel.Paths.MatcherObj
import CLModel.Ops.C11
namespace Ops.C12
open Proto PM Ops.C11

def showMpErr : MP.Err → String
  | .typeError => "E:TypeError" | .valueError => "E:ValueError" | .assertionError => "E:AssertionError"

def showMp {α} (f : α → String) : Except MP.Err α → String
  | .ok a => f a
  | .error e => showMpErr e

def showXErr : XErr → String
  | .py e => showErr e | .valueError => "E:ValueError" | .attributeError => "E:AttributeError"

def showX {α} (f : α → String) : Except XErr α → String
  | .ok a => f a
  | .error e => showXErr e

def texts (toks : List String) : Option (List Text) := toks.mapM parseText

def op1 (f : Text → String) (toks : List String) : String :=
  match texts toks with
  | some [p] => f p
  | _ => "bad-args"

def op2 (f : Text → Text → String) (toks : List String) : String :=
  match texts toks with
  | some [p, q] => f p q
  | _ => "bad-args"

def op3 (f : Text → Text → Text → String) (toks : List String) : String :=
  match texts toks with
  | some [p, q, r] => f p q r
  | _ => "bad-args"

def opN (f : List Text → String) (toks : List String) : String :=
  match texts toks with
  | some ps => f ps
  | none => "bad-args"

def showTexts (l : List Text) : String := "[" ++ " ".intercalate (l.map showText) ++ "]"

/-- `<cwd> <root|-> <pattern> <n> (k v)*` -/
def parseRawMatcher (toks : List String) : Option ((Text × Option Text × Text × List (Text × Text)) × List String) :=
  match toks with
  | cwd :: root :: pat :: n :: rest => do
    let cwd ← parseText cwd
    let root ← if root == "-" then pure none else (parseText root).map some
    let pat ← parseText pat
    let n ← parseNat n
    let (env, r) ← parsePairs n rest
    pure ((cwd, root, pat, env), r)
  | _ => none

def buildRaw (a : Text × Option Text × Text × List (Text × Text)) : Except PyErr Matcher :=
  mkMatcherAt a.1 a.2.2.1 a.2.2.2 a.2.1

def infoOf (m : Matcher) : String :=
  let rx := match m.regexOf with
    | .ok (re, names) => " ".intercalate (showRe re) ++ " ; " ++ ",".intercalate (names.map showText)
    | .error e => showErr e
  rx ++ " | " ++ showExc showText m.prefix ++ " | " ++ showExc showText m.str

def rootStr : Option Text → String
  | some r => showText r
  | none => "None"

/-- c12.expand <cwd> <root|-> <path> <n> (k v)* : the module function `expand(root, path, env)` -/
def opExpand (toks : List String) : String :=
  match parseRawMatcher toks with
  | some ((cwd, root, pat, env), []) => showExc showText (expandFn cwd root pat env)
  | _ => "bad-args"

/-- c12.eq <raw matcher a> <raw matcher b> : a == b, a != b, b == a, a.pattern == b.pattern, a.pattern != b.pattern,
    and `x != y` for the nodes of the two patterns position by position -/
def opEq (toks : List String) : String :=
  match parseRawMatcher toks with
  | some (a, rest) =>
    match parseRawMatcher rest with
    | some (b, []) =>
      match buildRaw a, buildRaw b with
      | .ok ma, .ok mb =>
        " ".intercalate [showB (Matcher.eq ma mb), showB (Matcher.ne ma mb), showB (Matcher.eq mb ma),
          showB (Pattern.eq ma.pattern mb.pattern), showB (Pattern.ne ma.pattern mb.pattern),
          "n" ++ String.join ((ma.pattern.nodes.zip mb.pattern.nodes).map (fun p => showB (!(Node.eq p.1 p.2))))]
      | .error e, _ => showErr e
      | _, .error e => showErr e
    | _ => "bad-args"
  | none => "bad-args"

/-- c12.concat <raw matcher a> (M <raw matcher b> | T <text>) <path>* :
    pattern of the result ; root ; regex | prefix | str ; match of every path -/
def opConcat (toks : List String) : String :=
  match parseRawMatcher toks with
  | some (a, kind :: rest) =>
    let other : Option (Except PyErr ConcatArg × List String) :=
      if kind == "M" then
        match parseRawMatcher rest with
        | some (b, r) => some ((buildRaw b).map ConcatArg.matcher, r)
        | none => none
      else
        match rest with
        | t :: r => (parseText t).map (fun t => (.ok (ConcatArg.text t), r))
        | [] => none
    match other with
    | some (ob, paths) =>
      match paths.mapM parseText with
      | some paths =>
        match buildRaw a, ob with
        | .ok ma, .ok o =>
          match ma.concat o with
          | .error e => showXErr e
          | .ok m =>
            showPattern m.pattern ++ " ; " ++ rootStr m.pattern.root ++ " ; " ++ infoOf m ++ " ; " ++
              " | ".intercalate (paths.map (fun p => showMatch (m.match p)))
        | .error e, _ => showErr e
        | _, .error e => showErr e
      | none => "bad-args"
    | none => "bad-args"
  | _ => "bad-args"

/-- c12.rebuild <raw matcher a> <newroot|-> <n> (k v)* <path>* : `Matcher(a, env, root)` -/
def opRebuild (toks : List String) : String :=
  match parseRawMatcher toks with
  | some (a, root :: n :: rest) =>
    match (if root == "-" then some none else (parseText root).map some), parseNat n with
    | some root, some n =>
      match parsePairs n rest with
      | some (env, paths) =>
        match paths.mapM parseText with
        | some paths =>
          match buildRaw a with
          | .error e => showErr e
          | .ok ma =>
            match ma.rebuild env (root.map (rootOfDir a.1)) with
            | .error e => showErr e
            | .ok m =>
              rootStr m.pattern.root ++ " ; " ++ infoOf m ++ " ; " ++
                " | ".intercalate (paths.map (fun p => showMatch (m.match p)))
        | none => "bad-args"
      | none => "bad-args"
    | _, _ => "bad-args"
  | _ => "bad-args"

def showMatchX : Except XErr (Option GroupDict) → String
  | .ok none => "None"
  | .ok (some d) => showDict d
  | .error e => showXErr e

/-- c12.enc <raw matcher a> <raw matcher b> <path>* : with `encoding="utf-8"`: prefix ; per path match and a.sub(b, path) -/
def opEnc (toks : List String) : String :=
  match parseRawMatcher toks with
  | some (a, rest) =>
    match parseRawMatcher rest with
    | some (b, paths) =>
      match paths.mapM parseText with
      | some paths =>
        match buildRaw a, buildRaw b with
        | .ok ma, .ok mb =>
          showExc showText ma.prefix ++ " ; " ++
            " | ".intercalate (paths.map (fun p =>
              showMatchX (ma.matchEnc p) ++ " " ++
              (match ma.subEnc mb p with
               | .error e => showXErr e
               | .ok none => "None"
               | .ok (some q) => showText q)))
        | .error e, _ => showErr e
        | _, .error e => showErr e
      | none => "bad-args"
    | none => "bad-args"
  | none => "bad-args"


/-! ### operation sequences on matcher OBJECTS (the regex cache is state) -/

inductive Step where
  | rebuild (root : Option Text) (env : List (Text × Text))
  | concatText (t : Text)
  | concatMatcher (m : Text × Option Text × Text × List (Text × Text))

/-- steps: `E <root|-> <n> (k v)*` | `CT <text>` | `CM <raw matcher>` -/
def parseSteps : Nat → List String → Option (List Step × List String)
  | 0, rest => some ([], rest)
  | n + 1, "E" :: root :: k :: rest => do
    let root ← if root == "-" then pure none else (parseText root).map some
    let k ← parseNat k
    let (env, r) ← parsePairs k rest
    let (ss, r') ← parseSteps n r
    pure (Step.rebuild root env :: ss, r')
  | n + 1, "CT" :: t :: rest => do
    let t ← parseText t
    let (ss, r') ← parseSteps n rest
    pure (Step.concatText t :: ss, r')
  | n + 1, "CM" :: rest => do
    let (m, r) ← parseRawMatcher rest
    let (ss, r') ← parseSteps n r
    pure (Step.concatMatcher m :: ss, r')
  | _, _ => none

def applyStep (cwd : Text) (c : CMatcher) : Step → Except XErr CMatcher
  | .rebuild root env => liftX (c.rebuild env (root.map (rootOfDir cwd)))
  | .concatText t => c.concat (.text t)
  | .concatMatcher m => do
    let o ← liftX (buildRaw m)
    c.concat (.matcher o)

def showSub : Except PyErr (Option Text) → String
  | .error e => showErr e
  | .ok none => "None"
  | .ok (some q) => showText q

/-- runs the steps; after each one the intermediate object is used once on the warm-up path -/
def runSteps (cwd warm : Text) : List Step → CMatcher → List String → Except XErr (CMatcher × List String)
  | [], c, acc => pure (c, acc)
  | st :: rest, c, acc => do
    let d ← applyStep cwd c st
    let r := d.match warm
    runSteps cwd warm rest r.2 (acc ++ [showB d.cache.isNone ++ " " ++ showMatch r.1])

/-- c12.seq <raw matcher a> <raw matcher b> <warm path> <nsteps> step* <path>* :
    a.match(warm) ; a.sub(b, warm) ; per step: cache empty? + match(warm) of the derived object ; prefix of the last one ;
    its match of every path ; its sub(b, first path) ; a.match(warm) again -/
def opSeq (toks : List String) : String :=
  match parseRawMatcher toks with
  | some (a, rest) =>
    match parseRawMatcher rest with
    | some (b, warm :: n :: rest2) =>
      match parseText warm, parseNat n with
      | some warm, some n =>
        match parseSteps n rest2 with
        | some (steps, paths) =>
          match paths.mapM parseText with
          | some paths =>
            match buildRaw a, buildRaw b with
            | .ok ma, .ok mb =>
              let ca := CMatcher.mk' ma
              let cb := CMatcher.mk' mb
              let r0 := ca.match warm
              let r1 := r0.2.sub cb warm
              let head := showMatch r0.1 ++ " ; " ++ showSub r1.1
              match runSteps a.1 warm steps r1.2 [] with
              | .error e => head ++ " ; " ++ showXErr e
              | .ok (d, acc) =>
                -- the derived object, used in sequence
                let (ms, d') := paths.foldl (fun (p : List String × CMatcher) path =>
                  let r := p.2.match path
                  (p.1 ++ [showMatch r.1], r.2)) ([], d)
                let sub := match paths with
                  | p0 :: _ => showSub (d'.sub cb p0).1
                  | [] => "-"
                let again := (r1.2.match warm).1
                head ++ " ; " ++ " , ".intercalate acc ++ " ; " ++ showExc showText d'.m.prefix ++ " ; " ++
                  " | ".intercalate ms ++ " ; " ++ sub ++ " ; " ++ showMatch again
            | .error e, _ => showErr e
            | _, .error e => showErr e
          | none => "bad-args"
        | none => "bad-args"
      | _, _ => "bad-args"
    | _ => "bad-args"
  | none => "bad-args"

/-! ### histories on a store of matcher OBJECTS (round 5: the environment dicts and the cache are state) -/

def insertKey (kv : Text × Val) : List (Text × Val) → List (Text × Val)
  | [] => [kv]
  | x :: xs => if MP.lexLt kv.1 x.1 then kv :: x :: xs else x :: insertKey kv xs

/-- the entries of a dict ordered by key (the order of insertion is not part of the snapshot) -/
def sortEnv (e : Env) : Env := e.foldl (fun acc kv => insertKey kv acc) []

def showVal : Val → String
  | .pat p => showPattern p ++ (match p.root with | some r => "@" ++ showText r | none => "")
  | .str s => "L" ++ showText s

def showEnv (e : Env) : String :=
  "{" ++ ",".intercalate ((sortEnv e).map (fun kv => showText kv.1 ++ "=" ++ showVal kv.2)) ++ "}"

/-- snapshot of one object: pattern ; root ; environment (by key) ; is something cached -/
def showObj (s : Store) (o : Nat) : String :=
  match s.view o with
  | none => "dangling"
  | some c => showPattern c.m.pattern ++ " ; " ++ rootStr c.m.pattern.root ++ " ; " ++ showEnv c.m.env ++ " ; " ++
      showB c.cache.isSome

/-- snapshots of all objects; an object whose snapshot is what it was after the previous call is shown as `=` -/
def showStore (s : Store) (prev : List String) : String × List String :=
  let cur := (List.range s.objs.length).map (showObj s)
  (" # ".intercalate ((cur.zipIdx).map (fun p => if prev[p.2]? == some p.1 then "=" else p.1)), cur)

def showOut : Except XErr Out → String
  | .error e => showXErr e
  | .ok (.text t) => showText t
  | .ok .unit => "ok"
  | .ok (.bools a b) => showB a ++ showB b
  | .ok (.groups none) => "None"
  | .ok (.groups (some d)) => showDict d
  | .ok (.optText none) => "None"
  | .ok (.optText (some t)) => showText t
  | .ok (.obj o) => s!"o{o}"

/-- ops: `B <root|-> <pattern> <n> (k v)*` | `P o` | `S o` | `X o` | `R o` | `Q o1 o2` | `M o <path>` | `U o other <path>` |
    `E o <root|-> <n> (k v)*` | `CT o <text>` | `CM o o2` | `W o <k> <v>` -/
def parseHistOps (cwd : Text) : Nat → List String → Option (List Op × List String)
  | 0, rest => some ([], rest)
  | n + 1, "B" :: root :: pat :: k :: rest => do
    let root ← if root == "-" then pure none else (parseText root).map some
    let pat ← parseText pat
    let k ← parseNat k
    let (env, r) ← parsePairs k rest
    let (ops, r') ← parseHistOps cwd n r
    pure (Op.new cwd pat env root :: ops, r')
  | n + 1, "P" :: o :: rest => do
    let o ← parseNat o
    let (ops, r') ← parseHistOps cwd n rest
    pure (Op.prefix o :: ops, r')
  | n + 1, "S" :: o :: rest => do
    let o ← parseNat o
    let (ops, r') ← parseHistOps cwd n rest
    pure (Op.str o :: ops, r')
  | n + 1, "X" :: o :: rest => do
    let o ← parseNat o
    let (ops, r') ← parseHistOps cwd n rest
    pure (Op.expandRaise o :: ops, r')
  | n + 1, "R" :: o :: rest => do
    let o ← parseNat o
    let (ops, r') ← parseHistOps cwd n rest
    pure (Op.repr o :: ops, r')
  | n + 1, "Q" :: o1 :: o2 :: rest => do
    let o1 ← parseNat o1
    let o2 ← parseNat o2
    let (ops, r') ← parseHistOps cwd n rest
    pure (Op.eq o1 o2 :: ops, r')
  | n + 1, "M" :: o :: path :: rest => do
    let o ← parseNat o
    let path ← parseText path
    let (ops, r') ← parseHistOps cwd n rest
    pure (Op.matchP o path :: ops, r')
  | n + 1, "U" :: o :: o2 :: path :: rest => do
    let o ← parseNat o
    let o2 ← parseNat o2
    let path ← parseText path
    let (ops, r') ← parseHistOps cwd n rest
    pure (Op.sub o o2 path :: ops, r')
  | n + 1, "E" :: o :: root :: k :: rest => do
    let o ← parseNat o
    let root ← if root == "-" then pure none else (parseText root).map (fun r => some (rootOfDir cwd r))
    let k ← parseNat k
    let (env, r) ← parsePairs k rest
    let (ops, r') ← parseHistOps cwd n r
    pure (Op.rebuild o env root :: ops, r')
  | n + 1, "CT" :: o :: t :: rest => do
    let o ← parseNat o
    let t ← parseText t
    let (ops, r') ← parseHistOps cwd n rest
    pure (Op.concat o (.text t) :: ops, r')
  | n + 1, "CM" :: o :: o2 :: rest => do
    let o ← parseNat o
    let o2 ← parseNat o2
    let (ops, r') ← parseHistOps cwd n rest
    pure (Op.concat o (.obj o2) :: ops, r')
  | n + 1, "W" :: o :: k :: v :: rest => do
    let o ← parseNat o
    let k ← parseText k
    let v ← parseText v
    let (ops, r') ← parseHistOps cwd n rest
    pure (Op.envSet o k v :: ops, r')
  | _, _ => none

/-- runs the history; after EVERY call: its result and the snapshot of every object of the store -/
def runHist : Store → List Op → List String → List String → List String
  | _, [], _, acc => acc
  | s, op :: ops, prev, acc =>
    match s.step op with
    | none => acc ++ ["stuck"]
    | some (r, s1) =>
      let sh := showStore s1 prev
      runHist s1 ops sh.2 (acc ++ [showOut r ++ " ~ " ++ sh.1])

/-- c12.hist <cwd> <n> op* -/
def opHist (toks : List String) : String :=
  match toks with
  | cwd :: n :: rest =>
    match parseText cwd, parseNat n with
    | some cwd, some n =>
      match parseHistOps cwd n rest with
      | some (ops, []) => " || ".intercalate (runHist Store.empty ops [] [])
      | _ => "bad-args"
    | _, _ => "bad-args"
  | _ => "bad-args"

def showOpt : Option Text → String
  | some t => showText t
  | none => "None"

def ops : List (String × (List String → String)) :=
  [("c12.mp.normsep", op1 (fun p => showText (MP.normsep p))),
   ("c12.mp.normpath", op1 (fun p => showText (MP.normpath p))),
   ("c12.mp.join", opN (fun ps => showMp showText (MP.join ps))),
   ("c12.mp.abspath", op2 (fun cwd p => showText (MP.abspath cwd p))),
   ("c12.mp.relpath", op3 (fun cwd p s => showMp showText (MP.relpath cwd p s))),
   ("c12.mp.dirname", op1 (fun p => showText (MP.dirname p))),
   ("c12.mp.basename", op1 (fun p => showText (MP.basename p))),
   ("c12.mp.splitext", op1 (fun p => let r := MP.splitext p; showText r.1 ++ " " ++ showText r.2)),
   ("c12.mp.split", op1 (fun p => showTexts (MP.split p))),
   ("c12.mp.commonprefix", opN (fun ps => showText (MP.commonprefix ps))),
   ("c12.mp.basedir", opN (fun ps => match ps with
      | p :: bases => showOpt (MP.basedir p bases)
      | [] => "bad-args")),
   ("c12.mp.rebase", opN (fun ps => match ps with
      | [cwd, o, b, r] => showMp showText (MP.rebase cwd o b r)
      | _ => "bad-args")),
   ("c12.expand", opExpand), ("c12.eq", opEq), ("c12.concat", opConcat), ("c12.rebuild", opRebuild),
   ("c12.enc", opEnc), ("c12.seq", opSeq), ("c12.hist", opHist)]
end Ops.C12

import CLModel.Proto
import CLModel.Merge.Channels
import CLModel.Merge.History
import CLModel.Ops.C18
namespace Ops.C15
open Proto Merge

def showErr : Err → String
  | .mergeNotSupported => "MergeNotSupportedError"
  | .emptySequence => "TypeError"
  | .hang => "Hang"
  | .external => "external"
  | .internal => "internal"

def showRes : Except Err (List Nat) → String
  | .ok t => "ok " ++ showText t
  | .error e => "err " ++ showErr e

def parseFmt : String → Option P.Fmt
  | "properties" => some .properties | "dtd" => some .dtd | "ini" => some .ini
  | "inc" => some .inc | "po" => some .po | _ => none

/-- merge.texts <fmt> <text>* : merge_channels on decoded texts of a regex format -/
def opTexts (toks : List String) : String :=
  match toks with
  | f :: ts =>
    match parseFmt f, ts.mapM parseText with
    | some f, some ts => showRes (mergeTexts f (ts.map List.toArray))
    | _, _ => "bad-args"
  | _ => "bad-args"

/-- merge.channels <file name> <text>* : merge_channels including parser selection -/
def opChannels (toks : List String) : String :=
  match toks with
  | n :: ts =>
    match parseText n, ts.mapM parseText with
    | some n, some ts => showRes (mergeChannels n (ts.map List.toArray))
    | _, _ => "bad-args"
  | _ => "bad-args"

def parseKind : String → Option P.Kind
  | "E" => some .entity | "C" => some .comment | "W" => some .whitespace | "J" => some .junk
  | "S" => some .section | "I" => some .instruction | _ => none

/-- entries of one version, up to the next `V`: an entry is `<kind> <key> <val> <all>`;
    the key is any injective text encoding of the Python key (only equality matters) -/
def parseEntries : List String → Option (List Ent × List String)
  | [] => some ([], [])
  | "V" :: rest => some ([], "V" :: rest)
  | k :: key :: val :: all :: rest => do
    let k ← parseKind k
    let key ← parseText key
    let val ← parseText val
    let all ← parseText all
    let (es, r) ← parseEntries rest
    pure (({ kind := k, ekey := EKey.str key, val := val, all := all, oid := (0, 0) } : Ent) :: es, r)
  | _ => none

def parseVersions : Nat → List String → Option (List (List Ent))
  | _, [] => some []
  | fuel + 1, "V" :: rest => do
    let (es, r) ← parseEntries rest
    let vs ← parseVersions fuel r
    pure (es :: vs)
  | _, _ => none

/-- Junk keys are unique per object -/
def fixJunk (ver : Nat) (es : List Ent) : List Ent :=
  es.zipIdx.map (fun p => if p.1.kind == .junk then { p.1 with ekey := EKey.junk ver p.2 } else p.1)

/-- merge.ents (V (<kind> <key> <val> <all>)*)* : merge_resources + serialize on entry lists
    (any format; the entries are taken from the real parser) -/
def opEnts (toks : List String) : String :=
  match parseVersions (toks.length + 1) toks with
  | none => "bad-args"
  | some vs =>
    match mergeResources (vs.zipIdx.map (fun p => fixJunk p.2 p.1)) with
    | none => showRes (.error .emptySequence)
    | some d => showRes (.ok (serialize d))

/-! ### round 5: a whole process history (`c15.hist`) -/

/-- one step of `MergeH`: `mchan <file name> <n> <text>*` is `merge_channels(name, resources)`; everything else is an
    operation of the C18 machine in the wire form of `c18.mrun` (`getparser`, `read`, `rewalk`, `parse`, `compare`,
    `lint`, `merge`, `serialize`, `chan`, …) -/
def parseStep : List String → Option (MergeH.Op × List String)
  | "mchan" :: n :: rest => do
    let name ← parseText n
    let (ts, r) ← Ops.C18.parseArrs rest
    pure (.merge name ts, r)
  | toks => (Ops.C18.parseOpM toks).map (fun (op, r) => (.other op, r))

def parseSteps : Nat → List String → Option (List MergeH.Op)
  | _, [] => some []
  | 0, _ => none
  | fuel + 1, toks => do
    let (op, rest) ← parseStep toks
    let ops ← parseSteps fuel rest
    pure (op :: ops)

/-- what C15 compares of a step: the merge result, the parser class of a lookup; `-` for the rest (C18's business) -/
def showStep : MergeH.Out → String
  | .merged r => showRes r
  | .other (.parser (some (cls, _))) => "gp " ++ showText cls
  | .other (.parser none) => "gp none"
  | .other (.chan r) => showRes r
  | .other _ => "-"

/-- c15.hist <EP> <step>* : a whole history through `MergeH.step` from the state of a fresh interpreter -/
def opHist (toks : List String) : String :=
  match Ops.C18.parseEp toks with
  | none => "bad-args"
  | some (ep, rest) =>
    match parseSteps (rest.length + 1) rest with
    | none => "bad-args"
    | some ops => " || ".intercalate ((MergeH.run { HistM.S.init with ep := ep } ops).2.map showStep)

def ops : List (String × (List String → String)) :=
  [("merge.texts", opTexts), ("merge.channels", opChannels), ("merge.ents", opEnts), ("c15.hist", opHist)]
end Ops.C15

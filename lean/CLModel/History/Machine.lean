/-
C18, round 4 — the state machine of `History/State.lean` extended with EVERY piece of process-wide or
instance-wide mutable state the tools have, each as an explicit component of `HistM.S`, and with the operations
that touch it (`HistM.step : S → Op → S × Out`).

| Python state                                                                      | component                |
|-----------------------------------------------------------------------------------|--------------------------|
| `Junk.junkid`, parser singletons of `parser.__constructors`, their `ctx`, every   | `S.g : Hist.G`           |
|   `Context` object with its `_lines` cache (parser/base.py)                        |                          |
| `DefinesParser.Context.filter_empty_lines` of the singleton's current Context      | `S.incFlag` (reset by    |
|   (written by every walk, reset when a walk STARTS and when a text is read)        |   `walkFl`, `readFl`)    |
| the entry points `getParser` falls back to (`pkg_resources`, process environment)  | `S.ep` (never written)   |
| `mozpath.re_cache` (module level dict pattern ↦ compiled regex)                    | `S.reCache`              |
| `Matcher._cached_re` of every live `Matcher` object                                | `S.matchers` (`MObj`)    |
| `ProjectConfig._all_locales`, `ProjectConfig._cache` (`FilterCache` with the       | `S.configs` (`CObj`,     |
|   `with_env` matchers and THEIR `_cached_re`)                                      |   `FCObj`)               |
| `DTDChecker.__known_entities` of every live checker                                | `S.checkers` (`DObj`)    |
| `DTDChecker.texthandler.textcontent` (class attribute, one per process)            | `S.textcontent`          |

Operations: the three of `Hist.step` (parse, compare, reobs), `rewalk` (walk the singleton's current Context
again), `lint` (`L10nLinter.lint_file`), `merge` (`ContentComparer.compare` with a merge file), `serialize`,
`mergeChannels`, `getParser`, `mozMatch`, Matcher objects (`mNew`, `mWithEnv`, `mMatch`, `mSub`), ProjectConfig
objects (`cNew`, `cSetLocales`, `cAddRules`, `cAddPaths`, `cFilter`, `cAllLocales`), DTDChecker objects
(`dNew`, `dKnown`, `dCheckText`).

`lintG` / `mergeInputs` are generic in the key type like `Hist.compareG` (base `Checker`: ini, inc); everything
else re-uses the pure models of the other properties (`PM.*`, `FiltM.*`, `Ser.*`, `Merge.*`, `Dtd.*`) and adds
the memo around them exactly as the Python does.  Core Lean only.
-/
import CLModel.History.State
import CLModel.Compare.Merge
import CLModel.Lint.Linter
import CLModel.Paths.Matcher
import CLModel.Paths.FilterM
import CLModel.Serialize.Serializer
import CLModel.Merge.Channels
import CLModel.Checks.Dtd
namespace HistM
open Hist P Rx

abbrev Text := List Nat

/-! ### `L10nLinter.lint_file` with the base `Checker`, generic in the key type -/

/-- one result dict of the linter (level and message text are fixed by the constructor) -/
inductive LMsg (κ : Type)
  /-- `handle_junk`: error, `Junk.error_message()` at `position()` -/
  | junk (val : List Nat) (p1 p2 : Nat × Nat)
  /-- error "Duplicate string with ID: <k>" -/
  | dup (k : κ) (pos : Nat × Nat)
  /-- warning "Changes to string require a new ID: <k>" -/
  | changed (k : κ) (pos : Nat × Nat)
  /-- warning "� in: <k>" (base `Checker.check(e, e)`) at `position(EntityPos)` -/
  | moch (k : κ) (pos : Nat × Nat)
  deriving Repr, DecidableEq

def LMsg.mapKey {κ κ' : Type} (f : κ → κ') : LMsg κ → LMsg κ'
  | .junk v p1 p2 => .junk v p1 p2
  | .dup k p => .dup (f k) p
  | .changed k p => .changed (f k) p
  | .moch k p => .moch (f k) p

/-- `EntityLinter.lint_entity` for one element of `current`; `ref = []` stands for `reference = {}` -/
def lintEnt {κ : Type} [BEq κ] (lc : Nat → Nat × Nat) (ref cur : List (KEnt κ)) (e : KEnt κ) :
    Except String (List (LMsg κ)) :=
  if e.junk then .ok [.junk e.val (lc e.s) (lc e.e)] else
  let dup : List (LMsg κ) := if (cur.map (·.key)).count e.key > 1 then [.dup e.key (lc e.s)] else []
  let checks : List (LMsg κ) := e.moch.map (fun q => .moch e.key (lc q))
  if AR.keyedContains (ref.map (·.key)) e.key then
    match lookup ref e.key with
    | none => .error "KeyError"
    | some r =>
      -- `current_entity.equals(reference_entity)`
      if e.key == r.key && e.val == r.val then .ok (dup ++ checks)
      else .ok (dup ++ [.changed e.key (lc e.s)] ++ checks)
  else .ok (dup ++ checks)

/-- the loop `for current_entity in current` -/
def lintAll {κ : Type} [BEq κ] (lc : Nat → Nat × Nat) (ref cur : List (KEnt κ)) :
    List (KEnt κ) → Except String (List (LMsg κ))
  | [] => .ok []
  | e :: rest =>
    match lintEnt lc ref cur e with
    | .error x => .error x
    | .ok a =>
      match lintAll lc ref cur rest with
      | .error x => .error x
      | .ok b => .ok (a ++ b)

/-- `list(L10nLinter().lint_file(path, ref, None))` after both files are parsed -/
def lintG {κ : Type} [BEq κ] (lc : Nat → Nat × Nat) (ref cur : List (KEnt κ)) : Except String (List (LMsg κ)) :=
  lintAll lc ref cur cur

/-! ### what the action loop of `compare` hands to `merge` (base `Checker`: no check result is an error) -/

abbrev MAcc (κ : Type) := List κ × List (Nat × Nat)

/-- the `missings.append(entity_id)` / `skips.append(junk)` statements of the loop (one unfiltered Observer:
    `notify("missingEntity")` returns "error") -/
def mergeStep {κ : Type} [BEq κ] (ref l10n : List (KEnt κ)) (acc : MAcc κ) (act : AR.Label × κ) :
    Except String (MAcc κ) :=
  match act.1 with
  | .delete =>
    match lookup ref act.2 with
    | none => .error "KeyError"
    | some r => if r.junk then .ok acc else .ok (acc.1 ++ [act.2], acc.2)
  | .add =>
    match lookup l10n act.2 with
    | none => .error "KeyError"
    | some l => if l.junk then .ok (acc.1, acc.2 ++ [(l.s, l.e)]) else .ok acc
  | .equal => .ok acc

/-- `ref_entities[key].all`, the `all` texts given as a list parallel to the entries -/
def allOf {κ : Type} [BEq κ] (ref : List (KEnt κ)) (alls : List (List Nat)) (k : κ) : Except String (List Nat) :=
  match AR.keyedIndex (ref.map (·.key)) k with
  | none => .error "KeyError"
  | some i =>
    match alls[i]? with
    | some a => .ok a
    | none => .error "IndexError"

def allsOf {κ : Type} [BEq κ] (ref : List (KEnt κ)) (alls : List (List Nat)) : List κ → Except String (List (List Nat))
  | [] => .ok []
  | k :: ks =>
    match allOf ref alls k with
    | .error x => .error x
    | .ok a =>
      match allsOf ref alls ks with
      | .error x => .error x
      | .ok as => .ok (a :: as)

/-- the arguments of `self.merge(...)`: the `all` texts of the missing reference entities and the spans to cut -/
def mergeInputs {κ : Type} [BEq κ] (ref l10n : List (KEnt κ)) (refAlls : List (List Nat)) :
    Except String (List (List Nat) × List (Nat × Nat)) :=
  match (AR.addRemove (ref.map (·.key)) (l10n.map (·.key))).foldlM (mergeStep ref l10n) ([], []) with
  | .error x => .error x
  | .ok acc =>
    match allsOf ref refAlls acc.1 with
    | .error x => .error x
    | .ok alls => .ok (alls, acc.2)

def capsOf : Fmt → Nat
  | .properties => Gen.Tables.cap_properties
  | .dtd => Gen.Tables.cap_dtd
  | .ini => Gen.Tables.cap_ini
  | .inc => Gen.Tables.cap_inc
  | .po => Gen.Tables.cap_po

/-- `ContentComparer.merge(...)` on those arguments (`Merge.merge` is the C04 model) -/
def mergeOutcome (f : Fmt) (l10n : Array Nat) (inp : List (List Nat) × List (Nat × Nat)) : Merge.Outcome :=
  Merge.merge true (capsOf f) l10n.toList
    (inp.2.map (fun sp => ({ span := some sp, junk := true, refAll := [] } : Merge.Skip))) inp.1

/-- the `all` texts of the localizable entries, parallel to `kents` -/
def allsK (c : Array Nat) (ents : List Ent) : List (List Nat) :=
  (ents.filter (·.entry.localizable)).map (fun e => e.all c)

/-! ### `DefinesParser.Context.filter_empty_lines`: the walk that also returns the final context -/

def walkFromSt {σ : Type} (next : σ → Nat → Entry × σ) (size : Nat) : Nat → σ → Nat → WalkResult × σ
  | 0, ctx, off => (if off ≥ size then .done [] else .stuck off [], ctx)
  | fuel + 1, ctx, off =>
    if off ≥ size then (.done [], ctx) else
    ((walkFromSt next size fuel (next ctx off).2 (next ctx off).1.e).1.cons (next ctx off).1,
     (walkFromSt next size fuel (next ctx off).2 (next ctx off).1.e).2)

/-- `list(p.walk())` of the DefinesParser on a Context whose flag is `fel0`; the flag the Context is left with -/
def incWalk (s : Array Nat) (fel0 : Bool) : WalkResult × Bool :=
  walkFromSt (fun fel off => definesGetNext s fel off) s.size (s.size + 1) fel0 0

/-- the flag a fresh Context of text `s` is left with after one full walk -/
def incFinal (f : Fmt) (s : Array Nat) (old : Bool) : Bool :=
  match f with
  | .inc => (incWalk s false).2
  | _ => old

/-! ### `parser.getParser` / `hasParser` with the entry-point branch -/

/-- what `iter_entry_points("compare_locales.parsers")` finds in this process -/
inductive EpEnv
  /-- `from pkg_resources import iter_entry_points` raises ImportError / OSError: `pass` -/
  | unavailable
  /-- the registered plugins in iteration order: the pattern their `use(path)` searches for, their class name -/
  | plugins (ps : List (Re × Text))

/-- `getParser(path)`: class name of the parser returned (`none` = `UserWarning("Cannot find Parser")`) and whether
    it is one of the shared instances of `__constructors` (a plugin is instantiated anew by every call) -/
def getParser (ep : EpEnv) (path : Text) : Option (Text × Bool) :=
  match Gen.Pat.parserConstructors.find? (fun item => (search path.toArray item.1 0).isSome) with
  | some item => some (item.2, true)
  | none =>
    match ep with
    | .unavailable => none
    | .plugins ps =>
      match ps.find? (fun p => (search path.toArray p.1 0).isSome) with
      | some p => some (p.2, false)
      | none => none

/-- `hasParser(path)` -/
def hasParser (ep : EpEnv) (path : Text) : Bool := (getParser ep path).isSome

/-! ### `mozpath.match` with `re_cache` -/

def mozMatchS (cache : List (Text × Re)) (path pattern : Text) : List (Text × Re) × Except PM.PyErr Bool :=
  if pattern.isEmpty then (cache, .ok true) else
  match AR.dget cache pattern with
  | some re => (cache, .ok (matchAt path.toArray re 0).isSome)
  | none =>
    match PM.mozRegex pattern with
    | .error e => (cache, .error e)
    | .ok re => (AR.dset cache pattern re, .ok (matchAt path.toArray re 0).isSome)

/-! ### `Matcher` objects with `_cached_re` -/

structure MObj where
  m : PM.Matcher
  /-- `_cached_re` together with its `groupindex` names -/
  cached : Option (Re × List Text) := none

/-- `Matcher.match` after `self._cache_regex()` -/
def matchWith (r : Re × List Text) (path : Text) : Except PM.PyErr (Option PM.GroupDict) :=
  let s := path.toArray
  match matchAt s r.1 0 with
  | none => pure none
  | some st =>
    let d := PM.groupDict s st r.2
    if d.any (·.1 == PM.androidName) && !d.any (·.1 == PM.localeName) then
      match d.lookup PM.androidName with
      | some (some a) => do
        let l ← PM.toStandard a
        pure (some (d ++ [(PM.localeName, some l)]))
      | _ => throw .typeError
    else pure (some d)

/-- `o.match(path)`: `_cache_regex` compiles only when `_cached_re is None`; a raise leaves it `None` -/
def MObj.match (o : MObj) (path : Text) : MObj × Except PM.PyErr (Option PM.GroupDict) :=
  match o.cached with
  | some r => (o, matchWith r path)
  | none =>
    match o.m.regexOf with
    | .error e => (o, .error e)
    | .ok r => ({ o with cached := some r }, matchWith r path)

/-- `self.sub(other, path)`: only `self` is matched (and caches), `other` is expanded -/
def MObj.sub (self : MObj) (other : PM.Matcher) (path : Text) : MObj × Except PM.PyErr (Option Text) :=
  match (self.match path).2 with
  | .error e => ((self.match path).1, .error e)
  | .ok none => ((self.match path).1, .ok none)
  | .ok (some d) =>
    match PM.expandTop other.pattern (PM.subEnv d other.env) with
    | .error e => ((self.match path).1, .error e)
    | .ok r => ((self.match path).1, .ok (some r))

/-! ### `ProjectConfig` objects with `_all_locales` and `_cache` -/

/-- a rule of `FilterCache.rules`: the `with_env` matcher object, key predicate, action -/
structure FCRule where
  path : MObj
  key : Option Filt.KeyPred
  action : Filt.Action

/-- `ProjectConfig.FilterCache` -/
structure FCObj where
  locale : Text
  rules : List FCRule
  l10nPaths : List MObj

structure CObj where
  locales : Option (List Text)
  environ : FiltM.Environ
  root : Option Text
  paths : List FiltM.PathEntryS
  rules : List FiltM.RuleS
  /-- `_all_locales` -/
  allLoc : Option (List Text) := none
  /-- `_cache` -/
  cache : Option FCObj := none

/-- the configuration a `CObj` stands for (no children, no excludes) -/
def CObj.spec (c : CObj) : FiltM.ConfigS := .mk c.locales c.paths c.rules [] []

/-- `all_locales` (a property): the memo is filled on first use; `sorted(set(...))` is kept as the list of
    the model (`filter` only asks for membership) -/
def CObj.allLocales (c : CObj) : CObj × List Text :=
  match c.allLoc with
  | some l => (c, l)
  | none => ({ c with allLoc := some (FiltM.ownLocalesS c.locales c.paths) }, FiltM.ownLocalesS c.locales c.paths)

/-- `cache(locale)`: the memo is returned when its locale is the queried one.  Otherwise `self._cache` is
    REPLACED by an empty `FilterCache(locale)` first and filled by the two loops: when a `with_env` raises,
    the half-filled cache stays behind. -/
def CObj.cacheFor (c : CObj) (locale : Text) : CObj × Except PM.PyErr FCObj :=
  match c.cache with
  | some fc =>
    if fc.locale == locale then (c, .ok fc) else
    match FiltM.cacheS c.paths c.rules locale with
    | .error e => ({ c with cache := none }, .error e)
    | .ok k =>
      let fc' : FCObj := { locale := locale, rules := k.rules.map (fun r => ⟨{ m := r.path }, r.key, r.action⟩),
                           l10nPaths := k.l10nPaths.map (fun m => { m := m }) }
      ({ c with cache := some fc' }, .ok fc')
  | none =>
    match FiltM.cacheS c.paths c.rules locale with
    | .error e => (c, .error e)
    | .ok k =>
      let fc' : FCObj := { locale := locale, rules := k.rules.map (fun r => ⟨{ m := r.path }, r.key, r.action⟩),
                           l10nPaths := k.l10nPaths.map (fun m => { m := m }) }
      ({ c with cache := some fc' }, .ok fc')

/-- `any(p.match(fullpath) is not None for p in cached.l10n_paths)`: short-circuit; the matchers visited keep
    their compiled regex -/
def anyMatchO (fullpath : Text) : List MObj → List MObj × Except PM.PyErr Bool
  | [] => ([], .ok false)
  | p :: ps =>
    match (p.match fullpath).2 with
    | .error e => ((p.match fullpath).1 :: ps, .error e)
    | .ok (some _) => ((p.match fullpath).1 :: ps, .ok true)
    | .ok none => ((p.match fullpath).1 :: (anyMatchO fullpath ps).1, (anyMatchO fullpath ps).2)

/-- `for rule in reversed(cached.rules): …` on the reversed list -/
def scanRulesO (fullpath : Text) (entity : Option Text) : List FCRule → List FCRule × Except PM.PyErr Filt.Action
  | [] => ([], .ok .error)
  | rule :: rest =>
    let rule' : FCRule := { rule with path := (rule.path.match fullpath).1 }
    match (rule.path.match fullpath).2 with
    | .error e => (rule' :: rest, .error e)
    | .ok none => (rule' :: (scanRulesO fullpath entity rest).1, (scanRulesO fullpath entity rest).2)
    | .ok (some _) =>
      if rule.key.isSome != entity.isSome then (rule' :: (scanRulesO fullpath entity rest).1, (scanRulesO fullpath entity rest).2)
      else
        match rule.key, entity with
        | some k, some e =>
          if !k.matches e then (rule' :: (scanRulesO fullpath entity rest).1, (scanRulesO fullpath entity rest).2)
          else (rule' :: rest, .ok rule.action)
        | _, _ => (rule' :: rest, .ok rule.action)

/-- `_filter` of a configuration without children and excludes, on the cache object -/
def FCObj.own (fc : FCObj) (file : Filt.File) (entity : Option Text) : FCObj × Except PM.PyErr (Option Filt.Action) :=
  match (anyMatchO file.fullpath fc.l10nPaths).2 with
  | .error e => ({ fc with l10nPaths := (anyMatchO file.fullpath fc.l10nPaths).1 }, .error e)
  | .ok false => ({ fc with l10nPaths := (anyMatchO file.fullpath fc.l10nPaths).1 }, .ok (Filt.pick []))
  | .ok true =>
    match (scanRulesO file.fullpath entity fc.rules.reverse).2 with
    | .error e =>
      ({ fc with l10nPaths := (anyMatchO file.fullpath fc.l10nPaths).1,
                 rules := (scanRulesO file.fullpath entity fc.rules.reverse).1.reverse }, .error e)
    | .ok a =>
      ({ fc with l10nPaths := (anyMatchO file.fullpath fc.l10nPaths).1,
                 rules := (scanRulesO file.fullpath entity fc.rules.reverse).1.reverse }, .ok (Filt.pick [some a]))

/-- `ProjectConfig.filter(l10n_file, entity)` (`filter_py is None`) -/
def CObj.filter (c : CObj) (file : Filt.File) (entity : Option Text) : CObj × Except PM.PyErr Filt.Action :=
  let c1 := c.allLocales.1
  if !(c.allLocales.2).contains file.locale then (c1, .ok .ignore) else
  match (c1.cacheFor file.locale).2 with
  | .error e => ((c1.cacheFor file.locale).1, .error e)
  | .ok fc =>
    let c2 := (c1.cacheFor file.locale).1
    match (fc.own file entity).2 with
    | .error e => ({ c2 with cache := some (fc.own file entity).1 }, .error e)
    | .ok none => ({ c2 with cache := some (fc.own file entity).1 }, .ok .ignore)
    | .ok (some a) => ({ c2 with cache := some (fc.own file entity).1 }, .ok a)

/-! ### `DTDChecker` objects: `__known_entities`, and the class-level `texthandler` -/

structure DObj where
  /-- `"android-dtd" in extra_tests` (= `processContent`) -/
  android : Bool
  /-- raw values of `self.reference` (`set_reference`), `none` when no reference was set -/
  reference : Option (List Text)
  /-- `__known_entities` -/
  known : Option (List Text) := none

/-- `known_entities(refValue)` -/
def DObj.knownEntities (d : DObj) (refValue : Text) : DObj × List Text :=
  match d.known, d.reference with
  | none, some vals =>
    let k := vals.foldl (fun acc v => Dtd.sunion acc (Dtd.entitiesForValue v)) []
    ({ d with known := some k }, k)
  | some k, _ => (d, k)
  | none, none => (d, Dtd.entitiesForValue refValue)

/-- the statements of `DTDChecker.check` that touch `texthandler`, for a localized value whose parse delivers the
    character data `chars`: `if self.processContent: textcontent = ""; setContentHandler(texthandler)` … the
    `characters` events append … `if "android-dtd" in extra_tests: processAndroidContent(texthandler.textcontent)`.
    Returns the new class attribute and what `processAndroidContent` is called with (`none`: not called). -/
def DObj.checkText (d : DObj) (textcontent : Text) (chars : List Text) : Text × Option Text :=
  if d.android then (chars.foldl (· ++ ·) [], some (chars.foldl (· ++ ·) []))
  else (textcontent, none)

/-! ### the state -/

structure S where
  g : G := {}
  incFlag : Bool := false
  ep : EpEnv := .plugins []
  reCache : List (Text × Re) := []
  matchers : List (Nat × MObj) := []
  configs : List (Nat × CObj) := []
  checkers : List (Nat × DObj) := []
  textcontent : Text := []

def S.init : S := {}

inductive Op
  | base (op : Hist.Op)
  /-- `p.readUnicode(text)` alone (what `readFile` / `readContents` end in): the singleton gets a NEW Context -/
  | read (f : Fmt) (text : Array Nat)
  /-- `list(p.walk())` on the singleton's current Context (once more, or for the first time after a `read`) -/
  | rewalk (f : Fmt)
  | lint (f : Fmt) (ref : Option (Array Nat)) (cur : Array Nat)
  | merge (f : Fmt) (ref l10n : Array Nat)
  | serialize (f : Fmt) (ref old : Array Nat) (nd : Ser.NewData)
  | mergeChannels (f : Fmt) (texts : List (Array Nat))
  | getParser (path : Text)
  | mozMatch (path pattern : Text)
  | mNew (id : Nat) (pattern : Text) (env : List (Text × Text)) (root : Option Text)
  | mWithEnv (id newId : Nat) (env : List (Text × Text))
  | mMatch (id : Nat) (path : Text)
  | mSub (id other : Nat) (path : Text)
  | cNew (id : Nat) (locales : Option (List Text)) (environ : FiltM.Environ) (root : Option Text)
      (paths : List FiltM.PathEntryM) (rules : List FiltM.RuleM)
  | cSetLocales (id : Nat) (locales : Option (List Text))
  | cAddRules (id : Nat) (rules : List FiltM.RuleM)
  | cAddPaths (id : Nat) (paths : List FiltM.PathEntryM)
  | cFilter (id : Nat) (file : Filt.File) (entity : Option Text)
  | cAllLocales (id : Nat)
  | dNew (id : Nat) (android : Bool) (reference : Option (List Text))
  | dKnown (id : Nat) (refValue : Text)
  | dCheckText (id : Nat) (refValue : Text) (chars : List Text)

inductive Out
  | base (o : Hist.Out)
  | lint (r : Except String (List (LMsg Text)))
  /-- the report, and what became of the merge file when `compare` did not raise -/
  | merged (r : Except String (Acc Text)) (o : Option (Except String Merge.Outcome))
  | bytes (r : Option Text)
  | chan (r : Except Merge.Err Text)
  | parser (cls : Option (Text × Bool))
  | bool (r : Except PM.PyErr Bool)
  | unit (r : Except PM.PyErr Unit)
  | mres (r : Except PM.PyErr (Option PM.GroupDict))
  | sub (r : Except PM.PyErr (Option Text))
  | action (r : Except PM.PyErr Filt.Action)
  | names (l : List Text)
  | text (t : Option Text)
  /-- no object under that id (a protocol error of the caller, not a Python behaviour) -/
  | noObject

/-- the report over rendered keys, as `Hist.reportStr`, for the linter -/
def lintStr (f : Fmt) (ref : Option (Array Nat)) (cur : Array Nat) (er : Option (List Ent)) (ec : List Ent) :
    Except String (List (LMsg Text)) :=
  let r : List (KEnt Text) :=
    match ref, er with
    | some rt, some es => (kents f rt es).map (KEnt.mapKey Key.render)
    | _, _ => []
  lintG (linecolOf (lineEnds cur)) r ((kents f cur ec).map (KEnt.mapKey Key.render))

/-- the arguments of `merge` over rendered keys -/
def mergeStr (f : Fmt) (ref l10n : Array Nat) (er el : List Ent) :
    Except String (List (List Nat) × List (Nat × Nat)) :=
  mergeInputs ((kents f ref er).map (KEnt.mapKey Key.render)) ((kents f l10n el).map (KEnt.mapKey Key.render))
    (allsK ref er)

/-- `parser.readContents(r); parser.walk()` for every version, oldest state first -/
def parseAll (f : Fmt) : List (Array Nat) → G → G
  | [], g => g
  | t :: ts, g => parseAll f ts (doParse g f t).1

def lastFlag (f : Fmt) : List (Array Nat) → Bool → Bool
  | [], b => b
  | t :: ts, b => lastFlag f ts (incFinal f t b)

/-- the filter flag a new Context of the parser of `f` starts with (`old` = the flag of the DefinesParser's Context,
    which only a DefinesParser read replaces) -/
def readFl (f : Fmt) (old : Bool) : Bool :=
  match f with
  | .inc => false
  | _ => old

/-- `list(p.walk())` on a Context with contents `text`; `fl` = `filter_empty_lines` of the DefinesParser's Context
    before, the second component = after.  `DefinesParser.walk` starts with `self.ctx.filter_empty_lines = False`
    ("state of one pass over the file", /repo 0f5119c): whatever an earlier walk of the same Context left is not seen;
    the flag the pass ends with stays on the Context. -/
def walkFl (f : Fmt) (text : Array Nat) (fl : Bool) : WalkResult × Bool :=
  match f with
  | .inc => incWalk text false
  | _ => (walk f text, fl)

/-- `Parser.readUnicode(text)`: `self.ctx = self.Context(text)` — a new Context object (contents `text`, no line
    cache, for the DefinesParser `filter_empty_lines = False`), whatever the parser held before -/
def doRead (s : S) (f : Fmt) (text : Array Nat) : S :=
  { s with g := { s.g with heap := s.g.heap ++ [{ contents := text }],
                           pctx := fun f' => if f' = f then some s.g.heap.length else s.g.pctx f' },
           incFlag := readFl f s.incFlag }

/-- `p.walk()` once more on the current Context of the singleton of `f` -/
def doRewalk (s : S) (f : Fmt) : S × Out :=
  match s.g.pctx f with
  | none => (s, .base (.parsed none []))          -- `if not self.ctx: return`
  | some addr =>
    match s.g.heap[addr]? with
    | none => (s, .noObject)
    | some c =>
      let w : WalkResult × Bool := walkFl f c.contents s.incFlag
      let r := assign f c.contents addr s.g.junkid 0 (entriesOf w.1)
      ({ s with g := { s.g with junkid := r.1 }, incFlag := w.2 }, .base (.parsed (stuckAt w.1) r.2))

/-- `add_paths(*paths)`: the matchers are appended one by one, a raise keeps the ones built before it -/
def buildPathsP (environ : FiltM.Environ) (root : Option Text) : List FiltM.PathEntryM → List FiltM.PathEntryS × Option PM.PyErr
  | [] => ([], none)
  | p :: ps =>
    match PM.mkMatcher p.l10n environ root with
    | .error e => ([], some e)
    | .ok m => (⟨m, p.locales⟩ :: (buildPathsP environ root ps).1, (buildPathsP environ root ps).2)

/-- `add_rules(*rules)` on compiled rules: `self.rules.extend(generator)` keeps what was yielded before a raise -/
def buildRulesP (environ : FiltM.Environ) (root : Option Text) : List FiltM.RuleM → List FiltM.RuleS × Option PM.PyErr
  | [] => ([], none)
  | r :: rs =>
    match PM.mkMatcher r.path environ root with
    | .error e => ([], some e)
    | .ok m => (⟨m, r.key, r.action⟩ :: (buildRulesP environ root rs).1, (buildRulesP environ root rs).2)

def errOut : Option PM.PyErr → Except PM.PyErr Unit
  | some e => .error e
  | none => .ok ()

def buildM (pattern : Text) (env : List (Text × Text)) (root : Option Text) : Except PM.PyErr MObj :=
  match PM.mkMatcher pattern env root with
  | .error e => .error e
  | .ok m => .ok { m := m }

/-- one operation of the tools on the whole state: the Python semantics -/
def step (s : S) : Op → S × Out
  | .base op =>
    let r := Hist.step s.g op
    let fl := match op with
      | .parse f t => incFinal f t s.incFlag
      | .compare f _ l => incFinal f l s.incFlag
      | .reobs _ _ => s.incFlag
    ({ s with g := r.1, incFlag := fl }, .base r.2)
  | .read f text => (doRead s f text, .unit (.ok ()))
  | .rewalk f => doRewalk s f
  | .lint f ref cur =>
    match ref with
    | some rt =>
      let p1 := doParse s.g f rt
      let p2 := doParse p1.1 f cur
      ({ s with g := p2.1, incFlag := incFinal f cur s.incFlag }, .lint (lintStr f ref cur (some p1.2.2) p2.2.2))
    | none =>
      let p2 := doParse s.g f cur
      ({ s with g := p2.1, incFlag := incFinal f cur s.incFlag }, .lint (lintStr f none cur none p2.2.2))
  | .merge f ref l10n =>
    let p1 := doParse s.g f ref
    let p2 := doParse p1.1 f l10n
    let rep := reportStr f ref l10n p1.2.2 p2.2.2
    let o : Option (Except String Merge.Outcome) :=
      match rep with
      | .error _ => none
      | .ok _ =>
        match mergeStr f ref l10n p1.2.2 p2.2.2 with
        | .error x => some (.error x)
        | .ok inp => some (.ok (mergeOutcome f l10n inp))
    ({ s with g := p2.1, incFlag := incFinal f l10n s.incFlag }, .merged rep o)
  | .serialize f ref old nd =>
    let p1 := doParse s.g f ref
    let p2 := doParse p1.1 f old
    ({ s with g := p2.1, incFlag := incFinal f old s.incFlag }, .bytes (Ser.serializeText f ref old nd))
  | .mergeChannels f texts =>
    ({ s with g := parseAll f texts s.g, incFlag := lastFlag f texts s.incFlag }, .chan (Merge.mergeTexts f texts))
  | .getParser path => (s, .parser (getParser s.ep path))
  | .mozMatch path pattern =>
    let r := mozMatchS s.reCache path pattern
    ({ s with reCache := r.1 }, .bool r.2)
  | .mNew id pattern env root =>
    match buildM pattern env root with
    | .error e => (s, .unit (.error e))
    | .ok o => ({ s with matchers := AR.dset s.matchers id o }, .unit (.ok ()))
  | .mWithEnv id newId env =>
    match AR.dget s.matchers id with
    | none => (s, .noObject)
    | some o =>
      match o.m.withEnv env with
      | .error e => (s, .unit (.error e))
      | .ok m => ({ s with matchers := AR.dset s.matchers newId { m := m } }, .unit (.ok ()))
  | .mMatch id path =>
    match AR.dget s.matchers id with
    | none => (s, .noObject)
    | some o => ({ s with matchers := AR.dset s.matchers id (o.match path).1 }, .mres (o.match path).2)
  | .mSub id other path =>
    match AR.dget s.matchers id, AR.dget s.matchers other with
    | some o, some o2 => ({ s with matchers := AR.dset s.matchers id (o.sub o2.m path).1 }, .sub (o.sub o2.m path).2)
    | _, _ => (s, .noObject)
  | .cNew id locales environ root paths rules =>
    match FiltM.buildPaths environ root paths with
    | .error e => (s, .unit (.error e))
    | .ok ps =>
      match FiltM.buildRules environ root rules with
      | .error e => (s, .unit (.error e))
      | .ok rs =>
        let c : CObj := { locales := locales, environ := environ, root := root, paths := ps, rules := rs }
        ({ s with configs := AR.dset s.configs id c }, .unit (.ok ()))
  | .cSetLocales id locales =>
    match AR.dget s.configs id with
    | none => (s, .noObject)
    | some c => ({ s with configs := AR.dset s.configs id { c with locales := locales, allLoc := none } }, .unit (.ok ()))
  | .cAddRules id rules =>
    match AR.dget s.configs id with
    | none => (s, .noObject)
    | some c =>
      let b := buildRulesP c.environ c.root rules
      ({ s with configs := AR.dset s.configs id { c with rules := c.rules ++ b.1 } }, .unit (errOut b.2))
  | .cAddPaths id paths =>
    match AR.dget s.configs id with
    | none => (s, .noObject)
    | some c =>
      let b := buildPathsP c.environ c.root paths
      ({ s with configs := AR.dset s.configs id { c with paths := c.paths ++ b.1, allLoc := none } }, .unit (errOut b.2))
  | .cFilter id file entity =>
    match AR.dget s.configs id with
    | none => (s, .noObject)
    | some c => ({ s with configs := AR.dset s.configs id (c.filter file entity).1 }, .action (c.filter file entity).2)
  | .cAllLocales id =>
    match AR.dget s.configs id with
    | none => (s, .noObject)
    | some c => ({ s with configs := AR.dset s.configs id c.allLocales.1 }, .names c.allLocales.2)
  | .dNew id android reference =>
    ({ s with checkers := AR.dset s.checkers id { android := android, reference := reference } }, .unit (.ok ()))
  | .dKnown id refValue =>
    match AR.dget s.checkers id with
    | none => (s, .noObject)
    | some d => ({ s with checkers := AR.dset s.checkers id (d.knownEntities refValue).1 }, .names (d.knownEntities refValue).2)
  | .dCheckText id refValue chars =>
    match AR.dget s.checkers id with
    | none => (s, .noObject)
    | some d =>
      -- `check` asks `self.known_entities(refValue)` first (fills the memo), then parses the localized value
      ({ s with checkers := AR.dset s.checkers id (d.knownEntities refValue).1,
                textcontent := (d.checkText s.textcontent chars).1 }, .text (d.checkText s.textcontent chars).2)

/-- run a history -/
def run (s : S) : List Op → S × List Out
  | [] => (s, [])
  | op :: ops => ((run (step s op).1 ops).1, (step s op).2 :: (run (step s op).1 ops).2)

/-! ### vocabulary of the round-4 theorems: coherence of the memos -/

def ReCoh (c : List (Text × Re)) : Prop := ∀ p ∈ c, PM.mozRegex p.1 = .ok p.2


def MObj.Coh (o : MObj) : Prop := ∀ r, o.cached = some r → o.m.regexOf = .ok r


def FCRule.toS (r : FCRule) : FiltM.CachedRuleS := ⟨r.path.m, r.key, r.action⟩


def FCObj.toS (fc : FCObj) : FiltM.FilterCacheS :=
  { locale := fc.locale, rules := fc.rules.map FCRule.toS, l10nPaths := fc.l10nPaths.map (·.m) }

/-- the `FilterCache` holds what `cache(locale)` computes from the current paths and rules, and every matcher in it
    holds the regex of its own pattern and environment -/
def FCObj.Coh (paths : List FiltM.PathEntryS) (rules : List FiltM.RuleS) (fc : FCObj) : Prop :=
  FiltM.cacheS paths rules fc.locale = .ok fc.toS ∧ (∀ o ∈ fc.l10nPaths, o.Coh) ∧ (∀ r ∈ fc.rules, r.path.Coh)


def CObj.Coh (c : CObj) : Prop :=
  (∀ l, c.allLoc = some l → l = FiltM.ownLocalesS c.locales c.paths) ∧
  (∀ fc, c.cache = some fc → FCObj.Coh c.paths c.rules fc)

/-- the immutable part of two configuration objects is the same -/
def CObj.Same (c c' : CObj) : Prop :=
  c'.locales = c.locales ∧ c'.environ = c.environ ∧ c'.root = c.root ∧ c'.paths = c.paths ∧ c'.rules = c.rules


/-- `known_entities(refValue)` without the memo (the C07 model `Dtd.knownEntities`) -/
def knownPure (reference : Option (List Text)) (refValue : Text) : List Text :=
  match reference with
  | some vals => vals.foldl (fun acc v => Dtd.sunion acc (Dtd.entitiesForValue v)) []
  | none => Dtd.entitiesForValue refValue

def DObj.Coh (d : DObj) : Prop :=
  ∀ k, d.known = some k → ∃ vals, d.reference = some vals ∧
    k = vals.foldl (fun acc v => Dtd.sunion acc (Dtd.entitiesForValue v)) []


/-- every memo of the state holds what a fresh computation would return -/
def Inv (s : S) : Prop :=
  ReCoh s.reCache ∧ (∀ p ∈ s.matchers, p.2.Coh) ∧ (∀ p ∈ s.configs, p.2.Coh) ∧ (∀ p ∈ s.checkers, p.2.Coh)

/-- the configuration data of a `ProjectConfig` object (everything but the two memos) -/
structure CSpec where
  locales : Option (List Text)
  environ : FiltM.Environ
  root : Option Text
  paths : List FiltM.PathEntryS
  rules : List FiltM.RuleS

def CObj.cspec (c : CObj) : CSpec :=
  { locales := c.locales, environ := c.environ, root := c.root, paths := c.paths, rules := c.rules }

/-- what the live objects ARE (their construction data), as opposed to what they have cached: the arguments an
    operation that names an object by its id really has -/
structure View where
  ep : EpEnv
  matcher : Nat → Option PM.Matcher
  config : Nat → Option CSpec
  checker : Nat → Option (Bool × Option (List Text))

def S.view (s : S) : View :=
  { ep := s.ep,
    matcher := fun i => (AR.dget s.matchers i).map (·.m),
    config := fun i => (AR.dget s.configs i).map CObj.cspec,
    checker := fun i => (AR.dget s.checkers i).map (fun d => (d.android, d.reference)) }

/-- no real key of the linted file (no reference) has the shape of a junk key -/
def NoJunkLike1 (f : Fmt) (cur : Array Nat) : Prop :=
  ∀ t, Key.real t ∈ (refK f cur).map (·.key) → ¬ JunkShaped t

/-- operations whose result is claimed to be a function of their arguments (and of the objects they name):
    everything except re-reading entries of an earlier parse (`reobs`) and walking the current Context again
    (`rewalk`), whose argument IS a piece of the state; compare / lint / merge under the hypothesis of F8 -/
def Op.closed : Op → Prop
  | .base op => op.closed
  | .rewalk _ => False
  | .lint f (some r) cur => NoJunkLikeKeys f r cur
  | .lint f none cur => NoJunkLike1 f cur
  | .merge f ref l10n => NoJunkLikeKeys f ref l10n
  | _ => True

/-- renaming of a result: junk ids `d` higher, Context addresses `a` higher (parse listings only) -/
def Out.shift (d a : Nat) : Out → Out
  | .base o => .base (o.shift d a)
  | o => o

/-- operations after which a `FilterCache` filled earlier is stale: Python's `add_rules` / `add_paths` do not
    reset `_cache` -/
def Op.mutatesConfig : Op → Bool
  | .cAddRules .. => true
  | .cAddPaths .. => true
  | _ => false

/-- `op` does not change the rules or paths of a configuration whose filter cache is filled -/
def Op.safe (s : S) : Op → Prop
  | .cAddRules id _ => ∀ c, AR.dget s.configs id = some c → c.cache = none
  | .cAddPaths id _ => ∀ c, AR.dget s.configs id = some c → c.cache = none
  | _ => True

/-- the states the tools can reach from a fresh interpreter (entry points `ep`) by safe operations -/
inductive Reachable (ep : EpEnv) : S → Prop
  | init : Reachable ep { S.init with ep := ep }
  | step (s : S) (op : Op) : Reachable ep s → op.safe s → Reachable ep (step s op).1

end HistM

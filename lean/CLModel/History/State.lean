/-
C18 — the process-wide mutable state of compare-locales made explicit.

Python state modelled (`G`):
* `Junk.junkid`            (parser/base.py)  class-level counter, bumped by every `Junk(...)` construction,
                                             embedded in `Junk.key = "_junk_%d_%d-%d" % (junkid, start, end)`
* the parser SINGLETONS    (parser/__init__.py `__constructors`): one object per format, `p.ctx` is
                                             replaced by a NEW `Context` object in every `readUnicode`
* the `Context` objects    (parser/base.py `Parser.Context`): `contents` (never assigned again) and the lazily
                                             filled `_lines` cache; entries keep a REFERENCE to their context
  `DefinesParser.Context.filter_empty_lines` lives on the context: `P.walk .inc` starts it at `false`
  for every text, which is exactly "a fresh Context per readUnicode".

Operations (`step`): parse (readUnicode + list(walk())), compare (ContentComparer.compare for the formats whose
checker is the base `Checker`: ini, inc), reobs (read key/val/all/position of entries obtained earlier).
Core Lean only.
-/
import CLModel.Parser.Formats
import CLModel.Compare.AddRemove
namespace Hist
open P Rx Gen.Pat

/-! ### `"%d" % n` and the junk key -/

def digitsF : Nat → Nat → List Nat
  | 0, _ => []
  | fuel + 1, n => if n < 10 then [48 + n] else digitsF fuel (n / 10) ++ [48 + n % 10]

/-- decimal digits of `n` as code points -/
def digits (n : Nat) : List Nat := digitsF (n + 1) n

/-- "_junk_" -/
def junkPrefix : List Nat := [95, 106, 117, 110, 107, 95]

/-- `"_junk_%d_%d-%d" % (junkid, span[0], span[1])` -/
def junkKey (id s e : Nat) : List Nat :=
  junkPrefix ++ digits id ++ [95] ++ digits s ++ [45] ++ digits e

/-! ### keys: the structured pre-image of the key strings -/

/-- what a key string was made from: the text of an entity's key span, or the three numbers of a Junk -/
inductive Key
  | real (t : List Nat)
  | junk (id s e : Nat)
  deriving Repr, DecidableEq, Inhabited

/-- the Python value of `entry.key` -/
def Key.render : Key → List Nat
  | .real t => t
  | .junk id s e => junkKey id s e

/-- renaming of junk keys: the counter started `d` higher -/
def Key.shift (d : Nat) : Key → Key
  | .real t => .real t
  | .junk id s e => .junk (id + d) s e

def Key.isJunk : Key → Bool
  | .real _ => false
  | .junk .. => true

/-! ### Python slicing, line/column -/

/-- `contents[a:b]` with Python's treatment of negative and out-of-range bounds -/
def pySlice (s : Array Nat) (a b : Int) : List Nat :=
  let n : Int := s.size
  let a' := if a < 0 then (if a + n < 0 then 0 else a + n) else (if a > n then n else a)
  let b' := if b < 0 then (if b + n < 0 then 0 else b + n) else (if b > n then n else b)
  slice s a'.toNat b'.toNat

/-- `[m.end() for m in re.compile("\n").finditer(contents)]` -/
def lineEnds (s : Array Nat) : List Nat :=
  (List.range s.size).filterMap (fun i => if s[i]? == some 10 then some (i + 1) else none)

/-- `Context.linecol` given the list of line ends: `bisect.bisect` on a sorted list counts the
    elements ≤ position; `lines[line_offset-1]` is the last of them -/
def linecolOf (lines : List Nat) (pos : Nat) : Nat × Nat :=
  let le := lines.filter (· ≤ pos)
  let lineStart := match le.getLast? with | some x => x | none => 0
  (le.length + 1, pos - lineStart + 1)

/-- a `Parser.Context` object -/
structure Ctx where
  contents : Array Nat
  /-- `_lines`: `none` until the first `linecol` call -/
  lines : Option (List Nat) := none
  deriving Repr, DecidableEq, Inhabited

/-- `Context.linecol`: returns the answer and the (possibly cache-filled) object -/
def Ctx.linecol (c : Ctx) (pos : Nat) : (Nat × Nat) × Ctx :=
  match c.lines with
  | some ls => (linecolOf ls pos, c)
  | none =>
    let ls := lineEnds c.contents
    (linecolOf ls pos, { c with lines := some ls })

/-- the cache, when filled, holds what it would be filled with -/
def Ctx.ok (c : Ctx) : Prop := c.lines = none ∨ c.lines = some (lineEnds c.contents)

/-! ### `Entry.count_words` -/

/-- `len(value.split())` -/
def splitCount : Bool → List Nat → Nat
  | _, [] => 0
  | inWord, c :: t =>
    if isSpace c then splitCount false t
    else if inWord then splitCount true t else 1 + splitCount true t

/-- `Entry.count_words`: `re_br.sub("\n", val)`, `re_sgml.sub("", value)`, `len(value.split())` -/
def countWords (val : List Nat) : Nat :=
  let v1 := subWith val.toArray Entry_re_br (fun _ _ => [10])
  let v2 := subWith v1.toArray Entry_re_sgml (fun _ _ => [])
  splitCount false v2

/-! ### parse: entries with their junk ids -/

/-- number of `Junk(...)` constructions made by the `getNext` call at offset `off0` that returned `e`.
    A returned Junk was constructed in that call.  Only `DTDParser.getNext` constructs a Junk it does not
    return: it first calls `Parser.getNext` and REPLACES a Junk result by a parsed-entity `DTDEntity` when
    `rePE` matches, so the counter is bumped although an Entity is returned. -/
def bumps (f : Fmt) (s : Array Nat) (off0 : Nat) (e : Entry) : Nat :=
  if e.kind == .junk then 1 else
  match f with
  | .dtd =>
    let off := if off0 == 0 && (matchAt s DTDParser_reHeader 0).isSome then off0 + 1 else off0
    if (getNext dtdCfg s off).kind == .junk then 1 else 0
  | _ => 0

/-- an entry object as the rest of the program holds it: a reference to its Context, the spans,
    and for a Junk the counter value its key was built from -/
structure Ent where
  ctx : Nat
  entry : Entry
  jid : Option Nat
  deriving Repr, DecidableEq, Inhabited

/-- the same entry object in a run whose counter started `d` higher and whose heap had `a` more cells -/
def Ent.shift (d a : Nat) (e : Ent) : Ent :=
  { ctx := e.ctx + a, entry := e.entry, jid := e.jid.map (· + d) }

/-- thread `Junk.junkid` through the entries of one walk (`off` = offset the entry was requested at) -/
def assign (f : Fmt) (s : Array Nat) (ctx : Nat) : Nat → Nat → List Entry → Nat × List Ent
  | n, _, [] => (n, [])
  | n, off, e :: es =>
    let n' := n + bumps f s off e
    let r := assign f s ctx n' e.e es
    (r.1, { ctx := ctx, entry := e, jid := if e.kind == .junk then some n' else none } :: r.2)

def entriesOf : WalkResult → List Entry
  | .done es => es
  | .stuck _ es => es

def stuckAt : WalkResult → Option Nat
  | .done _ => none
  | .stuck o _ => some o

/-- the key text of an Entity read through its own context `c` (`PoEntity.key` is the tuple
    `(msgid, msgctxt)`, shown here as msgid, U+0000, msgctxt or U+0001 for `None`) -/
def Ent.realKey (f : Fmt) (c : Array Nat) (e : Ent) : List Nat :=
  match f with
  | .po =>
    match poCreate c e.entry.s with
    | some p => poEvalT c p.msgid ++ [0] ++ (match p.msgctxt with | some fr => poEvalT c fr | none => [1])
    | none => []
  | _ => pySlice c e.entry.ks e.entry.ke

/-- `entry.key` -/
def Ent.key (f : Fmt) (c : Array Nat) (e : Ent) : Key :=
  match e.jid with
  | some id => .junk id e.entry.s e.entry.e
  | none => .real (e.realKey f c)

/-- `entry.raw_val` -/
def Ent.val (c : Array Nat) (e : Ent) : List Nat :=
  match e.jid with
  | some _ => slice c e.entry.s e.entry.e
  | none => pySlice c e.entry.vs e.entry.ve

def Ent.all (c : Array Nat) (e : Ent) : List Nat := slice c e.entry.full e.entry.e

/-! ### compare: generic in the key type (instantiated with strings for the Python semantics,
    with `Key` for the proofs) -/

/-- a localizable entry (Entity or Junk) with everything `ContentComparer.compare` reads from it -/
structure KEnt (κ : Type) where
  key : κ
  junk : Bool
  val : List Nat
  s : Nat
  e : Nat
  words : Nat
  /-- start offsets of U+FFFD in `all` (base `Checker.check`), already shifted to positions in the file -/
  moch : List Nat
  deriving Repr, DecidableEq

def KEnt.mapKey {κ κ' : Type} (f : κ → κ') (x : KEnt κ) : KEnt κ' :=
  { key := f x.key, junk := x.junk, val := x.val, s := x.s, e := x.e, words := x.words, moch := x.moch }

/-- one `observers.notify(...)` call -/
inductive Msg (κ : Type)
  | dupRef (k : κ) (n : Nat)             -- warning "<k> occurs <n> times"   (reference file)
  | dupL10n (k : κ) (n : Nat)            -- error   "<k> occurs <n> times"
  | parserErrRef                         -- warning "Parser error in en-US"
  | missing (k : κ)                      -- missingEntity
  | junkErr (val : List Nat) (p1 p2 : Nat × Nat)   -- error Junk.error_message()
  | obsolete (k : κ)                     -- obsoleteEntity
  | mochibake (k : κ) (p : Nat × Nat) (refKey : κ) -- warning "� in: <k> at line .. for <refKey>"
  deriving Repr, DecidableEq

def Msg.mapKey {κ κ' : Type} (f : κ → κ') : Msg κ → Msg κ'
  | .dupRef k n => .dupRef (f k) n
  | .dupL10n k n => .dupL10n (f k) n
  | .parserErrRef => .parserErrRef
  | .missing k => .missing (f k)
  | .junkErr v p1 p2 => .junkErr v p1 p2
  | .obsolete k => .obsolete (f k)
  | .mochibake k p r => .mochibake (f k) p (f r)

def Msg.isError {κ : Type} : Msg κ → Bool
  | .dupL10n .. => true | .junkErr .. => true | _ => false

def Msg.isWarning {κ : Type} : Msg κ → Bool
  | .dupRef .. => true | .parserErrRef => true | .mochibake .. => true | _ => false

/-- the `stats` dict of compare (errors/warnings are derived from the messages) -/
structure Stats where
  missing : Nat := 0
  missing_w : Nat := 0
  obsolete : Nat := 0
  changed : Nat := 0
  changed_w : Nat := 0
  unchanged : Nat := 0
  unchanged_w : Nat := 0
  keys : Nat := 0
  deriving Repr, DecidableEq, Inhabited

/-- `collections.Counter(keys)`: insertion-ordered key → count -/
def counter {κ : Type} [BEq κ] (keys : List κ) : List (κ × Nat) :=
  keys.foldl (fun d k => AR.dset d k (match AR.dget d k with | some c => c + 1 | none => 1)) []

/-- `Parser.findDuplicates` -/
def findDuplicates {κ : Type} [BEq κ] (keys : List κ) : List (κ × Nat) :=
  (counter keys).filter (fun p => p.2 > 1)

/-- `KeyedTuple.__getitem__(key)` -/
def lookup {κ : Type} [BEq κ] (ents : List (KEnt κ)) (k : κ) : Option (KEnt κ) :=
  match AR.keyedIndex (ents.map (·.key)) k with
  | some i => ents[i]?
  | none => none

abbrev Acc (κ : Type) := List (Msg κ) × Stats

/-- the body of the `for action, entity_id in ar` loop of `ContentComparer.compare`
    (one Observer without filter: `notify` returns "error"; checker = base `Checker`) -/
def compareStep {κ : Type} [BEq κ] (isKey : κ → Bool) (lc : Nat → Nat × Nat) (ref l10n : List (KEnt κ))
    (acc : Acc κ) (act : AR.Label × κ) : Except String (Acc κ) :=
  let (msgs, st) := acc
  let k := act.2
  match act.1 with
  | .delete =>
    match lookup ref k with
    | none => .error "KeyError"
    | some r =>
      if r.junk then .ok (msgs ++ [.parserErrRef], st)
      else .ok (msgs ++ [.missing k], { st with missing := st.missing + 1, missing_w := st.missing_w + r.words })
  | .add =>
    match lookup l10n k with
    | none => .error "KeyError"
    | some l =>
      if l.junk then .ok (msgs ++ [.junkErr l.val (lc l.s) (lc l.e)], st)
      else .ok (msgs ++ [.obsolete k], { st with obsolete := st.obsolete + 1 })
  | .equal =>
    match lookup ref k, lookup l10n k with
    | some r, some l =>
      -- `refent.equals(l10nent)` : `Junk` has no `equals` (and no `count_words`)
      if !isKey k && r.junk then .error "AttributeError" else
      let st' :=
        if isKey k then { st with keys := st.keys + 1 }
        else if r.val == l.val then { st with unchanged := st.unchanged + 1, unchanged_w := st.unchanged_w + r.words }
        else { st with changed := st.changed + 1, changed_w := st.changed_w + r.words }
      .ok (msgs ++ l.moch.map (fun q => .mochibake l.key (lc q) r.key), st')
    | _, _ => .error "KeyError"

/-- `ContentComparer.compare` after both files are parsed -/
def compareG {κ : Type} [BEq κ] (isKey : κ → Bool) (lc : Nat → Nat × Nat) (ref l10n : List (KEnt κ)) :
    Except String (Acc κ) :=
  let rk := ref.map (·.key)
  let lk := l10n.map (·.key)
  let m0 : List (Msg κ) := (findDuplicates rk).map (fun p => .dupRef p.1 p.2)
    ++ (findDuplicates lk).map (fun p => .dupL10n p.1 p.2)
  (AR.addRemove rk lk).foldlM (compareStep isKey lc ref l10n) (m0, {})

/-- `ContentComparer.keyRE.search(entity_id)` -/
def isKeyStr (k : List Nat) : Bool := (search k.toArray ContentComparer_keyRE 0).isSome

/-- the same test on the structured key.  A junk key is `_junk_<digits>_<digits>-<digits>`: it contains
    no `e`, hence cannot match `[kK]ey` (`Hist.isKeyStr_junkKey` in Proofs/C18Digits). -/
def isKeyK : Key → Bool
  | .real t => isKeyStr t
  | .junk .. => false

/-- materialise one localizable entry -/
def kent (f : Fmt) (c : Array Nat) (e : Ent) : KEnt Key :=
  let val := e.val c
  let all := e.all c
  { key := e.key f c, junk := e.jid.isSome, val := val, s := e.entry.s, e := e.entry.e,
    words := countWords val,
    moch := (finditer all.toArray checks_base_mochibake).map (fun m => e.entry.s + m.1) }

/-- the localizable entries of one parse (`p.parse()`) -/
def kents (f : Fmt) (c : Array Nat) (ents : List Ent) : List (KEnt Key) :=
  (ents.filter (·.entry.localizable)).map (kent f c)

/-! ### global state and steps -/

structure G where
  /-- `Junk.junkid` -/
  junkid : Nat := 0
  /-- every `Context` object created so far, by allocation order (address = index) -/
  heap : List Ctx := []
  /-- `p.ctx` of the singleton parser of each format -/
  pctx : Fmt → Option Nat := fun _ => none

def G.init : G := {}

inductive Op
  | parse (f : Fmt) (text : Array Nat)
  | compare (f : Fmt) (ref l10n : Array Nat)
  /-- read key / raw_val / all / position() / position(-1) of an entry obtained from an earlier parse -/
  | reobs (f : Fmt) (e : Ent)

/-- what a tool reads off an entry object -/
structure Obs where
  key : Key
  val : List Nat
  all : List Nat
  pos : Nat × Nat
  posEnd : Nat × Nat
  deriving Repr, DecidableEq

/-- `readUnicode(text)` on the singleton of format `f`, then `list(p.walk())` -/
def doParse (g : G) (f : Fmt) (text : Array Nat) : G × Option Nat × List Ent :=
  let addr := g.heap.length
  let w := walk f text
  let r := assign f text addr g.junkid 0 (entriesOf w)
  ({ junkid := r.1, heap := g.heap ++ [{ contents := text }],
     pctx := fun f' => if f' = f then some addr else g.pctx f' }, stuckAt w, r.2)

/-- reading an entry's attributes through its context reference (fills that context's line cache) -/
def doObs (g : G) (f : Fmt) (e : Ent) : G × Option Obs :=
  match g.heap[e.ctx]? with
  | none => (g, none)
  | some c =>
    let (p1, c1) := c.linecol e.entry.s
    let (p2, c2) := c1.linecol e.entry.e
    ({ g with heap := g.heap.set e.ctx c2 },
     some { key := e.key f c.contents, val := e.val c.contents, all := e.all c.contents, pos := p1, posEnd := p2 })

/-- pure version of the observation (no cache fill), used to state `entities_survive` -/
def obsPure (heap : List Ctx) (f : Fmt) (e : Ent) : Option Obs :=
  (heap[e.ctx]?).map fun c =>
    let ls := match c.lines with | some ls => ls | none => lineEnds c.contents
    { key := e.key f c.contents, val := e.val c.contents, all := e.all c.contents,
      pos := linecolOf ls e.entry.s, posEnd := linecolOf ls e.entry.e }

/-- the report over STRUCTURED keys compared as the strings they render to: this is the Python semantics
    (`Junk.key` is a formatted string; dict lookups, `Counter`, `AddRemove` compare strings) -/
def reportStr (f : Fmt) (ref l10n : Array Nat) (er el : List Ent) : Except String (Acc (List Nat)) :=
  compareG isKeyStr (linecolOf (lineEnds l10n))
    ((kents f ref er).map (KEnt.mapKey Key.render)) ((kents f l10n el).map (KEnt.mapKey Key.render))

/-- the same over structured keys (junk keys are never equal to real keys) -/
def reportK (f : Fmt) (ref l10n : Array Nat) (er el : List Ent) : Except String (Acc Key) :=
  compareG isKeyK (linecolOf (lineEnds l10n)) (kents f ref er) (kents f l10n el)

/-- result of one operation -/
inductive Out
  | parsed (stuck : Option Nat) (ents : List Ent)
  | report (r : Except String (Acc (List Nat)))
  | obs (o : Option Obs)

/-- one operation of the tools on the global state: the Python semantics -/
def step (g : G) : Op → G × Out
  | .parse f text =>
    let (g', st, ents) := doParse g f text
    (g', .parsed st ents)
  | .compare f ref l10n =>
    let (g1, _, er) := doParse g f ref
    let (g2, _, el) := doParse g1 f l10n
    (g2, .report (reportStr f ref l10n er el))
  | .reobs f e =>
    let (g', o) := doObs g f e
    (g', .obs o)

/-- run a history -/
def run (g : G) : List Op → G × List Out
  | [] => (g, [])
  | op :: ops =>
    let (g1, o) := step g op
    let (g2, os) := run g1 ops
    (g2, o :: os)

/-! ### vocabulary of the C18 theorems -/

/-- the entries of one parse in a fresh interpreter (counter 0, first Context) -/
def ents0 (f : Fmt) (text : Array Nat) : List Ent := (assign f text 0 0 0 (entriesOf (walk f text))).2

/-- the number of `Junk(...)` constructions of one parse -/
def bump0 (f : Fmt) (text : Array Nat) : Nat := (assign f text 0 0 0 (entriesOf (walk f text))).1

/-- the reference's localizable entries with structured keys, in a fresh interpreter -/
def refK (f : Fmt) (ref : Array Nat) : List (KEnt Key) := kents f ref (ents0 f ref)

/-- the localization's entries: parsed after the reference, so its junk ids start after the reference's -/
def l10nK (f : Fmt) (ref l10n : Array Nat) : List (KEnt Key) :=
  (kents f l10n (ents0 f l10n)).map (KEnt.mapKey (Key.shift (bump0 f ref)))

/-- a text that is the key string of some Junk -/
def JunkShaped (t : List Nat) : Prop := ∃ i s e, t = junkKey i s e

/-- no real key of either file has the shape `_junk_<n>_<a>-<b>` -/
def NoJunkLikeKeys (f : Fmt) (ref l10n : Array Nat) : Prop :=
  ∀ t, Key.real t ∈ (refK f ref).map (·.key) ++ (l10nK f ref l10n).map (·.key) → ¬ JunkShaped t

/-- renaming of a result: junk ids `d` higher, Context addresses `a` higher; reports carry neither -/
def Out.shift (d a : Nat) : Out → Out
  | .parsed st ents => .parsed st (ents.map (Ent.shift d a))
  | .report r => .report r
  | .obs o => .obs o

/-- operations that do not refer to objects of earlier operations -/
def Op.closed : Op → Prop
  | .parse .. => True
  | .compare f ref l10n => NoJunkLikeKeys f ref l10n
  | .reobs .. => False

/-- all entry objects returned by the operations of a run -/
def Out.ents : Out → List Ent
  | .parsed _ ents => ents
  | _ => []

/-- `Junk.key` of an entry object (`none` for the other classes) -/
def Ent.junkKeyStr (e : Ent) : Option (List Nat) := e.jid.map (fun i => junkKey i e.entry.s e.entry.e)

end Hist

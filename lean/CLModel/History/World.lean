/-
C18, round 5 — the FILE SYSTEM as an explicit component of the state.

In `History/Machine.lean` the operations carry the TEXTS of the files they work on: the file system is implicit, and
"the same path read twice" cannot even be said.  Here the world is explicit:

* `W.fs : Path ↦ Node` (a regular file with its contents, or a symbolic link), written by `write` / `remove` /
  `rename` / `copy` / `symlink` and by l10n-merge (the merge target is a file of the same world);
* the operations that READ take PATHS: `readFile` (`Parser.readFile` + `list(p.walk())`), `compare`
  (`ContentComparer.compare(File(ref), File(l10n), merge_file)`), `add` (`ContentComparer.add`: a file missing in the
  localization, its strings are counted), `lint` (`L10nLinter.lint_file(path, ref, None)`);
* everything else is an operation of `HistM` (`lift`).

Every read goes to the world AS IT IS NOW (`open(path)` in `Parser.readFile`, `os.path.isfile(ref)` in `lint_file`):
`textOp` resolves the paths of an operation to the path-free operation of `HistM` the Python ends up performing on the
shared parsers, and the process state `W.s : HistM.S` moves by THAT operation.  `HistM.Op` of a read operation carries
texts only — no component of `S` can be keyed by a path, because no path ever reaches `HistM.step`
(`C18.state_forgets_paths`).  A module-level cache `path ↦ parsed file` in the code is a component this model
does not have: it shows as a disagreement of the `c18.wrun` correspondence on a history that rewrites a path between two
reads.

Paths are opaque texts (the normalised path relative to the root of the world); directories are implicit (the tools
create them on demand, a path of the pool is never a prefix of another one).  File contents are the decoded text
(assumption of C18: UTF-8, no carriage returns).  Core Lean only.
-/
import CLModel.History.Machine
namespace HistW
open Hist HistM P

abbrev Path := List Nat

/-- what a path holds -/
inductive Node
  /-- a regular file with its (decoded) contents -/
  | file (b : Array Nat)
  /-- a symbolic link (target: a path of the same world) -/
  | link (target : Path)

/-- the world as the tools see it: what is at a path (`none`: nothing) -/
abbrev Look := Path → Option Node

/-- the world as a value: an insertion-ordered dict -/
abbrev FS := List (Path × Node)

def look (fs : FS) : Look := AR.dget fs

/-- `os.remove(p)` on the dict -/
def FS.erase (fs : FS) (p : Path) : FS := fs.filter (fun q => !(q.1 == p))

/-- why `open(path)` fails -/
inductive RErr
  /-- `[Errno 2] No such file or directory` (also: a link to nothing) -/
  | enoent
  /-- `[Errno 40] Too many levels of symbolic links` -/
  | eloop
  deriving DecidableEq, Repr

/-- `open` follows symbolic links, at most 40 of them (Linux `MAXSYMLINKS`): the path that is finally opened -/
def resolve (l : Look) : Nat → Path → Except RErr Path
  | 0, _ => .error .eloop
  | fuel + 1, p =>
    match l p with
    | some (.link t) => resolve l fuel t
    | _ => .ok p

/-- `open(path).read()` -/
def readAt (l : Look) (p : Path) : Except RErr (Array Nat) :=
  match resolve l 41 p with
  | .error e => .error e
  | .ok q =>
    match l q with
    | some (.file b) => .ok b
    | _ => .error .enoent

inductive Side | ref | l10n | cur
  deriving DecidableEq, Repr

inductive Op
  /-- the harness (a working copy update, an editor): `p` is unlinked if present and created with contents `b` -/
  | write (p : Path) (b : Array Nat)
  /-- `os.remove(p)`: the entry itself (a link, not its target) -/
  | remove (p : Path)
  /-- `os.replace(a, b)`: the entry itself moves -/
  | rename (a b : Path)
  /-- the contents of `a` (through links) in a NEW file `b` -/
  | copy (a b : Path)
  /-- `p` is unlinked if present, then `os.symlink(target, p)` -/
  | symlink (p target : Path)
  /-- `p = getParser(path); p.readFile(path); list(p.walk())` -/
  | readFile (f : Fmt) (p : Path)
  /-- `ContentComparer().compare(File(ref, name), File(l10n, name, locale), merge_file)` with one Observer -/
  | compare (f : Fmt) (ref l10n : Path) (merge : Option Path)
  /-- `ContentComparer().add(File(ref, name), File(<missing>, name, locale), None)` -/
  | add (f : Fmt) (ref : Path)
  /-- `list(L10nLinter().lint_file(cur, ref, None))` -/
  | lint (f : Fmt) (cur : Path) (ref : Option Path)
  /-- an operation that touches no file -/
  | lift (op : HistM.Op)

inductive Out
  | fsok
  | fserr (e : RErr)
  /-- the result of the path-free operation on the current contents -/
  | m (o : HistM.Out)
  /-- `open` failed: `compare` / `add` notify `error` for that file and return, `lint_file` yields one error result,
      `readFile` raises -/
  | unreadable (side : Side) (p : Path) (e : RErr)
  /-- `add`: `updateStats(missing, {"missing": n})`, `{"missing_w": words}` -/
  | added (n words : Nat)

/-- the reference `lint_file` uses: `if ref is not None and os.path.isfile(ref)` (follows links, False on any error) -/
def lintRef (l : Look) : Option Path → Option (Array Nat)
  | none => none
  | some rp =>
    match readAt l rp with
    | .ok a => some a
    | .error _ => none

/-- the path-free operation the Python performs on the shared parsers for `op` in the world `l`: every path is read
    NOW.  `none`: the shared state is not touched (file-system operations; the first `open` fails). -/
def textOp (l : Look) : Op → Option HistM.Op
  | .readFile f p =>
    match readAt l p with
    | .ok t => some (.base (.parse f t))
    | .error _ => none
  | .compare f r lp mg =>
    match readAt l r with
    | .error _ => none
    | .ok a =>
      match readAt l lp with
      -- `p.readFile(ref_file); ref_entities = p.parse()` is done when `p.readFile(l10n)` raises
      | .error _ => some (.base (.parse f a))
      | .ok b =>
        match mg with
        | none => some (.base (.compare f a b))
        | some _ => some (.merge f a b)
  | .add f r =>
    match readAt l r with
    | .ok a => some (.base (.parse f a))
    | .error _ => none
  | .lint f c r =>
    match readAt l c with
    | .ok b => some (.lint f (lintRef l r) b)
    | .error _ =>
      match lintRef l r with
      | some a => some (.base (.parse f a))
      | none => none
  | .lift op => some op
  | _ => none

/-- `len(entities)` and the word count of `add`: the localizable entries without the Junk.  `KEnt.words` counts the words
    of the RAW value; `Entity.count_words` counts those of `val`: the same for the formats whose `val` is `raw_val` (ini, inc —
    the formats `compare` is tied for), not for properties / dtd / po (unescaping). -/
def addCounts {κ : Type} (K : List (KEnt κ)) : Nat × Nat :=
  ((K.filter (fun e => !e.junk)).length, ((K.filter (fun e => !e.junk)).map (·.words)).foldl (· + ·) 0)

def addOf (f : Fmt) (a : Array Nat) : HistM.Out → Out
  | .base (.parsed _ ents) => .added (addCounts (kents f a ents)).1 (addCounts (kents f a ents)).2
  | o => .m o

def mergedOf : HistM.Out → Option (Except String Merge.Outcome)
  | .merged _ o => o
  | _ => none

/-- what `ContentComparer.merge` leaves at `merge_file` (the C04 outcome applied to the world; nothing is written
    when `compare` raised before, when `merge` raises in its sort, or when the format cannot be merged).
    Assumption: a merge target is never a symbolic link. -/
def mergeWrite (fs : FS) (mp : Path) (ref l10n : Array Nat) : Option (Except String Merge.Outcome) → FS
  | some (.ok .copyRef) => AR.dset fs mp (.file ref)
  | some (.ok .copyL10n) => AR.dset fs mp (.file l10n)
  | some (.ok (.copyL10nPlus tr)) => AR.dset fs mp (.file (l10n.toList ++ tr).toArray)
  | some (.ok (.written t)) => AR.dset fs mp (.file t.toArray)
  | _ => fs

structure W where
  /-- the process: everything `HistM` knows -/
  s : HistM.S := {}
  /-- the files -/
  fs : FS := []

/-- one operation on process and world: the Python semantics -/
def step (w : W) : Op → W × Out
  | .write p b => ({ w with fs := AR.dset w.fs p (.file b) }, .fsok)
  | .remove p =>
    match look w.fs p with
    | none => (w, .fserr .enoent)
    | some _ => ({ w with fs := w.fs.erase p }, .fsok)
  | .rename a b =>
    match look w.fs a with
    | none => (w, .fserr .enoent)
    | some n => if a == b then (w, .fsok) else ({ w with fs := AR.dset (w.fs.erase a) b n }, .fsok)
  | .copy a b =>
    match readAt (look w.fs) a with
    | .error e => (w, .fserr e)
    | .ok t => ({ w with fs := AR.dset w.fs b (.file t) }, .fsok)
  | .symlink p t => ({ w with fs := AR.dset w.fs p (.link t) }, .fsok)
  | .readFile f p =>
    match readAt (look w.fs) p with
    | .error e => (w, .unreadable .cur p e)
    | .ok t => ({ w with s := (HistM.step w.s (.base (.parse f t))).1 }, .m (HistM.step w.s (.base (.parse f t))).2)
  | .compare f r lp mg =>
    match readAt (look w.fs) r with
    | .error e => (w, .unreadable .ref r e)
    | .ok a =>
      match readAt (look w.fs) lp with
      | .error e => ({ w with s := (HistM.step w.s (.base (.parse f a))).1 }, .unreadable .l10n lp e)
      | .ok b =>
        match mg with
        | none =>
          ({ w with s := (HistM.step w.s (.base (.compare f a b))).1 }, .m (HistM.step w.s (.base (.compare f a b))).2)
        | some mp =>
          ({ s := (HistM.step w.s (.merge f a b)).1,
             fs := mergeWrite w.fs mp a b (mergedOf (HistM.step w.s (.merge f a b)).2) },
           .m (HistM.step w.s (.merge f a b)).2)
  | .add f r =>
    match readAt (look w.fs) r with
    | .error e => (w, .unreadable .ref r e)
    | .ok a => ({ w with s := (HistM.step w.s (.base (.parse f a))).1 }, addOf f a (HistM.step w.s (.base (.parse f a))).2)
  | .lint f c r =>
    match readAt (look w.fs) c with
    | .ok b =>
      ({ w with s := (HistM.step w.s (.lint f (lintRef (look w.fs) r) b)).1 },
       .m (HistM.step w.s (.lint f (lintRef (look w.fs) r) b)).2)
    | .error e =>
      match lintRef (look w.fs) r with
      | some a => ({ w with s := (HistM.step w.s (.base (.parse f a))).1 }, .unreadable .cur c e)
      | none => (w, .unreadable .cur c e)
  | .lift op => ({ w with s := (HistM.step w.s op).1 }, .m (HistM.step w.s op).2)

def run (w : W) : List Op → W × List Out
  | [] => (w, [])
  | op :: ops => ((run (step w op).1 ops).1, (step w op).2 :: (run (step w op).1 ops).2)

/-! ### vocabulary of the round-5 theorems -/

/-- the process state after `op`, as a function of the state before and of the PATH-FREE operation only -/
def sAfter (s : HistM.S) : Option HistM.Op → HistM.S
  | none => s
  | some top => (HistM.step s top).1

/-- an operation whose result is claimed to be a function of its arguments and of the current world: the path-free
    operation it resolves to is closed (`HistM.Op.closed`: F8 hypothesis for compare / lint / merge, no `rewalk` /
    `reobs`) -/
def Op.closedIn (l : Look) (op : Op) : Prop :=
  match textOp l op with
  | some top => top.closed
  | none => True

def Out.shift (d a : Nat) : Out → Out
  | .m o => .m (o.shift d a)
  | o => o

def Op.safe (w : W) : Op → Prop
  | .lift op => op.safe w.s
  | _ => True

def Op.mutatesConfig : Op → Bool
  | .lift op => op.mutatesConfig
  | _ => false

/-- a fresh interpreter (entry points `ep`) started on ANY files, then safe operations -/
inductive Reachable (ep : EpEnv) : W → Prop
  | init (fs : FS) : Reachable ep { s := { S.init with ep := ep }, fs := fs }
  | step (w : W) (op : Op) : Reachable ep w → op.safe w → Reachable ep (step w op).1

/-- updates of the world as a function -/
def lset (l : Look) (p : Path) (n : Node) : Look := fun q => if q == p then some n else l q
def ldel (l : Look) (p : Path) : Look := fun q => if q == p then none else l q

def mergeLook (l : Look) (mp : Path) (ref l10n : Array Nat) : Option (Except String Merge.Outcome) → Look
  | some (.ok .copyRef) => lset l mp (.file ref)
  | some (.ok .copyL10n) => lset l mp (.file l10n)
  | some (.ok (.copyL10nPlus tr)) => lset l mp (.file (l10n.toList ++ tr).toArray)
  | some (.ok (.written t)) => lset l mp (.file t.toArray)
  | _ => l

end HistW

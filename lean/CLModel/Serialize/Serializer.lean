/-
Model of `compare_locales.serializer` (serialize, sanitize_old, placeholder, prune_placeholders),
of `compare_locales.merge` (merge_resources, merge_two, get_newer_entity, get_older_entity, prune,
serialize_legacy_resource) and of `parser.base.Entity.wrap`.  Core Lean only.

Entries are modelled at the ENTRY level: class (`Kind`), `.key`, `.raw_val`, `.all`, and for entities
backed by a parsing context the two slices `wrap` keeps (`pre`, `post`).  `ofEntry` computes them from the
spans of a parsed `P.Entry` with Python's slice semantics (negative indices count from the end: the
`.inc` parser stores `(-1, -1)` for a missing value group).

Python dicts / OrderedDicts are insertion-ordered association lists (`AR.dset`, `AR.dget`).
`Whitespace` objects are used as their own dict keys (identity hash): modelled as `(resource, index)`.
-/
import CLModel.Parser.Formats
import CLModel.Compare.AddRemove
import CLModel.Gen.Tables
namespace Ser

/-- the classes `isinstance` distinguishes in serializer.py / merge.py.
    `entity` = Entity that is not a PlaceholderEntity (parsed entities and LiteralEntity),
    `other` = Entry that is none of the rest (IniSection, DefinesInstruction),
    `sticky` = StickyEntry (Android DocumentWrapper). -/
inductive Kind | entity | placeholder | comment | whitespace | junk | other | sticky
  deriving Repr, DecidableEq, Inhabited

structure Ent where
  kind : Kind
  /-- `.key` (Entity, PlaceholderEntity, IniSection, DefinesInstruction, StickyEntry); for a Comment: `.val`
      (what merge.py keys comments by); unused for Whitespace -/
  key : List Nat
  /-- `.raw_val` -/
  val : List Nat
  /-- `.all` -/
  all : List Nat
  /-- `ctx.contents[_span_start() : val_span[0]]` (entities with a context) -/
  pre : List Nat := []
  /-- `ctx.contents[val_span[1] : span[1]]` -/
  post : List Nat := []
  deriving Repr, DecidableEq, Inhabited

/-- `isinstance(e, Entity)` -/
def Ent.isEntity (e : Ent) : Bool := e.kind == .entity || e.kind == .placeholder
def Ent.isPlaceholder (e : Ent) : Bool := e.kind == .placeholder
def Ent.isJunk (e : Ent) : Bool := e.kind == .junk
def Ent.isWs (e : Ent) : Bool := e.kind == .whitespace
def Ent.isComment (e : Ent) : Bool := e.kind == .comment
def Ent.isSticky (e : Ent) : Bool := e.kind == .sticky
/-- an Entity that is not a placeholder -/
def Ent.isReal (e : Ent) : Bool := e.kind == .entity

/-! ### parser.base -/

/-- `Entity.wrap(raw_val)`: `LiteralEntity(self.key, raw_val, contents[start:val_span[0]] + raw_val + contents[val_span[1]:span[1]])` -/
def wrap (e : Ent) (raw : List Nat) : Ent :=
  { kind := .entity, key := e.key, val := raw, all := e.pre ++ raw ++ e.post }

/-- `PlaceholderEntity(key)` -/
def mkPlaceholder (key : List Nat) : Ent :=
  { kind := .placeholder, key := key, val := Gen.Tables.placeholderVal, all := Gen.Tables.placeholderAll }

/-! ### serializer.py -/

/-- `placeholder(entry)` -/
def placeholder (e : Ent) : Ent := if e.isEntity then mkPlaceholder e.key else e

/-- `new_data`: a dict key -> raw value or None (items in insertion order) -/
abbrev NewData := List (List Nat × Option (List Nat))

/-- `ref_mapping = {entry.key: entry for entry in reference if isinstance(entry, Entity)}` -/
def refMapping (ref : List Ent) : List (List Nat × Ent) :=
  (ref.filter Ent.isEntity).foldl (fun d e => AR.dset d e.key e) []

/-- `should_placeholder(entry)` of sanitize_old -/
def shouldPlaceholder (known : List (List Nat)) (nd : NewData) (e : Ent) : Bool :=
  if !e.isEntity then false
  else if !known.contains e.key then true
  else
    match AR.dget nd e.key with          -- `entry.key in new_data and new_data[entry.key] is None`
    | some none => true
    | _ => false

/-- `sanitize_old(known_keys, old_l10n, new_data)` -/
def sanitizeOld (known : List (List Nat)) (old : List Ent) (nd : NewData) : List Ent :=
  (old.filter (fun e => !e.isJunk)).map (fun e => if shouldPlaceholder known nd e then placeholder e else e)

/-- the loop building `new_l10n` -/
def newL10n (rm : List (List Nat × Ent)) (nd : NewData) : List Ent :=
  nd.filterMap fun (key, v) =>
    match v with
    | none => none                        -- `new_raw_val is None`
    | some raw =>
      match AR.dget rm key with
      | none => none                      -- `key not in ref_mapping`
      | some refEnt => some (wrap refEnt raw)

/-- `prune_whitespace(acc, entity)`; the accumulator is kept reversed (`acc[-1]` is the head) -/
def pruneWsStep (racc : List Ent) (entity : Ent) : List Ent :=
  match racc with
  | prev :: rest =>
    if entity.isWs && prev.isWs then
      if entity.all.length > prev.all.length then entity :: rest else racc
    else entity :: racc
  | [] => entity :: racc

/-- `prune_placeholders(entries)` -/
def prunePlaceholders (entries : List Ent) : List Ent :=
  ((entries.filter (fun e => !e.isPlaceholder)).foldl pruneWsStep []).reverse

/-! ### merge.py -/

/-- dict keys of `get_key_value`: `entity.key`, `(comment.val, n)`, or the Whitespace object itself -/
inductive MKey
  | str (k : List Nat)
  | cmt (val : List Nat) (n : Nat)
  | ws (src idx : Nat)
  deriving Repr, DecidableEq, Inhabited

abbrev Dict := List (MKey × Ent)

/-- `[get_key_value(entity, counter) for entity in resource]`; `cnt` is the `defaultdict(int)`,
    `src`/`i` identify the Whitespace object -/
def pairsOf (src : Nat) : List (List Nat × Nat) → Nat → List Ent → List (MKey × Ent)
  | _, _, [] => []
  | cnt, i, e :: es =>
    if e.isComment then
      let n := (match AR.dget cnt e.key with | some c => c | none => 0) + 1     -- counter[entity.val] += 1
      (MKey.cmt e.key n, e) :: pairsOf src (AR.dset cnt e.key n) (i + 1) es
    else if e.isWs then (MKey.ws src i, e) :: pairsOf src cnt (i + 1) es
    else (MKey.str e.key, e) :: pairsOf src cnt (i + 1) es

/-- `OrderedDict(pairs)` -/
def mkDict (pairs : List (MKey × Ent)) : Dict := pairs.foldl (fun d p => AR.dset d p.1 p.2) []

/-- `parse_resource(resource)` for an already parsed resource -/
def parseResource (src : Nat) (es : List Ent) : Dict := mkDict (pairsOf src [] 0 es)

/-- `get_newer_entity` -/
def getNewer (newer older : Dict) (k : MKey) : Option Ent :=
  match AR.dget newer k with
  | some e => some e
  | none => AR.dget older k

/-- `get_older_entity`: the older one unless missing or a StickyEntry -/
def getOlder (newer older : Dict) (k : MKey) : Option Ent :=
  match AR.dget older k with
  | none => AR.dget newer k
  | some e => if e.isSticky then AR.dget newer k else some e

/-- `prune(acc, cur)` of merge_two; accumulator reversed.  `acc[-1] = (entity, entity)`: a Whitespace
    entry is its own key, which is the key it already has in `cur`. -/
def pruneStep (racc : List (MKey × Ent)) (cur : MKey × Option Ent) : List (MKey × Ent) :=
  match cur.2 with
  | none => racc                                         -- Nones stand for duplicated comments
  | some entity =>
    match racc with
    | (pk, prev) :: rest =>
      if entity.isWs && prev.isWs then
        if entity.all.length > prev.all.length then (cur.1, entity) :: rest else (pk, prev) :: rest
      else (cur.1, entity) :: (pk, prev) :: rest
    | [] => [(cur.1, entity)]

/-- `merge_two(newer, older, keep_newer)` -/
def mergeTwo (newer older : Dict) (keepNewer : Bool) : Dict :=
  let diff := AR.addRemove (newer.map (·.1)) (older.map (·.1))
  let getEntity := if keepNewer then getNewer else getOlder
  let contents := diff.map (fun p => (p.2, getEntity newer older p.2))
  let pruned := (contents.foldl pruneStep []).reverse
  mkDict pruned

/-- `merge_resources(parser, resources, keep_newest)` for a non-empty list of parsed resources
    (`reduce` over `map(parse_resource, resources)`), returning `entities.values()` -/
def mergeResources (first : List Ent) (rest : List (List Ent)) (keepNewest : Bool) : List Ent :=
  let d0 := parseResource 0 first
  let ds := rest.zipIdx.map (fun ri => parseResource (ri.2 + 1) ri.1)
  (ds.foldl (fun x y => mergeTwo x y keepNewest) d0).map (·.2)

/-- `serialize_legacy_resource` -/
def serializeLegacy (es : List Ent) : List Nat := (es.map (·.all)).flatten

/-! ### serialize -/

/-- the entry list `pruned` of `serialize(filename, reference, old_l10n, new_data)` -/
def serializeEnts (ref old : List Ent) (nd : NewData) : List Ent :=
  let placeholders := (ref.filter (fun e => !e.isJunk)).map placeholder
  let rm := refMapping ref
  let old' := sanitizeOld (rm.map (·.1)) old nd
  let newL := newL10n rm nd
  let merged := mergeResources placeholders [old', newL] false
  prunePlaceholders merged

/-- the text `serialize` returns (before encoding) -/
def serializeOut (ref old : List Ent) (nd : NewData) : List Nat := serializeLegacy (serializeEnts ref old nd)

/-! ### from parsed entries (regex formats) -/

/-- Python index normalisation of a slice bound -/
def pyIdx (n : Nat) (i : Int) : Nat :=
  if i < 0 then (if i + (n : Int) < 0 then 0 else (i + (n : Int)).toNat) else min i.toNat n

/-- `contents[a:b]` for possibly negative `a`, `b` -/
def pySlice (s : Array Nat) (a b : Int) : List Nat := P.slice s (pyIdx s.size a) (pyIdx s.size b)

def commentStyle : P.Fmt → P.CommentStyle
  | .properties => .offset Gen.Tables.offsetCommentDefault
  | .dtd => .dtd
  | .ini => .offset Gen.Tables.offsetCommentDefault
  | .inc => .offset Gen.Tables.offsetCommentDefines
  | .po => .plain

/-- the entry-level view of a parsed entry -/
def ofEntry (f : P.Fmt) (s : Array Nat) (e : P.Entry) : Ent :=
  let all := e.all s
  match e.kind with
  | .entity =>
    { kind := .entity, key := pySlice s e.ks e.ke, val := pySlice s e.vs e.ve, all := all,
      pre := pySlice s (e.full : Int) e.vs, post := pySlice s e.ve (e.e : Int) }
  | .comment => { kind := .comment, key := P.commentVal (commentStyle f) all, val := [], all := all }
  | .whitespace => { kind := .whitespace, key := [], val := all, all := all }
  | .junk => { kind := .junk, key := [], val := all, all := all }
  | .section => { kind := .other, key := pySlice s e.ks e.ke, val := pySlice s e.vs e.ve, all := all }
  | .instruction => { kind := .other, key := pySlice s e.ks e.ke, val := pySlice s e.vs e.ve, all := all }

/-- `list(parser.walk())` as entry-level values; `none` when the walk would not terminate -/
def walkEnts (f : P.Fmt) (s : Array Nat) : Option (List Ent) :=
  match P.walk f s with
  | .done es => some (es.map (ofEntry f s))
  | .stuck _ _ => none

/-- end to end: parse reference and old localization with the format's parser, serialize -/
def serializeText (f : P.Fmt) (ref old : Array Nat) (nd : NewData) : Option (List Nat) :=
  match walkEnts f ref, walkEnts f old with
  | some r, some o => some (serializeOut r o nd)
  | _, _ => none

end Ser

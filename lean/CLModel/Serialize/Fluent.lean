/-
Model of the Fluent side of `serialize` (round 4): `FluentEntity.wrap`, the printer contract of
`fluent.syntax.serializer.serialize_comment` (the only piece of fluent.syntax's serializer the code under
test calls), `FluentComment.val`, and the entry-level view of `FluentParser.walk` (on top of the C01 model
`P.fluentEntry`, which has the junk/white-space split).  Core Lean only.

The body returned by the external parser `fluent.syntax.FluentParser.parse` is an INPUT: per body entry its
kind and spans (`P.FEntry`) and, for messages / terms that carry a comment and for stand-alone comments,
the comment's `content` text.
-/
import CLModel.Serialize.Serializer
import CLModel.Parser.Fluent
namespace Ser

/-- a body entry of fluent.syntax together with the comment content the code reads:
    `entry.comment.content` (Message / Term; `none` = `entry.comment is None`) or `entry.content` (BaseComment) -/
structure FBody where
  entry : P.FEntry
  comment : Option (List Nat) := none
  deriving Repr, DecidableEq, Inhabited

/-- `str.split("\n")` -/
def splitNl : List Nat → List (List Nat)
  | [] => [[]]
  | c :: cs =>
    match splitNl cs with
    | l :: ls => if c == 10 then [] :: l :: ls else (c :: l) :: ls
    | [] => [[c]]      -- unreachable: `splitNl` never returns `[]`

/-- `"\n".join(lines)` -/
def joinNl : List (List Nat) → List Nat
  | [] => []
  | [l] => l
  | l :: ls => l ++ 10 :: joinNl ls

/-- `fluent.syntax.serializer.serialize_comment(comment)` with the default prefix `#`:
    `"#\n"` for empty content, else every line prefixed by `#` (empty line) or `# `, joined by newlines,
    plus the trailing line break -/
def serializeComment (content : List Nat) : List Nat :=
  if content.isEmpty then [35, 10]
  else joinNl ((splitNl content).map (fun line => if line.isEmpty then [35] else 35 :: 32 :: line)) ++ [10]

/-- the entry-level view of a Fluent entry yielded by the walk for body entry `b`.
    Entities: `wrap` is `LiteralEntity(key, raw, serialize_comment(entry.comment) + raw)` (or just `raw`), i.e.
    `pre` = the re-created reference comment, `post` = nothing; `raw_val` is `None` without a value (`val` is unused by
    the serializer: it is set to the empty text).  Comments are keyed by `entry.content` (`FluentComment._val_cache`). -/
def fluentToEnt (s : Array Nat) (b : FBody) (e : P.Entry) : Ent :=
  let all := e.all s
  match e.kind with
  | .entity =>
    { kind := .entity, key := pySlice s e.ks e.ke, val := [], all := all,
      pre := (match b.comment with | some c => serializeComment c | none => []), post := [] }
  | .comment => { kind := .comment, key := (match b.comment with | some c => c | none => []), val := [], all := all }
  | .whitespace => { kind := .whitespace, key := [], val := all, all := all }
  | .junk => { kind := .junk, key := [], val := all, all := all }
  | .section => { kind := .other, key := [], val := [], all := all }        -- never produced by the Fluent walk
  | .instruction => { kind := .other, key := [], val := [], all := all }    -- never produced by the Fluent walk

def wsEnt (s : Array Nat) (a b : Nat) : Ent :=
  { kind := .whitespace, key := [], val := P.slice s a b, all := P.slice s a b }

/-- `list(FluentParser.walk())` as entry-level values (same control flow as `P.fluentWalkFrom`) -/
def fluentWalkEntsFrom (s : Array Nat) : List FBody → Nat → List Ent
  | [], last => if s.size > last then [wsEnt s last s.size] else []
  | b :: rest, last =>
    (if b.entry.s > last then [wsEnt s last b.entry.s] else [])
    ++ (P.fluentEntry s false b.entry).map (fluentToEnt s b) ++ fluentWalkEntsFrom s rest b.entry.e

def fluentWalkEnts (s : Array Nat) (body : List FBody) : List Ent := fluentWalkEntsFrom s body 0

/-- `serialize("x.ftl", list(ref.walk()), list(old.walk()), new_data)` before encoding -/
def serializeFluent (ref : Array Nat) (rbody : List FBody) (old : Array Nat) (obody : List FBody) (nd : NewData) : List Nat :=
  serializeOut (fluentWalkEnts ref rbody) (fluentWalkEnts old obody) nd

end Ser

/-
Model of `AndroidEntity.wrap` (round 4) on a summary of the minidom element, and of the printer contract of
`xml.dom.minidom` for exactly the pieces `wrap` relies on (`Element.toxml` of a `<string>` element whose child
nodes are Text / CDATASection / Comment / anything else).  Core Lean only.

`AndroidParser.walk` itself is NOT modelled (minidom is external): the entries it yields are inputs, given with the
facts the serializer reads (`all`, `key`, class) and, for entities, the element summary `wrap` clones.
-/
import CLModel.Serialize.Serializer
namespace Ser

/-- node classes `wrap` / `toxml` distinguish among the children of a `<string>` element -/
inductive NodeKind | text | cdata | comment | pi | other
  deriving Repr, DecidableEq, Inhabited

/-- a child node: `data` for Text / CDATASection / Comment / ProcessingInstruction (whose `xml` is its target);
    `xml` = `node.toxml()` for any other node (Element, …), which `wrap` cannot change by assigning `.data` -/
structure XNode where
  kind : NodeKind
  data : List Nat := []
  xml : List Nat := []
  deriving Repr, DecidableEq, Inhabited

/-- the cloned element: `open_` = `<` tagName and the attributes as minidom prints them (everything before `>` / `/>`) -/
structure XElem where
  open_ : List Nat
  tag : List Nat
  children : List XNode
  deriving Repr, DecidableEq, Inhabited

/-- `_write_data`: `&`, `<`, `"`, `>` are replaced (in this order; `&` first) -/
def xmlEscape : List Nat → List Nat
  | [] => []
  | c :: cs =>
    (if c == 38 then [38, 97, 109, 112, 59]            -- &amp;
     else if c == 60 then [38, 108, 116, 59]           -- &lt;
     else if c == 34 then [38, 113, 117, 111, 116, 59] -- &quot;
     else if c == 62 then [38, 103, 116, 59]           -- &gt;
     else [c]) ++ xmlEscape cs

inductive XErr | unboundChild | cdataEnd | commentDashes
  deriving Repr, DecidableEq, Inhabited

def cdataOpen : List Nat := [60, 33, 91, 67, 68, 65, 84, 65, 91]   -- <![CDATA[
def cdataClose : List Nat := [93, 93, 62]                           -- ]]>

/-- `node.toxml()` of a child -/
def XNode.toxml (n : XNode) : Except XErr (List Nat) :=
  match n.kind with
  | .text => .ok (xmlEscape n.data)
  | .cdata => if P.isInfix cdataClose n.data then .error .cdataEnd else .ok (cdataOpen ++ n.data ++ cdataClose)
  | .comment => if P.isInfix [45, 45] n.data then .error .commentDashes else .ok ([60, 33, 45, 45] ++ n.data ++ [45, 45, 62])
  | .pi => .ok ([60, 63] ++ n.xml ++ [32] ++ n.data ++ [63, 62])          -- `<?target data?>`
  | .other => .ok n.xml

def childrenXml : List XNode → Except XErr (List Nat)
  | [] => .ok []
  | n :: ns => do
    let a ← n.toxml
    let b ← childrenXml ns
    pure (a ++ b)

/-- `Element.toxml()` (no indentation, `newl = ""`) -/
def XElem.toxml (e : XElem) : Except XErr (List Nat) :=
  if e.children.isEmpty then .ok (e.open_ ++ [47, 62])
  else do
    let c ← childrenXml e.children
    pure (e.open_ ++ [62] ++ c ++ [60, 47] ++ e.tag ++ [62])

/-- index of the child `wrap` assigns to:
    `if clone.childNodes.length == 1: child = clone.childNodes[0]`
    `else: for child in clone.childNodes: if child.nodeType == CDATA_SECTION_NODE: break`
    — after a loop without `break` the variable holds the LAST child; over zero children it is unbound. -/
def wrapTarget (cs : List XNode) : Except XErr Nat :=
  if cs.length == 1 then .ok 0
  else
    match cs.findIdx? (fun n => n.kind == .cdata) with
    | some i => .ok i
    | none => if cs.isEmpty then .error .unboundChild else .ok (cs.length - 1)

/-- `child.data = raw_val`: replaces the character data of Text / CDATASection / Comment / ProcessingInstruction nodes; on any other node it
    only sets an unused Python attribute -/
def setData (n : XNode) (raw : List Nat) : XNode :=
  match n.kind with
  | .other => n
  | _ => { n with data := raw }

/-- `AndroidEntity.wrap(raw_val)`: `pre` = `pre_comment.all + inner_white.all` (each if present) -/
def androidWrap (key pre : List Nat) (el : XElem) (raw : List Nat) : Except XErr Ent := do
  let i ← wrapTarget el.children
  let cs := el.children.modify i (fun n => setData n raw)
  let x ← ({ el with children := cs } : XElem).toxml
  pure { kind := .entity, key := key, val := raw, all := pre ++ x }

/-- an entry of an Android walk: a plain entry, or an entity with what `wrap` needs -/
structure AEnt where
  ent : Ent
  pre : List Nat := []
  el : Option XElem := none
  deriving Repr, DecidableEq, Inhabited

/-- the loop building `new_l10n`, with `AndroidEntity.wrap` -/
def newL10nAndroid (rm : List (List Nat × AEnt)) : NewData → Except XErr (List Ent)
  | [] => .ok []
  | (key, v) :: rest =>
    match v with
    | none => newL10nAndroid rm rest
    | some raw =>
      match AR.dget rm key with
      | none => newL10nAndroid rm rest
      | some r =>
        match r.el with
        | none => newL10nAndroid rm rest           -- not produced: every Android Entity has its element
        | some el => do
          let w ← androidWrap key r.pre el raw
          let ws ← newL10nAndroid rm rest
          pure (w :: ws)

/-- `serialize("strings.xml", reference, old_l10n, new_data)` on Android entries (entry list before `serialize_legacy_resource`) -/
def serializeAndroid (ref : List AEnt) (old : List Ent) (nd : NewData) : Except XErr (List Ent) := do
  let refE := ref.map (·.ent)
  let placeholders := (refE.filter (fun e => !e.isJunk)).map placeholder
  let rm : List (List Nat × AEnt) := (ref.filter (fun a => a.ent.isEntity)).foldl (fun d a => AR.dset d a.ent.key a) []
  let old' := sanitizeOld (rm.map (·.1)) old nd
  let newL ← newL10nAndroid rm nd
  pure (prunePlaceholders (mergeResources placeholders [old', newL] false))

end Ser

/-
Model of `compare_locales/lint/util.py`: the three `get_reference_and_tests` callables the command line hands to
`L10nLinter.lint` (round 4), together with `ProjectFiles.match` (paths/files.py) which the l10n-base variant calls.

The `Matcher` objects are the concrete model `PM.Matcher` of paths/matcher.py (C11/C12): `match`, `sub`, pattern
expansion and the regular expression are computed, not assumed.  Inputs are the dictionaries of
`ProjectFiles.matchers` as the real `ProjectFiles.__init__` built them (C13 models that constructor): per entry the
`l10n` matcher, the optional `reference` and `merge` matchers and the `test` set (sorted list of names).
`mozpath.abspath(basedir) + "/"` (the root `paths.Matcher(matcher, root=basedir)` stores) is an input.
Transliteration: same branches in the same order; `Except PM.PyErr` = the Python code raises.  Core Lean only.
-/
import CLModel.Paths.Matcher
namespace LintUtil
open PM

/-- a Python `set` of test names as its sorted list -/
abbrev Tests := List Text

/-- one dict of `ProjectFiles.matchers` -/
structure Rule where
  l10n : Matcher
  /-- `matchers["reference"]` if `"reference" in matchers` -/
  reference : Option Matcher := none
  /-- `matchers["merge"]` if present -/
  merge : Option Matcher := none
  /-- `matchers.get("test")` -/
  test : Option Tests := some []

/-- a `ProjectFiles` object: `locale`, `matchers`, `exclude` -/
inductive Files where
  | mk (locale : Option Text) (matchers : List Rule) (exclude : Option Files)

def Files.locale : Files → Option Text | .mk l _ _ => l
def Files.matchers : Files → List Rule | .mk _ m _ => m
def Files.exclude : Files → Option Files | .mk _ _ e => e

/-- what a `get_reference_and_tests(path)` returns -/
abbrev RefTests := Option Text × Option Tests

/-! ### default_reference_and_tests -/

/-- `default_reference_and_tests(path)`: `return None, None` -/
def defaultGet (_path : Text) : RefTests := (none, none)

/-! ### mirror_reference_and_tests -/

/-- `paths.Matcher(matcher, root=basedir)`: copy of the pattern (nodes, prefix_length) with the new root, copy of the
    environment (updated with the empty `env`); `root` = `mozpath.abspath(basedir) + "/"` -/
def reroot (m : Matcher) (root : Text) : Matcher :=
  { pattern := { m.pattern with root := some root }, env := dupdate m.env [] }

/-- the loop `for matchers in files.matchers` of the closure `get_reference_and_tests` -/
def mirrorGo (root : Text) (path : Text) : List Rule → Except PyErr RefTests
  | [] => .ok (none, none)                            -- return None, None
  | r :: rest =>
    match r.reference with
    | none => mirrorGo root path rest                  -- if "reference" not in matchers: continue
    | some matcher =>
      match matcher.match path with
      | .error e => .error e
      | .ok none => mirrorGo root path rest            -- if matcher.match(path) is None: continue
      | .ok (some _) =>
        -- ref_matcher = paths.Matcher(matcher, root=basedir); ref_path = matcher.sub(ref_matcher, path)
        match matcher.sub (reroot matcher root) path with
        | .error e => .error e
        | .ok refPath => .ok (refPath, r.test)        -- return ref_path, matchers.get("test")

/-- `mirror_reference_and_tests(files, basedir)(path)` -/
def mirrorGet (files : Files) (root : Text) (path : Text) : Except PyErr RefTests :=
  mirrorGo root path files.matchers

/-! ### ProjectFiles.match -/

/-- the tuple `ProjectFiles.match` returns -/
structure MatchRes where
  l10n : Text
  reference : Option Text
  merge : Option Text
  tests : Option Tests

/-- `matcher.sub(matchers[k], path) if k in matchers else None` -/
def subOpt (m : Matcher) (other : Option Matcher) (path : Text) : Except PyErr (Option Text) :=
  match other with
  | none => .ok none
  | some o => m.sub o path

/-- the loop `for matchers in self.matchers` of `ProjectFiles.match`; `excluded q` stands for
    `self.locale is not None and self.exclude and self.exclude.match(q) is not None` -/
def matchRules (locNotNone : Bool) (excluded : Text → Except PyErr Bool) (path : Text) :
    List Rule → Except PyErr (Option MatchRes)
  | [] => .ok none
  | r :: rest =>
    -- if self.locale is not None and matcher.match(path) is not None   (short circuit: no match call in validation mode)
    match (if locNotNone then r.l10n.match path else .ok none) with
    | .error e => .error e
    | .ok (some _) =>
      match subOpt r.l10n r.reference path with
      | .error e => .error e
      | .ok ref =>
        match subOpt r.l10n r.merge path with
        | .error e => .error e
        | .ok merge => .ok (some { l10n := path, reference := ref, merge := merge, tests := r.test })
    | .ok none =>
      match r.reference with
      | none => matchRules locNotNone excluded path rest     -- if "reference" not in matchers: continue
      | some matcher =>
        match matcher.match path with
        | .error e => .error e
        | .ok none => matchRules locNotNone excluded path rest
        | .ok (some _) =>
          match matcher.sub r.l10n path with
          | .error e => .error e
          | .ok none => .error .typeError        -- not reachable: `sub` repeats the successful `match`
          | .ok (some l10n) =>
            match excluded l10n with
            | .error e => .error e
            | .ok true => .ok none                  -- the localized file belongs to an excluded config
            | .ok false =>
              match subOpt matcher r.merge path with
              | .error e => .error e
              | .ok merge => .ok (some { l10n := l10n, reference := some path, merge := merge, tests := r.test })

/-- `ProjectFiles.match(path)` -/
def Files.matchPath : Files → Text → Except PyErr (Option MatchRes)
  | .mk locale ms exclude, path =>
    let excl : Text → Except PyErr Bool := fun q =>
      if locale.isSome then
        match exclude with
        | some ex =>
          match ex.matchPath q with
          | .error e => .error e
          | .ok r => .ok r.isSome
        | none => .ok false
      else .ok false
    match excl path with
    | .error e => .error e
    | .ok true => .ok none
    | .ok false => matchRules locale.isSome excl path ms

/-! ### l10n_base_reference_and_tests -/

/-- `l10n_base_reference_and_tests(files)(path)` -/
def l10nBaseGet (files : Files) (path : Text) : Except PyErr RefTests :=
  match files.matchPath path with
  | .error e => .error e
  | .ok none => .ok (none, none)                          -- if match is None: return None, None
  | .ok (some r) => .ok (some r.l10n, r.tests)           -- ref, _, _, extra_tests = match  (the FIRST member: the l10n path)

/-! ### the choice `lint/cli.py main` makes -/

inductive Mode | default | l10nBase | mirror
  deriving Repr, DecidableEq, Inhabited

/-- the callable `main` hands to the linter -/
def getRefTests (mode : Mode) (files : Files) (root : Text) (path : Text) : Except PyErr RefTests :=
  match mode with
  | .default => .ok (defaultGet path)
  | .l10nBase => l10nBaseGet files path
  | .mirror => mirrorGet files root path

end LintUtil

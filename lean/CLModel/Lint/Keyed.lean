/-
`KeyedTuple.__contains__` and `KeyedTuple.__getitem__` (keyedtuple.py) with their fall-backs to `tuple` (round 4).
`AR.keyedMap` / `AR.keyedIndex` / `AR.keyedContains` (Compare/AddRemove.lean, C20) model the `__map` part; here the
`try … except` wrappers around it are transliterated as well:

* `__contains__(q)`: `q in self.__map` (a `TypeError` for an unhashable `q` is swallowed), else `tuple.__contains__(q)`,
  i.e. membership of `q` among the ITEMS (entity objects compare by identity);
* `__getitem__(q)`: `self.__map[q]` (`KeyError`/`TypeError` swallowed), then `tuple.__getitem__`.

An item is `(key, identity)`; keys are hashable values that are never equal to an item or to an int
(strings / tuples of strings in compare-locales).  Core Lean only.
-/
import CLModel.Compare.AddRemove
namespace LintKeyed

/-- what can be handed to `in` / `[]` -/
inductive Query
  /-- a key-like hashable value (a string) -/
  | key (k : Nat)
  /-- an entity object (hashable by identity) -/
  | item (ident : Nat)
  /-- an unhashable value (a list): `q in self.__map` raises TypeError -/
  | unhashable
  /-- an int -/
  | index (i : Int)
  deriving Repr, DecidableEq, Inhabited

abbrev Items := List (Nat × Nat)

/-- `q in kt` -/
def contains (items : Items) : Query → Bool
  | .key k =>
    -- contains = key in self.__map; if contains: return True
    if AR.keyedContains (items.map (·.1)) k then true
    -- return super().__contains__(key): no item equals a string
    else false
  | .item i => items.any (·.2 == i)       -- not a key of the map; tuple.__contains__ finds the object
  | .unhashable => false                   -- TypeError swallowed; tuple.__contains__([]) is False
  | .index _ => false                      -- hashable, not a key, equal to no item

/-- `tuple.__getitem__(i)` for an int -/
def tupleIndex (items : Items) (i : Int) : Except String (Nat × Nat) :=
  let n : Int := items.length
  let j := if i < 0 then i + n else i
  if j < 0 ∨ j ≥ n then .error "IndexError" else
  match items[j.toNat]? with
  | some x => .ok x
  | none => .error "IndexError"

/-- `kt[q]`: the item returned -/
def getItem (items : Items) : Query → Except String (Nat × Nat)
  | .key k =>
    match AR.keyedIndex (items.map (·.1)) k with
    | some i => tupleIndex items i                       -- key = self.__map[key]
    | none => .error "TypeError"                         -- KeyError swallowed; tuple indices must be integers
  | .item _ => .error "TypeError"
  | .unhashable => .error "TypeError"
  | .index i => tupleIndex items i                       -- KeyError swallowed

end LintKeyed

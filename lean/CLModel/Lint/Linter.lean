/-
Model of `compare_locales.lint.linter` (L10nLinter.lint / lint_file, EntityLinter) together with the pieces
it calls: `parser.hasParser`/`getParser` (path table), `Parser.Context.linecol`, `Entry.position`,
`Entry.value_position` (base, DTD, Fluent, Android variants), `Junk.error_message`, `Entity.equals`
and the `KeyedTuple` lookup of the reference entity (`AR.keyedIndex`).

Inputs of the model are the *parsed* files: the list `parser.parse()` returns (entities and junk, see
C01 for the parsers themselves), each entity carrying the tuples `checker.check(e, e)` yields for it
(the checkers are modelled elsewhere) and the equality class of its value under `equals`.
Core Lean only.  Literal texts and the parser table come from `Gen.*`.
-/
import CLModel.Rx.Basic
import CLModel.Gen.Regexes
import CLModel.Gen.Tables
import CLModel.Compare.AddRemove
namespace Lint
open Gen.Tables

abbrev Text := List Nat

/-- `isinstance(e, parser.Junk)` or not (`parse()` yields nothing else than Entity and Junk objects) -/
inductive Kind | entity | junk
  deriving Repr, DecidableEq, Inhabited

/-- which `position` / `value_position` methods the object has:
    `ctx`  base `Entry`/`Junk` (properties, ini, inc; junk of every regex format and of Fluent),
    `dtd`  `DTDEntity` (value_position accepts the (line, col) tuples of DTDChecker),
    `fluent` `FluentEntity` (value offsets count from the start of the entry),
    `node` Android `AndroidEntity`/`XMLJunk` (no spans: `(0, offset)`). -/
inductive Mode | ctx | dtd | fluent | node
  deriving Repr, DecidableEq, Inhabited

/-- the `pos` member of a tuple yielded by `checker.check`: `EntityPos(n)`, a plain int, or a (line, col) tuple -/
inductive Pos
  | entity (off : Int)
  | value (off : Int)
  | lineCol (line col : Int)
  deriving Repr, DecidableEq, Inhabited

/-- one tuple `(tp, pos, msg, cat)` of `checker.check(e, e)`; `cat` is not used by the linter -/
structure Check where
  level : Text
  pos : Pos
  msg : Text
  deriving Repr, DecidableEq, Inhabited

/-- an element of `current = file_parser.parse()` -/
structure Ent where
  kind : Kind
  key : Text
  /-- equality class of the value under `equals` (same key and same class ⇔ `equals` is true) -/
  eq : Nat
  mode : Mode
  /-- `span` (unused in `node` mode) -/
  s : Nat
  e : Nat
  /-- `val_span` -/
  vs : Option (Int × Int) := none
  /-- `XMLJunk._all_literal` (junk in `node` mode only) -/
  lit : Text := []
  /-- what `checker.check(e, e)` yields for this entity -/
  checks : List Check := []
  deriving Repr, DecidableEq, Inhabited

/-- an element of the parsed reference file: only key and value class matter -/
structure RefEnt where
  key : Text
  eq : Nat
  deriving Repr, DecidableEq, Inhabited

/-- a result dict without its `path` -/
structure Result where
  lineno : Int
  column : Int
  level : Text
  message : Text
  deriving Repr, DecidableEq, Inhabited

/-! ### Parser.Context.linecol -/

/-- `self._lines = [m.end() for m in nl.finditer(contents)]` -/
def lineEndsFrom : Nat → List Nat → List Nat
  | _, [] => []
  | i, c :: rest => if c == 10 then (i + 1) :: lineEndsFrom (i + 1) rest else lineEndsFrom (i + 1) rest

def lineEnds (contents : List Nat) : List Nat := lineEndsFrom 0 contents

/-- `bisect.bisect(lines, position)` on the ascending list of line ends: the number of leading
    elements `≤ position`, together with the last of them (`lines[line_offset - 1] if line_offset else 0`) -/
def bisectStart : List Nat → Int → Nat → Nat × Nat
  | [], _, start => (0, start)
  | x :: xs, p, start =>
    if (x : Int) ≤ p then let r := bisectStart xs p x; (r.1 + 1, r.2) else (0, start)

/-- `Context.linecol(position)`: 1-based line and column -/
def linecol (lines : List Nat) (pos : Int) : Int × Int :=
  let (lineOffset, lineStart) := bisectStart lines pos 0
  let colOffset := pos - (lineStart : Int)
  ((lineOffset : Int) + 1, colOffset + 1)

/-! ### positions -/

/-- `Entry.position(offset)` / `Junk.position(offset)`; Android objects return `(0, offset)` -/
def position (lines : List Nat) (e : Ent) (off : Int) : Int × Int :=
  match e.mode with
  | .node => (0, off)
  | _ =>
    let pos : Int := if off < 0 then (e.e : Int) else (e.s : Int) + off
    linecol lines pos

/-- base `Entry.value_position(offset)`: `assert self.val_span is not None` -/
def baseValuePosition (lines : List Nat) (e : Ent) (off : Int) : Except String (Int × Int) :=
  match e.vs with
  | none => .error "AssertionError"
  | some (a, b) =>
    let pos : Int := if off < 0 then b else a + off
    .ok (linecol lines pos)

/-- `current_entity.value_position(pos)` for the class of the entity -/
def valuePosition (lines : List Nat) (e : Ent) : Pos → Except String (Int × Int)
  | .entity off => .ok (position lines e off)       -- not reached from lint_value, kept total
  | .value off =>
    match e.mode with
    | .node => .ok (0, off)
    | .fluent => .ok (position lines e off)
    | .ctx | .dtd => baseValuePosition lines e off
  | .lineCol lp cp =>
    match e.mode with
    | .dtd =>
      -- DTDEntityMixin.value_position with a tuple
      match baseValuePosition lines e 0 with
      | .error x => .error x
      | .ok (line, col) => if lp == 1 then .ok (line, col + cp) else .ok (line + (lp - 1), cp)
    | _ => .error "TypeError"      -- `offset < 0` on a tuple; no checker yields tuples for these classes

/-! ### Junk.error_message -/

def digitsAux : Nat → Nat → List Nat → List Nat
  | 0, _, acc => acc
  | fuel + 1, n, acc => if n < 10 then (48 + n) :: acc else digitsAux fuel (n / 10) ((48 + n % 10) :: acc)

/-- `"%d" % n` -/
def showInt (i : Int) : Text :=
  match i with
  | .ofNat n => digitsAux (n + 1) n []
  | .negSucc n => 45 :: digitsAux (n + 2) (n + 1) []

/-- `literal % args` for a format whose specifiers have been cut out: parts and arguments interleaved -/
def interleave : List Text → List Text → Text
  | [], _ => []
  | p :: _, [] => p
  | p :: ps, a :: as => p ++ a ++ interleave ps as

/-- `Junk.val` = `Junk.all`: the slice of the contents, or the literal of an `XMLJunk` -/
def junkVal (contents : Array Nat) (e : Ent) : Text :=
  match e.mode with
  | .node => e.lit
  | _ => (contents.extract e.s e.e).toList

/-- `Junk.error_message()` -/
def errorMessage (contents : Array Nat) (lines : List Nat) (e : Ent) : Text :=
  let a := position lines e 0
  let b := position lines e (-1)
  interleave junkMessageParts [junkVal contents e, showInt a.1, showInt a.2, showInt b.1, showInt b.2]

/-! ### EntityLinter -/

/-- `Entity.equals(other)`: same key and same value (for Fluent: same AST modulo comments and spans) -/
def equals (e : Ent) (r : RefEnt) : Bool := e.key == r.key && e.eq == r.eq

/-- `self.key_count[key]` of `Counter(entity.key for entity in current)` -/
def keyCount (cur : List Ent) (k : Text) : Nat := (cur.map (·.key)).count k

/-- `self.reference[key]` of a KeyedTuple -/
def refLookup (ref : List RefEnt) (k : Text) : Option RefEnt :=
  match AR.keyedIndex (ref.map (·.key)) k with
  | some i => ref[i]?
  | none => none

/-- EntityLinter.handle_junk -/
def handleJunk (contents : Array Nat) (lines : List Nat) (e : Ent) : Option Result :=
  if e.kind != .junk then none else
  let (lineno, col) := position lines e 0
  some { lineno := lineno, column := col, level := lintJunkLevel, message := errorMessage contents lines e }

def dupResult (lines : List Nat) (e : Ent) : Result :=
  let (lineno, col) := position lines e 0
  { lineno := lineno, column := col, level := lintDupLevel, message := lintDupPrefix ++ e.key }

def changedResult (lines : List Nat) (e : Ent) : Result :=
  let (lineno, col) := position lines e 0
  { lineno := lineno, column := col, level := lintChangedLevel,
    message := lintChangedPrefix ++ e.key ++ lintChangedSuffix }

/-- EntityLinter.lint_full_entity (`lineno is None` re-resolution gives the same position) -/
def lintFullEntity (lines : List Nat) (cur : List Ent) (ref : List RefEnt) (e : Ent) :
    Except String (List Result) :=
  let dup := if keyCount cur e.key > 1 then [dupResult lines e] else []
  if AR.keyedContains (ref.map (·.key)) e.key then
    match refLookup ref e.key with
    | none => .error "IndexError"
    | some r => if !equals e r then .ok (dup ++ [changedResult lines e]) else .ok dup
  else .ok dup

/-- one iteration of the loop of EntityLinter.lint_value -/
def checkResult (lines : List Nat) (e : Ent) (c : Check) : Except String Result :=
  let lc : Except String (Int × Int) :=
    match c.pos with
    | .entity off => .ok (position lines e off)      -- isinstance(pos, checks.EntityPos)
    | p => valuePosition lines e p
  match lc with
  | .error x => .error x
  | .ok (lineno, col) => .ok { lineno := lineno, column := col, level := c.level, message := c.msg }

/-- the loop `for tp, pos, msg, cat in self.checker.check(current_entity, current_entity)` -/
def lintValueGo (lines : List Nat) (e : Ent) : List Check → Except String (List Result)
  | [] => .ok []
  | c :: cs =>
    match checkResult lines e c with
    | .error x => .error x
    | .ok r =>
      match lintValueGo lines e cs with
      | .error x => .error x
      | .ok rs => .ok (r :: rs)

/-- EntityLinter.lint_value (`self.checker` is always a Checker object) -/
def lintValue (lines : List Nat) (e : Ent) : Except String (List Result) :=
  lintValueGo lines e e.checks

/-- EntityLinter.lint_entity -/
def lintEntity (contents : Array Nat) (lines : List Nat) (cur : List Ent) (ref : List RefEnt) (e : Ent) :
    Except String (List Result) :=
  match handleJunk contents lines e with
  | some r => .ok [r]
  | none =>
    match lintFullEntity lines cur ref e with
    | .error x => .error x
    | .ok a =>
      match lintValue lines e with
      | .error x => .error x
      | .ok b => .ok (a ++ b)

/-- the loop `for current_entity in current` of lint_file -/
def lintAll (contents : Array Nat) (lines : List Nat) (cur : List Ent) (ref : List RefEnt) :
    List Ent → Except String (List Result)
  | [] => .ok []
  | e :: rest =>
    match lintEntity contents lines cur ref e with
    | .error x => .error x
    | .ok a =>
      match lintAll contents lines cur ref rest with
      | .error x => .error x
      | .ok b => .ok (a ++ b)

/-- a file handed to the linter, already parsed -/
structure FileIn where
  path : Text
  contents : Array Nat
  cur : List Ent
  /-- `none`: `ref is None or not os.path.isfile(ref)` → `reference = {}` -/
  ref : Option (List RefEnt)
  deriving Repr, DecidableEq, Inhabited

/-- L10nLinter.lint_file, without the `path` member -/
def lintFile (f : FileIn) : Except String (List Result) :=
  let reference := match f.ref with | some r => r | none => []
  lintAll f.contents (lineEnds f.contents.toList) f.cur reference f.cur

/-! ### parser selection and L10nLinter.lint -/

/-- `parser.getParser(path)`: class name of the first constructor whose pattern is found in the path
    (`none` = `UserWarning("Cannot find Parser")`; entry-point plugins are not modelled) -/
def getParserName (path : Text) : Option Text :=
  (Gen.Pat.parserConstructors.find? (fun c => (Rx.search path.toArray c.1 0).isSome)).map (·.2)

/-- `parser.hasParser(path)` -/
def hasParser (path : Text) : Bool := (getParserName path).isSome

/-- L10nLinter.lint: results of every file that has a parser, each with its path -/
def lint : List FileIn → Except String (List (Text × Result))
  | [] => .ok []
  | f :: rest =>
    if !hasParser f.path then lint rest else
    match lintFile f with
    | .error x => .error x
    | .ok a =>
      match lint rest with
      | .error x => .error x
      | .ok b => .ok (a.map (fun r => (f.path, r)) ++ b)

end Lint

/-
One run of `L10nLinter.lint(files, get_reference_and_tests)` over a SEQUENCE of files, with the state of
the run made explicit (round 4).

The real `L10nLinter` object has no attributes: everything `lint` knows while it walks the file list is the
local list `results` (and what `get_reference_and_tests` was asked).  `RunState` is exactly that state;
`lintStep` is one iteration of the `for path in files` loop, `lintRun` the whole loop.  Per file the loop creates
a fresh parser (`parser.getParser(path)`), a fresh checker (`checks.getChecker(File(path, …), extra_tests)`,
`getCheckerCls` below) and a fresh `EntityLinter`; nothing of them survives the iteration, so the state has no
further component.  An implementation that keeps more state between the files of one run (a checker cached per
extension, a `DTDChecker` that remembers the entity references of the first file it saw, a `Counter` that is not
reset) disagrees with this model on sequences of files: the inputs of the model (`FileIn`: parsed file, parsed
reference, checker tuples) are taken per file from fresh real objects.

Core Lean only.
-/
import CLModel.Lint.Linter
namespace Lint
open Gen.Tables

/-! ### checks.getChecker -/

/-- the classes `checks.getChecker` chooses from -/
inductive CheckerCls | properties | dtd | fluent | android | base
  deriving Repr, DecidableEq, Inhabited

/-- `cls.use(file)` = `cls.pattern.match(file.file)` (the `pattern` class attributes are regenerated) -/
def checkerUse (re : Rx.Re) (path : Text) : Bool := (Rx.matchAt path.toArray re 0).isSome

/-- `checks.getChecker(file, extra_tests)`: which class is instantiated for `file.file = path` -/
def getCheckerCls (path : Text) : CheckerCls :=
  if checkerUse Gen.Pat.PropertiesChecker_pattern path then .properties
  else if checkerUse Gen.Pat.DTDChecker_pattern path then .dtd
  else if checkerUse Gen.Pat.FluentChecker_pattern path then .fluent
  else if checkerUse Gen.Pat.AndroidChecker_pattern path then .android
  else .base

/-- index of the class in `Gen.Tables.lintCheckerClasses` (class name, `needs_reference`) -/
def CheckerCls.idx : CheckerCls → Nat
  | .properties => 0 | .dtd => 1 | .fluent => 2 | .android => 3 | .base => 4

/-- `type(checker).__name__` -/
def CheckerCls.name (c : CheckerCls) : Option Text := (lintCheckerClasses[c.idx]?).map (·.1)

/-- `checker.needs_reference`: whether `lint_file` calls `checker.set_reference(current)` -/
def CheckerCls.needsReference (c : CheckerCls) : Option Bool := (lintCheckerClasses[c.idx]?).map (·.2)

/-! ### the run -/

/-- a result with the `path` member `lint_file` adds -/
abbrev PResult := Text × Result

/-- everything one `lint()` call remembers between two files -/
structure RunState where
  /-- the local `results` list -/
  results : List PResult := []
  /-- the paths `get_reference_and_tests` was called with, in call order -/
  asked : List Text := []
  deriving Repr, DecidableEq, Inhabited

/-- `results = []` -/
def RunState.init : RunState := {}

/-- what one file contributes: nothing when `parser.hasParser(path)` is false, else `lint_file`'s results with the path -/
def fileResults (f : FileIn) : Except String (List PResult) :=
  if !hasParser f.path then .ok [] else
  match lintFile f with
  | .error x => .error x
  | .ok a => .ok (a.map (fun r => (f.path, r)))

/-- one iteration of `for path in files:` -/
def lintStep (st : RunState) (f : FileIn) : Except String RunState :=
  if !hasParser f.path then .ok st else
  -- ref, extra_tests = get_reference_and_tests(path)
  let st := { st with asked := st.asked ++ [f.path] }
  -- results.extend(self.lint_file(path, ref, extra_tests))
  match lintFile f with
  | .error x => .error x
  | .ok a => .ok { st with results := st.results ++ a.map (fun r => (f.path, r)) }

/-- the loop -/
def lintLoop : RunState → List FileIn → Except String RunState
  | st, [] => .ok st
  | st, f :: rest =>
    match lintStep st f with
    | .error x => .error x
    | .ok st' => lintLoop st' rest

/-- `L10nLinter().lint(files, get_reference_and_tests)` with its state -/
def lintRun (files : List FileIn) : Except String RunState := lintLoop RunState.init files

end Lint

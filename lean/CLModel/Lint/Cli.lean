/-
Model of `compare_locales/lint/cli.py main` (the `moz-l10n-lint` command), round 4.

Outside the model (inputs, taken from the real run): argparse, the TOML loader and `ProjectFiles.__init__` (C13), the
order in which `files.iter_reference()` yields the files (C13), `os.path` (abspath / split / isdir / relpath), the
parsers and the checkers (C01, C06–C09).  Inside: the argument check that ends in `p.error(...)`, the choice of the
`get_reference_and_tests` callable (`Lint/Util.lean`), the `hasParser` filter, the linter run (`Lint/Run.lean`) with
the reference file looked up at the path the callable returned, the exit status and the printed lines.
Core Lean only; the literals (`"{} ({}:{}): {}"`, `"warning"`, the defaults of `.get`) come from `Gen.Tables`.
-/
import CLModel.Lint.Run
import CLModel.Lint.Util
namespace LintCli
open Lint Gen.Tables

/-! ### result side -/

/-- the value `main` returns:
    `rv = 0; if results: rv = 1; if all(r["level"] == "warning" for r in results) and not args.W: rv = 0` -/
def exitCode (results : List PResult) (w : Bool) : Nat :=
  if results.isEmpty then 0
  else if results.all (fun r => r.2.level == lintCliWarningLevel) && !w then 0
  else 1

/-- one printed line: `"{} ({}:{}): {}".format(relpath(path), lineno, column, message)` -/
def printLine (rel : Text) (r : Result) : Text :=
  interleave lintCliFormatParts [rel, showInt r.lineno, showInt r.column, r.message]

/-- `for result in results: print(...)`; `rel` = `mozpath.relpath(·, ".")` -/
def printed (rel : Text → Text) (results : List PResult) : List Text :=
  results.map (fun r => printLine (rel r.1) r.2)

/-- the text `main` writes to stdout: every line followed by a newline -/
def stdoutText (rel : Text → Text) (results : List PResult) : Text :=
  (printed rel results).flatMap (fun l => l ++ [10])

/-- a result dict as `main` reads it: `result["level"]`, `result.get("lineno", 0)`, `result.get("column", 0)`,
    `result["message"]` (the real linter always sets the two positions) -/
structure RawResult where
  level : Text
  lineno : Option Int
  column : Option Int
  message : Text

/-- the `.get(…, default)` reads -/
def RawResult.toResult (r : RawResult) : Result :=
  { lineno := (match r.lineno with | some n => n | none => lintCliDefaultLineno),
    column := (match r.column with | some n => n | none => lintCliDefaultColumn),
    level := r.level, message := r.message }

/-! ### the whole command -/

/-- Python truthiness of an optional string argument -/
def truthy : Option Text → Bool
  | some (_ :: _) => true
  | _ => false

/-- a file `files.iter_reference()` yields, parsed; its reference is not known yet -/
structure Linted where
  path : Text
  contents : Array Nat
  cur : List Ent

structure MainIn where
  /-- `-W` -/
  w : Bool
  /-- `args.l10n_reference`, `args.ref_project` -/
  l10nReference : Option Text
  refProject : Option Text
  /-- `os.path.split(os.path.abspath(args.l10n_reference))[1]` and `os.path.isdir(args.l10n_reference)` -/
  splitLocale : Text
  isdir : Bool
  /-- `paths.ProjectFiles(locale, [pc])` -/
  files : LintUtil.Files
  /-- `mozpath.abspath(args.ref_project) + "/"` -/
  refRoot : Text
  /-- the regular files that can serve as a reference, parsed: `os.path.isfile(p)` ⇔ `p` is a key -/
  fs : List (Text × List RefEnt)
  /-- what `files.iter_reference()` yields, in that order -/
  linted : List Linted

inductive MainOut where
  /-- `p.error("Pass an existing l10n reference")`: SystemExit(2) -/
  | usage
  /-- an exception of the path machinery or of the linter -/
  | raised (what : String)
  /-- normal end: return value, the `(path, ref, extra_tests)` triples of the run, the results -/
  | done (rv : Nat) (trace : List (Text × LintUtil.RefTests)) (results : List PResult)

/-- which `get_reference_and_tests`:
    `if args.l10n_reference: l10n_base… elif args.ref_project: mirror… else default` -/
def modeOf (inp : MainIn) : LintUtil.Mode :=
  if truthy inp.l10nReference then .l10nBase
  else if truthy inp.refProject then .mirror
  else .default

def showPyErr : PM.PyErr → String
  | .keyError => "KeyError" | .missingEnv => "MissingEnvironment" | .reError => "error"
  | .recursion => "RecursionError" | .typeError => "TypeError" | .indexError => "IndexError"
  | .notStr => "TypeError"

/-- the `ProjectFiles` object as `get_reference_and_tests` sees it DURING the run: `main` hands the linter a generator over
    `files.iter_reference()`, and that generator sets `self.exclude = None` until it is exhausted; every call of the
    callable happens while it is suspended, so `ProjectFiles.match` runs without the excluded configurations -/
def duringIteration : LintUtil.Files → LintUtil.Files
  | .mk locale ms _ => .mk locale ms none

/-- `lint_file`'s decision `if ref is not None and os.path.isfile(ref)`: the parsed reference or `{}` -/
def referenceOf (fs : List (Text × List RefEnt)) (ref : Option Text) : Option (List RefEnt) :=
  match ref with
  | none => none
  | some p => fs.lookup p

/-- the files of the run with their references resolved through the callable; the trace of its answers -/
def resolve (inp : MainIn) : List Linted → Except PM.PyErr (List FileIn × List (Text × LintUtil.RefTests))
  | [] => .ok ([], [])
  | f :: rest =>
    -- (f for f, _, _, _ in files.iter_reference() if parser.hasParser(f)); `lint` tests hasParser again
    if !hasParser f.path then resolve inp rest else
    match LintUtil.getRefTests (modeOf inp) (duringIteration inp.files) inp.refRoot f.path with
    | .error e => .error e
    | .ok rt =>
      match resolve inp rest with
      | .error e => .error e
      | .ok (fis, tr) =>
        .ok ({ path := f.path, contents := f.contents, cur := f.cur, ref := referenceOf inp.fs rt.1 } :: fis,
             (f.path, rt) :: tr)

/-- the run as the code performs it: per file first the callable, then `lint_file` (the first exception ends the run) -/
def runFiles (inp : MainIn) : List Linted → Except String (List PResult × List (Text × LintUtil.RefTests))
  | [] => .ok ([], [])
  | f :: rest =>
    if !hasParser f.path then runFiles inp rest else
    match LintUtil.getRefTests (modeOf inp) (duringIteration inp.files) inp.refRoot f.path with
    | .error e => .error (showPyErr e)
    | .ok rt =>
      match lintFile { path := f.path, contents := f.contents, cur := f.cur, ref := referenceOf inp.fs rt.1 } with
      | .error x => .error x
      | .ok a =>
        match runFiles inp rest with
        | .error x => .error x
        | .ok (b, tr) => .ok (a.map (fun r => (f.path, r)) ++ b, (f.path, rt) :: tr)

/-- `main()` -/
def main (inp : MainIn) : MainOut :=
  -- if args.l10n_reference: … if not locale or not os.path.isdir(args.l10n_reference): p.error(...)
  if truthy inp.l10nReference && (inp.splitLocale.isEmpty || !inp.isdir) then .usage else
  match runFiles inp inp.linted with
  | .error x => .raised x
  | .ok (results, tr) => .done (exitCode results inp.w) tr results

end LintCli

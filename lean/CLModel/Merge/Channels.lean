/-
Model of `compare_locales.merge` (merge_channels, merge_resources, merge_two, prune,
serialize_legacy_resource) and of `compare_locales.parser.getParser`.  Core Lean only.

Level of the model: a version of a file is the list of entries the parser's full walk yields
(`P.walk` for the five regex formats).  Of every entry the merge looks at its class
(`isinstance(entity, Comment/Whitespace)`), its `key`, for comments its `val`, its `all`, and,
for Whitespace entries, the identity of the Python object (it is used as dict key).
Object identity is modelled by `oid = (version number, index in the walk)`.
Python dicts are insertion-ordered association lists (`AR.dset` / `AR.dget`, as in C20).
-/
import CLModel.Compare.AddRemove
import CLModel.Parser.Formats
namespace AR
/-- key sequence of the C20 closed form `AR.spec`: `l` in its order, every key only `r` has right
    after the last key preceding it in `r` that `l` has too (keys without such a key come first) -/
def specKeys {α : Type} [BEq α] (l r : List α) : List α := (spec l r).map (·.2)
end AR

namespace Merge
open P

/-- `entity.key` of an entry that is neither Comment nor Whitespace -/
inductive EKey
  /-- a `str`: Entity, IniSection, DefinesInstruction of the text formats -/
  | str (k : List Nat)
  /-- `PoEntity.key`: the tuple `(msgid, msgctxt)` -/
  | po (msgid : List Nat) (msgctxt : Option (List Nat))
  /-- `Junk.key = "_junk_%d_%d-%d" % (junkid, …)`: the process-wide counter makes it unique per Junk
      object; modelled as the identity of the Junk (outside C15's junk-free domain, see NOTES-C15) -/
  | junk (ver idx : Nat)
  deriving Repr, DecidableEq, Inhabited

/-- the dict keys `get_key_value` produces -/
inductive Key
  /-- `entity.key` -/
  | ent (k : EKey)
  /-- `(entity.val, counter[entity.val])` of a Comment -/
  | comment (val : List Nat) (occ : Nat)
  /-- a Whitespace instance used as its own key (hash/eq by identity) -/
  | obj (ver idx : Nat)
  deriving Repr, DecidableEq, Inhabited

def Key.isObj : Key → Bool
  | .obj _ _ => true
  | _ => false

/-- what the merge sees of one parsed entry -/
structure Ent where
  kind : Kind
  /-- `entity.key` (unused for Comment / Whitespace) -/
  ekey : EKey
  /-- `Comment.val` (only meaningful for comments) -/
  val : List Nat
  /-- `entity.all` -/
  all : List Nat
  /-- identity of the Python object: (version, index) -/
  oid : Nat × Nat
  deriving Repr, DecidableEq, Inhabited

abbrev Dict := List (Key × Ent)

def Ent.isWs (e : Ent) : Bool := e.kind == .whitespace

/-- the entry is stored under its own `entity.key` (it is neither Comment nor Whitespace) -/
def Ent.keyed (e : Ent) : Bool := !(e.kind == .comment) && !(e.kind == .whitespace)

/-! ### parse_resource / get_key_value -/

/-- reading `counter[val]` of a `defaultdict(int)` -/
def cnt (counter : List (List Nat × Nat)) (val : List Nat) : Nat :=
  match AR.dget counter val with | some n => n | none => 0

/-- `get_key_value(entity, counter)`; `counter` is a `defaultdict(int)` -/
def getKeyValue (entity : Ent) (counter : List (List Nat × Nat)) : (Key × Ent) × List (List Nat × Nat) :=
  if entity.kind == .comment then
    let n := cnt counter entity.val + 1          -- counter[val] += 1
    ((Key.comment entity.val n, entity), AR.dset counter entity.val n)
  else if entity.kind == .whitespace then
    ((Key.obj entity.oid.1 entity.oid.2, entity), counter)
  else
    ((Key.ent entity.ekey, entity), counter)

/-- `[get_key_value(entity, counter) for entity in resource]` -/
def pairs : List Ent → List (List Nat × Nat) → List (Key × Ent)
  | [], _ => []
  | e :: es, counter =>
    let (kv, counter') := getKeyValue e counter
    kv :: pairs es counter'

/-- `OrderedDict(pairs)`: first position, last value -/
def orderedDict (ps : List (Key × Ent)) : Dict := ps.foldl (fun d kv => AR.dset d kv.1 kv.2) []

/-- `parse_resource` on an already walked resource -/
def parseResource (es : List Ent) : Dict := orderedDict (pairs es [])

/-- identity of the objects of version `ver` -/
def stamp (ver : Nat) (es : List Ent) : List Ent :=
  es.zipIdx.map (fun p => { p.1 with oid := (ver, p.2) })

/-! ### merge_two -/

/-- `get_newer_entity` -/
def getNewerEntity (newer older : Dict) (key : Key) : Option Ent :=
  match AR.dget newer key with
  | some entity => some entity
  | none => AR.dget older key

/-- `prune(acc, cur)`.  `acc` is kept REVERSED (`acc[-1]` is the head). -/
def prune (acc : List (Key × Ent)) (cur : Key × Option Ent) : List (Key × Ent) :=
  match cur.2 with
  | none => acc                                             -- duplicated comments
  | some entity =>
    match (if entity.isWs then acc.head? else none) with    -- `len(acc) and isinstance(entity, Whitespace)`
    | some (_, prev) =>
      if prev.isWs then
        if entity.all.length > prev.all.length then (Key.obj entity.oid.1 entity.oid.2, entity) :: acc.tail
        else acc
      else (cur.1, entity) :: acc
    | none => (cur.1, entity) :: acc

/-- `merge_two(newer, older)` with `keep_newer=True` -/
def mergeTwo (newer older : Dict) : Dict :=
  let diff := AR.addRemove (newer.map (·.1)) (older.map (·.1))
  let contents := diff.map (fun p => (p.2, getNewerEntity newer older p.2))
  let pruned := (contents.foldl prune []).reverse
  orderedDict pruned

/-- `merge_resources(parser, resources)` on walked resources; `none` = `reduce` of an empty sequence
    (TypeError) -/
def mergeResources (resources : List (List Ent)) : Option Dict :=
  match resources.zipIdx.map (fun p => parseResource (stamp p.2 p.1)) with
  | [] => none
  | d :: ds => some (ds.foldl mergeTwo d)

/-- `serialize_legacy_resource(entities.values())` -/
def serialize (d : Dict) : List Nat := (d.map (·.2.all)).flatten

/-! ### vocabulary of the C15 theorems (not part of the transliteration) -/

def keysOf (d : Dict) : List Key := d.map (·.1)

/-- entries that are not Whitespace -/
def nws (d : List (Key × Ent)) : List (Key × Ent) := d.filter (fun p => !p.2.isWs)

/-- keys of the entries that are not Whitespace -/
def nwKeys (d : Dict) : List Key := (nws d).map (·.1)

/-- the dict `parse_resource` builds for version number `i` -/
def versionDict (i : Nat) (es : List Ent) : Dict := parseResource (stamp i es)

/-- `map(parse_resource, resources)` -/
def versionDicts (rs : List (List Ent)) : List Dict := rs.zipIdx.map (fun p => versionDict p.2 p.1)

/-- no `entity.key` occurs twice in the version -/
def NodupKeys (es : List Ent) : Prop := ((es.filter (·.keyed)).map (·.ekey)).Nodup

/-- no two neighbouring entries are both Whitespace (the parsers match whitespace greedily) -/
def NoAdjWs : List Ent → Prop
  | a :: b :: rest => ¬ (a.isWs = true ∧ b.isWs = true) ∧ NoAdjWs (b :: rest)
  | _ => True

/-! ### from text: the walk of the five regex formats -/

inductive Err
  | mergeNotSupported     -- MergeNotSupportedError
  | emptySequence         -- TypeError: reduce() of empty iterable
  | hang                  -- the parser's `while` loop does not terminate (PO, finding F1)
  | external              -- parser not modelled at text level (Fluent, Android)
  | internal              -- unreachable (PO entity whose re-evaluation fails)
  deriving Repr, DecidableEq, Inhabited

def commentStyleOf : Fmt → CommentStyle
  | .properties => .offset Gen.Tables.offsetCommentDefault
  | .dtd => .dtd
  | .ini => .offset Gen.Tables.offsetCommentDefault
  | .inc => .offset Gen.Tables.offsetCommentDefines
  | .po => .plain

/-- `entity.key` of a yielded entry -/
def ekeyOf (f : Fmt) (s : Array Nat) (ver idx : Nat) (e : Entry) : Except Err EKey :=
  match e.kind with
  | .junk => .ok (EKey.junk ver idx)
  | .comment => .ok (EKey.str [])       -- `Comment.key` is None; never used as a dict key
  | _ =>
    if f == .po && e.kind == .entity then
      match poCreate s e.s with
      | some p => .ok (EKey.po (poEvalT s p.msgid) (p.msgctxt.map (poEvalT s)))
      | none => .error .internal
    else .ok (EKey.str (slice s e.ks.toNat e.ke.toNat))

def toEnt (f : Fmt) (s : Array Nat) (ver idx : Nat) (e : Entry) : Except Err Ent :=
  match ekeyOf f s ver idx e with
  | .error x => .error x
  | .ok k =>
    let all := e.all s
    .ok { kind := e.kind, ekey := k, val := if e.kind == .comment then commentVal (commentStyleOf f) all else [],
          all := all, oid := (ver, idx) }

def toEnts (f : Fmt) (s : Array Nat) (ver : Nat) : List (Entry × Nat) → Except Err (List Ent)
  | [] => .ok []
  | (e, i) :: rest =>
    match toEnt f s ver i e, toEnts f s ver rest with
    | .ok x, .ok xs => .ok (x :: xs)
    | .error x, _ => .error x
    | _, .error x => .error x

/-- `parser.readContents(resource); parser.walk()` (text already decoded) -/
def walkEnts (f : Fmt) (ver : Nat) (s : Array Nat) : Except Err (List Ent) :=
  match walk f s with
  | .done es => toEnts f s ver es.zipIdx
  | .stuck _ _ => .error .hang

def walkAll (f : Fmt) : List (Array Nat × Nat) → Except Err (List (List Ent))
  | [] => .ok []
  | (s, v) :: rest =>
    match walkEnts f v s, walkAll f rest with
    | .ok x, .ok xs => .ok (x :: xs)
    | .error x, _ => .error x
    | _, .error x => .error x

/-- `merge_channels` for a regex format, on decoded texts, result before `encode` -/
def mergeTexts (f : Fmt) (texts : List (Array Nat)) : Except Err (List Nat) :=
  match walkAll f texts.zipIdx with
  | .error x => .error x
  | .ok vs =>
    match mergeResources vs with
    | none => .error .emptySequence
    | some d => .ok (serialize d)

/-! ### getParser -/

inductive ParserId
  | regex (f : Fmt)
  | fluent
  | android
  deriving Repr, DecidableEq

/-- the loop over `__constructors`: `re.search(item[0], path)` (entry points: none installed) -/
def getParserClass (path : List Nat) : Option (List Nat) :=
  (Gen.Pat.parserConstructors.find? (fun item => (Rx.search path.toArray item.1 0).isSome)).map (·.2)

/-- which model stands for which parser class (class names as code points:
    PropertiesParser, DTDParser, IniParser, DefinesParser, PoParser, FluentParser, AndroidParser) -/
def parserOfClass (cls : List Nat) : Option ParserId :=
  if cls == [80, 114, 111, 112, 101, 114, 116, 105, 101, 115, 80, 97, 114, 115, 101, 114] then some (.regex .properties)
  else if cls == [68, 84, 68, 80, 97, 114, 115, 101, 114] then some (.regex .dtd)
  else if cls == [73, 110, 105, 80, 97, 114, 115, 101, 114] then some (.regex .ini)
  else if cls == [68, 101, 102, 105, 110, 101, 115, 80, 97, 114, 115, 101, 114] then some (.regex .inc)
  else if cls == [80, 111, 80, 97, 114, 115, 101, 114] then some (.regex .po)
  else if cls == [70, 108, 117, 101, 110, 116, 80, 97, 114, 115, 101, 114] then some .fluent
  else if cls == [65, 110, 100, 114, 111, 105, 100, 80, 97, 114, 115, 101, 114] then some .android
  else none

/-- `merge_channels(name, resources)` -/
def mergeChannels (name : List Nat) (texts : List (Array Nat)) : Except Err (List Nat) :=
  match getParserClass name with
  | none => .error .mergeNotSupported        -- `except UserWarning: raise MergeNotSupportedError`
  | some cls =>
    match parserOfClass cls with
    | some (.regex f) => mergeTexts f texts
    | _ => .error .external

end Merge

/-
C15, round 5 — `merge_channels` as ONE operation among the other users of the process-wide parser singletons.

`compare_locales.merge.merge_channels(name, resources)` does not own a parser: it asks `parser.getParser(name)` for
the shared instance of `parser.__constructors` — the very object `ContentComparer.compare`, `L10nLinter.lint_file`,
`serializer.serialize` and every direct `getParser(name).readFile/readContents/readUnicode` use — and loads every
version into it (`parser.readContents(resource); parser.walk()`).  A process that merges is therefore a HISTORY over
the state of `History/Machine.lean` (`HistM.S`: the singletons' current `Context`, the heap of Contexts, `Junk.junkid`,
`filter_empty_lines`, the entry points `getParser` falls back to, …).  This file adds the one operation the machine
lacks — the merge addressed by FILE NAME, i.e. `getParser` + `merge_resources` + refusal — and the run of a history
that interleaves such merges with arbitrary other operations.

| Python                                                                     | here                         |
|----------------------------------------------------------------------------|------------------------------|
| `try: parser = cl.getParser(name)` / `except UserWarning: raise MergeNot…` | `HistM.getParser s.ep name`   |
| `merge_resources(parser, resources)` on the shared instance (regex formats)| `HistM.step s (.mergeChannels f texts)` |
| Fluent / Android instance (external parsers, not modelled at text level)   | `Err.external`, state kept    |

Every mutable component the merge reads or writes is a component of `HistM.S`; there is no other one in the Python
(`getParser` keeps no memo, `Parser.readContents` always decodes and always builds a new `Context`).  Core Lean only.
-/
import CLModel.History.Machine
namespace MergeH
open HistM Merge

/-- the operations of a process that merges channels -/
inductive Op
  /-- `merge_channels(name, resources)`, resources newest first -/
  | merge (name : Text) (texts : List (Array Nat))
  /-- any other operation of the tools on the same process state (`History/Machine.lean`): `getParser`,
      `readUnicode`, `walk`, `compare`, `lint_file`, `serialize`, … -/
  | other (op : HistM.Op)

inductive Out
  | merged (r : Except Merge.Err Text)
  | other (o : HistM.Out)

/-- the bytes (before `encode`) a `mergeChannels` step of the machine returned -/
def chanOf : HistM.Out → Except Merge.Err Text
  | .chan r => r
  | _ => .error .internal

/-- `merge_channels(name, resources)` in process state `s`: `cl.getParser(name)` — `UserWarning` becomes
    `MergeNotSupportedError` —, then `merge_resources` on the parser returned: for a regex format the shared instance,
    whose `ctx` every `readContents` replaces (`HistM.parseAll`) -/
def mergeNamed (s : S) (name : Text) (texts : List (Array Nat)) : S × Except Merge.Err Text :=
  match HistM.getParser s.ep name with
  | none => (s, .error .mergeNotSupported)
  | some (cls, _) =>
    match parserOfClass cls with
    | some (.regex f) => ((HistM.step s (.mergeChannels f texts)).1, chanOf (HistM.step s (.mergeChannels f texts)).2)
    | _ => (s, .error .external)

def step (s : S) : Op → S × Out
  | .merge name texts => ((mergeNamed s name texts).1, .merged (mergeNamed s name texts).2)
  | .other op => ((HistM.step s op).1, .other (HistM.step s op).2)

/-- run a history -/
def run (s : S) : List Op → S × List Out
  | [] => (s, [])
  | op :: ops => ((run (step s op).1 ops).1, (step s op).2 :: (run (step s op).1 ops).2)

/-- what the property promises for one step, from its ARGUMENTS alone (`none`: the property says nothing about the
    results of the other operations — that is C18's business) -/
def promised : Op → Option (Except Merge.Err Text)
  | .merge name texts => some (Merge.mergeChannels name texts)
  | .other _ => none

/-- the result of a step as far as the property speaks about it -/
def observed : Op → Out → Option (Except Merge.Err Text)
  | .merge _ _, .merged r => some r
  | _, _ => none

/-- no third-party parser is registered under the entry point group `compare_locales.parsers` (the assumption of
    C15's `Merge.getParserClass`; `pkg_resources` may or may not be importable) -/
def NoPlugins : EpEnv → Prop
  | .unavailable => True
  | .plugins ps => ps = []

/-- `add_rules` / `add_paths` on a live configuration (the only operations `HistM.Reachable` restricts) -/
def Op.plain : Op → Prop
  | .merge _ _ => True
  | .other op => op.mutatesConfig = false

end MergeH

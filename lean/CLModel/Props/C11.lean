/- C11 — Reference and l10n path patterns map files back and forth losslessly (property theorems). -/
import CLModel.Paths.Matcher
import CLModel.Proofs.C11Sub
import CLModel.Proofs.C11Witness
import CLModel.Proofs.C11Sound
namespace C11
open Rx PM

/-- A path is mapped by `a.sub(b, path)` exactly when `a` matches it: `sub` returns `None` iff `match`
    does, so a file is looked up on the other side iff its own pattern covers it. -/
theorem sub_none_iff (a b : Matcher) (path : Text) : a.sub b path = .ok none ↔ a.match path = .ok none :=
  PM.sub_none_iff a b path

/-- `a.sub(b, path)` is the expansion of `b`'s pattern in the environment "captured groups of `a`, then
    `b`'s own environment on top". -/
theorem sub_of_match {a b : Matcher} {path : Text} {d : GroupDict} (h : a.match path = .ok (some d)) :
    a.sub b path = (expandTop b.pattern (subEnv d b.env)).map some :=
  PM.sub_of_match h

/-- Variables bound by the environment are substituted consistently: in the environment used for the
    expansion on the other side, whatever the other matcher's environment binds wins over the captured
    text of the same name; every other captured group is passed through unchanged. -/
theorem env_consistent (d : GroupDict) (env : Env) (k : Text) :
    (subEnv d env).lookup k = match env.reverse.lookup k with
      | some v => some v
      | none => (subEnv d []).lookup k := by
  unfold subEnv
  rw [lookup_dupdate]
  cases env.reverse.lookup k <;> simp [dupdate]

/-- match_sound: mapping a matched path onto the *same* matcher gives the path back, i.e. the reported
    groups put back into the pattern (together with the environment) re-assemble exactly the path that was
    matched.
    For every path and every "simple" matcher: top-level literals, `*`, `**`, and variables (first
    occurrences; unbound ones are captured), an environment of plain texts with distinct keys (a dict),
    none of which is named like a wildcard group (`s1`, `s2`, ...).  Any root.
    Full statement (not proved): the same for nested variable values, `{android_locale}` and repeated
    variables, and for a second matcher with the same wildcards (`sub_roundtrip`). -/
theorem match_sound_partial {m : Matcher} {path : Text} {d : GroupDict} (henv : FlatEnv m.env)
    (hkeys : KeysOnce m.env) (hs : ∀ n ∈ m.pattern.nodes, SimpleNode n)
    (hw : ∀ k, m.env.lookup (sname k) = none) (h : m.match path = .ok (some d)) :
    m.sub m path = .ok (some path) := by
  rw [PM.sub_of_match h, sub_self_pieces henv hkeys hs hw h]; rfl

/-- non-vacuity of `match_sound_partial`: `Matcher("l/{locale}/*.ftl", {"locale": "de"})` satisfies the
    hypotheses and matches "l/de/a.ftl" -/
example : FlatEnv exampleMatcher.env ∧ KeysOnce exampleMatcher.env ∧
    (∀ n ∈ exampleMatcher.pattern.nodes, SimpleNode n) ∧ (∀ k, exampleMatcher.env.lookup (sname k) = none) ∧
    exampleMatcher.match (T "l/de/a.ftl") = .ok (some [(localeName, some (T "de")), (T "s1", some (T "a"))]) := by
  refine ⟨?_, ?_, ?_, ?_, matchIs_spec (by decide +kernel)⟩
  · intro k v hm
    simp only [exampleMatcher, List.mem_singleton, Prod.mk.injEq] at hm
    obtain ⟨_, rfl⟩ := hm
    exact ⟨_, rfl, rfl, fun n hn => by simp at hn; exact ⟨_, hn⟩⟩
  · intro k
    simp only [exampleMatcher, List.map_cons, List.map_nil, List.count_cons, List.count_nil]
    split <;> omega
  · intro n hn
    simp only [exampleMatcher, List.mem_cons, List.not_mem_nil, or_false] at hn
    rcases hn with rfl | rfl | rfl | rfl | rfl <;> simp [SimpleNode]
  · intro k
    simp [exampleMatcher, List.lookup, sname, localeName]

/-- non-vacuity: a typical reference / l10n pair maps back and forth -/
example : subOutcome "browser/locales/en-US/**/*.ftl" []
      "{l10n_base}/{locale}/browser/**/*.ftl" [("l10n_base", "/l10n"), ("locale", "de")]
      (T "browser/locales/en-US/a/b/c.ftl") = .text (T "/l10n/de/browser/a/b/c.ftl") := by decide +kernel
example : subOutcome "{l10n_base}/{locale}/browser/**/*.ftl" [("l10n_base", "/l10n"), ("locale", "de")]
      "browser/locales/en-US/**/*.ftl" []
      (T "/l10n/de/browser/a/b/c.ftl") = .text (T "browser/locales/en-US/a/b/c.ftl") := by decide +kernel

/-- a path with a trailing newline is not mapped at all (`\Z`): `sub` returns `None`, nothing is dropped -/
theorem sub_rejects_trailing_newline :
    subOutcome "foo/*.ftl" [] "bar/*.ftl" [] (T "foo/a.ftl\n") = .none ∧
    subOutcome "foo/*.ftl" [] "bar/*.ftl" [] (T "foo/a.ftl") = .text (T "bar/a.ftl") := by decide +kernel

/-- `SameWildcards` is forced: if the other pattern has a wildcard the first one lacks, `sub` raises KeyError. -/
theorem same_wildcards_witness :
    subOutcome "foo/*.ftl" [] "bar/*/*.ftl" [] (T "foo/a.ftl") = .raised .keyError := by decide +kernel

/-- `WellSeparated` (at most one `**`) is forced: with two double stars the captures of the way back
    differ, "a/y/x/y/q.f" -> "b/y/y/y/q.f" -> "a/y/y/x/q.f". -/
theorem two_starstar_witness :
    subOutcome "a/**/x/**/*.f" [] "b/**/y/**/*.f" [] (T "a/y/x/y/q.f") = .text (T "b/y/y/y/q.f") ∧
    subOutcome "b/**/y/**/*.f" [] "a/**/x/**/*.f" [] (T "b/y/y/y/q.f") = .text (T "a/y/y/x/q.f") := by decide +kernel

end C11

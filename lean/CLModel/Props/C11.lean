/- C11 — Reference and l10n path patterns map files back and forth losslessly (property theorems). -/
import CLModel.Paths.Matcher
import CLModel.Proofs.C11Sub
import CLModel.Proofs.C11Witness
import CLModel.Proofs.C11Sound
import CLModel.Proofs.C11RNest
import CLModel.Proofs.C12RSep
import CLModel.Proofs.C12RExample
namespace C11
open Rx PM

/-- A path is mapped by `a.sub(b, path)` exactly when `a` matches it: `sub` returns `None` iff `match`
    does, so a file is looked up on the other side iff its own pattern covers it. -/
theorem sub_none_iff (a b : Matcher) (path : Text) : a.sub b path = .ok none ↔ a.match path = .ok none :=
  PM.sub_none_iff a b path

/-- `a.sub(b, path)` is the expansion of `b`'s pattern in the environment "captured groups of `a`, then
    `b`'s own environment on top". -/
theorem sub_of_match {a b : Matcher} {path : Text} {d : GroupDict} (h : a.match path = .ok (some d)) :
    a.sub b path = (expandTop b.pattern (subEnv d b.env)).map some :=
  PM.sub_of_match h

/-- Variables bound by the environment are substituted consistently: in the environment used for the
    expansion on the other side, whatever the other matcher's environment binds wins over the captured
    text of the same name; every other captured group is passed through unchanged. -/
theorem env_consistent (d : GroupDict) (env : Env) (k : Text) :
    (subEnv d env).lookup k = match env.reverse.lookup k with
      | some v => some v
      | none => (subEnv d []).lookup k := by
  unfold subEnv
  rw [lookup_dupdate]
  cases env.reverse.lookup k <;> simp [dupdate]

/-- match_sound: mapping a matched path onto the *same* matcher gives the path back, i.e. the reported
    groups put back into the pattern (together with the environment) re-assemble exactly the path that was
    matched.
    For every path and every "simple" matcher: top-level literals, `*`, `**`, and variables (first
    occurrences; unbound ones are captured), an environment of plain texts with distinct keys (a dict),
    none of which is named like a wildcard group (`s1`, `s2`, ...).  Any root.
    Full statement (not proved): the same for nested variable values, `{android_locale}` and repeated
    variables, and for a second matcher with the same wildcards (`sub_roundtrip`). -/
theorem match_sound_partial {m : Matcher} {path : Text} {d : GroupDict} (henv : FlatEnv m.env)
    (hkeys : KeysOnce m.env) (hs : ∀ n ∈ m.pattern.nodes, SimpleNode n)
    (hw : ∀ k, m.env.lookup (sname k) = none) (h : m.match path = .ok (some d)) :
    m.sub m path = .ok (some path) := by
  rw [PM.sub_of_match h, sub_self_pieces henv hkeys hs hw h]; rfl

/-- non-vacuity of `match_sound_partial`: `Matcher("l/{locale}/*.ftl", {"locale": "de"})` satisfies the
    hypotheses and matches "l/de/a.ftl" -/
example : FlatEnv exampleMatcher.env ∧ KeysOnce exampleMatcher.env ∧
    (∀ n ∈ exampleMatcher.pattern.nodes, SimpleNode n) ∧ (∀ k, exampleMatcher.env.lookup (sname k) = none) ∧
    exampleMatcher.match (T "l/de/a.ftl") = .ok (some [(localeName, some (T "de")), (T "s1", some (T "a"))]) := by
  refine ⟨?_, ?_, ?_, ?_, matchIs_spec (by decide +kernel)⟩
  · intro k v hm
    simp only [exampleMatcher, List.mem_singleton, Prod.mk.injEq] at hm
    obtain ⟨_, rfl⟩ := hm
    exact ⟨_, rfl, rfl, fun n hn => by simp at hn; exact ⟨_, hn⟩⟩
  · intro k
    simp only [exampleMatcher, List.map_cons, List.map_nil, List.count_cons, List.count_nil]
    split <;> omega
  · intro n hn
    simp only [exampleMatcher, List.mem_cons, List.not_mem_nil, or_false] at hn
    rcases hn with rfl | rfl | rfl | rfl | rfl <;> simp [SimpleNode]
  · intro k
    simp [exampleMatcher, List.lookup, sname, localeName]

/-- non-vacuity: a typical reference / l10n pair maps back and forth -/
example : subOutcome "browser/locales/en-US/**/*.ftl" []
      "{l10n_base}/{locale}/browser/**/*.ftl" [("l10n_base", "/l10n"), ("locale", "de")]
      (T "browser/locales/en-US/a/b/c.ftl") = .text (T "/l10n/de/browser/a/b/c.ftl") := by decide +kernel
example : subOutcome "{l10n_base}/{locale}/browser/**/*.ftl" [("l10n_base", "/l10n"), ("locale", "de")]
      "browser/locales/en-US/**/*.ftl" []
      (T "/l10n/de/browser/a/b/c.ftl") = .text (T "browser/locales/en-US/a/b/c.ftl") := by decide +kernel

/-- a path with a trailing newline is not mapped at all (`\Z`): `sub` returns `None`, nothing is dropped -/
theorem sub_rejects_trailing_newline :
    subOutcome "foo/*.ftl" [] "bar/*.ftl" [] (T "foo/a.ftl\n") = .none ∧
    subOutcome "foo/*.ftl" [] "bar/*.ftl" [] (T "foo/a.ftl") = .text (T "bar/a.ftl") := by decide +kernel

/-- `SameWildcards` is forced: if the other pattern has a wildcard the first one lacks, `sub` raises KeyError. -/
theorem same_wildcards_witness :
    subOutcome "foo/*.ftl" [] "bar/*/*.ftl" [] (T "foo/a.ftl") = .raised .keyError := by decide +kernel

/-- `WellSeparated` (at most one `**`) is forced: with two double stars the captures of the way back
    differ, "a/y/x/y/q.f" -> "b/y/y/y/q.f" -> "a/y/y/x/q.f". -/
theorem two_starstar_witness :
    subOutcome "a/**/x/**/*.f" [] "b/**/y/**/*.f" [] (T "a/y/x/y/q.f") = .text (T "b/y/y/y/q.f") ∧
    subOutcome "b/**/y/**/*.f" [] "a/**/x/**/*.f" [] (T "b/y/y/y/q.f") = .text (T "a/y/y/x/q.f") := by decide +kernel

/-! ### the round trip between TWO matchers with wildcards -/

/-- **sub_roundtrip.**  Two matchers `a`, `b` of the restricted class `C11R.InClassN` (top-level literals, `*`, `**/`
    or a final `**`, first occurrences of fully bound variables whose values may use further variables —
    `{l}` = "{l10n_base}/{locale}/"; any roots) with the same wildcards (the same wildcard numbers occur on both
    sides; the literals and the variables may differ).  Let `pa` be `a`'s pattern filled with the wildcard values
    `vs` (variables expanded in `a`'s environment), `pb` the same for `b` (`C11R.fillN`), both fillings well
    separated (`C11R.WellSepN`, see `C12.expand_match_star_partial` for what that asks).  Then
      * `a.sub(b, pa) = pb` and `b.sub(a, pb) = pa`: mapping there and back returns the original path, every
        variable being substituted with the value of the side it is expanded on;
      * `a` matches `pa` and `b` matches `pb` (with exactly the values `vs` in the wildcard groups, see
        `C12.expand_match_star_partial`): a file present on both sides is found on both sides.
    Hypotheses (bundles `C11R.Fillable`, `C11R.Expandable`, each field documented there): environments of the
    `Matcher` shape (`EnvOK`) that are dicts (distinct keys), without a key named like a wildcard group (`s<n>`)
    and without `{android_locale}`; `re.compile` accepts both patterns (F12), neither uses `{android_locale}`, both
    root decisions succeed (F11).
    Forced: same wildcards (`same_wildcards_witness`), separation on BOTH sides (`roundtrip_separator_witness`),
    at most one `**` with directories (`two_starstar_witness`).
    Full statement (not proved, hence `_partial`): repeated variables, `{android_locale}`, variables left
    unbound on one side (captured from the path). -/
theorem sub_roundtrip_star_partial {a b : Matcher} {vs : Nat → Text} {namesa namesb : List Text} {rta rtb : Text}
    (ha : C11R.Fillable vs a namesa rta) (hb : C11R.Fillable vs b namesb rtb)
    (hea : C11R.Expandable a) (heb : C11R.Expandable b)
    (hsame : ∀ k, k ∈ a.pattern.nodes.filterMap C11R.wildNum ↔ k ∈ b.pattern.nodes.filterMap C11R.wildNum) :
    a.sub b (rta ++ C11R.fillN vs a.env a.pattern.nodes) = .ok (some (rtb ++ C11R.fillN vs b.env b.pattern.nodes)) ∧
    b.sub a (rtb ++ C11R.fillN vs b.env b.pattern.nodes) = .ok (some (rta ++ C11R.fillN vs a.env a.pattern.nodes)) ∧
    (∃ da, a.match (rta ++ C11R.fillN vs a.env a.pattern.nodes) = .ok (some da)) ∧
    (∃ db, b.match (rtb ++ C11R.fillN vs b.env b.pattern.nodes) = .ok (some db)) := by
  obtain ⟨rea, hrea⟩ := ha.compiles
  obtain ⟨reb, hreb⟩ := hb.compiles
  refine ⟨C11R.sub_fillN ha.env ha.cls hrea ha.noAndroidGroup ha.root ha.sep hb.cls (hb.goodEnv heb) hb.root heb.keys
      heb.noWildKey (fun k h => (hsame k).mpr h),
    C11R.sub_fillN hb.env hb.cls hreb hb.noAndroidGroup hb.root hb.sep ha.cls (ha.goodEnv hea) ha.root hea.keys
      hea.noWildKey (fun k h => (hsame k).mp h), ?_, ?_⟩
  · obtain ⟨g, hm, _⟩ := C11R.match_fillN ha.env ha.cls hrea ha.noAndroidGroup ha.root ha.sep
    exact ⟨_, hm⟩
  · obtain ⟨g, hm, _⟩ := C11R.match_fillN hb.env hb.cls hreb hb.noAndroidGroup hb.root hb.sep
    exact ⟨_, hm⟩

/-- non-vacuity of `sub_roundtrip_star_partial`: the reference pattern "browser/locales/en-US/**/*.ftl"
    (`C11R.refMatcher`) and the l10n pattern "{l}browser/**/*.ftl" with `l` = "{l10n_base}/{locale}/", `l10n_base` =
    "/l10n", `locale` = "de" (`C11R.wildMatcher`), values `**/` = "a/b/", `*` = "c.d", satisfy all hypotheses
    (`C11R.refMatcher_ok`, `C11R.wildMatcher_ok`, `C11R.wild_same`); the two filled paths are
    "browser/locales/en-US/a/b/c.d.ftl" and "/l10n/de/browser/a/b/c.d.ftl", and evaluation of the model agrees. -/
example : matcherOf "browser/locales/en-US/**/*.ftl" [] none = .ok C11R.refMatcher ∧
    matcherOf "{l}browser/**/*.ftl" [("l", "{l10n_base}/{locale}/"), ("l10n_base", "/l10n"), ("locale", "de")] none =
      .ok C11R.wildMatcher ∧
    [] ++ C11R.fillN C11R.wildVals C11R.refMatcher.env C11R.refMatcher.pattern.nodes =
      T "browser/locales/en-US/a/b/c.d.ftl" ∧
    [] ++ C11R.fillN C11R.wildVals C11R.wildMatcher.env C11R.wildMatcher.pattern.nodes =
      T "/l10n/de/browser/a/b/c.d.ftl" ∧
    subOutcome "browser/locales/en-US/**/*.ftl" []
      "{l}browser/**/*.ftl" [("l", "{l10n_base}/{locale}/"), ("l10n_base", "/l10n"), ("locale", "de")]
      (T "browser/locales/en-US/a/b/c.d.ftl") = .text (T "/l10n/de/browser/a/b/c.d.ftl") ∧
    subOutcome "{l}browser/**/*.ftl" [("l", "{l10n_base}/{locale}/"), ("l10n_base", "/l10n"), ("locale", "de")]
      "browser/locales/en-US/**/*.ftl" []
      (T "/l10n/de/browser/a/b/c.d.ftl") = .text (T "browser/locales/en-US/a/b/c.d.ftl") :=
  ⟨C11R.refMatcher_is, C11R.wildMatcher_is, C11R.ref_fill, C11R.wild_fill, by decide +kernel, by decide +kernel⟩

/-- and the theorem applied to that pair -/
example : C11R.refMatcher.sub C11R.wildMatcher (T "browser/locales/en-US/a/b/c.d.ftl") =
      .ok (some (T "/l10n/de/browser/a/b/c.d.ftl")) ∧
    C11R.wildMatcher.sub C11R.refMatcher (T "/l10n/de/browser/a/b/c.d.ftl") =
      .ok (some (T "browser/locales/en-US/a/b/c.d.ftl")) := by
  obtain ⟨⟨na, a1⟩, a2⟩ := C11R.refMatcher_ok
  obtain ⟨⟨nb, b1⟩, b2⟩ := C11R.wildMatcher_ok
  have h := sub_roundtrip_star_partial a1 b1 a2 b2 C11R.wild_same
  rw [C11R.ref_fill, C11R.wild_fill] at h
  exact ⟨h.1, h.2.1⟩

/-- the most common real shape, a final `**` on both sides (evaluation of the model) -/
example : subOutcome "browser/locales/en-US/**" []
      "{l}browser/**" [("l", "{l10n_base}/{locale}/"), ("l10n_base", "/l10n"), ("locale", "de")]
      (T "browser/locales/en-US/a/b.ftl") = .text (T "/l10n/de/browser/a/b.ftl") ∧
    subOutcome "{l}browser/**" [("l", "{l10n_base}/{locale}/"), ("l10n_base", "/l10n"), ("locale", "de")]
      "browser/locales/en-US/**" []
      (T "/l10n/de/browser/a/b.ftl") = .text (T "browser/locales/en-US/a/b.ftl") := by decide +kernel

/-- Separation is needed on BOTH sides: "a/b.c" is "*/*" filled with ("a", "b.c"), well separated there, but in
    "*.*" the literal "." occurs again inside the second value; the way back gives another path. -/
theorem roundtrip_separator_witness :
    subOutcome "*/*" [] "*.*" [] (T "a/b.c") = .text (T "a.b.c") ∧
    subOutcome "*.*" [] "*/*" [] (T "a.b.c") = .text (T "a.b/c") := by decide +kernel

end C11

/- C11 — Reference and l10n path patterns map files back and forth losslessly (property theorems). -/
import CLModel.Paths.Matcher
import CLModel.Proofs.C11Sub
import CLModel.Proofs.C11Witness
import CLModel.Proofs.C11Sound
import CLModel.Proofs.C11RNest
import CLModel.Proofs.C12RSep
import CLModel.Proofs.C12RExample
import CLModel.Proofs.C11Eq
import CLModel.Proofs.C12BExample
import CLModel.Proofs.C11Cache
import CLModel.Proofs.C11SoundX
import CLModel.Proofs.C11Obj
namespace C11
open Rx PM

/-- A path is mapped by `a.sub(b, path)` exactly when `a` matches it: `sub` returns `None` iff `match`
    does, so a file is looked up on the other side iff its own pattern covers it. -/
theorem sub_none_iff (a b : Matcher) (path : Text) : a.sub b path = .ok none ↔ a.match path = .ok none :=
  PM.sub_none_iff a b path

/-- `a.sub(b, path)` is the expansion of `b`'s pattern in the environment "captured groups of `a`, then
    `b`'s own environment on top". -/
theorem sub_of_match {a b : Matcher} {path : Text} {d : GroupDict} (h : a.match path = .ok (some d)) :
    a.sub b path = (expandTop b.pattern (subEnv d b.env)).map some :=
  PM.sub_of_match h

/-- Variables bound by the environment are substituted consistently: in the environment used for the
    expansion on the other side, whatever the other matcher's environment binds wins over the captured
    text of the same name; every other captured group is passed through unchanged. -/
theorem env_consistent (d : GroupDict) (env : Env) (k : Text) :
    (subEnv d env).lookup k = match env.reverse.lookup k with
      | some v => some v
      | none => (subEnv d []).lookup k := by
  unfold subEnv
  rw [lookup_dupdate]
  cases env.reverse.lookup k <;> simp [dupdate]

/-- match_sound: mapping a matched path onto the *same* matcher gives the path back, i.e. the reported
    groups put back into the pattern (together with the environment) re-assemble exactly the path that was
    matched.
    For every path and every "simple" matcher: top-level literals, `*`, `**`, and variables (first
    occurrences; unbound ones are captured), an environment of plain texts with distinct keys (a dict),
    none of which is named like a wildcard group (`s1`, `s2`, ...).  Any root.
    Full statement (not proved): the same for nested variable values, `{android_locale}` and repeated
    variables, and for a second matcher with the same wildcards (`sub_roundtrip`). -/
theorem match_sound_partial {m : Matcher} {path : Text} {d : GroupDict} (henv : FlatEnv m.env)
    (hkeys : KeysOnce m.env) (hs : ∀ n ∈ m.pattern.nodes, SimpleNode n)
    (hw : ∀ k, m.env.lookup (sname k) = none) (h : m.match path = .ok (some d)) :
    m.sub m path = .ok (some path) := by
  rw [PM.sub_of_match h, sub_self_pieces henv hkeys hs hw h]; rfl

/-- non-vacuity of `match_sound_partial`: `Matcher("l/{locale}/*.ftl", {"locale": "de"})` satisfies the
    hypotheses and matches "l/de/a.ftl" -/
example : FlatEnv exampleMatcher.env ∧ KeysOnce exampleMatcher.env ∧
    (∀ n ∈ exampleMatcher.pattern.nodes, SimpleNode n) ∧ (∀ k, exampleMatcher.env.lookup (sname k) = none) ∧
    exampleMatcher.match (T "l/de/a.ftl") = .ok (some [(localeName, some (T "de")), (T "s1", some (T "a"))]) := by
  refine ⟨?_, ?_, ?_, ?_, matchIs_spec (by decide +kernel)⟩
  · intro k v hm
    simp only [exampleMatcher, List.mem_singleton, Prod.mk.injEq] at hm
    obtain ⟨_, rfl⟩ := hm
    exact ⟨_, rfl, rfl, fun n hn => by simp at hn; exact ⟨_, hn⟩⟩
  · intro k
    simp only [exampleMatcher, List.map_cons, List.map_nil, List.count_cons, List.count_nil]
    split <;> omega
  · intro n hn
    simp only [exampleMatcher, List.mem_cons, List.not_mem_nil, or_false] at hn
    rcases hn with rfl | rfl | rfl | rfl | rfl <;> simp [SimpleNode]
  · intro k
    simp [exampleMatcher, List.lookup, sname, localeName]

/-- non-vacuity: a typical reference / l10n pair maps back and forth -/
example : subOutcome "browser/locales/en-US/**/*.ftl" []
      "{l10n_base}/{locale}/browser/**/*.ftl" [("l10n_base", "/l10n"), ("locale", "de")]
      (T "browser/locales/en-US/a/b/c.ftl") = .text (T "/l10n/de/browser/a/b/c.ftl") := by decide +kernel
example : subOutcome "{l10n_base}/{locale}/browser/**/*.ftl" [("l10n_base", "/l10n"), ("locale", "de")]
      "browser/locales/en-US/**/*.ftl" []
      (T "/l10n/de/browser/a/b/c.ftl") = .text (T "browser/locales/en-US/a/b/c.ftl") := by decide +kernel

/-- a path with a trailing newline is not mapped at all (`\Z`): `sub` returns `None`, nothing is dropped -/
theorem sub_rejects_trailing_newline :
    subOutcome "foo/*.ftl" [] "bar/*.ftl" [] (T "foo/a.ftl\n") = .none ∧
    subOutcome "foo/*.ftl" [] "bar/*.ftl" [] (T "foo/a.ftl") = .text (T "bar/a.ftl") := by decide +kernel

/-- `SameWildcards` is forced: if the other pattern has a wildcard the first one lacks, `sub` raises KeyError. -/
theorem same_wildcards_witness :
    subOutcome "foo/*.ftl" [] "bar/*/*.ftl" [] (T "foo/a.ftl") = .raised .keyError := by decide +kernel

/-- `WellSeparated` (at most one `**`) is forced: with two double stars the captures of the way back
    differ, "a/y/x/y/q.f" -> "b/y/y/y/q.f" -> "a/y/y/x/q.f". -/
theorem two_starstar_witness :
    subOutcome "a/**/x/**/*.f" [] "b/**/y/**/*.f" [] (T "a/y/x/y/q.f") = .text (T "b/y/y/y/q.f") ∧
    subOutcome "b/**/y/**/*.f" [] "a/**/x/**/*.f" [] (T "b/y/y/y/q.f") = .text (T "a/y/y/x/q.f") := by decide +kernel

/-! ### the round trip between TWO matchers with wildcards -/

/-- **sub_roundtrip.**  Two matchers `a`, `b` of the restricted class `C11R.InClassN` (top-level literals, `*`, `**/`
    or a final `**`, first occurrences of fully bound variables whose values may use further variables —
    `{l}` = "{l10n_base}/{locale}/"; any roots) with the same wildcards (the same wildcard numbers occur on both
    sides; the literals and the variables may differ).  Let `pa` be `a`'s pattern filled with the wildcard values
    `vs` (variables expanded in `a`'s environment), `pb` the same for `b` (`C11R.fillN`), both fillings well
    separated (`C11R.WellSepN`, see `C12.expand_match_star_partial` for what that asks).  Then
      * `a.sub(b, pa) = pb` and `b.sub(a, pb) = pa`: mapping there and back returns the original path, every
        variable being substituted with the value of the side it is expanded on;
      * `a` matches `pa` and `b` matches `pb` (with exactly the values `vs` in the wildcard groups, see
        `C12.expand_match_star_partial`): a file present on both sides is found on both sides.
    Hypotheses (bundles `C11R.Fillable`, `C11R.Expandable`, each field documented there): environments of the
    `Matcher` shape (`EnvOK`) that are dicts (distinct keys), without a key named like a wildcard group (`s<n>`)
    and without `{android_locale}`; `re.compile` accepts both patterns (F12), neither uses `{android_locale}`, both
    root decisions succeed (F11).
    Forced: same wildcards (`same_wildcards_witness`), separation on BOTH sides (`roundtrip_separator_witness`),
    at most one `**` with directories (`two_starstar_witness`).
    Full statement (not proved, hence `_partial`): repeated variables, `{android_locale}`, variables left
    unbound on one side (captured from the path). -/
theorem sub_roundtrip_star_partial {a b : Matcher} {vs : Nat → Text} {namesa namesb : List Text} {rta rtb : Text}
    (ha : C11R.Fillable vs a namesa rta) (hb : C11R.Fillable vs b namesb rtb)
    (hea : C11R.Expandable a) (heb : C11R.Expandable b)
    (hsame : ∀ k, k ∈ a.pattern.nodes.filterMap C11R.wildNum ↔ k ∈ b.pattern.nodes.filterMap C11R.wildNum) :
    a.sub b (rta ++ C11R.fillN vs a.env a.pattern.nodes) = .ok (some (rtb ++ C11R.fillN vs b.env b.pattern.nodes)) ∧
    b.sub a (rtb ++ C11R.fillN vs b.env b.pattern.nodes) = .ok (some (rta ++ C11R.fillN vs a.env a.pattern.nodes)) ∧
    (∃ da, a.match (rta ++ C11R.fillN vs a.env a.pattern.nodes) = .ok (some da)) ∧
    (∃ db, b.match (rtb ++ C11R.fillN vs b.env b.pattern.nodes) = .ok (some db)) := by
  obtain ⟨rea, hrea⟩ := ha.compiles
  obtain ⟨reb, hreb⟩ := hb.compiles
  refine ⟨C11R.sub_fillN ha.env ha.cls hrea ha.noAndroidGroup ha.root ha.sep hb.cls (hb.goodEnv heb) hb.root heb.keys
      heb.noWildKey (fun k h => (hsame k).mpr h),
    C11R.sub_fillN hb.env hb.cls hreb hb.noAndroidGroup hb.root hb.sep ha.cls (ha.goodEnv hea) ha.root hea.keys
      hea.noWildKey (fun k h => (hsame k).mp h), ?_, ?_⟩
  · obtain ⟨g, hm, _⟩ := C11R.match_fillN ha.env ha.cls hrea ha.noAndroidGroup ha.root ha.sep
    exact ⟨_, hm⟩
  · obtain ⟨g, hm, _⟩ := C11R.match_fillN hb.env hb.cls hreb hb.noAndroidGroup hb.root hb.sep
    exact ⟨_, hm⟩

/-- non-vacuity of `sub_roundtrip_star_partial`: the reference pattern "browser/locales/en-US/**/*.ftl"
    (`C11R.refMatcher`) and the l10n pattern "{l}browser/**/*.ftl" with `l` = "{l10n_base}/{locale}/", `l10n_base` =
    "/l10n", `locale` = "de" (`C11R.wildMatcher`), values `**/` = "a/b/", `*` = "c.d", satisfy all hypotheses
    (`C11R.refMatcher_ok`, `C11R.wildMatcher_ok`, `C11R.wild_same`); the two filled paths are
    "browser/locales/en-US/a/b/c.d.ftl" and "/l10n/de/browser/a/b/c.d.ftl", and evaluation of the model agrees. -/
example : matcherOf "browser/locales/en-US/**/*.ftl" [] none = .ok C11R.refMatcher ∧
    matcherOf "{l}browser/**/*.ftl" [("l", "{l10n_base}/{locale}/"), ("l10n_base", "/l10n"), ("locale", "de")] none =
      .ok C11R.wildMatcher ∧
    [] ++ C11R.fillN C11R.wildVals C11R.refMatcher.env C11R.refMatcher.pattern.nodes =
      T "browser/locales/en-US/a/b/c.d.ftl" ∧
    [] ++ C11R.fillN C11R.wildVals C11R.wildMatcher.env C11R.wildMatcher.pattern.nodes =
      T "/l10n/de/browser/a/b/c.d.ftl" ∧
    subOutcome "browser/locales/en-US/**/*.ftl" []
      "{l}browser/**/*.ftl" [("l", "{l10n_base}/{locale}/"), ("l10n_base", "/l10n"), ("locale", "de")]
      (T "browser/locales/en-US/a/b/c.d.ftl") = .text (T "/l10n/de/browser/a/b/c.d.ftl") ∧
    subOutcome "{l}browser/**/*.ftl" [("l", "{l10n_base}/{locale}/"), ("l10n_base", "/l10n"), ("locale", "de")]
      "browser/locales/en-US/**/*.ftl" []
      (T "/l10n/de/browser/a/b/c.d.ftl") = .text (T "browser/locales/en-US/a/b/c.d.ftl") :=
  ⟨C11R.refMatcher_is, C11R.wildMatcher_is, C11R.ref_fill, C11R.wild_fill, by decide +kernel, by decide +kernel⟩

/-- and the theorem applied to that pair -/
example : C11R.refMatcher.sub C11R.wildMatcher (T "browser/locales/en-US/a/b/c.d.ftl") =
      .ok (some (T "/l10n/de/browser/a/b/c.d.ftl")) ∧
    C11R.wildMatcher.sub C11R.refMatcher (T "/l10n/de/browser/a/b/c.d.ftl") =
      .ok (some (T "browser/locales/en-US/a/b/c.d.ftl")) := by
  obtain ⟨⟨na, a1⟩, a2⟩ := C11R.refMatcher_ok
  obtain ⟨⟨nb, b1⟩, b2⟩ := C11R.wildMatcher_ok
  have h := sub_roundtrip_star_partial a1 b1 a2 b2 C11R.wild_same
  rw [C11R.ref_fill, C11R.wild_fill] at h
  exact ⟨h.1, h.2.1⟩

/-- the most common real shape, a final `**` on both sides (evaluation of the model) -/
example : subOutcome "browser/locales/en-US/**" []
      "{l}browser/**" [("l", "{l10n_base}/{locale}/"), ("l10n_base", "/l10n"), ("locale", "de")]
      (T "browser/locales/en-US/a/b.ftl") = .text (T "/l10n/de/browser/a/b.ftl") ∧
    subOutcome "{l}browser/**" [("l", "{l10n_base}/{locale}/"), ("l10n_base", "/l10n"), ("locale", "de")]
      "browser/locales/en-US/**" []
      (T "/l10n/de/browser/a/b.ftl") = .text (T "browser/locales/en-US/a/b.ftl") := by decide +kernel

/-- Separation is needed on BOTH sides: "a/b.c" is "*/*" filled with ("a", "b.c"), well separated there, but in
    "*.*" the literal "." occurs again inside the second value; the way back gives another path. -/
theorem roundtrip_separator_witness :
    subOutcome "*/*" [] "*.*" [] (T "a/b.c") = .text (T "a.b.c") ∧
    subOutcome "*.*" [] "*/*" [] (T "a.b.c") = .text (T "a.b/c") := by decide +kernel




/-! ### match_sound without the restrictions that were not forced (round 4) -/

/-- **match_sound, general form**: `m.sub(m, path) = path` for EVERY path the matcher matches, i.e. the reported groups, put
    back into the pattern together with the environment, re-assemble exactly the matched path.  Compared with
    `match_sound_partial` the environment values may be NESTED patterns (`{l}` = "{l10n_base}/{locale}/": shape `EnvOK`,
    no `{android_locale}` inside values), a variable may be REPEATED (`C11X.RepN []`: every repetition comes after its first
    occurrence — what the parser always produces, `C11X.mkMatcher_repN`), and a bound top-level variable only has to be
    fully bound (`C11X.BoundOK`: the expansion of its value exists); unbound variables are captured from the path.
    Remaining hypotheses: no `{android_locale}` at top level (FORCED when `locale` is unbound: `match_sound_android_witness`;
    not proved when it is bound), environment keys distinct and not named like a wildcard group (forced: `s1` as a key makes
    `Star.expand` return a Pattern), no variable repeated inside one environment value. -/
theorem match_sound_general_partial {m : Matcher} {path : Text} {d : GroupDict} (henv : EnvOK m.env)
    (hgood : ∀ k p, (k, Val.pat p) ∈ m.env → NoAndroid p) (hkeys : KeysOnce m.env)
    (hs : ∀ n ∈ m.pattern.nodes, C11X.NoAndroidNode n) (hrep : C11X.RepN [] m.pattern.nodes) (hb : C11X.BoundOK m)
    (hw : ∀ k, m.env.lookup (sname k) = none) (h : m.match path = .ok (some d)) :
    m.sub m path = .ok (some path) := by
  rw [PM.sub_of_match h, C11X.sub_selfX henv (C11R.goodEnv_of henv hgood) hkeys hs hrep hb hw h]; rfl

/-- the order hypothesis of `match_sound_general_partial` holds for every matcher `Matcher(pattern, env, root)` builds -/
theorem constructed_matcher_repN {pat : Text} {env : List (Text × Text)} {root : Option Text} {m : Matcher}
    (h : mkMatcher pat env root = .ok m) : C11X.RepN [] m.pattern.nodes := C11X.mkMatcher_repN h

/-- `{android_locale}` with an UNBOUND locale is forced out of match_sound: the captured text is converted to a locale
    code and back to the Android form when the pattern is expanded again, so a path whose directory is not in Android
    form does not come back: "en-US/x" is matched by "{android_locale}/x" and mapped to "en-rUS/x".  (In Android form it
    does come back: "en-rUS/x".) -/
theorem match_sound_android_witness :
    subOutcome "{android_locale}/x" [] "{android_locale}/x" [] (T "en-US/x") = .text (T "en-rUS/x") ∧
    subOutcome "{android_locale}/x" [] "{android_locale}/x" [] (T "en-rUS/x") = .text (T "en-rUS/x") := by decide +kernel

/-- non-vacuity of `match_sound_general_partial`: a repeated variable (`C12B.repMatcher` = "{l}a/{l}b/*.ftl", l = "l10n/") and a
    nested value (`C11R.wildMatcher` = "{l}browser/**/*.ftl", l = "{l10n_base}/{locale}/") satisfy the hypotheses -/
example : (EnvOK C12B.repMatcher.env ∧ KeysOnce C12B.repMatcher.env ∧ C11X.RepN [] C12B.repMatcher.pattern.nodes ∧
      C11X.BoundOK C12B.repMatcher ∧ (∀ n ∈ C12B.repMatcher.pattern.nodes, C11X.NoAndroidNode n)) ∧
    C12B.repMatcher.sub C12B.repMatcher (T "l10n/a/l10n/b/x.y.ftl") = .ok (some (T "l10n/a/l10n/b/x.y.ftl")) := by
  obtain ⟨⟨na, a1⟩, a2⟩ := C12B.repMatcher_ok
  have hrep : C11X.RepN [] C12B.repMatcher.pattern.nodes := constructed_matcher_repN C12B.repMatcher_is
  have hb : C11X.BoundOK C12B.repMatcher := by
    intro name rep v hn hl
    simp only [C12B.repMatcher, List.mem_cons, List.not_mem_nil, or_false] at hn
    rcases hn with hn | hn | hn | hn | hn | hn <;> try (cases hn)
    all_goals
      have hv : v = Val.pat { nodes := [.lit (T "l10n/")], root := none, prefixLen := 1 } := by
        simp [C12B.repMatcher, List.lookup] at hl; exact hl.symm
      subst hv
      exact ⟨T "l10n/", okEq_spec (by decide +kernel)⟩
  have hs : ∀ n ∈ C12B.repMatcher.pattern.nodes, C11X.NoAndroidNode n := by
    intro n hn
    simp only [C12B.repMatcher, List.mem_cons, List.not_mem_nil, or_false] at hn
    rcases hn with rfl | rfl | rfl | rfl | rfl | rfl <;> trivial
  refine ⟨⟨a1.env, a2.keys, hrep, hb, hs⟩, ?_⟩
  have hm : C12B.repMatcher.match (T "l10n/a/l10n/b/x.y.ftl") =
      .ok (some [(T "l", some (T "l10n/")), (T "s1", some (T "x.y"))]) := matchIs_spec (by decide +kernel)
  exact match_sound_general_partial a1.env a2.noAndroid a2.keys hs hrep hb a2.noWildKey hm

/-! ### the round trip with REPEATED variables (round 4) -/

/-- **sub_roundtrip with repeated variables.**  As `sub_roundtrip_star_partial`, for the larger class `C12B.InClassB` on both
    sides: a fully bound variable may occur several times (`{l}a/{l}b/*.ftl` <-> `ref/a/b/*.ftl`,
    `l10n/{locale}/x/{locale}.ftl`).  The later occurrences are back-references in the regular expression; the engine
    treats them like the literal text of the group (`C12B.sim`).  (`C12B.fillableB_of_fillable`: the earlier class is
    included.)  Still excluded: `{android_locale}`, variables unbound on one side, a repetition inside an environment value. -/
theorem sub_roundtrip_backref_partial {a b : Matcher} {vs : Nat → Text} {namesa namesb : List Text} {rta rtb : Text}
    (ha : C12B.FillableB vs a namesa rta) (hb : C12B.FillableB vs b namesb rtb)
    (hea : C11R.Expandable a) (heb : C11R.Expandable b)
    (hsame : ∀ k, k ∈ a.pattern.nodes.filterMap C11R.wildNum ↔ k ∈ b.pattern.nodes.filterMap C11R.wildNum) :
    a.sub b (rta ++ C11R.fillN vs a.env a.pattern.nodes) = .ok (some (rtb ++ C11R.fillN vs b.env b.pattern.nodes)) ∧
    b.sub a (rtb ++ C11R.fillN vs b.env b.pattern.nodes) = .ok (some (rta ++ C11R.fillN vs a.env a.pattern.nodes)) ∧
    (∃ da, a.match (rta ++ C11R.fillN vs a.env a.pattern.nodes) = .ok (some da)) ∧
    (∃ db, b.match (rtb ++ C11R.fillN vs b.env b.pattern.nodes) = .ok (some db)) := by
  obtain ⟨rea, hrea⟩ := ha.compiles
  obtain ⟨reb, hreb⟩ := hb.compiles
  have hexa := C12B.inClassB_expOK ha.cls (by intro nm hn; cases hn)
  have hexb := C12B.inClassB_expOK hb.cls (by intro nm hn; cases hn)
  refine ⟨C12B.sub_fillB ha.env ha.cls hrea ha.noAndroidGroup ha.root ha.sep hexb (C11R.goodEnv_of hb.env heb.noAndroid)
      hb.root heb.keys heb.noWildKey (fun k h => (hsame k).mpr h),
    C12B.sub_fillB hb.env hb.cls hreb hb.noAndroidGroup hb.root hb.sep hexa (C11R.goodEnv_of ha.env hea.noAndroid)
      ha.root hea.keys hea.noWildKey (fun k h => (hsame k).mp h), ?_, ?_⟩
  · obtain ⟨g, hm, _⟩ := C12B.match_fillB ha.env ha.cls hrea ha.noAndroidGroup ha.root ha.sep
    exact ⟨_, hm⟩
  · obtain ⟨g, hm, _⟩ := C12B.match_fillB hb.env hb.cls hreb hb.noAndroidGroup hb.root hb.sep
    exact ⟨_, hm⟩

/-- non-vacuity: the pair "{l}a/{l}b/*.ftl" (l = "l10n/") and "l10n/{locale}/x/{locale}.ftl"-style patterns are in the
    class (`C12B.repMatcher_ok`, `C12B.locMatcher_ok`); mapped onto the reference pattern "ref/a/b/*.ftl" and back, by
    evaluation of the model -/
example : subOutcome "{l}a/{l}b/*.ftl" [("l", "l10n/")] "ref/a/b/*.ftl" [] (T "l10n/a/l10n/b/c.d.ftl") = .text (T "ref/a/b/c.d.ftl") ∧
    subOutcome "ref/a/b/*.ftl" [] "{l}a/{l}b/*.ftl" [("l", "l10n/")] (T "ref/a/b/c.d.ftl") = .text (T "l10n/a/l10n/b/c.d.ftl") ∧
    subOutcome "{l}a/{l}b/*.ftl" [("l", "l10n/")] "ref/a/b/*.ftl" [] (T "l10n/a/other/b/c.d.ftl") = .none := by
  decide +kernel

/-- and the theorem applied: `repMatcher` mapped onto itself -/
example : C12B.repMatcher.sub C12B.repMatcher (T "l10n/a/l10n/b/c.d.ftl") = .ok (some (T "l10n/a/l10n/b/c.d.ftl")) := by
  obtain ⟨⟨na, a1⟩, a2⟩ := C12B.repMatcher_ok
  have h := sub_roundtrip_backref_partial a1 a1 a2 a2 (fun _ => Iff.rfl)
  rw [C12B.rep_fill] at h
  exact h.1

/-! ### `Matcher.__eq__`, `concat`, the regex cache (round 4) -/

/-- `Pattern.__eq__` (with the node `__eq__`s: `Variable`, `AndroidLocale`, `Star`, `Starstar`, `Literal`) is structural
    equality: same nodes, same root, same prefix length.  In particular it is an equivalence relation (this is the test
    `ProjectFiles` folds duplicate rules with). -/
theorem pattern_eq_iff (a b : Pattern) : Pattern.eq a b = true ↔ a = b := C11E.pattern_eq_iff a b

/-- `Matcher.__eq__` is reflexive and symmetric (environments are dicts: distinct keys), `!=` is its negation ... -/
theorem matcher_eq_refl_symm (a b : Matcher) (ha : KeysOnce a.env) (hb : KeysOnce b.env) :
    Matcher.eq a a = true ∧ (Matcher.eq a b = true → Matcher.eq b a = true) ∧ Matcher.ne a b = !Matcher.eq a b :=
  ⟨C11E.eq_refl a ha, C11E.eq_symm hb, rfl⟩

/-- ... but NOT transitive ("additional environment settings in self or other are OK"): a matcher that does not bind
    `locale` is equal to one that binds it to "de" and to one that binds it to "fr", which are not equal -/
theorem matcher_eq_not_transitive_witness :
    C11E.eqOutcome "l/{locale}/*.ftl" [("locale", "de")] "l/{locale}/*.ftl" [] = some true ∧
    C11E.eqOutcome "l/{locale}/*.ftl" [] "l/{locale}/*.ftl" [("locale", "fr")] = some true ∧
    C11E.eqOutcome "l/{locale}/*.ftl" [("locale", "de")] "l/{locale}/*.ftl" [("locale", "fr")] = some false :=
  C11E.eq_not_transitive_witness

/-- **Equal matchers that bind the same variable names match the same paths with the same captures**: if `a == b` and the
    two environments have the same keys (in any order), then `match` (result and captures), `prefix`, `str`, the compiled
    regex and `sub` onto any matcher agree. -/
theorem matcher_eq_same_behaviour {a b : Matcher} (h : Matcher.eq a b = true)
    (hk : (a.env.map (·.1)).Perm (b.env.map (·.1))) :
    a.regexOf = b.regexOf ∧ (∀ path, a.match path = b.match path) ∧ a.prefix = b.prefix ∧ a.str = b.str ∧
    (∀ (o : Matcher) path, a.sub o path = b.sub o path) :=
  let ⟨hp, he⟩ := C11E.envEq_of_eq h hk
  C11E.behave_congr hp he

/-- What `==` does NOT imply (the "same keys" hypothesis is forced): `Matcher("{locale}/x", {"locale": "de"}) ==
    Matcher("{locale}/x")`, but the first does not match "fr/x" and the second does.  And what `!=` does not imply: two
    matchers that differ only in a variable the pattern never uses are unequal and match alike. -/
theorem matcher_eq_limits_witness :
    C11E.eqOutcome "{locale}/x" [("locale", "de")] "{locale}/x" [] = some true ∧
    matchOutcome "{locale}/x" [("locale", "de")] none "fr/x" = .noMatch ∧
    matchOutcome "{locale}/x" [] none "fr/x" = .groups [(T "locale", some (T "fr"))] ∧
    C11E.eqOutcome "x/*" [("u", "1")] "x/*" [("u", "2")] = some false ∧
    matchOutcome "x/*" [("u", "1")] none "x/a" = matchOutcome "x/*" [("u", "2")] none "x/a" := by decide +kernel

/-- **`concat` behaves as if the resulting paths were joined** (its docstring): if the pattern of `a` is fully bound in the
    merged environment (`a`'s environment updated with the other's; its expansion with `raise_missing=True`, root included, is
    `sa`), then `str(a.concat(other))` is `sa` followed by the expansion of the other (unrooted) pattern in that environment;
    and if `a` has no wildcard, the prefix of the concatenation is `sa` followed by the other's prefix. -/
theorem concat_joins_paths {a r : Matcher} {o : ConcatArg} (h : a.concat o = .ok r) (hne : a.pattern.nodes ≠ []) {sa : Text}
    (hfull : expandPat (expandVal (fuelFor r.env)) a.pattern r.env true = .ok sa) :
    ∃ om : Matcher, o.toMatcher = .ok om ∧ r.env = dupdate a.env om.env ∧
      r.str = (expandTop om.pattern r.env).map (fun sb => sa ++ sb) ∧
      (a.pattern.prefixLen = a.pattern.nodes.length →
        r.prefix = ((⟨om.pattern, r.env⟩ : Matcher).prefix).map (fun sb => sa ++ sb)) := by
  obtain ⟨om, hom, _, _, _, henv, _⟩ := C11E.concat_inv h
  obtain ⟨om1, h1, hs⟩ := C11E.concat_str h hne hfull
  have e1 : om1 = om := by rw [hom] at h1; cases h1; rfl
  subst e1
  refine ⟨om1, hom, henv, hs, fun hnw => ?_⟩
  obtain ⟨om2, h2, hp⟩ := C11E.concat_prefix h hne hnw hfull
  have e2 : om2 = om1 := by rw [hom] at h2; cases h2; rfl
  subst e2
  exact hp

/-- non-vacuity of `concat_joins_paths`, and its limit: `Matcher("l/{locale}/").concat("browser/*.ftl")` expands and
    matches like the joined pattern; when both parts define the same group (two `*`, both numbered s1) the concatenation
    cannot be compiled: `concat` does not renumber (re.error, the root cause of F12) -/
theorem concat_witness :
    C11E.concatOutcome "l/{locale}/" [("locale", "de")] "browser/*.ftl" "l/de/browser/a.ftl" =
      (.text (T "l/de/browser/"), .groups [(T "locale", some (T "de")), (T "s1", some (T "a"))]) ∧
    C11E.concatOutcome "l/*/" [] "browser/*.ftl" "l/x/browser/a.ftl" = (.text (T "l/"), .raised .reError) := by
  decide +kernel

/-- **The regex cache never goes stale** (`_cached_re` as explicit state, `PM.CMatcher`): a freshly constructed matcher has
    an empty cache; `match` and `sub` on the object report exactly what the stateless model reports and leave the object
    consistent (the cache, when filled, is the regex of the CURRENT pattern, environment and root); `with_env`,
    `Matcher(m, env, root)` and `concat` return objects with an EMPTY cache, whatever the source had cached, so a derived
    matcher behaves like one built afresh from its own pattern, environment and root. -/
theorem cache_never_stale (c : CMatcher) (hc : C11C.CacheOK c) (other : CMatcher) (path : Text) :
    ((c.match path).1 = c.m.match path ∧ (c.match path).2.m = c.m ∧ C11C.CacheOK (c.match path).2) ∧
    ((c.sub other path).1 = c.m.sub other.m path ∧ (c.sub other path).2.m = c.m ∧ C11C.CacheOK (c.sub other path).2) ∧
    (∀ d env root, c.rebuild env root = .ok d → d.cache = none ∧ c.m.rebuild env root = .ok d.m ∧ C11C.CacheOK d) ∧
    (∀ d o, c.concat o = .ok d → d.cache = none ∧ c.m.concat o = .ok d.m ∧ C11C.CacheOK d) :=
  ⟨C11C.match_refines hc path, C11C.sub_refines hc other path,
   fun _ env root h => ⟨(C11C.derived_cache_empty.1 env root h).1, (C11C.derived_cache_empty.1 env root h).2,
      C11C.derived_cacheOK.1 env root h⟩,
   fun _ o h => ⟨(C11C.derived_cache_empty.2 o h).1, (C11C.derived_cache_empty.2 o h).2, C11C.derived_cacheOK.2 o h⟩⟩

/-- a new matcher object is consistent (nothing cached) -/
theorem cache_initially_empty (m : Matcher) : C11C.CacheOK (CMatcher.mk' m) := C11C.cacheOK_mk m


/-! ### round 5: matcher OBJECTS whose environment dict is state (`Paths/MatcherObj.lean`) -/

/-- **`match` and `sub` change nothing but the cache of the matcher they are called on.**  Their answer is that of
    `CMatcher.match` / `CMatcher.sub` on the views (with a valid cache: the stateless `Matcher.match` / `sub`,
    `cache_never_stale`); afterwards every dict that existed is unchanged, every object is what it was except that the
    `_cached_re` of `o` is the one `CMatcher.match` leaves - whatever the call answers (groups, None, an exception). -/
theorem match_sub_preserve_env (s : Store) (o other : Nat) (c oc : CMatcher) (hv : s.view o = some c)
    (hvo : s.view other = some oc) (path : Text) :
    (∃ s', Store.match o path s = some (liftX (c.match path).1, s') ∧ C11O.OnlyCaches s s' o (c.match path).2.cache) ∧
    (∃ s', Store.sub o other path s = some (liftX (c.sub oc path).1, s') ∧
      C11O.OnlyCaches s s' o (c.sub oc path).2.cache) ∧
    (∀ s' cache, C11O.OnlyCaches s s' o cache →
      s'.view o = some { c with cache := cache } ∧ ∀ o' c', o' ≠ o → s.view o' = some c' → s'.view o' = some c') :=
  ⟨C11O.match_spec hv path, C11O.sub_spec hv hvo path,
   fun _ _ h => ⟨C11O.view_onlyCaches_self h hv, fun _ _ hne hv' => C11O.view_onlyCaches_other h hne hv'⟩⟩

/-- **`with_env` / `Matcher(m, env, root)` / `concat` copy the environment.**  The derived object is NEW (index = number
    of objects so far), its env dict is NEW (address = size of the heap so far, so it is no existing object's dict), it
    holds the source's entries updated with the given ones, nothing is cached, every existing object and dict is
    untouched (`Derives`); the derived matcher is `CMatcher.rebuild` / `CMatcher.concat` of the source's VIEW, i.e. the
    matcher a fresh construction from the same pattern, variables and root gives - whatever was called on the source before. -/
theorem with_env_copies_env (s : Store) (o : Nat) (c : CMatcher) (hv : s.view o = some c) :
    (∀ env root d, c.rebuild env root = .ok d →
      ∃ s' nb, Store.rebuild o env root s = some (.ok s.objs.length, s') ∧ C11O.Derives s s' nb d.m.env ∧
        nb.pattern = d.m.pattern ∧ nb.cache = none ∧ d.cache = none) ∧
    (∀ other arg d, s.argOf other = some arg → c.concat arg = .ok d →
      ∃ s' nb, Store.concat o other s = some (.ok s.objs.length, s') ∧ C11O.Derives s s' nb d.m.env ∧
        nb.pattern = d.m.pattern ∧ nb.cache = none ∧ d.cache = none) ∧
    (∀ s' nb nenv, C11O.Derives s s' nb nenv →
      s'.view s.objs.length = some { m := { pattern := nb.pattern, env := nenv }, cache := nb.cache } ∧
      ∀ o' c', s.view o' = some c' → s'.view o' = some c') :=
  ⟨fun env root d h => (C11O.rebuild_spec hv env root).2 d h,
   fun other _ d ha h => (C11O.concat_spec hv other ha).2 d h,
   fun _ _ _ h => ⟨C11O.view_derives_new h, fun _ _ hv' => C11O.view_derives_old h hv'⟩⟩

/-- **No aliasing**: in a store whose objects do not share env dicts (`NoAlias`; kept by every call, `history_keeps_objects`)
    a write to one matcher's environment - `m.env[k] = parse(v)`, what `concat` does to its own result - is invisible through
    every OTHER matcher: a derived matcher cannot change its source, nor the source a matcher derived from it. -/
theorem env_write_is_local (s : Store) (hn : C11O.NoAlias s) (o : Nat) (k v : Text) (r : Except XErr Unit) (s' : Store)
    (h : Store.envSet o k v s = some (r, s')) (o' : Nat) (hne : o' ≠ o) (c : CMatcher) (hv : s.view o' = some c) :
    s'.view o' = some c :=
  C11O.envSet_local hn h hne hv

/-- **Histories.**  Start from any well formed, alias free store with valid caches (the empty store is one) and run ANY
    sequence of calls that do not write to an environment - constructions, `prefix`, `str()`, `expand` with missing variables,
    `repr()`, `==`, `match`, `sub`, `with_env` / re-rooted copies, `concat`, in any order, on any objects, raising or not:
    the store stays well formed and alias free, every object that existed keeps its pattern, root and environment, and
    every cache is the regex of its object's CURRENT pattern / environment / root.  Hence every later answer is the
    stateless function of the arguments: the history cannot be observed. -/
theorem history_keeps_objects (s : Store) (hw : C11O.WF s) (hn : C11O.NoAlias s)
    (hc : ∀ o c, s.view o = some c → C11C.CacheOK c) (ops : List Op) (hq : ∀ op ∈ ops, C11O.Quiet op)
    (outs : List (Except XErr Out)) (s' : Store) (h : s.run ops = some (outs, s')) :
    C11O.WF s' ∧ C11O.NoAlias s' ∧ (∀ o c, s.view o = some c → ∃ c', s'.view o = some c' ∧ c'.m = c.m) ∧
      (∀ o c, s'.view o = some c → C11C.CacheOK c) :=
  C11O.run_keeps ops s hw hn hc hq outs s' h

/-- the empty store satisfies the hypotheses of `history_keeps_objects` -/
theorem history_start : C11O.WF Store.empty ∧ C11O.NoAlias Store.empty ∧
    (∀ o c, Store.empty.view o = some c → C11C.CacheOK c) := C11O.empty_ok

/-- a derived matcher after ANY quiet history = the one derived at once: `with_env` on the object after the history gives
    the view `CMatcher.rebuild` computes from the source's ORIGINAL pattern and environment -/
theorem derived_after_history_is_fresh (s : Store) (hw : C11O.WF s) (hn : C11O.NoAlias s)
    (hc : ∀ o c, s.view o = some c → C11C.CacheOK c) (ops : List Op) (hq : ∀ op ∈ ops, C11O.Quiet op)
    (outs : List (Except XErr Out)) (s1 : Store) (h : s.run ops = some (outs, s1))
    (o : Nat) (c : CMatcher) (hv : s.view o = some c) (env : List (Text × Text)) (root : Option Text) (m : Matcher)
    (hm : c.m.rebuild env root = .ok m) :
    ∃ (s2 : Store) (nb : MObj), Store.rebuild o env root s1 = some (.ok s1.objs.length, s2) ∧
      s2.view s1.objs.length = some { m := m, cache := none } ∧ s2.objs = s1.objs ++ [nb] ∧ nb.env = s1.heap.length := by
  obtain ⟨_, _, hv1, _⟩ := C11O.run_keeps ops s hw hn hc hq outs s1 h
  obtain ⟨c1, hvc1, hm1⟩ := hv1 o c hv
  have hd : c1.rebuild env root = .ok (CMatcher.mk' m) := by
    unfold CMatcher.rebuild
    rw [hm1, hm]; rfl
  obtain ⟨s2, nb, h1, h2, h3, h4, _⟩ := (C11O.rebuild_spec hvc1 env root).2 _ hd
  refine ⟨s2, nb, h1, ?_, h2.1, h2.2.1⟩
  rw [C11O.view_derives_new h2, h3, h4]
  rfl

end C11

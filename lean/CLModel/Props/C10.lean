/-
C10 — Summaries count every event once; quiet hides only details; exit = errors.
Property theorems only (helper lemmas live in CLModel/Proofs/C10Tree.lean and C10Obs.lean; those for the
text renderings — last section — in CLModel/Proofs/C10T*.lean, namespace `C10T`).

Models: `TreeM` = compare_locales.compare.utils.Tree, `ObsM` = compare.observer.Observer/ObserverList
and the exit status of commands.CompareLocales.handle.
-/
import CLModel.Compare.Tree
import CLModel.Compare.Observer
import CLModel.Proofs.C10Tree
import CLModel.Proofs.C10Obs
import CLModel.Proofs.C10Flag
import CLModel.Proofs.C10TOrder
import CLModel.Proofs.C10TContent
import CLModel.Proofs.C10TText
import CLModel.Proofs.C10TSummary
import CLModel.Compare.Projects
import CLModel.Proofs.C10Proj
import CLModel.Compare.ProjectsPipe
import CLModel.Proofs.C10ProjPipe
import CLModel.Proofs.C10ProjQuiet
namespace C10
open TreeM ObsM

/-! ## the details tree -/

/-- `Tree.__get` keeps the radix-tree invariant — sibling keys are non-empty and start with pairwise
    different segments — and never raises on a non-empty segment list (what `Tree.__getitem__` always
    passes: `str.split` never returns `[]`).  `f` is what the caller does with the returned list. -/
theorem tree_invariant {V : Type} :
    TreeM.Inv (Tree.empty : Tree V) ∧
      ∀ (t : Tree V) (parts : List Part) (f : List V → List V), TreeM.Inv t → parts ≠ [] →
        ∃ t', getMod t parts f = .ok t' ∧ TreeM.Inv t' := by
  refine ⟨by simp [Tree.empty, TreeM.Inv, InvBr], ?_⟩
  intro t parts f hinv hp
  obtain ⟨t', e, h, _⟩ := getMod_spec f parts.length t parts (Nat.le_refl _) hinv hp
  exact ⟨t', e, h⟩

/-- `tree[path].append(x)` refines a map from paths to lists: the list of `path` gets `x` appended
    (it is created when missing), the list of every other path is untouched — whatever the order of
    insertion and however the paths nest (no prefix-freeness needed). -/
theorem tree_refines_map {V : Type} (t t' : Tree V) (parts : List Part) (f : List V → List V)
    (hinv : TreeM.Inv t) (hp : parts ≠ []) (h : getMod t parts f = .ok t') :
    ∀ p, find t' p = if p = parts then some (f ((find t parts).getD [])) else find t p := by
  obtain ⟨t'', e, _, _, hf⟩ := getMod_spec f parts.length t parts (Nat.le_refl _) hinv hp
  rw [e] at h; injection h with h; subst h
  exact hf

/-- every path is stored at exactly one node: walking the tree (`flatten`: concatenating the keys from the
    root) lists each path once, with exactly the list the lookup finds. -/
theorem tree_flatten_once {V : Type} (t : Tree V) (hinv : TreeM.Inv t) :
    ((flatten t).map (·.1)).Nodup ∧ ∀ p l, (p, l) ∈ flatten t ↔ find t p = some l :=
  ⟨flatten_nodup t hinv, mem_flatten_iff_find t hinv⟩

/-- for prefix-free path sets `Tree.toJSON` shows every stored list exactly once, and the dict keys on
    the way to it, joined with "/", are the "/"-joined path of the file. -/
theorem tojson_paths {V : Type} (t : Tree V) (hinv : TreeM.Inv t) (hns : NoSlash t)
    (hpf : PrefixFree ((flatten t).map (·.1))) :
    (toJSON t).leaves.map (fun kv => (joinSlash kv.1, kv.2))
      = (flatten t).map (fun pv => (joinSlash pv.1, pv.2)) := by
  rw [toJSON_leaves t hinv hns hpf, flatten_eq_flattenK, List.map_map, List.map_map]
  apply List.map_congr_left
  intro ksv hksv
  simp only [Function.comp]
  rw [joinSlash_map_joinSlash _ (flattenK_keys_ne_nil t hinv ksv hksv)]

/-- why `tojson_paths` needs prefix-free paths: a value at an interior node hides its subtree.
    After `tree["a"]`, `tree["a/b"]` the tree stores two lists, `toJSON` shows one. -/
theorem prefix_case_witness :
    ((getMod (Tree.empty : Tree Nat) [[97]] (· ++ [0]) >>= (getMod · [[97], [98]] (· ++ [1]))).toOption.map flatten
      = some [([[97]], [0]), ([[97], [98]], [1])]) ∧
    ((getMod (Tree.empty : Tree Nat) [[97]] (· ++ [0]) >>= (getMod · [[97], [98]] (· ++ [1]))).toOption.map
      (fun t => (toJSON t).leaves) = some [([[97]], [0])]) := by
  constructor <;> decide +kernel

/-! ## one observer -/

/-- a fresh `Observer(quiet, filter)` never raises on a history over modelled files, and its details
    tree keeps the invariant. -/
theorem run_total (q : Nat) (flt : Option Filter) (h : List Ev) (hm : ∀ ev ∈ h, Modelled ev.file) :
    ∃ o', (Obs.init q flt).run h = .ok o' ∧ TreeM.Inv o'.details := by
  obtain ⟨o', hr⟩ := Obs.run_ok h (Obs.init q flt) inv_empty hm
  exact ⟨o', hr, (Obs.run_details h _ o' inv_empty hr).1⟩

/-- after any history the list stored for a path is exactly: the notifications raised for files with
    that path, not ignored by the filter and not hidden by the quiet level, in the order raised
    (`{category: filter result}` for file categories, `{category: data}` otherwise); a path without
    such a notification is not in the tree. -/
theorem details_spec (q : Nat) (flt : Option Filter) (h : List Ev) (o' : Obs)
    (hr : (Obs.init q flt).run h = .ok o') (p : List Part) :
    (find o'.details p).getD [] = detailsSpec q flt h p ∧
      (find o'.details p = none ↔ detailsSpec q flt h p = []) := by
  rw [init_details hr p]
  cases hd : detailsSpec q flt h p <;> simp

/-- after any history `toJSON` of the details shows every stored list exactly once under the "/"-joined path
    of its file, provided the files' paths are prefix-free (no file path is a directory of another). -/
theorem tojson_history (q : Nat) (flt : Option Filter) (h : List Ev) (o' : Obs)
    (hr : (Obs.init q flt).run h = .ok o') (hm : ∀ ev ∈ h, Modelled ev.file)
    (hpf : ∀ e1 ∈ h, ∀ e2 ∈ h, ∀ p1 p2, partsOf e1.file = .ok p1 → partsOf e2.file = .ok p2 → p1 <+: p2 → p1 = p2) :
    (toJSON o'.details).leaves.map (fun kv => (joinSlash kv.1, kv.2))
      = (flatten o'.details).map (fun pv => (joinSlash pv.1, pv.2)) := by
  obtain ⟨hinv, _, hns⟩ := Obs.run_details h (Obs.init q flt) o' inv_empty hr
  apply tojson_paths _ hinv (hns hm noslash_empty)
  have hsrc : ∀ p ∈ (flatten o'.details).map (·.1), ∃ ev ∈ h, partsOf ev.file = .ok p := by
    intro p hp
    obtain ⟨pv, hpv, rfl⟩ := List.mem_map.1 hp
    have hf := (mem_flatten_iff_find o'.details hinv pv.1 pv.2).1 hpv
    rw [init_details hr pv.1] at hf
    cases hd : detailsSpec q flt h pv.1 with
    | nil => rw [hd] at hf; simp at hf
    | cons item rest => exact mem_detailsSpec (item := item) (by rw [hd]; simp)
  intro a ha b hb hab
  obtain ⟨e1, he1, hp1⟩ := hsrc a ha
  obtain ⟨e2, he2, hp2⟩ := hsrc b hb
  exact hpf e1 he1 e2 he2 a b hp1 hp2 hab

/-- after any history every summary number is the number of non-ignored `error` (`warning`) notifications
    for files of that locale, plus the values of the non-ignored `updateStats` calls for that key —
    for all histories, filters and quiet levels. -/
theorem summary_counts (q : Nat) (flt : Option Filter) (h : List Ev) (o' : Obs)
    (hr : (Obs.init q flt).run h = .ok o') (loc : Option Text) (key : StatKey) :
    getCount o'.summary loc key = countSpec (ignObs flt) loc key h := by
  obtain ⟨hc, _, _⟩ := Obs.run_core h _ o' hr
  have := (coreRun_spec (ignObs flt) h (Obs.init q flt).core).1 loc key
  simp only [Obs.core] at hc
  have h1 : o'.summary = (coreRun (ignObs flt) (Obs.init q flt).core h).1 := by
    have := congrArg Prod.fst hc; simpa [Obs.init, Obs.core] using this
  rw [h1, this]
  simp [Obs.init, Obs.core, getCount]

/-- the value `notify` returns is the filter's answer ("error" without a filter); it does not depend on quiet. -/
theorem notify_ret (o o' : Obs) (cat : Cat) (f : File) (d : Data) (rv : Ret)
    (h : o.notify cat f d = .ok (o', rv)) : rv = rvOf o.filter cat f d := (notify_ok h).1

/-- the quiet level never changes a summary number or the error flag. -/
theorem quiet_summary_inv (q q' : Nat) (flt : Option Filter) (h : List Ev) (o1 o2 : Obs)
    (h1 : (Obs.init q flt).run h = .ok o1) (h2 : (Obs.init q' flt).run h = .ok o2) :
    o1.summary = o2.summary ∧ o1.error = o2.error := by
  obtain ⟨c1, _, _⟩ := Obs.run_core h _ o1 h1
  obtain ⟨c2, _, _⟩ := Obs.run_core h _ o2 h2
  have : o1.core = o2.core := by rw [c1, c2]; rfl
  simp only [Obs.core, Prod.mk.injEq] at this
  exact this

/-- raising the quiet level only removes details: per path, the list shown at the higher level is a
    sublist of the one at the lower level (so a file shown at the higher level is shown at the lower one). -/
theorem quiet_monotone (q q' : Nat) (hq : q ≤ q') (flt : Option Filter) (h : List Ev) (o1 o2 : Obs)
    (h1 : (Obs.init q flt).run h = .ok o1) (h2 : (Obs.init q' flt).run h = .ok o2) (p : List Part) :
    ((find o2.details p).getD []).Sublist ((find o1.details p).getD []) := by
  rw [(details_spec q flt h o1 h1 p).1, (details_spec q' flt h o2 h2 p).1]
  exact detailsSpec_mono hq flt h p

/-! ## the ObserverList -/

/-- `ObserverList.notify`: every project observer is notified; the list returns "ignore" iff all of them
    do — always, when there is no project observer — and then does not count the event itself; otherwise it
    notifies itself (without filter) and returns "error" if any project observer does, else "warning".
    In particular `assert len(rvs) == 1` cannot fail (the equation holds whenever the call returns, and
    `list_run_total` shows it returns). -/
theorem list_fanout (l l' : ObsList) (cat : Cat) (f : File) (d : Data) (rv : Ret)
    (h : l.notify cat f d = .ok (l', rv)) :
    (rv = .ignore ↔ ∀ o ∈ l.observers, rvOf o.filter cat f d = .ignore) ∧
      (rv = .error ↔ ∃ o ∈ l.observers, rvOf o.filter cat f d = .error) ∧
      All₂ (fun o o' => o.notify cat f d = .ok (o', rvOf o.filter cat f d)) l.observers l'.observers ∧
      (if rv = .ignore then l'.own = l.own else ∃ r, l.own.notify cat f d = .ok (l'.own, r)) := by
  obtain ⟨h1, h2, h3⟩ := list_notify_spec h
  refine ⟨?_, ?_, h2, h3⟩
  · rw [h1]
    simp only [listRet]
    by_cases hall : (l.observers.map (fun o => rvOf o.filter cat f d)).all (· == .ignore) = true
    · simp only [hall, ↓reduceIte, true_iff]
      simpa [List.all_map] using hall
    · have hn : ¬ ∀ o ∈ l.observers, rvOf o.filter cat f d = .ignore := by
        intro hh; apply hall; simpa [List.all_map] using hh
      simp only [hall, Bool.false_eq_true, ↓reduceIte]
      split <;> simp [hn]
  · rw [h1]
    simp only [listRet]
    by_cases hall : (l.observers.map (fun o => rvOf o.filter cat f d)).all (· == .ignore) = true
    · simp only [hall, ↓reduceIte]
      have hh : ∀ o ∈ l.observers, rvOf o.filter cat f d = .ignore := by simpa [List.all_map] using hall
      constructor
      · intro h; cases h
      · rintro ⟨o, ho, he⟩; rw [hh o ho] at he; cases he
    · simp only [hall, Bool.false_eq_true, ↓reduceIte]
      by_cases hc : (l.observers.map (fun o => rvOf o.filter cat f d)).contains .error = true
      · simp only [hc, ↓reduceIte, true_iff]
        simpa [List.contains_eq_mem] using hc
      · have : ¬ ∃ o ∈ l.observers, rvOf o.filter cat f d = .error := by
          intro hh; apply hc; simpa [List.contains_eq_mem] using hh
        simp [this]

/-- the list's own state is that of an unfiltered `Observer` fed exactly the events that are not ignored
    by all project observers (stats are never filtered by the list), and every project observer ends
    as if it had been fed the history alone. -/
theorem list_own_as_observer (q : Nat) (obs : List Obs) (h : List Ev) (l' : ObsList)
    (hr : (ObsList.init q obs).run h = .ok l') :
    (Obs.init q none).run (h.filter (fun ev => !ignList (obs.map (·.filter)) ev)) = .ok l'.own ∧
      All₂ (fun o o' => o.run h = .ok o') obs l'.observers := by
  obtain ⟨a, b, _⟩ := list_run_spec h (ObsList.init q obs) l' hr rfl
  exact ⟨a, b⟩

/-- the list's own summary counts the `error`/`warning` notifications not ignored by all project observers,
    and all stats. -/
theorem list_summary_counts (q : Nat) (obs : List Obs) (h : List Ev) (l' : ObsList)
    (hr : (ObsList.init q obs).run h = .ok l') (loc : Option Text) (key : StatKey) :
    getCount l'.own.summary loc key = countSpec (ignList (obs.map (·.filter))) loc key h := by
  have hc := list_run_core hr rfl
  have := (coreRun_spec (ignList (obs.map (·.filter))) h (ObsList.init q obs).own.core).1 loc key
  have h1 : l'.own.summary = (coreRun (ignList (obs.map (·.filter))) (ObsList.init q obs).own.core h).1 := by
    have := congrArg Prod.fst hc; simpa [Obs.core, ObsList.filters, ObsList.init] using this
  rw [h1, this]
  simp [ObsList.init, Obs.init, Obs.core, getCount]

/-- no notification sequence over modelled files makes an `ObserverList` of fresh observers raise. -/
theorem list_run_total (q : Nat) (flts : List (Option Filter)) (h : List Ev) (hm : ∀ ev ∈ h, Modelled ev.file) :
    ∃ l', (ObsList.init q (flts.map (Obs.init q))).run h = .ok l' := by
  apply list_run_ok h _ inv_empty _ hm
  intro o ho
  simp only [ObsList.init, List.mem_map] at ho
  obtain ⟨flt, _, rfl⟩ := ho
  exact inv_empty

/-! ## exit status -/

/-- `CompareLocales.handle` returns 1 iff `return_zero` is off and the list has counted at least one error
    (the total of `errors` over all locales of its own summary) — for every history whose stats dicts
    give `errors`, if at all, a positive value. -/
theorem exit_iff_errors (q : Nat) (obs : List Obs) (h : List Ev) (l' : ObsList) (rz : Bool)
    (hr : (ObsList.init q obs).run h = .ok l') (hp : ErrStatsPos h) :
    exitStatus rz l' = 1 ↔ rz = false ∧ 0 < totalErrors l'.own.summary := by
  have hc := list_run_core hr rfl
  have hf := coreRun_flag (ignList (ObsList.init q obs).filters) h hp (ObsList.init q obs).own.core flagOK_init
  rw [← hc] at hf
  simp only [FlagOK, Obs.core] at hf
  simp only [exitStatus]
  cases rz <;> cases he : l'.own.error <;> simp [he] at hf ⊢ <;> omega

/-- why `exit_iff_errors` needs positive `errors` stats: `updateStats(file, {"errors": 0})` raises the
    flag without counting an error, and the command would exit 1 with zero errors. -/
theorem exit_witness :
    ∃ l', (ObsList.init 0 [Obs.init 0 none]).run [.stats ⟨[97], none, some [100, 101]⟩ [(.errors, 0)]] = .ok l' ∧
      exitStatus false l' = 1 ∧ totalErrors l'.own.summary = 0 :=
  ⟨_, rfl, by decide, by decide⟩

/-- the list has counted an error iff some project observer has: the JSON output (project observers only)
    and the exit status (the list's flag) agree.  Needs that stats carry no `errors` entry: the list
    never filters stats, the project observers do. -/
theorem list_errors_iff_observers (q : Nat) (flts : List (Option Filter)) (h : List Ev) (l' : ObsList)
    (hr : (ObsList.init q (flts.map (Obs.init q))).run h = .ok l') (hn : NoErrStats h) :
    0 < totalErrors l'.own.summary ↔ ∃ o ∈ l'.observers, 0 < totalErrors o.summary := by
  have hfl : (ObsList.init q (flts.map (Obs.init q))).filters = flts := by
    have hmap : ∀ fl : List (Option Filter), fl.map ((fun x => x.filter) ∘ Obs.init q) = fl := by
      intro fl
      induction fl with
      | nil => rfl
      | cons a as ih => simp [Obs.init, ih]
    simp only [ObsList.filters, ObsList.init, List.map_map]
    exact hmap flts
  -- the list's flag
  have hc := list_run_core hr rfl
  rw [hfl] at hc
  have hflag := coreRun_flag (ignList flts) h hn.pos (ObsList.init q (flts.map (Obs.init q))).own.core flagOK_init
  rw [← hc] at hflag
  have herr := (coreRun_spec (ignList flts) h (ObsList.init q (flts.map (Obs.init q))).own.core).2
  rw [← hc] at herr
  simp only [FlagOK, Obs.core] at hflag herr
  rw [← hflag, herr]
  simp only [ObsList.init, Obs.init, Bool.false_or]
  rw [any_err_notify hn]
  -- the observers' flags
  obtain ⟨_, hall, _⟩ := list_run_spec h _ l' hr rfl
  have hobs : ∀ o' ∈ l'.observers, ∃ flt ∈ flts, (0 < totalErrors o'.summary ↔
      ∃ cat f d, Ev.notify cat f d ∈ h ∧ cat.isError = true ∧ ignObs flt (.notify cat f d) = false) := by
    intro o' ho'
    obtain ⟨o, ho, hro⟩ := All₂.mem_right hall o' ho'
    simp only [ObsList.init, List.mem_map] at ho
    obtain ⟨flt, hflt, rfl⟩ := ho
    refine ⟨flt, hflt, ?_⟩
    obtain ⟨c1, _, _⟩ := Obs.run_core h _ o' hro
    have f1 := coreRun_flag (ignObs flt) h hn.pos (Obs.init q flt).core flagOK_init
    have e1 := (coreRun_spec (ignObs flt) h (Obs.init q flt).core).2
    simp only [Obs.init] at c1
    simp only [Obs.init] at f1 e1
    rw [← c1] at f1 e1
    simp only [FlagOK, Obs.core] at f1 e1
    rw [← f1, e1]
    simp only [Bool.false_or]
    exact any_err_notify hn _
  constructor
  · rintro ⟨cat, f, d, hev, he, hi⟩
    simp only [ignList, List.all_eq_false] at hi
    obtain ⟨flt, hflt, hne⟩ := hi
    have : Obs.init q flt ∈ (ObsList.init q (flts.map (Obs.init q))).observers := by
      simp only [ObsList.init, List.mem_map]; exact ⟨flt, hflt, rfl⟩
    obtain ⟨o', ho', hro⟩ := All₂.mem_left hall _ this
    refine ⟨o', ho', ?_⟩
    obtain ⟨c1, _, _⟩ := Obs.run_core h _ o' hro
    have f1 := coreRun_flag (ignObs flt) h hn.pos (Obs.init q flt).core flagOK_init
    have e1 := (coreRun_spec (ignObs flt) h (Obs.init q flt).core).2
    simp only [Obs.init] at c1 f1 e1
    rw [← c1] at f1 e1
    simp only [FlagOK, Obs.core] at f1 e1
    rw [← f1, e1]
    simp only [Bool.false_or]
    rw [any_err_notify hn]
    exact ⟨cat, f, d, hev, he, by simpa [ignObs] using hne⟩
  · rintro ⟨o', ho', hpos⟩
    obtain ⟨flt, hflt, hiff⟩ := hobs o' ho'
    obtain ⟨cat, f, d, hev, he, hi⟩ := hiff.1 hpos
    refine ⟨cat, f, d, hev, he, ?_⟩
    simp only [ignList, List.all_eq_false]
    exact ⟨flt, hflt, by simpa [ignObs] using hi⟩

/-! ## the error flag of EVERY observer (round 5)

`C10F.FlagIffCounted o` = `o.error = true ↔ 0 < totalErrors o.summary`.  The flag digest of the list AND of every
project observer is tied to what that observer counted, for arbitrary filters — also for filters that answer "warning"
or "ignore" for a notification of category `error` (the message text is the entity they are asked about). -/

/-- ONE OPERATION keeps `flag ↔ counted`, whatever the state before, the filter and its verdict: `notify` always,
    `updateStats` when an `errors` entry (which no caller passes) is positive.  And what a `notify` does exactly: flag
    and error counter move together, iff the category is `error` and the verdict is not "ignore" — a finding the
    filter DOWNGRADES to "warning" is still counted as an error and still raises the flag; an ignored one does neither. -/
theorem flag_step_invariant (o : Obs) :
    (∀ cat f d o' rv, o.notify cat f d = .ok (o', rv) →
      (C10F.FlagIffCounted o → C10F.FlagIffCounted o') ∧
      o'.error = (o.error || (cat.isError && rv != .ignore)) ∧
      totalErrors o'.summary = totalErrors o.summary + (if cat.isError && rv != .ignore then 1 else 0)) ∧
    (∀ f st, C10F.EvErrPos (.stats f st) → C10F.FlagIffCounted o → C10F.FlagIffCounted (o.updateStats f st)) := by
  refine ⟨fun cat f d o' rv h => ⟨fun hf => ?_, C10F.notify_flag_exact h⟩, fun f st hp hf => ?_⟩
  · exact C10F.step_flag (C10F.step_of_notify h) (C10F.evErrPos_notify cat f d) hf
  · exact C10F.step_flag (o := o) (ev := .stats f st) rfl hp hf

/-- after any history a fresh `Observer(quiet, filter)` — ANY filter — has its flag up iff it counted an error. -/
theorem flag_iff_counted (q : Nat) (flt : Option Filter) (h : List Ev) (o' : Obs)
    (hr : (Obs.init q flt).run h = .ok o') (hp : ErrStatsPos h) :
    o'.error = true ↔ 0 < totalErrors o'.summary :=
  C10F.run_flag h _ o' hr hp (C10F.flagIffCounted_init q flt)

/-- after any history through an `ObserverList` the flag of the list itself AND the flag of every project observer
    say exactly that this observer counted an error (any observers that start with the invariant, e.g. fresh ones). -/
theorem list_flags_iff_counted (q : Nat) (obs : List Obs) (h : List Ev) (l' : ObsList)
    (hr : (ObsList.init q obs).run h = .ok l') (hp : ErrStatsPos h) (hobs : ∀ o ∈ obs, C10F.FlagIffCounted o) :
    (l'.own.error = true ↔ 0 < totalErrors l'.own.summary) ∧
      ∀ o' ∈ l'.observers, (o'.error = true ↔ 0 < totalErrors o'.summary) :=
  C10F.list_run_flags h _ l' hr hp (C10F.flagIffCounted_init q none) hobs

/-- EXIT = ERRORS COUNTED, WHICHEVER FLAG `handle` READS: `observers.error` (`C10F.readOwn`, what the code does; `exitStatus`
    is `exitVia readOwn`) or `any(observer.error for observer in observers)` (`C10F.readAny`) — both give 1 iff
    `return_zero` is off and the union observer counted an error, for every history without `errors` stats. -/
theorem exit_reader_independent (q : Nat) (flts : List (Option Filter)) (h : List Ev) (l' : ObsList) (rz : Bool)
    (hr : (ObsList.init q (flts.map (Obs.init q))).run h = .ok l') (hn : NoErrStats h) :
    (∀ rz l, exitStatus rz l = C10F.exitVia C10F.readOwn rz l) ∧
    C10F.readOwn l' = C10F.readAny l' ∧
    (C10F.exitVia C10F.readOwn rz l' = 1 ↔ rz = false ∧ 0 < totalErrors l'.own.summary) ∧
    (C10F.exitVia C10F.readAny rz l' = 1 ↔ rz = false ∧ 0 < totalErrors l'.own.summary) := by
  have hinit : ∀ o ∈ flts.map (Obs.init q), C10F.FlagIffCounted o := by
    intro o ho
    obtain ⟨flt, _, rfl⟩ := List.mem_map.1 ho
    exact C10F.flagIffCounted_init q flt
  obtain ⟨hown, hobs⟩ := list_flags_iff_counted q _ h l' hr hn.pos hinit
  have hany := C10F.readAny_iff (l := l') hobs
  have hlist := list_errors_iff_observers q flts h l' hr hn
  have hsame : C10F.readOwn l' = C10F.readAny l' := by
    have : C10F.readOwn l' = true ↔ C10F.readAny l' = true := by
      rw [hany, ← hlist]; exact hown
    cases h1 : C10F.readOwn l' <;> cases h2 : C10F.readAny l' <;> simp [h1, h2] at this ⊢
  refine ⟨fun _ _ => rfl, hsame, ?_, ?_⟩
  · rw [C10F.exitVia_eq_one]
    exact and_congr Iff.rfl hown
  · rw [C10F.exitVia_eq_one, ← hsame]
    exact and_congr Iff.rfl hown

/-- the semantics of a downgraded / ignored error, computed by the model: one project observer whose filter answers
    "warning" for the error message counts the error, shows it and has its flag up (exit 1); with "ignore" nothing is
    counted anywhere and the exit status is 0. -/
theorem downgraded_error_witness :
    (((ObsList.init 0 [Obs.init 0 (some (fun _ _ => .warning))]).run
        [.notify .error ⟨[97], none, some [100, 101]⟩ (.str [109])]).toOption.map (fun l' =>
      (l'.observers.map (fun o => (o.error, totalErrors o.summary)), l'.own.error, totalErrors l'.own.summary,
        exitStatus false l', C10F.exitVia C10F.readAny false l')) = some ([(true, 1)], true, 1, 1, 1)) ∧
    (((ObsList.init 0 [Obs.init 0 (some (fun _ _ => .ignore))]).run
        [.notify .error ⟨[97], none, some [100, 101]⟩ (.str [109])]).toOption.map (fun l' =>
      (l'.observers.map (fun o => (o.error, totalErrors o.summary)), l'.own.error, totalErrors l'.own.summary,
        exitStatus false l', C10F.exitVia C10F.readAny false l')) = some ([(false, 0)], false, 0, 0, 0)) := by
  constructor <;> decide +kernel

/-- negation witness: reading only the FIRST project observer's flag is not the exit rule — with two projects of which
    the first ignores the file, the union counted an error (exit 1) but `observers[0].error` is down. -/
theorem first_reader_witness :
    ((ObsList.init 0 [Obs.init 0 (some (fun _ _ => .ignore)), Obs.init 0 none]).run
        [.notify .error ⟨[97], none, some [100, 101]⟩ (.str [109])]).toOption.map (fun l' =>
      (totalErrors l'.own.summary, exitStatus false l', C10F.exitVia C10F.readAny false l',
        C10F.exitVia C10F.readFirst false l')) = some (1, 1, 1, 0) := by
  decide +kernel

/-! ## the text renderings (what the command prints by default)

`C10T.outline` reads the tuples `Tree.getContent()` yields the way a person reads the printed outline: a
("key", k) row at depth `d` replaces the chain of keys from level `d` on, a ("value", v) row at depth `d`
stands under the first `d` keys of the chain.  `C10T.pathLt` is Python's `<` on tuples of `str`.
`C10T.lineOf` gives the text lines of one row, `C10T.detailText` the text of one details item. -/

/-- `Tree.getContent(depth)` yields the value of the node first — also at an interior node, before its
    children — and then, for the branches in the order of `sorted(self.branches.keys())`, the key at this
    depth followed by the content of the sub-tree at `depth + 1`. -/
theorem getcontent_rec {V : Type} (br : List (Key × Tree V)) (val : Option (List V)) (d : Nat) :
    ∃ sb : List (Key × Tree V), sb.Perm br ∧ sb.Pairwise (fun a b => keyLe a.1 b.1 = true) ∧
      getContent (.node br val) d =
        (match val with | some v => [Content.value d v] | none => []) ++
          sb.flatMap (fun kv => Content.key d kv.1 :: getContent kv.2 (d + 1)) :=
  ⟨sortByKey br, C10T.sortByKey_perm br, C10T.sortByKey_sorted br, C10T.getContent_node br val d⟩

/-- for a tree satisfying the invariant, reading `getContent()` as an outline gives for every stored path
    exactly one ("value", list) row — the list the lookup finds — under a chain of ("key", k) rows whose
    keys concatenate to that path (so their "/"-joined texts, joined with "/", are the "/"-joined path);
    nothing else is shown; the rows come in the order of `sorted` over the paths as tuples, however the tree
    compressed them.  No prefix-freeness is needed: a list stored at an interior node (a path that is a
    directory of another) is shown as well, before the rows of the paths below it (`getcontent_rec`,
    `interior_shown_witness`) — `toJSON` hides that subtree (`prefix_case_witness`). -/
theorem getcontent_spec {V : Type} (t : Tree V) (hinv : TreeM.Inv t) :
    (∀ p l, (∃ ks, (ks, l) ∈ C10T.outline (getContent t 0) ∧ ks.flatten = p) ↔ find t p = some l) ∧
      ((C10T.outline (getContent t 0)).map (fun r => r.1.flatten)).Nodup ∧
      ((C10T.outline (getContent t 0)).map (fun r => (r.1.flatten, r.2))).Perm (flatten t) ∧
      ((C10T.outline (getContent t 0)).map (fun r => r.1.flatten)).Pairwise C10T.pathLt ∧
      (∀ r ∈ C10T.outline (getContent t 0),
        (∀ k ∈ r.1, k ≠ []) ∧ joinSlash (r.1.map joinSlash) = joinSlash r.1.flatten) := by
  rw [C10T.outline_getContent]
  have hperm := C10T.rows_perm t
  refine ⟨?_, ?_, hperm, C10T.rows_sorted t hinv, ?_⟩
  · intro p l
    rw [← mem_flatten_iff_find t hinv p l, ← hperm.mem_iff]
    simp only [List.mem_map, Prod.mk.injEq]
    constructor
    · rintro ⟨ks, hks, rfl⟩; exact ⟨(ks, l), hks, rfl, rfl⟩
    · rintro ⟨r, hr, h1, h2⟩
      obtain ⟨ks, l'⟩ := r
      simp only at h1 h2
      subst h2
      exact ⟨ks, hr, h1⟩
  · have := (hperm.map (·.1)).nodup_iff.2 (flatten_nodup t hinv)
    rwa [List.map_map] at this
  · intro r hr
    have hk := C10T.rows_keys_ne_nil t hinv r hr
    exact ⟨hk, joinSlash_map_joinSlash r.1 hk⟩

/-- the interior-node case as it is: after `tree["a"]`, `tree["a/b"]` the outline of `getContent()` shows both
    lists, the one of `a` first, the one of `a/b` under the keys `a`, `b`; `toJSON` shows only the first. -/
theorem interior_shown_witness :
    ((getMod (Tree.empty : Tree Nat) [[97]] (· ++ [0]) >>= (getMod · [[97], [98]] (· ++ [1]))).toOption.map
        (fun t => C10T.outline (getContent t 0)) = some [([[[97]]], [0]), ([[[97]], [[98]]], [1])]) ∧
    ((getMod (Tree.empty : Tree Nat) [[97]] (· ++ [0]) >>= (getMod · [[97], [98]] (· ++ [1]))).toOption.map
        (fun t => (toJSON t).leaves) = some [([[97]], [0])]) := by
  constructor <;> decide +kernel

/-- `ObserverList.serializeDetails()` after any history whose `data` is textual (`C10T.TextData`: a `str` for
    "error"/"warning", a `str` or a tuple — a PO key — for "missingEntity"/"obsoleteEntity"; what the callers
    pass): it returns, and the text is the "\n"-join of the lines of the rows of `getContent()`: per ("key", k)
    row two spaces per level and the "/"-joined key, per ("value", items) row one line per details item, indented
    one level deeper than the value, `ERROR: `/`WARNING: ` + message, `+`/`-` + entity (tuple keys joined with
    " | ", `None` parts skipped), `// add and localize this file`, `// remove this file`.
    Read as an outline, the rows are: for every path with at least one non-ignored, non-hidden notification
    exactly one value row, holding exactly these notifications in the order raised (`details_spec`), under
    keys that concatenate to the path of the file they were raised for; the files come in sorted order.
    (For the `ObserverList` itself take `flt = none` and the history `list_own_as_observer` gives:
    `list_serialize_details_spec`.) -/
theorem serialize_details_spec (q : Nat) (flt : Option Filter) (h : List Ev) (o' : Obs)
    (hr : (Obs.init q flt).run h = .ok o') (htd : C10T.TextData h) :
    serializeDetails o' = .ok (joinNl ((getContent o'.details 0).flatMap C10T.lineOf)) ∧
      (∀ p l, (∃ ks, (ks, l) ∈ C10T.outline (getContent o'.details 0) ∧ ks.flatten = p) ↔
        (l = detailsSpec q flt h p ∧ l ≠ [])) ∧
      ((C10T.outline (getContent o'.details 0)).map (fun r => r.1.flatten)).Pairwise C10T.pathLt ∧
      (∀ r ∈ C10T.outline (getContent o'.details 0), joinSlash (r.1.map joinSlash) = joinSlash r.1.flatten) := by
  obtain ⟨hinv, _, _⟩ := Obs.run_details h (Obs.init q flt) o' inv_empty hr
  obtain ⟨_, _, _, hs, hk⟩ := getcontent_spec o'.details hinv
  exact ⟨C10T.serializeDetails_lines o' (C10T.history_good hr (htd.shown q flt)), C10T.history_rows hr, hs,
    fun r hr => (hk r hr).2⟩

/-- the exact condition under which `serializeDetails()` returns after a history over modelled files: the data of
    every notification that is displayed — not ignored by the filter, not hidden by the quiet level — is textual;
    otherwise it raises `TypeError` (`str + tuple`, `str + None`). -/
theorem serialize_details_total_iff (q : Nat) (flt : Option Filter) (h : List Ev) (o' : Obs)
    (hr : (Obs.init q flt).run h = .ok o') (hm : ∀ ev ∈ h, Modelled ev.file) :
    ((∃ t, serializeDetails o' = .ok t) ↔ C10T.ShownText q flt h) ∧
      (¬ C10T.ShownText q flt h → serializeDetails o' = .error .typeError) := by
  refine ⟨⟨?_, ?_⟩, C10T.history_bad hr hm⟩
  · rintro ⟨t, ht⟩
    apply Classical.byContradiction
    intro hbad
    rw [C10T.history_bad hr hm hbad] at ht
    cases ht
  · intro hst
    exact ⟨_, C10T.serializeDetails_lines o' (C10T.history_good hr hst)⟩

/-- the lines of one row, spelled out (this is the definition of `C10T.lineOf`/`C10T.detailText`) -/
theorem line_of_row :
    (∀ d k, C10T.lineOf (.key d k) = [spaces (2 * d) ++ joinSlash k]) ∧
    (∀ d items, C10T.lineOf (.value d items) = items.map (fun it => spaces (2 * (d + 1)) ++ C10T.detailText it)) ∧
    (∀ t, C10T.detailText (.error, .data (.str t)) = ofString "ERROR: " ++ t) ∧
    (∀ t, C10T.detailText (.warning, .data (.str t)) = ofString "WARNING: " ++ t) ∧
    (∀ t, C10T.detailText (.missingEntity, .data (.str t)) = ofString "+" ++ t) ∧
    (∀ t, C10T.detailText (.obsoleteEntity, .data (.str t)) = ofString "-" ++ t) ∧
    (∀ ps, C10T.detailText (.missingEntity, .data (.tuple ps)) = ofString "+" ++ joinBar (ps.filterMap id)) ∧
    (∀ ps, C10T.detailText (.obsoleteEntity, .data (.tuple ps)) = ofString "-" ++ joinBar (ps.filterMap id)) ∧
    (∀ v, C10T.detailText (.missingFile, v) = ofString "// add and localize this file") ∧
    (∀ v, C10T.detailText (.obsoleteFile, v) = ofString "// remove this file") :=
  ⟨fun _ _ => rfl, fun _ _ => rfl, fun _ => rfl, fun _ => rfl, fun _ => rfl, fun _ => rfl, fun _ => rfl,
    fun _ => rfl, fun _ => rfl, fun _ => rfl⟩

/-- `serialize_details_spec` for what the command prints, `observers.serializeDetails()` of the `ObserverList`:
    its details are those of an unfiltered observer fed the events not ignored by all project observers. -/
theorem list_serialize_details_spec (q : Nat) (obs : List Obs) (h : List Ev) (l' : ObsList)
    (hr : (ObsList.init q obs).run h = .ok l') (htd : C10T.TextData h) :
    serializeDetails l'.own = .ok (joinNl ((getContent l'.own.details 0).flatMap C10T.lineOf)) ∧
      (∀ p l, (∃ ks, (ks, l) ∈ C10T.outline (getContent l'.own.details 0) ∧ ks.flatten = p) ↔
        (l = detailsSpec q none (h.filter (fun ev => !ignList (obs.map (·.filter)) ev)) p ∧ l ≠ [])) := by
  have hown := (list_own_as_observer q obs h l' hr).1
  obtain ⟨a, b, _⟩ := serialize_details_spec q none _ l'.own hown (htd.filter _)
  exact ⟨a, b⟩

/-- why `serialize_details_spec` needs textual data: an "error" whose data is a tuple makes
    `"ERROR: " + item["error"]` raise `TypeError` (no caller passes one). -/
theorem serialize_details_witness :
    (match (Obs.init 0 none).run [.notify .error ⟨[97], none, none⟩ (.tuple [some [109], none])] >>= serializeDetails with
      | .error e => some e | .ok _ => none) = some .typeError := by
  decide +kernel

/-- raising the quiet level only removes `(file, detail line)` pairs from what `serializeDetails` displays and
    keeps their order (`C10T.displayed`: every details line without its indentation, paired with the "/"-joined
    path of the chain of keys it stands under), and the files displayed at the higher level are a sublist of
    those at the lower level.
    FULL statement asked for — "the lines at quiet q' ≥ q are a sublist of the lines at q" — is false: the
    path compression depends on which files are present, so key lines and indentation change
    (`quiet_text_lines_witness`). -/
theorem quiet_text_monotone (q q' : Nat) (hq : q ≤ q') (flt : Option Filter) (h : List Ev) (o1 o2 : Obs)
    (h1 : (Obs.init q flt).run h = .ok o1) (h2 : (Obs.init q' flt).run h = .ok o2) :
    (C10T.displayed o2).Sublist (C10T.displayed o1) ∧
      ((C10T.outline (getContent o2.details 0)).map (fun r => r.1.flatten)).Sublist
        ((C10T.outline (getContent o1.details 0)).map (fun r => r.1.flatten)) := by
  obtain ⟨a, b⟩ := C10T.displayed_mono hq h1 h2
  refine ⟨a, ?_⟩
  simp only [C10T.shownRows, List.map_map] at b
  exact b

/-- `quiet_text_monotone` for the `ObserverList` (what the command prints) at two quiet levels, the project
    observers having the same filters -/
theorem list_quiet_text_monotone (q q' : Nat) (hq : q ≤ q') (obs1 obs2 : List Obs)
    (hf : obs1.map (·.filter) = obs2.map (·.filter)) (h : List Ev) (l1 l2 : ObsList)
    (h1 : (ObsList.init q obs1).run h = .ok l1) (h2 : (ObsList.init q' obs2).run h = .ok l2) :
    (C10T.displayed l2.own).Sublist (C10T.displayed l1.own) := by
  have a := (list_own_as_observer q obs1 h l1 h1).1
  have b := (list_own_as_observer q' obs2 h l2 h2).1
  rw [hf] at a
  exact (quiet_text_monotone q q' hq none _ l1.own l2.own a b).1

/-- the lines themselves are not monotone: with an obsolete entity in `a/b/c` and an error in `a/b/d`,
    quiet 0 prints `a/b`, `  c`, `      -k`, `  d`, `      ERROR: m`, quiet 1 prints `a/b/d`, `    ERROR: m`. -/
theorem quiet_text_lines_witness :
    let h : List Ev := [.notify .obsoleteEntity ⟨[97, 47, 98, 47, 99], none, some [100, 101]⟩ (.str [107]),
                        .notify .error ⟨[97, 47, 98, 47, 100], none, some [100, 101]⟩ (.str [109])]
    let lines (q : Nat) := ((Obs.init q none).run h).toOption.map (fun o => (getContent o.details 0).flatMap C10T.lineOf)
    lines 0 = some [ofString "a/b", ofString "  c", ofString "      -k", ofString "  d", ofString "      ERROR: m"] ∧
    lines 1 = some [ofString "a/b/d", ofString "    ERROR: m"] ∧
    ¬ [ofString "a/b/d", ofString "    ERROR: m"].Sublist
        [ofString "a/b", ofString "  c", ofString "      -k", ofString "  d", ofString "      ERROR: m"] := by
  decide +kernel

/-- `serializeSummaries()` returns exactly when the list's own summary does not mix a `None` locale with `str`
    locales (`sorted` would raise `TypeError`) and, if it has a locale at all, there is at least one project
    observer (`summaries[-1]` on an empty list would raise `IndexError`); the other cases raise exactly these. -/
theorem summaries_total_iff (l : ObsList) :
    ((∃ t, serializeSummaries l = .ok t) ↔ C10T.SummariesOK l) ∧
      ((∃ p ∈ l.own.summary, p.1 = none) → (∃ p ∈ l.own.summary, p.1 ≠ none) →
        serializeSummaries l = .error .typeError) ∧
      (((∀ p ∈ l.own.summary, p.1 = none) ∨ (∀ p ∈ l.own.summary, p.1 ≠ none)) → l.own.summary ≠ [] →
        l.observers = [] → serializeSummaries l = .error .indexError) :=
  ⟨C10T.serializeSummaries_total_iff l, C10T.serializeSummaries_typeError l,
    fun hloc hne ho => C10T.serializeSummaries_indexError l ho hne hloc⟩

/-- the shape of `serializeSummaries()` where it returns: the "\n"-join of one block per locale of the list's own
    summary, the locales sorted; a block (`C10T.block`, spelled out in `summary_block`) has one column per project
    observer plus, with more than one project, one for the list itself (`C10T.columns`). -/
theorem serialize_summaries_spec (l : ObsList) (hobs : l.observers ≠ [])
    (hloc : (∀ p ∈ l.own.summary, p.1 = none) ∨ (∀ p ∈ l.own.summary, p.1 ≠ none)) :
    ∃ order : List (Option Text × Counters),
      order.Perm l.own.summary ∧ order.Pairwise (fun a b => C10T.locLe a.1 b.1) ∧
      serializeSummaries l = .ok (joinNl (order.flatMap (fun p => C10T.block p.1 (C10T.columns l p.1 p.2)))) :=
  C10T.serializeSummaries_ok l hobs hloc

/-- one block: `locale:` for a non-empty `str` locale; then, in the fixed order errors, warnings, missing, missing_w,
    obsolete, changed, changed_w, unchanged, unchanged_w, keys (no `report`), for every key with a non-zero counter
    in some column the key left-aligned in 12 characters and one `" {:6}"` cell per column (blank for zero or for a
    project that does not know the locale, else the decimal number right-aligned in 7 characters below 10^6);
    then `N% of entries changed` with N = changed*100 / (changed+unchanged+report+missing), rounded down, at most 100,
    0 when nothing was counted, computed from the last column: the list's own counters with more than one
    project, those of the only project otherwise. -/
theorem summary_block (loc : Option Text) (cols : List (Option Counters)) :
    C10T.block loc cols =
        (match loc with | some t => if t ≠ [] then [t ++ [58]] else [] | none => []) ++
        (summaryRows.filter (fun k => cols.any (fun c => C10T.counterOf c k != 0))).map
          (fun k => lead k ++ (cols.map (fun c => cell (c.map (· k)))).flatten) ++
        [natText (C10T.rateOf (cols.getLast?.bind id)) ++ ofString "% of entries changed"] ∧
      summaryRows.map StatKey.name = ["errors", "warnings", "missing", "missing_w", "obsolete", "changed", "changed_w",
        "unchanged", "unchanged_w", "keys"] ∧
      (∀ c, C10T.rateOf c = C10T.counterOf c .changed * 100 /
        (C10T.counterOf c .changed + C10T.counterOf c .unchanged + C10T.counterOf c .report + C10T.counterOf c .missing) ∧
        C10T.rateOf c ≤ 100) ∧
      (∀ (l : ObsList) (loc : Option Text) (own : Counters),
        C10T.columns l loc own = l.observers.map (fun o => (o.summary.find? (·.1 == loc)).map (·.2)) ++
          (if l.observers.length > 1 then [some own] else []) ∧
        (C10T.columns l loc own).getLast?.bind id = (if l.observers.length > 1 then some own
          else l.observers.getLast?.bind (fun o => (o.summary.find? (·.1 == loc)).map (·.2)))) ∧
      (∀ n : Nat, 0 < n → n < 10 ^ 6 → cell (some n) = spaces (7 - (natText n).length) ++ natText n ∧
        (cell (some n)).length = 7 ∧ Nat.ofDigitChars 10 (toString n).toList 0 = n) ∧
      cell (some 0) = spaces 7 ∧ cell none = spaces 7 := by
  refine ⟨rfl, rfl, fun c => ⟨rfl, C10T.rateOf_le c⟩, fun l loc own => ⟨rfl, C10T.columns_last l loc own⟩, ?_, rfl, rfl⟩
  intro n h0 h6
  have hs := C10T.cell_shape (some n)
  simp only [show n ≠ 0 by omega, ↓reduceIte] at hs
  have hl := (C10T.natText_length_le n 6 (by decide)).2 h6
  rcases hs with hs | ⟨hge, _⟩
  · refine ⟨hs, ?_, C10T.natText_value n⟩
    rw [hs]
    simp [spaces]
    omega
  · omega

/-- after any history through a fresh `ObserverList` with at least one project observer, over files whose
    locales are all `str` or all `None`, `serializeSummaries()` returns. -/
theorem summaries_never_raise (q : Nat) (obs : List Obs) (h : List Ev) (l' : ObsList)
    (hr : (ObsList.init q obs).run h = .ok l') (hobs : obs ≠ [])
    (hloc : (∀ ev ∈ h, ev.file.locale = none) ∨ (∀ ev ∈ h, ev.file.locale ≠ none)) :
    ∃ t, serializeSummaries l' = .ok t := by
  obtain ⟨hl, ho⟩ := C10T.list_run_locales hr
  apply (C10T.serializeSummaries_total_iff l').2
  refine ⟨?_, Or.inr (fun e => hobs (ho.1 e))⟩
  rcases hloc with hn | hs
  · left
    intro p hp
    obtain ⟨ev, hev, e⟩ := hl p hp
    rw [← e]; exact hn ev hev
  · right
    intro p hp
    obtain ⟨ev, hev, e⟩ := hl p hp
    rw [← e]; exact hs ev hev

/-- the excluded points of `summaries_never_raise`: without project observers every notification is ignored but
    `updateStats` still counts, and `serializeSummaries` raises `IndexError`; an error for a file without
    locale (a reference file) next to one for a localized file makes it raise `TypeError`. -/
theorem summaries_witness :
    (match (ObsList.init 0 []).run [.stats ⟨[97], none, some [100, 101]⟩ [(.missing, 1)]] >>= serializeSummaries with
      | .error e => some e | .ok _ => none) = some .indexError ∧
    (match (ObsList.init 0 [Obs.init 0 none]).run [.notify .error ⟨[97], none, none⟩ (.str [109]),
        .notify .error ⟨[98], none, some [100, 101]⟩ (.str [109])] >>= serializeSummaries with
      | .error e => some e | .ok _ => none) = some .typeError := by
  constructor <;> decide +kernel

/-! ## non-vacuity and negation witnesses -/

/-- de/a/x (no module), y in module `a` of locale de, fr/z: three files, two sharing the prefix de/a -/
def exFiles : List File :=
  [⟨[100, 101, 47, 97, 47, 120], none, some [100, 101]⟩, ⟨[121], some [97], some [100, 101]⟩,
   ⟨[102, 114, 47, 122], none, some [102, 114]⟩]

/-- a filter that ignores French files and downgrades the key `k` to a warning -/
def exFilter : Filter := fun f d =>
  if f.locale == some [102, 114] then .ignore else if d == .str [107] then .warning else .error

def exHistory : List Ev :=
  match exFiles with
  | [f0, f1, f2] =>
    [.notify .error f0 (.str [109]), .notify .missingEntity f1 (.str [107]), .notify .obsoleteEntity f0 (.str [111]),
     .notify .error f2 (.str [109]), .notify .warning f1 (.str [119]), .stats f0 [(.missing, 2)],
     .notify .missingFile f2 .none, .notify .error f1 (.str [110])]
  | _ => []

/-- the hypotheses of the history theorems hold for a non-trivial history, and the model computes:
    two errors for `de` in the project observer and in the list, none for `fr` (ignored by the only
    project observer, hence by the list), exit status 1 -/
example : (∀ ev ∈ exHistory, Modelled ev.file) ∧ NoErrStats exHistory ∧
    ((ObsList.init 1 [Obs.init 1 (some exFilter)]).run exHistory).toOption.map
      (fun l => (getCount l.own.summary (some [100, 101]) .errors, getCount l.own.summary (some [102, 114]) .errors,
        l.observers.map (fun o => getCount o.summary (some [100, 101]) .errors), exitStatus false l, exitStatus true l))
      = some (2, 0, [2], 1, 0) := by
  refine ⟨?_, ?_, by decide +kernel⟩
  · intro ev hev
    simp only [exHistory, exFiles, List.mem_cons, List.not_mem_nil, or_false] at hev
    rcases hev with rfl | rfl | rfl | rfl | rfl | rfl | rfl | rfl <;> intro m hm hne <;>
      first
      | (simp only [Ev.file] at hm; cases hm; done)
      | exact ⟨[100, 101], rfl, by decide⟩
  · intro ev hev
    simp only [exHistory, exFiles, List.mem_cons, List.not_mem_nil, or_false] at hev
    rcases hev with rfl | rfl | rfl | rfl | rfl | rfl | rfl | rfl <;> simp

/-- the same history: at quiet 1 the obsolete entity is hidden, everything else sits under de/a -/
example : ((Obs.init 1 (some exFilter)).run exHistory).toOption.map (fun o => flatten o.details)
    = some [([[100, 101], [97], [120]], [(.error, .data (.str [109]))]),
            ([[100, 101], [97], [121]], [(.missingEntity, .data (.str [107])), (.warning, .data (.str [119])),
              (.error, .data (.str [110]))])] := by
  decide +kernel

/-- `tree_invariant` needs a non-empty segment list: `Tree.__get([])` on a tree with a branch reads the
    unbound local `i` (UnboundLocalError); `str.split` never produces that input -/
example : (match getMod (.node [([[97]], .node [] none)] none : Tree Nat) [] id with
    | .error e => some e | .ok _ => none) = some .unboundLocal := by decide +kernel

/-- `tojson_paths` needs segments without "/": the keys ("a/b",) and ("a", "b") collide in the JSON dict
    (only reachable through the private `__get`, `split("/")` never produces such segments) -/
example : ((getMod (Tree.empty : Tree Nat) [[97, 47, 98]] (· ++ [0]) >>= (getMod · [[97], [98]] (· ++ [1]))).toOption.map
      (fun t => ((flatten t).length, (toJSON t).leaves.length)) = some (2, 1)) := by decide +kernel

/-- `Modelled`: a `File` with a module but `locale=None` would put `None` into the path -/
example : (match partsOf ⟨[120], some [109], none⟩ with | .error e => some e | .ok _ => none) = some .unmodelled := by
  decide

/-- `list_errors_iff_observers` needs stats without `errors`: the list never filters `updateStats`,
    the project observers do -/
example : ((ObsList.init 0 [Obs.init 0 (some exFilter)]).run
      [.stats ⟨[102, 114, 47, 122], none, some [102, 114]⟩ [(.errors, 1)]]).toOption.map
      (fun l => (totalErrors l.own.summary, l.observers.map (fun o => totalErrors o.summary))) = some (1, [0]) := by
  decide +kernel

/-- the text renderings on the history above (quiet 0, one project observer ignoring `fr`, and a second one without
    filter plus stats for `fr`): the hypotheses of `serialize_details_spec`, `summaries_never_raise` hold and the model
    prints the two files under their shared directory, sorted, and per locale the counted rows and the percentage -/
example : C10T.TextData exHistory ∧ (∀ ev ∈ exHistory, ev.file.locale ≠ none) ∧
    ((ObsList.init 0 [Obs.init 0 (some exFilter)]).run exHistory >>= (fun l => serializeDetails l.own)).toOption
      = some (ofString "de/a\n  x\n      ERROR: m\n      -o\n  y\n      +k\n      WARNING: w\n      ERROR: n") ∧
    ((ObsList.init 0 [Obs.init 0 (some exFilter), Obs.init 0 none]).run
        (exHistory ++ [.stats ⟨[102, 114, 47, 122], none, some [102, 114]⟩ [(.changed, 1), (.unchanged, 2)]])
        >>= serializeSummaries).toOption
      = some (ofString ("de:\nerrors            2      2      2\nwarnings          1      1      1\n" ++
          "missing           2      2      2\n0% of entries changed\nfr:\nerrors                   1      1\n" ++
          "changed                  1      1\nunchanged                2      2\n33% of entries changed")) := by
  refine ⟨?_, ?_, by decide +kernel, by decide +kernel⟩
  · intro cat f d hev
    simp only [exHistory, exFiles, List.mem_cons, List.not_mem_nil, or_false] at hev
    rcases hev with h | h | h | h | h | h | h | h <;> cases h <;> rfl
  · intro ev hev
    simp only [exHistory, exFiles, List.mem_cons, List.not_mem_nil, or_false] at hev
    rcases hev with rfl | rfl | rfl | rfl | rfl | rfl | rfl | rfl <;> simp [Ev.file]

/-- tuple keys (PO): `msgid | msgctxt`, a `None` context is skipped -/
example : ((Obs.init 0 none).run [.notify .missingEntity ⟨[97, 46, 112, 111], none, some [100, 101]⟩ (.tuple [some [105, 100], some [99]]),
      .notify .obsoleteEntity ⟨[97, 46, 112, 111], none, some [100, 101]⟩ (.tuple [some [105, 100], none])] >>= serializeDetails).toOption
    = some (ofString "a.po\n    +id | c\n    -id") := by decide +kernel

/-- `getcontent_spec` on a tree filled in the order b/x, a/y, a (its invariant holds by `tree_invariant`): the walk
    in dict order lists b/x first, `getContent()` shows the interior list of `a` first, then a/y, then b/x -/
example : ((getMod (Tree.empty : Tree Nat) [[98], [120]] (· ++ [0]) >>= (getMod · [[97], [121]] (· ++ [1]))
      >>= (getMod · [[97]] (· ++ [2]))).toOption.map (fun t => ((flatten t).map (·.1), C10T.outline (getContent t 0)))
    = some ([[[98], [120]], [[97]], [[97], [121]]],
            [([[[97]]], [2]), ([[[97]], [[121]]], [1]), ([[[98], [120]]], [0])])) := by
  decide +kernel

/-! ## the orchestration layer: `compareProjects`, `CompareLocales.handle`, `extract_positionals`

Model: `ProjM` (CLModel/Compare/Projects.lean); helpers in CLModel/Proofs/C10Proj.lean (namespace `C10P`).
`World` collects what `compareProjects` reads from outside — the `ProjectFiles` enumeration per locale, `os.path.exists`,
the parsers — as INPUTS; every theorem below holds for ALL worlds (all project trees, all file contents), all project
lists, all arguments.  The only contract asked of an input is `C10P.CompareRuns w`: whatever `ContentComparer.compare`
does to the observers behind its `getParser` gate is a sequence of notifications / `updateStats` calls about the two
files it was called for, none of them a `missingFile`/`obsoleteFile`, the stats without an `errors` entry. -/

open ProjM in
/-- the three-way decision of the loop body is a function of the two `os.path.exists` answers: `add` iff the localized
    file does not exist, otherwise `remove` iff the reference does not exist, otherwise `compare`; with the localized
    file present and no reference path (`None`) `os.path.exists(None)` raises `TypeError`. -/
theorem three_way_decision (w : World) (it : Item) :
    (decide3 w it = some .add ↔ w.pathExists it.l10n = false) ∧
      (decide3 w it = some .remove ↔ w.pathExists it.l10n = true ∧ ∃ r, it.ref = some r ∧ w.pathExists r = false) ∧
      (decide3 w it = some .compare ↔ w.pathExists it.l10n = true ∧ ∃ r, it.ref = some r ∧ w.pathExists r = true) ∧
      (decide3 w it = none ↔ w.pathExists it.l10n = true ∧ it.ref = none) := by
  unfold decide3
  cases hl : w.pathExists it.l10n <;> cases hr : it.ref with
  | none => simp
  | some r => cases hx : w.pathExists r <;> simp [hx]

open ProjM in
/-- EVERY ENUMERATED FILE CAUSES EXACTLY ONE OF add / remove / compare.  When `compareProjects` returns, the
    `ContentComparer` methods it called are, in order, one per tuple of `list(ProjectFiles(locale, …))` for the locales
    in `sorted(all_locales)` — called with the paths, merge path and tests of that tuple — and which method it is
    follows from the two `os.path.exists` answers (`three_way_decision`).  The reference `File` has no locale, both
    `File`s have the same module, and the localized `File` carries the locale of the outer loop — or
    `REFERENCE_LOCALE` when that is `None`. -/
theorem projects_one_call_per_file (w : World) (projects : List Project) (a : Args) (junk : Nat) (st : St)
    (h : compareProjects w projects a junk = .ok st) :
    ∃ locales, sortedLocales (allLocales projects a) = .ok locales ∧
      st.calls.map C10P.Call.item = locales.flatMap (C10P.itemsOf w) ∧
      ∀ c ∈ st.calls, decide3 w (C10P.Call.item c) = some c.kind ∧ c.ref.locale = none ∧ c.ref.module = c.l10n.module ∧
        ∃ loc ∈ locales, c.l10n.locale = some (localeAfter loc) := by
  unfold compareProjects at h
  simp only at h
  split at h
  · simp [fail] at h
  · rename_i locales hs
    obtain ⟨cs, c1, c2, c3⟩ := C10P.localeLoop_calls a locales _ st h
    simp only [List.nil_append] at c1
    refine ⟨locales, hs, by rw [c1, c2], ?_⟩
    intro c hc
    rw [c1] at hc
    obtain ⟨loc, hl, ⟨k, l, r, m⟩, _⟩ := c3 c hc
    exact ⟨k, r, m, loc, hl, l⟩

open ProjM in
/-- PER-FILE INDEPENDENCE OF THE CALLS.  Every call of a run is `mkCall` of ITS OWN tuple: the two `File` objects —
    `module`, the path `fpath` relative to the l10n base or to the prefix of the first matcher that matches THIS
    localized path —, the merge path, the tests and the method are a function of that tuple, of the matchers of the
    `ProjectFiles` object of its locale, of the locale and of the two `os.path.exists` answers; nothing carries over
    from the files handled before it (`module = None` is reset at the top of the loop body; the one variable that
    does carry over, `locale`, changes once, from `None` to `REFERENCE_LOCALE`). -/
theorem projects_calls_per_file (w : World) (projects : List Project) (a : Args) (junk : Nat) (st : St)
    (h : compareProjects w projects a junk = .ok st) :
    ∀ c ∈ st.calls, ∃ loc files, w.projectFiles loc = .ok files ∧
      mkCall w a.l10nBaseDir files (localeAfter loc) (C10P.Call.item c) = .ok c := by
  unfold compareProjects at h
  simp only at h
  split at h
  · simp [fail] at h
  · rename_i locales hs
    obtain ⟨cs, c1, _, c3⟩ := C10P.localeLoop_calls a locales _ st h
    simp only [List.nil_append] at c1
    intro c hc
    rw [c1] at hc
    obtain ⟨loc, _, _, files, hf, hm⟩ := c3 c hc
    exact ⟨loc, files, hf, hm⟩

open ProjM in
/-- `compareProjects` REFINES A HISTORY.  Everything it does to the observers is `ObserverList.run` of one sequence of
    events on the list `ObserverList(quiet)` + one `Observer(quiet, filter)` per project: the concatenation, call by
    call, of
    * `remove`: the one notification `obsoleteFile` for the localized `File`;
    * `add`: `missingFile` for the localized `File`, then — unless every project filter ignores it or there is no
      parser — `updateStats(l10n, {"missing": n})`, `updateStats(l10n, {"missing_w": w})` for the reference's n
      entities / w words, or one `error` for the reference `File` if reading it failed (`C10P.addEvents`);
    * `compare`: events about its two files (`C10P.CompareRuns`).
    Hence every project observer ends as if it alone had been fed that whole history (`list_own_as_observer`), and
    every theorem above about histories applies to a run of `compareProjects`. -/
theorem projects_refine_history (w : World) (hw : C10P.CompareRuns w) (projects : List Project) (a : Args) (junk : Nat)
    (st : St) (h : compareProjects w projects a junk = .ok st) :
    ∃ tr : C10P.Trace, st.calls = tr.map (·.1) ∧
      (ObsList.init a.quiet (mkObservers projects a)).run (tr.flatMap (·.2)) = .ok st.obs ∧
      (∀ p ∈ tr, C10P.CallSpec w ((mkObservers projects a).map (·.filter)) p.1 p.2) ∧
      (∀ p ∈ tr, ∀ ev ∈ p.2, ev.file = p.1.l10n ∨ ev.file = p.1.ref) ∧
      All₂ (fun o o' => o.run (tr.flatMap (·.2)) = .ok o') (mkObservers projects a) st.obs.observers := by
  unfold compareProjects at h
  simp only at h
  split at h
  · simp [fail] at h
  · rename_i locales hs
    obtain ⟨tr, t1, t2, t3, _, _⟩ := C10P.localeLoop_run hw a locales _ st h
    simp only [List.nil_append] at t1
    refine ⟨tr, t1, t2, t3, fun p hp => C10P.callSpec_files (t3 p hp), ?_⟩
    exact (list_own_as_observer a.quiet (mkObservers projects a) _ st.obs t2).2

/-- EACH MISSING FILE / OBSOLETE FILE EVENT EXACTLY ONCE.  In the history of a run the `missingFile` / `obsoleteFile`
    notifications are exactly: one `missingFile` for the localized `File` of every `add` call, one `obsoleteFile` for that
    of every `remove` call, in call order, none from `compare` — so by `projects_one_call_per_file` one per enumerated
    tuple whose localized file (resp. reference file) does not exist, and by `projects_refine_history` /
    `list_fanout` each of them is handed to every project observer exactly once (and counted by the list iff not all
    ignore it). -/
theorem projects_file_events_once (w : ProjM.World) (flts : List (Option Filter)) (tr : C10P.Trace)
    (h : ∀ p ∈ tr, C10P.CallSpec w flts p.1 p.2) :
    (tr.flatMap (·.2)).filter C10P.isFileEv = tr.filterMap (fun p => C10P.fileEvOf p.1) ∧
      (∀ c, C10P.fileEvOf c = match c.kind with
        | .add => some (.notify .missingFile c.l10n .none)
        | .remove => some (.notify .obsoleteFile c.l10n .none)
        | .compare => none) :=
  ⟨C10P.trace_fileEvents tr h, fun _ => rfl⟩

open ProjM in
/-- THE SUMMARIES OF A RUN.  After `compareProjects` every number of the union observer's summary (the `ObserverList`
    itself) is the count, over the history of the run, of the `error`/`warning` notifications not ignored by all project
    filters plus ALL stats for that locale and key; every number of a project observer is the same count with its own
    filter — the filter of its project, or none in validation mode (`C10P.filtersOf`).  (`summary_counts`,
    `list_summary_counts` instantiated with the history of `projects_refine_history`.) -/
theorem projects_summary_counts (w : World) (hw : C10P.CompareRuns w) (projects : List Project) (a : Args) (junk : Nat)
    (st : St) (h : compareProjects w projects a junk = .ok st) :
    ∃ hist : List Ev, (ObsList.init a.quiet (mkObservers projects a)).run hist = .ok st.obs ∧
      (∀ loc key, getCount st.obs.own.summary loc key = countSpec (ignList (C10P.filtersOf projects a)) loc key hist) ∧
      All₂ (fun flt o' => ∀ loc key, getCount o'.summary loc key = countSpec (ignObs flt) loc key hist)
        (C10P.filtersOf projects a) st.obs.observers := by
  obtain ⟨tr, _, t2, _, _, t5⟩ := projects_refine_history w hw projects a junk st h
  refine ⟨_, t2, fun loc key => ?_, ?_⟩
  · rw [list_summary_counts a.quiet _ _ st.obs t2 loc key, C10P.mkObservers_filters]
  · rw [C10P.mkObservers_eq] at t5
    exact All₂.imp (fun flt o' hr loc key => summary_counts a.quiet flt _ o' hr loc key) (C10P.All₂.of_map_left _ t5)

open ProjM in
/-- EXIT STATUS END TO END.  Whenever `CompareLocales.handle` returns (no `SystemExit`, no exception), the value it
    returns is 1 iff `return_zero` is off and the union observer has counted at least one error during the run of
    `compareProjects` — equivalently at least one project observer has, so the JSON output (project observers) and the
    exit status agree — and it is 0 otherwise.  For every world whose `compare` keeps the contract `C10P.CompareRuns`
    (in particular: no `errors` entry in its stats, the excluded point of `exit_iff_errors`). -/
theorem handle_exit_iff (hw : HWorld) (h : HArgs)
    (hcr : ∀ cfgs env full locs projects w, hw.loadConfigs cfgs env full locs = .ok (projects, w) → C10P.CompareRuns w)
    (rv : Nat) (hret : (handle hw h).outcome = .returned rv) :
    ∃ st, (handle hw h).final = some st ∧
      (rv = 1 ↔ h.returnZero = false ∧ 0 < totalErrors st.obs.own.summary) ∧
      (0 < totalErrors st.obs.own.summary ↔ ∃ o ∈ st.obs.observers, 0 < totalErrors o.summary) ∧
      (rv = 0 ∨ rv = 1) ∧
      (st.obs.own.error = true ↔ 0 < totalErrors st.obs.own.summary) ∧
      (∀ o ∈ st.obs.observers, (o.error = true ↔ 0 < totalErrors o.summary)) ∧
      rv = C10F.exitVia C10F.readOwn h.returnZero st.obs ∧ rv = C10F.exitVia C10F.readAny h.returnZero st.obs := by
  obtain ⟨cfgs, base, locales, projects, w, st, _, hload, hcp, heq⟩ := C10P.handle_returned hret
  rw [heq] at hret ⊢
  obtain ⟨r1, r2, _, _⟩ := C10P.report_returned hret
  have hw' := hcr _ _ _ _ _ _ hload
  obtain ⟨tr, _, t2, t3, _, _⟩ := projects_refine_history w hw' projects _ hw.junk st hcp
  have hn : NoErrStats (tr.flatMap (·.2)) := C10P.trace_noErrStats tr t3
  have t2' := t2
  rw [C10P.mkObservers_eq] at t2'
  obtain ⟨_, e2, _, _⟩ := exit_reader_independent _ _ _ st.obs h.returnZero t2' hn
  have hinit : ∀ o ∈ mkObservers projects
      { locales := locales, l10nBaseDir := base, mergeStage := h.merge, clobberMerge := h.clobber, quiet := h.quiet },
      C10F.FlagIffCounted o := by
    intro o ho
    rw [C10P.mkObservers_eq] at ho
    obtain ⟨flt, _, rfl⟩ := List.mem_map.1 ho
    exact C10F.flagIffCounted_init _ flt
  obtain ⟨f1, f2⟩ := list_flags_iff_counted _ _ _ st.obs t2 hn.pos hinit
  refine ⟨st, r2, ?_, ?_, ?_, f1, f2, ?_, ?_⟩
  · rw [r1]
    exact exit_iff_errors _ _ _ st.obs h.returnZero t2 hn.pos
  · exact list_errors_iff_observers _ _ _ st.obs t2' hn
  · rw [r1]
    simp only [exitStatus]
    split <;> simp
  · rw [r1]; rfl
  · rw [r1]
    simp only [C10F.exitVia, ← e2]
    rfl

open ProjM in
/-- WHAT `handle` PRINTS AND DUMPS.  Whenever `handle` returns: with `--json -` nothing is printed after the lines
    `compareProjects` printed (merge / clobber messages); otherwise, after those lines, `print(details)` iff the details
    text is not empty, then IFF THERE IS MORE THAN ONE CONFIG a blank line (only after details), `Summaries for`, one
    line `  <config path>` per config file in command line order and the line about the union, then
    `print(observers.serializeSummaries())` (`ProjM.headBlocks`, spelled out in the last clause).  With `--json` the data
    is one `toJSON()` — summary and details — per PROJECT observer, in project order, to stdout iff the value is `-`. -/
theorem handle_report_blocks (hw : HWorld) (h : HArgs) (rv : Nat) (hret : (handle hw h).outcome = .returned rv) :
    ∃ cfgs base locales projects w st,
      extractPositionals hw.fs hw.cwd h.validate h.configPaths h.l10nBaseDir h.locales = .ok (cfgs, base, locales) ∧
      hw.loadConfigs cfgs (configEnv base h.defines) h.full locales = .ok (projects, w) ∧
      (handle hw h).final = some st ∧
      (handle hw h).json = (match h.json with
        | some j => some (j == Gen.Cmd.jsonStdout,
            st.obs.observers.map (fun o => ({ summary := o.summary, details := toJSON o.details } : ObsJson)))
        | none => none) ∧
      ((h.json = some Gen.Cmd.jsonStdout ∧ (handle hw h).stdout = st.out) ∨
       (h.json ≠ some Gen.Cmd.jsonStdout ∧ ∃ details summaries, serializeDetails st.obs.own = .ok details ∧
          serializeSummaries st.obs = .ok summaries ∧
          (handle hw h).stdout = st.out ++ headBlocks cfgs projects.length details ++ [summaries])) ∧
      (∀ (cfgs : List Text) (n : Nat) (details : Text), headBlocks cfgs n details =
        (if details ≠ [] then [details] else []) ++
        (if n > 1 then (if details ≠ [] then [Gen.Cmd.blankLine] else []) ++ [Gen.Cmd.summariesFor] ++
            cfgs.map (Gen.Cmd.configIndent ++ ·) ++ [Gen.Cmd.unionLine] else [])) := by
  obtain ⟨cfgs, base, locales, projects, w, st, hpos, hload, _, heq⟩ := C10P.handle_returned hret
  rw [heq] at hret ⊢
  obtain ⟨_, r2, r3, r4⟩ := C10P.report_returned hret
  refine ⟨cfgs, base, locales, projects, w, st, hpos, hload, r2, r3, r4, ?_⟩
  intro cfgs n details
  unfold headBlocks
  cases details <;> simp

open ProjM in
/-- VALIDATION MODE.  If `None in locales` (what `--validate` passes: `[None]`) and `compareProjects` returns, then
    `locales` holds nothing but `None` (a `str` next to it makes `sorted` raise `TypeError`), the filter of EVERY project
    observer is disabled, and the locale every localized `File` displays — in details paths of files with a module, in
    the summaries — is `REFERENCE_LOCALE` (the loop variable `locale` is re-assigned inside the inner loop, once, and
    stays).  Otherwise every project observer filters with its project's `filter` and every localized `File` carries
    one of the locales of `all_locales`. -/
theorem projects_validation (w : World) (projects : List Project) (a : Args) (junk : Nat) (st : St)
    (h : compareProjects w projects a junk = .ok st) :
    (none ∈ a.locales →
      (∀ x ∈ a.locales, x = none) ∧ (mkObservers projects a).map (·.filter) = projects.map (fun _ => none) ∧
      ∀ c ∈ st.calls, c.l10n.locale = some Gen.Cmd.referenceLocale) ∧
    (none ∉ a.locales →
      (mkObservers projects a).map (·.filter) = projects.map (fun p => some p.filter) ∧
      ∀ c ∈ st.calls, ∃ l, some l ∈ allLocales projects a ∧ c.l10n.locale = some l) := by
  obtain ⟨locales, hs, _, hc⟩ := projects_one_call_per_file w projects a junk st h
  rw [C10P.mkObservers_filters]
  constructor
  · intro hv
    have hcont : a.locales.contains none = true := by simpa using hv
    rcases C10P.sortedLocales_ok hs with ⟨hn, _⟩ | ⟨_, hall, hsorted⟩
    · exact absurd (by simp [allLocales, hv]) hn
    · refine ⟨fun x hx => hall x (by simp [allLocales, hx]), by simp [C10P.filtersOf, hv], ?_⟩
      intro c hc'
      obtain ⟨_, _, _, loc, hl, e⟩ := hc c hc'
      rw [hsorted] at hl
      simp only [List.mem_singleton] at hl
      subst hl
      exact e
  · intro hv
    have hcont : a.locales.contains none = false := by simpa using hv
    refine ⟨by simp [C10P.filtersOf, hv], ?_⟩
    intro c hc'
    obtain ⟨_, _, _, loc, hl, e⟩ := hc c hc'
    rcases C10P.sortedLocales_ok hs with ⟨_, hsorted⟩ | ⟨hn, hall, _⟩
    · rw [hsorted] at hl
      obtain ⟨t, ht, rfl⟩ := List.mem_map.1 hl
      have := (C10P.mem_sortedSet _ t).1 ht
      simp only [List.mem_filterMap, id] at this
      obtain ⟨x, hx, rfl⟩ := this
      exact ⟨t, hx, e⟩
    · exfalso
      apply hv
      have : none ∈ allLocales projects a := hn
      simp only [allLocales, List.mem_append] at this
      rcases this with h1 | h2
      · exact h1
      · split at h2
        · simp at h2
        · cases h2

open ProjM in
/-- INDEPENDENT OF THE ORDER OF THE `locales` ARGUMENT.  Two argument lists with the same members — any order, any
    repetitions — give the same result: observers, printed lines, calls, junk counter, or the same exception
    (`all_locales` is a set, iterated in `sorted` order; `None in locales` and `not locales` only ask for membership). -/
theorem projects_locale_order (w : World) (projects : List Project) (a a' : Args) (junk : Nat)
    (hm : ∀ x, x ∈ a.locales ↔ x ∈ a'.locales)
    (hrest : a.l10nBaseDir = a'.l10nBaseDir ∧ a.mergeStage = a'.mergeStage ∧ a.clobberMerge = a'.clobberMerge ∧
      a.quiet = a'.quiet) :
    compareProjects w projects a junk = compareProjects w projects a' junk := by
  obtain ⟨a_loc, a_base, a_merge, a_cl, a_q⟩ := a
  obtain ⟨b_loc, b_base, b_merge, b_cl, b_q⟩ := a'
  simp only at hm hrest
  obtain ⟨rfl, rfl, rfl, rfl⟩ := hrest
  have hcont : a_loc.contains none = b_loc.contains none := by
    rw [Bool.eq_iff_iff]; simp [hm none]
  have hemp : a_loc.isEmpty = b_loc.isEmpty := by
    rw [Bool.eq_iff_iff]
    simp only [List.isEmpty_iff]
    constructor
    · intro e
      apply List.eq_nil_iff_forall_not_mem.2
      intro x hx
      have := (hm x).2 hx
      rw [e] at this; cases this
    · intro e
      apply List.eq_nil_iff_forall_not_mem.2
      intro x hx
      have := (hm x).1 hx
      rw [e] at this; cases this
  have hobs : mkObservers projects ⟨a_loc, a_base, a_merge, a_cl, a_q⟩ = mkObservers projects ⟨b_loc, a_base, a_merge, a_cl, a_q⟩ := by
    simp only [mkObservers, hcont]
  have hsort : sortedLocales (allLocales projects ⟨a_loc, a_base, a_merge, a_cl, a_q⟩)
      = sortedLocales (allLocales projects ⟨b_loc, a_base, a_merge, a_cl, a_q⟩) := by
    apply C10P.sortedLocales_congr
    intro x
    simp only [allLocales, List.mem_append, hemp, hm x]
  have hloop : ∀ ls st, localeLoop w ⟨a_loc, a_base, a_merge, a_cl, a_q⟩ ls st = localeLoop w ⟨b_loc, a_base, a_merge, a_cl, a_q⟩ ls st := by
    intro ls
    induction ls with
    | nil => intro st; rfl
    | cons l rest ih =>
      intro st
      simp only [localeLoop]
      cases w.projectFiles l with
      | error e => rfl
      | ok files =>
        simp only
        have hc : clobber ⟨a_loc, a_base, a_merge, a_cl, a_q⟩ files st = clobber ⟨b_loc, a_base, a_merge, a_cl, a_q⟩ files st := rfl
        rw [hc]
        cases clobber ⟨b_loc, a_base, a_merge, a_cl, a_q⟩ files st with
        | error e => rfl
        | ok st1 =>
          simp only
          cases itemLoop w a_base files files.items (l, st1) with
          | error e => rfl
          | ok p => exact ih _
  unfold compareProjects
  simp only [hobs, hsort]
  split
  · rfl
  · exact hloop _ _

open ProjM in
/-- `extract_positionals` SPLITS AT THE FIRST DIRECTORY.  If it returns `(config_paths, l10n_base_dir, locales)`, the
    arguments `config_paths + [l10n_base_dir] + locales` as argparse delivered them are `configs ++ [dir] ++ rest` where no
    element of `configs` is a directory, every one is an existing file, `dir` is a directory — the FIRST one —,
    `configs` is not empty, the base is `abspath(dir)`, and the locales are `rest`, or `[None]` with `--validate`
    (whatever `rest` is).  Otherwise it ends in `parser.error`: "no configuration file given" iff the first argument
    is a directory, else "config file … not found" for the first non-file before the first directory, else
    "l10n-base-dir not found" iff no argument is a directory. -/
theorem extract_positionals_spec (fs : ArgFs) (cwd : Path) (validate : Bool) (configPaths : List Text)
    (l10nBaseDir : Text) (locales : List Text) :
    (∀ cfgs base locs, extractPositionals fs cwd validate configPaths l10nBaseDir locales = .ok (cfgs, base, locs) →
      ∃ dir rest, configPaths ++ [l10nBaseDir] ++ locales = cfgs ++ dir :: rest ∧ cfgs ≠ [] ∧
        (∀ c ∈ cfgs, fs.isdir c = false ∧ fs.isfile c = true) ∧
        fs.isdir dir = true ∧ base = abspath cwd dir ∧ locs = (if validate then [none] else rest.map some)) ∧
    (∀ msg, extractPositionals fs cwd validate configPaths l10nBaseDir locales = .error msg →
      (msg = fill Gen.Cmd.errNoConfig [] ∧ ∃ x xs, configPaths ++ [l10nBaseDir] ++ locales = x :: xs ∧ fs.isdir x = true) ∨
      (∃ cf ∈ (configPaths ++ [l10nBaseDir] ++ locales).takeWhile (fun x => !fs.isdir x),
        fs.isfile cf = false ∧ msg = fill Gen.Cmd.errConfigNotFound cf) ∨
      (msg = fill Gen.Cmd.errNoBase [] ∧ ∀ x ∈ configPaths ++ [l10nBaseDir] ++ locales, fs.isdir x = false)) :=
  ⟨fun _ _ _ h => C10P.extract_ok h, fun _ h => C10P.extract_err h⟩

/-! ### the composed model: orchestration + the pipeline model of `ContentComparer.compare` (C05)

`ProjPipe.worldOf` (CLModel/Compare/ProjectsPipe.lean) is the world the driver operation `c10.handle` runs and the
correspondence diffs against the real `CompareLocales.handle`: `compare` behind its `getParser` gate is `Pipe.compareParsed`
on the parsed contents of the two files.  For it the contract `CompareRuns` is a THEOREM, so the theorems above hold
for it without any assumption on `compare`.  The external functions of the pipeline model (`Pipe.Ext`, introduced by the
DTD coverage of C05) are a parameter of the world; every theorem here holds FOR ALL `ext`. -/

/-- the composed pipeline model of `ContentComparer.compare` keeps the contract: its effect on the observers is a run of
    `error`/`warning`/`missingEntity`/`obsoleteEntity` notifications for the localized file and one `updateStats` without an
    `errors` entry (or the single `error` of a failed `readFile`, for that file) — for ALL file contents -/
theorem composed_world_contract (ext : Pipe.Ext) (cwd : ProjM.Path)
    (enums : List (Option Text × Except ProjM.PyErr ProjM.Files))
    (existing : List ProjM.Path) (md : List (ProjM.Path × Text)) (cs : List (ProjM.Path × ProjPipe.Content)) :
    C10P.CompareRuns (ProjPipe.worldOf ext cwd enums existing md cs) :=
  C10P.worldOf_compareRuns ext cwd enums existing md cs

open ProjM in
/-- EXIT STATUS END TO END for the composed model (no assumption on `compare`): from the command line and the file
    contents to the value `handle` returns — 1 iff `return_zero` is off and an error was counted by the union observer,
    iff by some project observer. -/
theorem composed_exit_iff (hw : HWorld) (h : HArgs)
    (hcomp : ∀ cfgs env full locs projects w, hw.loadConfigs cfgs env full locs = .ok (projects, w) →
      ∃ ext cwd enums existing md cs, w = ProjPipe.worldOf ext cwd enums existing md cs)
    (rv : Nat) (hret : (handle hw h).outcome = .returned rv) :
    ∃ st, (handle hw h).final = some st ∧
      (rv = 1 ↔ h.returnZero = false ∧ 0 < totalErrors st.obs.own.summary) ∧
      (0 < totalErrors st.obs.own.summary ↔ ∃ o ∈ st.obs.observers, 0 < totalErrors o.summary) ∧
      (rv = 0 ∨ rv = 1) ∧
      (st.obs.own.error = true ↔ 0 < totalErrors st.obs.own.summary) ∧
      (∀ o ∈ st.obs.observers, (o.error = true ↔ 0 < totalErrors o.summary)) ∧
      rv = C10F.exitVia C10F.readOwn h.returnZero st.obs ∧ rv = C10F.exitVia C10F.readAny h.returnZero st.obs := by
  apply handle_exit_iff hw h _ rv hret
  intro cfgs env full locs projects w hl
  obtain ⟨ext, cwd, enums, existing, md, cs, rfl⟩ := hcomp cfgs env full locs projects w hl
  exact composed_world_contract ext cwd enums existing md cs

open ProjM in
/-- the run of the composed model refines a history (`projects_refine_history` without its hypothesis) -/
theorem composed_refine_history (ext : Pipe.Ext) (cwd : Path) (enums : List (Option Text × Except ProjM.PyErr Files))
    (existing : List Path) (md : List (Path × Text)) (cs : List (Path × ProjPipe.Content))
    (projects : List Project) (a : Args) (junk : Nat) (st : St)
    (h : compareProjects (ProjPipe.worldOf ext cwd enums existing md cs) projects a junk = .ok st) :
    ∃ tr : C10P.Trace, st.calls = tr.map (·.1) ∧
      (ObsList.init a.quiet (mkObservers projects a)).run (tr.flatMap (·.2)) = .ok st.obs ∧
      (tr.flatMap (·.2)).filter C10P.isFileEv = tr.filterMap (fun p => C10P.fileEvOf p.1) ∧
      NoErrStats (tr.flatMap (·.2)) := by
  obtain ⟨tr, t1, t2, t3, _, _⟩ :=
    projects_refine_history _ (composed_world_contract ext cwd enums existing md cs) projects a junk st h
  exact ⟨tr, t1, t2, C10P.trace_fileEvents tr t3, C10P.trace_noErrStats tr t3⟩

open ProjM in
/-- QUIET HIDES ONLY DETAILS, END TO END.  Two runs of `compareProjects` that differ in the quiet level only (`q ≤ q'`)
    make the same `ContentComparer` calls, print the same lines and spend the same junk ids; every summary number and
    the error flag of the union observer and of every project observer coincide — hence the exit status —, and per
    path the details at the higher level are a sublist of those at the lower level.  The control flow of the whole run
    (which entity is "missing" and which merely "reported", whether a missing file is counted) only ever looks at
    return values of `notify`, and these are functions of the project filters.
    For every world whose `compare` has that property (`C10P.CompareSync`: started on two observer lists with the same
    filters it raises the same events); `composed_world_quiet_blind` proves it for the composed pipeline model. -/
theorem projects_quiet_hides_only_details (w : World) (hw : C10P.CompareSync w) (projects : List Project) (a : Args)
    (q q' : Nat) (hq : q ≤ q') (junk : Nat) (st1 st2 : St)
    (h1 : compareProjects w projects { a with quiet := q } junk = .ok st1)
    (h2 : compareProjects w projects { a with quiet := q' } junk = .ok st2) :
    st1.calls = st2.calls ∧ st1.out = st2.out ∧ st1.junk = st2.junk ∧
      st1.obs.own.summary = st2.obs.own.summary ∧ st1.obs.own.error = st2.obs.own.error ∧
      (∀ rz, exitStatus rz st1.obs = exitStatus rz st2.obs) ∧
      (∀ p, ((find st2.obs.own.details p).getD []).Sublist ((find st1.obs.own.details p).getD [])) ∧
      All₂ (fun o1 o2 => o1.summary = o2.summary ∧ o1.error = o2.error ∧
          ∀ p, ((find o2.details p).getD []).Sublist ((find o1.details p).getD []))
        st1.obs.observers st2.obs.observers := by
  obtain ⟨hsim, evs, r1, r2⟩ := C10P.compareProjects_sync hw projects a q q' junk st1 st2 h1 h2
  obtain ⟨o1, a1⟩ := list_own_as_observer q _ evs st1.obs r1
  obtain ⟨o2, a2⟩ := list_own_as_observer q' _ evs st2.obs r2
  have hfl : ((C10P.filtersOf projects a).map (Obs.init q)).map (·.filter)
      = ((C10P.filtersOf projects a).map (Obs.init q')).map (·.filter) := by
    simp only [List.map_map]
    apply List.map_congr_left
    intro x _
    rfl
  rw [hfl] at o1
  obtain ⟨s1, s2⟩ := quiet_summary_inv q q' none _ _ _ o1 o2
  refine ⟨hsim.calls, hsim.out, hsim.junk, s1, s2, ?_, ?_, ?_⟩
  · intro rz
    simp only [exitStatus, s2]
  · intro p
    exact quiet_monotone q q' hq none _ _ _ o1 o2 p
  · have b1 := C10P.All₂.of_map_left _ a1
    have b2 := C10P.All₂.of_map_left _ a2
    apply All₂.imp _ (C10P.All₂.join b1 b2)
    rintro x y ⟨flt, hx, hy⟩
    obtain ⟨t1, t2⟩ := quiet_summary_inv q q' flt _ _ _ hx hy
    exact ⟨t1, t2, fun p => quiet_monotone q q' hq flt _ _ _ hx hy p⟩

/-- the composed pipeline model of `ContentComparer.compare` is blind to the quiet level: on two observer lists with the
    same project filters it raises the same events, prints the same lines, spends the same junk ids — for ALL file
    contents.  So `projects_quiet_hides_only_details` holds for the composed model without assumption. -/
theorem composed_world_quiet_blind (ext : Pipe.Ext) (cwd : ProjM.Path)
    (enums : List (Option Text × Except ProjM.PyErr ProjM.Files))
    (existing : List ProjM.Path) (md : List (ProjM.Path × Text)) (cs : List (ProjM.Path × ProjPipe.Content)) :
    C10P.CompareSync (ProjPipe.worldOf ext cwd enums existing md cs) :=
  C10P.worldOf_compareSync ext cwd enums existing md cs

/-! ### non-vacuity and negation witnesses for the orchestration layer -/

section ProjectsExamples
open ProjM

/-- `/l/de/a` + `/r/a` (both exist: compare), `/l/de/gone` (no reference: remove), `/r/new` (not localized: add);
    nothing for `fr` -/
def exEnum : Option Text → Except ProjM.PyErr Files
  | some [100, 101] => .ok {
      matchers := [{ l10nMatch := fun _ => true, l10nPrefix := ofString "/l/de/", module := none, hasMerge := false }],
      items := [{ l10n := ofString "/l/de/a", ref := some (ofString "/r/a"), merge := none, tests := [] },
                { l10n := ofString "/l/de/gone", ref := some (ofString "/r/gone"), merge := none, tests := [] },
                { l10n := ofString "/l/de/new", ref := some (ofString "/r/new"), merge := none, tests := [] }] }
  | _ => .ok { matchers := [], items := [] }

/-- a world whose `compare` reports two changed strings per file and whose reference files have 3 entities / 5 words -/
def exWorld : World where
  cwd := [47]
  projectFiles := exEnum
  pathExists := fun p => [ofString "/l/de/a", ofString "/r/a", ofString "/l/de/gone", ofString "/r/new"].contains p
  parserCaps := fun _ => some 6
  parseRef := fun _ _ j => (.ok (3, 5), j)
  compareBody := fun c j l => .ok (l.updateStats c.l10n [(.changed, 2)], [], j)
  makeMergeDir := fun _ => none

/-- a project that knows `de` and `fr` and ignores the file `de/new` -/
def exProject : Project where
  filter := fun f _ => if f.file == ofString "de/new" then .ignore else .error
  allLocales := [[102, 114], [100, 101]]

/-- the contract `CompareRuns` is satisfiable (and holds for `exWorld`) -/
example : C10P.CompareRuns exWorld := by
  intro c junk l r h
  simp only [exWorld, Except.ok.injEq] at h
  subst h
  refine ⟨[.stats c.l10n [(.changed, 2)]], C10P.stats_run _ _ _, ?_, ?_⟩
  · intro ev hev
    simp only [List.mem_singleton] at hev
    subst hev
    exact ⟨Or.inl rfl, rfl⟩
  · intro ev hev
    simp only [List.mem_singleton] at hev
    subst hev
    intro kv hkv
    simp only [List.mem_singleton] at hkv
    subst hkv
    decide

/-- the model computes on it: locales sorted (`de` before `fr`), one call per enumerated file with the method the two
    `exists` answers dictate, paths relative to the l10n base, and — with one unfiltered and one filtering project —
    `missing` counted by the union and the first observer only (the second ignores `de/new`), `changed` by all -/
example :
    let r := compareProjects exWorld [{ exProject with filter := fun _ _ => .error }, exProject]
      { locales := [], l10nBaseDir := ofString "/l" }
    r.toOption.map (fun st => st.calls.map (fun c => (c.kind, c.l10n.file, c.l10n.locale)))
      = some [(.compare, ofString "de/a", some [100, 101]), (.remove, ofString "de/gone", some [100, 101]),
              (.add, ofString "de/new", some [100, 101])] ∧
    r.toOption.map (fun st => [getCount st.obs.own.summary (some [100, 101]) .missing,
        getCount st.obs.own.summary (some [100, 101]) .changed]) = some [3, 2] ∧
    r.toOption.map (fun st => st.obs.observers.map (fun o => [getCount o.summary (some [100, 101]) .missing,
        getCount o.summary (some [100, 101]) .changed])) = some [[3, 2], [0, 2]] := by
  decide +kernel

/-- validation mode on the same world: the enumeration of `None`, the displayed locale is `REFERENCE_LOCALE` -/
example :
    let r := compareProjects { exWorld with projectFiles := fun
        | none => .ok { matchers := [], items := [{ l10n := ofString "/r/a", ref := some (ofString "/r/a"), merge := none, tests := [] },
                                                  { l10n := ofString "/r/new", ref := some (ofString "/r/new"), merge := none, tests := [] }] }
        | some _ => .error (.external "unexpected") } [exProject]
      { locales := [none], l10nBaseDir := ofString "/l" }
    r.toOption.map (fun st => st.calls.map (fun c => (c.kind, c.l10n.file, c.l10n.locale)))
      = some [(.compare, ofString "../r/a", some Gen.Cmd.referenceLocale), (.compare, ofString "../r/new", some Gen.Cmd.referenceLocale)] ∧
    r.toOption.map (fun st => st.obs.observers.map (·.filter.isSome)) = some [false] := by
  decide +kernel

/-- a path rule with a `module` (legacy l10n.ini) before a plain one: the module file is keyed by its path below the
    matcher prefix and carries the module, the plain file after it carries NO module and its path below the l10n base -/
example :
    let r := compareProjects { exWorld with
        projectFiles := fun _ => .ok {
          matchers := [{ l10nMatch := fun p => (ofString "/l/de/app/").isPrefixOf p, l10nPrefix := ofString "/l/de/app/",
                         module := some (ofString "app"), hasMerge := false },
                       { l10nMatch := fun p => (ofString "/l/de/zother/").isPrefixOf p, l10nPrefix := ofString "/l/de/zother/",
                         module := none, hasMerge := false }],
          items := [{ l10n := ofString "/l/de/app/a", ref := some (ofString "/r/a"), merge := none, tests := [] },
                    { l10n := ofString "/l/de/zother/b", ref := some (ofString "/r/a"), merge := none, tests := [] }] }
        pathExists := fun _ => true } [exProject] { locales := [some [100, 101]], l10nBaseDir := ofString "/l" }
    r.toOption.map (fun st => st.calls.map (fun c => (c.l10n.module, c.l10n.file)))
      = some [(some (ofString "app"), ofString "a"), (none, ofString "de/zother/b")] := by
  decide +kernel

/-- `None` next to a `str` in `locales`: `sorted` raises `TypeError` (the excluded case of `projects_validation`) -/
example : (match compareProjects exWorld [exProject] { locales := [none, some [100, 101]], l10nBaseDir := ofString "/l" } with
    | .error (e, _) => some e | .ok _ => none) = some .typeError := by decide +kernel

/-- a localized file without reference path (a path rule without `reference`): `os.path.exists(None)` raises -/
example : (match compareProjects { exWorld with projectFiles := fun _ => .ok { matchers := [], items :=
        [{ l10n := ofString "/l/de/a", ref := none, merge := none, tests := [] }] } } [exProject]
      { locales := [some [100, 101]], l10nBaseDir := ofString "/l" } with
    | .error (e, _) => some e | .ok _ => none) = some .typeError := by decide +kernel

/-- `--clobber-merge` with a merge stage: `{_m.get("merge") for _m in files.matchers}` hashes a `Matcher` — `TypeError`
    before anything is compared -/
example : (match compareProjects { exWorld with projectFiles := fun _ => .ok { matchers :=
        [{ l10nMatch := fun _ => true, l10nPrefix := ofString "/l/de/", module := none, hasMerge := true }], items := [] } }
      [exProject] { locales := [some [100, 101]], l10nBaseDir := ofString "/l", mergeStage := some (ofString "/m"),
                    clobberMerge := true } with
    | .error (e, _) => some e | .ok _ => none) = some .typeError := by decide +kernel

/-- why `projects_file_events_once` / `projects_refine_history` ask for `CompareRuns`: a `compare` that itself raised a
    `missingFile` notification would put a second kind of file event into the history — here the only call is a
    `compare`, yet the details show a missing file -/
example : (compareProjects { exWorld with
        projectFiles := fun _ => .ok { matchers := [], items :=
          [{ l10n := ofString "/l/de/a", ref := some (ofString "/r/a"), merge := none, tests := [] }] }
        compareBody := fun c j l => match l.notify .missingFile c.l10n .none with
          | .ok (l', _) => .ok (l', [], j)
          | .error e => .error (.observer e) }
      [{ exProject with filter := fun _ _ => .error }] { locales := [some [100, 101]], l10nBaseDir := ofString "/l" }).toOption.map
      (fun st => (st.calls.map (·.kind), (toJSON st.obs.own.details).leaves.map (fun kv => kv.2.map (·.1))))
    = some ([.compare], [[.missingFile]]) := by decide +kernel

/-- why `projects_quiet_hides_only_details` asks for `CompareSync`: a `compare` that peeked at the details tree (which
    the quiet level does change) could count differently at two quiet levels — here it counts a changed string only
    while no details are stored, and the obsolete file handled before it is stored at quiet 0 but not at quiet 2 -/
example :
    let w : World := { exWorld with
      projectFiles := fun _ => .ok { matchers := [], items :=
        [{ l10n := ofString "/l/de/gone", ref := some (ofString "/r/gone"), merge := none, tests := [] },
         { l10n := ofString "/l/de/a", ref := some (ofString "/r/a"), merge := none, tests := [] }] }
      compareBody := fun c j l =>
        if (toJSON l.own.details).leaves.isEmpty then .ok (l.updateStats c.l10n [(.changed, 1)], [], j) else .ok (l, [], j) }
    let run (q : Nat) := (compareProjects w [{ exProject with filter := fun _ _ => .error }]
      { locales := [some [100, 101]], l10nBaseDir := ofString "/l", quiet := q }).toOption.map
        (fun st => getCount st.obs.own.summary (some [100, 101]) .changed)
    run 0 = some 0 ∧ run 2 = some 1 := by
  decide +kernel

/-- the world of `handle` for the examples: `/l` is the only directory, `/a.toml` and `/b.toml` the only files -/
def exHWorld (body : Call → Nat → ObsList → Except ProjM.PyErr (ObsList × List Text × Nat)) : HWorld where
  fs := { isdir := fun x => x == ofString "/l", isfile := fun x => x == ofString "/a.toml" || x == ofString "/b.toml" }
  cwd := [47]
  loadConfigs := fun _ _ _ _ => .ok ([{ exProject with filter := fun _ _ => .error }, exProject],
                                      { exWorld with compareBody := body })

def exHArgs : HArgs := { configPaths := [ofString "/a.toml", ofString "/b.toml"], l10nBaseDir := ofString "/l" }

/-- `handle` end to end on `exWorld`: two config files, so the header is printed (details, blank line, `Summaries for`,
    two config lines, the union line, the summaries); exit status 0 (no error was counted) — and 1 as soon as `compare`
    counts an error; a config argument that is not a file ends in `parser.error` -/
example : (handle (exHWorld exWorld.compareBody) exHArgs).outcome = .returned 0 ∧
    (handle (exHWorld exWorld.compareBody) exHArgs).stdout.drop 1 =
      [[], ofString "Summaries for", ofString "  /a.toml", ofString "  /b.toml",
       ofString "    and the union of these, counting each string once",
       ofString "de:\nmissing           3             3\nmissing_w         5             5\nchanged           2      2      2\n40% of entries changed"] ∧
    (handle (exHWorld (fun c j l => match l.notify .error c.l10n (.str [109]) with
        | .ok (l', _) => .ok (l', [], j)
        | .error e => .error (.observer e))) exHArgs).outcome = .returned 1 ∧
    (handle (exHWorld exWorld.compareBody) { exHArgs with configPaths := [ofString "/a.toml", ofString "/nope.toml"] }).outcome
      = .usage (ofString "config file /nope.toml not found") := by
  decide +kernel

/-- `mozpath.relpath` / `abspath` on the shapes `compareProjects` meets: below the base, beside it (validation mode),
    the base itself, a prefix that ends inside a file name, `..` and doubled slashes in the arguments -/
example : (relpath [47] (ofString "/l/de/browser/a.ftl") (ofString "/l")).toOption = some (ofString "de/browser/a.ftl") ∧
    (relpath [47] (ofString "/r/en/a.ftl") (ofString "/l")).toOption = some (ofString "../r/en/a.ftl") ∧
    (relpath [47] (ofString "/l") (ofString "/l/")).toOption = some [] ∧
    (relpath [47] (ofString "/l/de/bar.ftl") (ofString "/l/de/ba")).toOption = some (ofString "../bar.ftl") ∧
    (relpath (ofString "/cwd") (ofString "x/../y//z") (ofString ".")).toOption = some (ofString "y/z") ∧
    abspath (ofString "/cwd") (ofString "l10n/") = ofString "/cwd/l10n" ∧
    abspath (ofString "/cwd") (ofString "//x/./y/..") = ofString "//x" := by decide +kernel

end ProjectsExamples

end C10

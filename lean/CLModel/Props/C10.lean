/-
C10 — Summaries count every event once; quiet hides only details; exit = errors.
Property theorems only (helper lemmas live in CLModel/Proofs/C10Tree.lean and C10Obs.lean).

Models: `TreeM` = compare_locales.compare.utils.Tree, `ObsM` = compare.observer.Observer/ObserverList
and the exit status of commands.CompareLocales.handle.
-/
import CLModel.Compare.Tree
import CLModel.Compare.Observer
import CLModel.Proofs.C10Tree
import CLModel.Proofs.C10Obs
namespace C10
open TreeM ObsM

/-! ## the details tree -/

/-- `Tree.__get` keeps the radix-tree invariant — sibling keys are non-empty and start with pairwise
    different segments — and never raises on a non-empty segment list (what `Tree.__getitem__` always
    passes: `str.split` never returns `[]`).  `f` is what the caller does with the returned list. -/
theorem tree_invariant {V : Type} :
    TreeM.Inv (Tree.empty : Tree V) ∧
      ∀ (t : Tree V) (parts : List Part) (f : List V → List V), TreeM.Inv t → parts ≠ [] →
        ∃ t', getMod t parts f = .ok t' ∧ TreeM.Inv t' := by
  refine ⟨by simp [Tree.empty, TreeM.Inv, InvBr], ?_⟩
  intro t parts f hinv hp
  obtain ⟨t', e, h, _⟩ := getMod_spec f parts.length t parts (Nat.le_refl _) hinv hp
  exact ⟨t', e, h⟩

/-- `tree[path].append(x)` refines a map from paths to lists: the list of `path` gets `x` appended
    (it is created when missing), the list of every other path is untouched — whatever the order of
    insertion and however the paths nest (no prefix-freeness needed). -/
theorem tree_refines_map {V : Type} (t t' : Tree V) (parts : List Part) (f : List V → List V)
    (hinv : TreeM.Inv t) (hp : parts ≠ []) (h : getMod t parts f = .ok t') :
    ∀ p, find t' p = if p = parts then some (f ((find t parts).getD [])) else find t p := by
  obtain ⟨t'', e, _, _, hf⟩ := getMod_spec f parts.length t parts (Nat.le_refl _) hinv hp
  rw [e] at h; injection h with h; subst h
  exact hf

/-- every path is stored at exactly one node: walking the tree (`flatten`: concatenating the keys from the
    root) lists each path once, with exactly the list the lookup finds. -/
theorem tree_flatten_once {V : Type} (t : Tree V) (hinv : TreeM.Inv t) :
    ((flatten t).map (·.1)).Nodup ∧ ∀ p l, (p, l) ∈ flatten t ↔ find t p = some l :=
  ⟨flatten_nodup t hinv, mem_flatten_iff_find t hinv⟩

/-- for prefix-free path sets `Tree.toJSON` shows every stored list exactly once, and the dict keys on
    the way to it, joined with "/", are the "/"-joined path of the file. -/
theorem tojson_paths {V : Type} (t : Tree V) (hinv : TreeM.Inv t) (hns : NoSlash t)
    (hpf : PrefixFree ((flatten t).map (·.1))) :
    (toJSON t).leaves.map (fun kv => (joinSlash kv.1, kv.2))
      = (flatten t).map (fun pv => (joinSlash pv.1, pv.2)) := by
  rw [toJSON_leaves t hinv hns hpf, flatten_eq_flattenK, List.map_map, List.map_map]
  apply List.map_congr_left
  intro ksv hksv
  simp only [Function.comp]
  rw [joinSlash_map_joinSlash _ (flattenK_keys_ne_nil t hinv ksv hksv)]

/-- why `tojson_paths` needs prefix-free paths: a value at an interior node hides its subtree.
    After `tree["a"]`, `tree["a/b"]` the tree stores two lists, `toJSON` shows one. -/
theorem prefix_case_witness :
    ((getMod (Tree.empty : Tree Nat) [[97]] (· ++ [0]) >>= (getMod · [[97], [98]] (· ++ [1]))).toOption.map flatten
      = some [([[97]], [0]), ([[97], [98]], [1])]) ∧
    ((getMod (Tree.empty : Tree Nat) [[97]] (· ++ [0]) >>= (getMod · [[97], [98]] (· ++ [1]))).toOption.map
      (fun t => (toJSON t).leaves) = some [([[97]], [0])]) := by
  constructor <;> decide +kernel

/-! ## one observer -/

/-- a fresh `Observer(quiet, filter)` never raises on a history over modelled files, and its details
    tree keeps the invariant. -/
theorem run_total (q : Nat) (flt : Option Filter) (h : List Ev) (hm : ∀ ev ∈ h, Modelled ev.file) :
    ∃ o', (Obs.init q flt).run h = .ok o' ∧ TreeM.Inv o'.details := by
  obtain ⟨o', hr⟩ := Obs.run_ok h (Obs.init q flt) inv_empty hm
  exact ⟨o', hr, (Obs.run_details h _ o' inv_empty hr).1⟩

/-- after any history the list stored for a path is exactly: the notifications raised for files with
    that path, not ignored by the filter and not hidden by the quiet level, in the order raised
    (`{category: filter result}` for file categories, `{category: data}` otherwise); a path without
    such a notification is not in the tree. -/
theorem details_spec (q : Nat) (flt : Option Filter) (h : List Ev) (o' : Obs)
    (hr : (Obs.init q flt).run h = .ok o') (p : List Part) :
    (find o'.details p).getD [] = detailsSpec q flt h p ∧
      (find o'.details p = none ↔ detailsSpec q flt h p = []) := by
  rw [init_details hr p]
  cases hd : detailsSpec q flt h p <;> simp

/-- after any history `toJSON` of the details shows every stored list exactly once under the "/"-joined path
    of its file, provided the files' paths are prefix-free (no file path is a directory of another). -/
theorem tojson_history (q : Nat) (flt : Option Filter) (h : List Ev) (o' : Obs)
    (hr : (Obs.init q flt).run h = .ok o') (hm : ∀ ev ∈ h, Modelled ev.file)
    (hpf : ∀ e1 ∈ h, ∀ e2 ∈ h, ∀ p1 p2, partsOf e1.file = .ok p1 → partsOf e2.file = .ok p2 → p1 <+: p2 → p1 = p2) :
    (toJSON o'.details).leaves.map (fun kv => (joinSlash kv.1, kv.2))
      = (flatten o'.details).map (fun pv => (joinSlash pv.1, pv.2)) := by
  obtain ⟨hinv, _, hns⟩ := Obs.run_details h (Obs.init q flt) o' inv_empty hr
  apply tojson_paths _ hinv (hns hm noslash_empty)
  have hsrc : ∀ p ∈ (flatten o'.details).map (·.1), ∃ ev ∈ h, partsOf ev.file = .ok p := by
    intro p hp
    obtain ⟨pv, hpv, rfl⟩ := List.mem_map.1 hp
    have hf := (mem_flatten_iff_find o'.details hinv pv.1 pv.2).1 hpv
    rw [init_details hr pv.1] at hf
    cases hd : detailsSpec q flt h pv.1 with
    | nil => rw [hd] at hf; simp at hf
    | cons item rest => exact mem_detailsSpec (item := item) (by rw [hd]; simp)
  intro a ha b hb hab
  obtain ⟨e1, he1, hp1⟩ := hsrc a ha
  obtain ⟨e2, he2, hp2⟩ := hsrc b hb
  exact hpf e1 he1 e2 he2 a b hp1 hp2 hab

/-- after any history every summary number is the number of non-ignored `error` (`warning`) notifications
    for files of that locale, plus the values of the non-ignored `updateStats` calls for that key —
    for all histories, filters and quiet levels. -/
theorem summary_counts (q : Nat) (flt : Option Filter) (h : List Ev) (o' : Obs)
    (hr : (Obs.init q flt).run h = .ok o') (loc : Option Text) (key : StatKey) :
    getCount o'.summary loc key = countSpec (ignObs flt) loc key h := by
  obtain ⟨hc, _, _⟩ := Obs.run_core h _ o' hr
  have := (coreRun_spec (ignObs flt) h (Obs.init q flt).core).1 loc key
  simp only [Obs.core] at hc
  have h1 : o'.summary = (coreRun (ignObs flt) (Obs.init q flt).core h).1 := by
    have := congrArg Prod.fst hc; simpa [Obs.init, Obs.core] using this
  rw [h1, this]
  simp [Obs.init, Obs.core, getCount]

/-- the value `notify` returns is the filter's answer ("error" without a filter); it does not depend on quiet. -/
theorem notify_ret (o o' : Obs) (cat : Cat) (f : File) (d : Data) (rv : Ret)
    (h : o.notify cat f d = .ok (o', rv)) : rv = rvOf o.filter cat f d := (notify_ok h).1

/-- the quiet level never changes a summary number or the error flag. -/
theorem quiet_summary_inv (q q' : Nat) (flt : Option Filter) (h : List Ev) (o1 o2 : Obs)
    (h1 : (Obs.init q flt).run h = .ok o1) (h2 : (Obs.init q' flt).run h = .ok o2) :
    o1.summary = o2.summary ∧ o1.error = o2.error := by
  obtain ⟨c1, _, _⟩ := Obs.run_core h _ o1 h1
  obtain ⟨c2, _, _⟩ := Obs.run_core h _ o2 h2
  have : o1.core = o2.core := by rw [c1, c2]; rfl
  simp only [Obs.core, Prod.mk.injEq] at this
  exact this

/-- raising the quiet level only removes details: per path, the list shown at the higher level is a
    sublist of the one at the lower level (so a file shown at the higher level is shown at the lower one). -/
theorem quiet_monotone (q q' : Nat) (hq : q ≤ q') (flt : Option Filter) (h : List Ev) (o1 o2 : Obs)
    (h1 : (Obs.init q flt).run h = .ok o1) (h2 : (Obs.init q' flt).run h = .ok o2) (p : List Part) :
    ((find o2.details p).getD []).Sublist ((find o1.details p).getD []) := by
  rw [(details_spec q flt h o1 h1 p).1, (details_spec q' flt h o2 h2 p).1]
  exact detailsSpec_mono hq flt h p

/-! ## the ObserverList -/

/-- `ObserverList.notify`: every project observer is notified; the list returns "ignore" iff all of them
    do — always, when there is no project observer — and then does not count the event itself; otherwise it
    notifies itself (without filter) and returns "error" if any project observer does, else "warning".
    In particular `assert len(rvs) == 1` cannot fail (the equation holds whenever the call returns, and
    `list_run_total` shows it returns). -/
theorem list_fanout (l l' : ObsList) (cat : Cat) (f : File) (d : Data) (rv : Ret)
    (h : l.notify cat f d = .ok (l', rv)) :
    (rv = .ignore ↔ ∀ o ∈ l.observers, rvOf o.filter cat f d = .ignore) ∧
      (rv = .error ↔ ∃ o ∈ l.observers, rvOf o.filter cat f d = .error) ∧
      All₂ (fun o o' => o.notify cat f d = .ok (o', rvOf o.filter cat f d)) l.observers l'.observers ∧
      (if rv = .ignore then l'.own = l.own else ∃ r, l.own.notify cat f d = .ok (l'.own, r)) := by
  obtain ⟨h1, h2, h3⟩ := list_notify_spec h
  refine ⟨?_, ?_, h2, h3⟩
  · rw [h1]
    simp only [listRet]
    by_cases hall : (l.observers.map (fun o => rvOf o.filter cat f d)).all (· == .ignore) = true
    · simp only [hall, ↓reduceIte, true_iff]
      simpa [List.all_map] using hall
    · have hn : ¬ ∀ o ∈ l.observers, rvOf o.filter cat f d = .ignore := by
        intro hh; apply hall; simpa [List.all_map] using hh
      simp only [hall, Bool.false_eq_true, ↓reduceIte]
      split <;> simp [hn]
  · rw [h1]
    simp only [listRet]
    by_cases hall : (l.observers.map (fun o => rvOf o.filter cat f d)).all (· == .ignore) = true
    · simp only [hall, ↓reduceIte]
      have hh : ∀ o ∈ l.observers, rvOf o.filter cat f d = .ignore := by simpa [List.all_map] using hall
      constructor
      · intro h; cases h
      · rintro ⟨o, ho, he⟩; rw [hh o ho] at he; cases he
    · simp only [hall, Bool.false_eq_true, ↓reduceIte]
      by_cases hc : (l.observers.map (fun o => rvOf o.filter cat f d)).contains .error = true
      · simp only [hc, ↓reduceIte, true_iff]
        simpa [List.contains_eq_mem] using hc
      · have : ¬ ∃ o ∈ l.observers, rvOf o.filter cat f d = .error := by
          intro hh; apply hc; simpa [List.contains_eq_mem] using hh
        simp [this]

/-- the list's own state is that of an unfiltered `Observer` fed exactly the events that are not ignored
    by all project observers (stats are never filtered by the list), and every project observer ends
    as if it had been fed the history alone. -/
theorem list_own_as_observer (q : Nat) (obs : List Obs) (h : List Ev) (l' : ObsList)
    (hr : (ObsList.init q obs).run h = .ok l') :
    (Obs.init q none).run (h.filter (fun ev => !ignList (obs.map (·.filter)) ev)) = .ok l'.own ∧
      All₂ (fun o o' => o.run h = .ok o') obs l'.observers := by
  obtain ⟨a, b, _⟩ := list_run_spec h (ObsList.init q obs) l' hr rfl
  exact ⟨a, b⟩

/-- the list's own summary counts the `error`/`warning` notifications not ignored by all project observers,
    and all stats. -/
theorem list_summary_counts (q : Nat) (obs : List Obs) (h : List Ev) (l' : ObsList)
    (hr : (ObsList.init q obs).run h = .ok l') (loc : Option Text) (key : StatKey) :
    getCount l'.own.summary loc key = countSpec (ignList (obs.map (·.filter))) loc key h := by
  have hc := list_run_core hr rfl
  have := (coreRun_spec (ignList (obs.map (·.filter))) h (ObsList.init q obs).own.core).1 loc key
  have h1 : l'.own.summary = (coreRun (ignList (obs.map (·.filter))) (ObsList.init q obs).own.core h).1 := by
    have := congrArg Prod.fst hc; simpa [Obs.core, ObsList.filters, ObsList.init] using this
  rw [h1, this]
  simp [ObsList.init, Obs.init, Obs.core, getCount]

/-- no notification sequence over modelled files makes an `ObserverList` of fresh observers raise. -/
theorem list_run_total (q : Nat) (flts : List (Option Filter)) (h : List Ev) (hm : ∀ ev ∈ h, Modelled ev.file) :
    ∃ l', (ObsList.init q (flts.map (Obs.init q))).run h = .ok l' := by
  apply list_run_ok h _ inv_empty _ hm
  intro o ho
  simp only [ObsList.init, List.mem_map] at ho
  obtain ⟨flt, _, rfl⟩ := ho
  exact inv_empty

/-! ## exit status -/

/-- `CompareLocales.handle` returns 1 iff `return_zero` is off and the list has counted at least one error
    (the total of `errors` over all locales of its own summary) — for every history whose stats dicts
    give `errors`, if at all, a positive value. -/
theorem exit_iff_errors (q : Nat) (obs : List Obs) (h : List Ev) (l' : ObsList) (rz : Bool)
    (hr : (ObsList.init q obs).run h = .ok l') (hp : ErrStatsPos h) :
    exitStatus rz l' = 1 ↔ rz = false ∧ 0 < totalErrors l'.own.summary := by
  have hc := list_run_core hr rfl
  have hf := coreRun_flag (ignList (ObsList.init q obs).filters) h hp (ObsList.init q obs).own.core flagOK_init
  rw [← hc] at hf
  simp only [FlagOK, Obs.core] at hf
  simp only [exitStatus]
  cases rz <;> cases he : l'.own.error <;> simp [he] at hf ⊢ <;> omega

/-- why `exit_iff_errors` needs positive `errors` stats: `updateStats(file, {"errors": 0})` raises the
    flag without counting an error, and the command would exit 1 with zero errors. -/
theorem exit_witness :
    ∃ l', (ObsList.init 0 [Obs.init 0 none]).run [.stats ⟨[97], none, some [100, 101]⟩ [(.errors, 0)]] = .ok l' ∧
      exitStatus false l' = 1 ∧ totalErrors l'.own.summary = 0 :=
  ⟨_, rfl, by decide, by decide⟩

/-- the list has counted an error iff some project observer has: the JSON output (project observers only)
    and the exit status (the list's flag) agree.  Needs that stats carry no `errors` entry: the list
    never filters stats, the project observers do. -/
theorem list_errors_iff_observers (q : Nat) (flts : List (Option Filter)) (h : List Ev) (l' : ObsList)
    (hr : (ObsList.init q (flts.map (Obs.init q))).run h = .ok l') (hn : NoErrStats h) :
    0 < totalErrors l'.own.summary ↔ ∃ o ∈ l'.observers, 0 < totalErrors o.summary := by
  have hfl : (ObsList.init q (flts.map (Obs.init q))).filters = flts := by
    have hmap : ∀ fl : List (Option Filter), fl.map ((fun x => x.filter) ∘ Obs.init q) = fl := by
      intro fl
      induction fl with
      | nil => rfl
      | cons a as ih => simp [Obs.init, ih]
    simp only [ObsList.filters, ObsList.init, List.map_map]
    exact hmap flts
  -- the list's flag
  have hc := list_run_core hr rfl
  rw [hfl] at hc
  have hflag := coreRun_flag (ignList flts) h hn.pos (ObsList.init q (flts.map (Obs.init q))).own.core flagOK_init
  rw [← hc] at hflag
  have herr := (coreRun_spec (ignList flts) h (ObsList.init q (flts.map (Obs.init q))).own.core).2
  rw [← hc] at herr
  simp only [FlagOK, Obs.core] at hflag herr
  rw [← hflag, herr]
  simp only [ObsList.init, Obs.init, Bool.false_or]
  rw [any_err_notify hn]
  -- the observers' flags
  obtain ⟨_, hall, _⟩ := list_run_spec h _ l' hr rfl
  have hobs : ∀ o' ∈ l'.observers, ∃ flt ∈ flts, (0 < totalErrors o'.summary ↔
      ∃ cat f d, Ev.notify cat f d ∈ h ∧ cat.isError = true ∧ ignObs flt (.notify cat f d) = false) := by
    intro o' ho'
    obtain ⟨o, ho, hro⟩ := All₂.mem_right hall o' ho'
    simp only [ObsList.init, List.mem_map] at ho
    obtain ⟨flt, hflt, rfl⟩ := ho
    refine ⟨flt, hflt, ?_⟩
    obtain ⟨c1, _, _⟩ := Obs.run_core h _ o' hro
    have f1 := coreRun_flag (ignObs flt) h hn.pos (Obs.init q flt).core flagOK_init
    have e1 := (coreRun_spec (ignObs flt) h (Obs.init q flt).core).2
    simp only [Obs.init] at c1
    simp only [Obs.init] at f1 e1
    rw [← c1] at f1 e1
    simp only [FlagOK, Obs.core] at f1 e1
    rw [← f1, e1]
    simp only [Bool.false_or]
    exact any_err_notify hn _
  constructor
  · rintro ⟨cat, f, d, hev, he, hi⟩
    simp only [ignList, List.all_eq_false] at hi
    obtain ⟨flt, hflt, hne⟩ := hi
    have : Obs.init q flt ∈ (ObsList.init q (flts.map (Obs.init q))).observers := by
      simp only [ObsList.init, List.mem_map]; exact ⟨flt, hflt, rfl⟩
    obtain ⟨o', ho', hro⟩ := All₂.mem_left hall _ this
    refine ⟨o', ho', ?_⟩
    obtain ⟨c1, _, _⟩ := Obs.run_core h _ o' hro
    have f1 := coreRun_flag (ignObs flt) h hn.pos (Obs.init q flt).core flagOK_init
    have e1 := (coreRun_spec (ignObs flt) h (Obs.init q flt).core).2
    simp only [Obs.init] at c1 f1 e1
    rw [← c1] at f1 e1
    simp only [FlagOK, Obs.core] at f1 e1
    rw [← f1, e1]
    simp only [Bool.false_or]
    rw [any_err_notify hn]
    exact ⟨cat, f, d, hev, he, by simpa [ignObs] using hne⟩
  · rintro ⟨o', ho', hpos⟩
    obtain ⟨flt, hflt, hiff⟩ := hobs o' ho'
    obtain ⟨cat, f, d, hev, he, hi⟩ := hiff.1 hpos
    refine ⟨cat, f, d, hev, he, ?_⟩
    simp only [ignList, List.all_eq_false]
    exact ⟨flt, hflt, by simpa [ignObs] using hi⟩

/-! ## non-vacuity and negation witnesses -/

/-- de/a/x (no module), y in module `a` of locale de, fr/z: three files, two sharing the prefix de/a -/
def exFiles : List File :=
  [⟨[100, 101, 47, 97, 47, 120], none, some [100, 101]⟩, ⟨[121], some [97], some [100, 101]⟩,
   ⟨[102, 114, 47, 122], none, some [102, 114]⟩]

/-- a filter that ignores French files and downgrades the key `k` to a warning -/
def exFilter : Filter := fun f d =>
  if f.locale == some [102, 114] then .ignore else if d == .str [107] then .warning else .error

def exHistory : List Ev :=
  match exFiles with
  | [f0, f1, f2] =>
    [.notify .error f0 (.str [109]), .notify .missingEntity f1 (.str [107]), .notify .obsoleteEntity f0 (.str [111]),
     .notify .error f2 (.str [109]), .notify .warning f1 (.str [119]), .stats f0 [(.missing, 2)],
     .notify .missingFile f2 .none, .notify .error f1 (.str [110])]
  | _ => []

/-- the hypotheses of the history theorems hold for a non-trivial history, and the model computes:
    two errors for `de` in the project observer and in the list, none for `fr` (ignored by the only
    project observer, hence by the list), exit status 1 -/
example : (∀ ev ∈ exHistory, Modelled ev.file) ∧ NoErrStats exHistory ∧
    ((ObsList.init 1 [Obs.init 1 (some exFilter)]).run exHistory).toOption.map
      (fun l => (getCount l.own.summary (some [100, 101]) .errors, getCount l.own.summary (some [102, 114]) .errors,
        l.observers.map (fun o => getCount o.summary (some [100, 101]) .errors), exitStatus false l, exitStatus true l))
      = some (2, 0, [2], 1, 0) := by
  refine ⟨?_, ?_, by decide +kernel⟩
  · intro ev hev
    simp only [exHistory, exFiles, List.mem_cons, List.not_mem_nil, or_false] at hev
    rcases hev with rfl | rfl | rfl | rfl | rfl | rfl | rfl | rfl <;> intro m hm hne <;>
      first
      | (simp only [Ev.file] at hm; cases hm; done)
      | exact ⟨[100, 101], rfl, by decide⟩
  · intro ev hev
    simp only [exHistory, exFiles, List.mem_cons, List.not_mem_nil, or_false] at hev
    rcases hev with rfl | rfl | rfl | rfl | rfl | rfl | rfl | rfl <;> simp

/-- the same history: at quiet 1 the obsolete entity is hidden, everything else sits under de/a -/
example : ((Obs.init 1 (some exFilter)).run exHistory).toOption.map (fun o => flatten o.details)
    = some [([[100, 101], [97], [120]], [(.error, .data (.str [109]))]),
            ([[100, 101], [97], [121]], [(.missingEntity, .data (.str [107])), (.warning, .data (.str [119])),
              (.error, .data (.str [110]))])] := by
  decide +kernel

/-- `tree_invariant` needs a non-empty segment list: `Tree.__get([])` on a tree with a branch reads the
    unbound local `i` (UnboundLocalError); `str.split` never produces that input -/
example : (match getMod (.node [([[97]], .node [] none)] none : Tree Nat) [] id with
    | .error e => some e | .ok _ => none) = some .unboundLocal := by decide +kernel

/-- `tojson_paths` needs segments without "/": the keys ("a/b",) and ("a", "b") collide in the JSON dict
    (only reachable through the private `__get`, `split("/")` never produces such segments) -/
example : ((getMod (Tree.empty : Tree Nat) [[97, 47, 98]] (· ++ [0]) >>= (getMod · [[97], [98]] (· ++ [1]))).toOption.map
      (fun t => ((flatten t).length, (toJSON t).leaves.length)) = some (2, 1)) := by decide +kernel

/-- `Modelled`: a `File` with a module but `locale=None` would put `None` into the path -/
example : (match partsOf ⟨[120], some [109], none⟩ with | .error e => some e | .ok _ => none) = some .unmodelled := by
  decide

/-- `list_errors_iff_observers` needs stats without `errors`: the list never filters `updateStats`,
    the project observers do -/
example : ((ObsList.init 0 [Obs.init 0 (some exFilter)]).run
      [.stats ⟨[102, 114, 47, 122], none, some [102, 114]⟩ [(.errors, 1)]]).toOption.map
      (fun l => (totalErrors l.own.summary, l.observers.map (fun o => totalErrors o.summary))) = some (1, [0]) := by
  decide +kernel

end C10

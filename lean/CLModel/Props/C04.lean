/-
C04 — l10n-merge output is complete, clean and otherwise untouched.
Theorems about the model `Merge.merge` of `ContentComparer.merge`, for ALL texts, skip lists
and missing lists.  The re-parse claims of the property are decided on the real code (oracle);
they are false in general (findings F4, F5, F14) — the witnesses below are kernel-checked.
-/
import CLModel.Compare.Merge
namespace C04
open Merge Gen.Tables

/-- spans sorted by start and pairwise disjoint, all present, starting at or after `off` -/
def SortedDisjoint : List Skip → Nat → Prop
  | [], _ => True
  | sk :: rest, off => ∃ a b, sk.span = some (a, b) ∧ off ≤ a ∧ a ≤ b ∧ SortedDisjoint rest b

/-- the l10n text with the spans cut out (specification) -/
def removeSpans (contents : List Nat) : List Skip → Nat → List Nat
  | [], off => contents.drop off
  | sk :: rest, off =>
    match sk.span with
    | some (a, b) => (contents.drop off).take (a - off) ++ removeSpans contents rest b
    | none => contents.drop off

theorem chunks_eq_removeSpans (contents : List Nat) :
    ∀ (skips : List Skip) (off : Nat), SortedDisjoint skips off →
      chunks contents skips (some off) = removeSpans contents skips off := by
  intro skips
  induction skips with
  | nil => intro off _; simp [chunks, removeSpans]
  | cons sk rest ih =>
    intro off h
    obtain ⟨a, b, hs, _, _, hr⟩ := h
    simp [chunks, removeSpans, hs, ih b hr]

/-- cutting sorted, disjoint spans out of a text yields a subsequence of it -/
theorem chunks_sublist (contents : List Nat) :
    ∀ (skips : List Skip) (off : Nat), SortedDisjoint skips off →
      (chunks contents skips (some off)).Sublist (contents.drop off) := by
  intro skips
  induction skips with
  | nil => intro off _; simp [chunks]
  | cons sk rest ih =>
    intro off h
    obtain ⟨a, b, hs, h1, h2, hr⟩ := h
    simp only [chunks, hs]
    have h3 : (chunks contents rest (some b)).Sublist ((contents.drop off).drop (a - off)) := by
      refine (ih b hr).trans ?_
      have : contents.drop b = ((contents.drop off).drop (a - off)).drop (b - a) := by
        rw [List.drop_drop, List.drop_drop]; congr 1; omega
      rw [this]; exact List.drop_sublist _ _
    have := List.Sublist.append (List.Sublist.refl ((contents.drop off).take (a - off))) h3
    rwa [List.take_append_drop] at this

/-- the trailing block: a newline, the missing reference entries, then the reference entries of
    the non-junk skips, each newline-terminated -/
theorem trailing_spec (missingAlls : List (List Nat)) (skips : List Skip) :
    trailing missingAlls skips =
      [10] ++ (missingAlls.map ensureNewline).flatten
        ++ (((skips.filter (fun s => !s.junk)).map (·.refAll)).map ensureNewline).flatten := by
  simp [trailing, ensureNewline]

theorem ensureNewline_ends (s : List Nat) : (ensureNewline s).getLast? = some 10 := by
  unfold ensureNewline; split <;> simp_all

/-- skip+merge formats: the staged text is the l10n text with the skip spans cut out followed by the trailing block -/
theorem merge_text_spec (contents : List Nat) (sk : Skip) (skips : List Skip) (missingAlls : List (List Nat))
    (sorted : List Skip) (hs : sortSkips (sk :: skips) = some sorted) :
    merge true (CAN_SKIP + CAN_MERGE) contents (sk :: skips) missingAlls =
      .written (chunks contents sorted none ++ trailing missingAlls sorted) := by
  simp [merge, hasCap, CAN_SKIP, CAN_MERGE, CAN_COPY, CAN_NONE, hs]

/-- skip-only formats (Fluent, PO, Android): only the cut l10n text is written -/
theorem skip_only_text (contents : List Nat) (sk : Skip) (skips : List Skip) (missingAlls : List (List Nat))
    (sorted : List Skip) (hs : sortSkips (sk :: skips) = some sorted) :
    merge true CAN_SKIP contents (sk :: skips) missingAlls = .written (chunks contents sorted none) := by
  simp [merge, hasCap, CAN_SKIP, CAN_MERGE, CAN_COPY, CAN_NONE, hs]

/-- … and with sorted, disjoint spans that text is a subsequence of the localized text: no reference text enters -/
theorem skip_only_no_english (contents : List Nat) (sk : Skip) (skips : List Skip) (missingAlls : List (List Nat))
    (sorted : List Skip) (hs : sortSkips (sk :: skips) = some sorted) (hd : SortedDisjoint sorted 0) :
    ∃ t, merge true CAN_SKIP contents (sk :: skips) missingAlls = .written t ∧ t.Sublist contents := by
  refine ⟨_, skip_only_text contents sk skips missingAlls sorted hs, ?_⟩
  have h := chunks_sublist contents sorted 0 hd
  cases sorted with
  | nil => simp [chunks]
  | cons s0 rest =>
    obtain ⟨a, b, hsp, _, _, _⟩ := hd
    simp only [chunks, hsp] at h ⊢
    simpa using h

/-- a complete, clean localization is staged as a verbatim copy (byte-identical), whatever the strategy -/
theorem clean_is_identical (caps : Nat) (contents : List Nat)
    (hc : hasCap caps CAN_COPY = true ∨ hasCap caps CAN_SKIP = true) (hn : caps ≠ CAN_NONE) :
    merge true caps contents [] [] = .copyL10n := by
  unfold merge
  have : (caps == CAN_NONE) = false := by simpa using hn
  rcases hc with h | h
  · simp [this, h]
  · by_cases hcopy : hasCap caps CAN_COPY = true
    · simp [this, hcopy]
    · by_cases hm : hasCap caps CAN_MERGE = true <;> simp [this, hcopy, h, hm]

/-- copy-only formats (.inc) and unknown file types: copy the l10n file iff it is clean, else the reference -/
theorem copy_only (contents : List Nat) (skips : List Skip) (missingAlls : List (List Nat)) :
    merge true CAN_COPY contents skips missingAlls =
      (if skips.isEmpty && missingAlls.isEmpty then .copyL10n else .copyRef) := by
  cases skips <;> cases missingAlls <;> simp [merge, hasCap, CAN_COPY, CAN_NONE]

/-- without a merge path, or with CAN_NONE, nothing is written -/
theorem no_merge_file_no_effect (caps : Nat) (contents : List Nat) (skips : List Skip) (ms : List (List Nat)) :
    merge false caps contents skips ms = .nothing ∧ merge true CAN_NONE contents skips ms = .nothing := by
  simp [merge, CAN_NONE]

/-- the strategies are those of the source: capability bits and per-format capabilities are generated from /repo -/
theorem strategy_table :
    CAN_NONE = 0 ∧ CAN_COPY = 1 ∧ CAN_SKIP = 2 ∧ CAN_MERGE = 4 ∧
    cap_dtd = CAN_SKIP + CAN_MERGE ∧ cap_properties = CAN_SKIP + CAN_MERGE ∧ cap_ini = CAN_SKIP + CAN_MERGE ∧
    cap_ftl = CAN_SKIP ∧ cap_po = CAN_SKIP ∧ cap_android = CAN_SKIP ∧ cap_inc = CAN_COPY := by
  decide

/-- F5 (known finding): one skip with span (None, None) duplicates the text and removes nothing;
    two such skips raise TypeError in `skips.sort` -/
theorem android_duplicates_witness :
    merge true CAN_SKIP [97, 98] [{ span := none, junk := false, refAll := [] }] [] = .written [97, 98, 97, 98] ∧
    merge true CAN_SKIP [97, 98] [{ span := none, junk := false, refAll := [] }, { span := none, junk := false, refAll := [] }] []
      = .typeError := by
  decide

/-- F13 (fixed in /repo by not listing an entity twice): a duplicated skip appends its reference entity twice -/
theorem dup_skip_appends_twice_witness :
    merge true (CAN_SKIP + CAN_MERGE) [107, 61, 120, 10]
      [{ span := some (0, 3), junk := false, refAll := [107, 61, 65, 10] }, { span := some (0, 3), junk := false, refAll := [107, 61, 65, 10] }] []
      = .written [10, 10, 107, 61, 65, 10, 107, 61, 65, 10] := by
  decide

/-- non-vacuity: a sorted, disjoint skip list and what the splice does with it -/
example : SortedDisjoint [{ span := some (2, 4), junk := true, refAll := [] }, { span := some (5, 6), junk := false, refAll := [] }] 0 :=
  ⟨2, 4, rfl, by omega, by omega, 5, 6, rfl, by omega, by omega, trivial⟩
example : merge true CAN_SKIP [0, 1, 2, 3, 4, 5, 6]
    [{ span := some (5, 6), junk := false, refAll := [] }, { span := some (2, 4), junk := true, refAll := [] }] []
      = .written [0, 1, 4, 6] := by decide

end C04

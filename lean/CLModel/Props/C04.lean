/-
C04 — l10n-merge output is complete, clean and otherwise untouched.
Theorems about the model `Merge.merge` of `ContentComparer.merge`, for ALL texts, skip lists
and missing lists.  The re-parse claims of the property are false in general (findings F4, F5, F14 —
the witnesses below are kernel-checked); section `Reparse` at the end proves them for printed
`.properties`/`.ini` texts under the decidable hypothesis `SpliceStable`, everything else is decided
on the real code (oracle).
-/
import CLModel.Compare.Merge
import CLModel.Proofs.C04Splice
import CLModel.Proofs.C04Ini
import CLModel.Proofs.C04Bytes
import CLModel.Proofs.C04Quiet
import CLModel.Proofs.C04MultiProps
import CLModel.Proofs.C04Dtd
import CLModel.Proofs.C04Session
import CLModel.Proofs.C02XInc
namespace C04
open Merge Gen.Tables

/-- spans sorted by start and pairwise disjoint, all present, starting at or after `off` -/
def SortedDisjoint : List Skip → Nat → Prop
  | [], _ => True
  | sk :: rest, off => ∃ a b, sk.span = some (a, b) ∧ off ≤ a ∧ a ≤ b ∧ SortedDisjoint rest b

/-- the l10n text with the spans cut out (specification) -/
def removeSpans (contents : List Nat) : List Skip → Nat → List Nat
  | [], off => contents.drop off
  | sk :: rest, off =>
    match sk.span with
    | some (a, b) => (contents.drop off).take (a - off) ++ removeSpans contents rest b
    | none => contents.drop off

theorem chunks_eq_removeSpans (contents : List Nat) :
    ∀ (skips : List Skip) (off : Nat), SortedDisjoint skips off →
      chunks contents skips (some off) = removeSpans contents skips off := by
  intro skips
  induction skips with
  | nil => intro off _; simp [chunks, removeSpans]
  | cons sk rest ih =>
    intro off h
    obtain ⟨a, b, hs, _, _, hr⟩ := h
    simp [chunks, removeSpans, hs, ih b hr]

/-- cutting sorted, disjoint spans out of a text yields a subsequence of it -/
theorem chunks_sublist (contents : List Nat) :
    ∀ (skips : List Skip) (off : Nat), SortedDisjoint skips off →
      (chunks contents skips (some off)).Sublist (contents.drop off) := by
  intro skips
  induction skips with
  | nil => intro off _; simp [chunks]
  | cons sk rest ih =>
    intro off h
    obtain ⟨a, b, hs, h1, h2, hr⟩ := h
    simp only [chunks, hs]
    have h3 : (chunks contents rest (some b)).Sublist ((contents.drop off).drop (a - off)) := by
      refine (ih b hr).trans ?_
      have : contents.drop b = ((contents.drop off).drop (a - off)).drop (b - a) := by
        rw [List.drop_drop, List.drop_drop]; congr 1; omega
      rw [this]; exact List.drop_sublist _ _
    have := List.Sublist.append (List.Sublist.refl ((contents.drop off).take (a - off))) h3
    rwa [List.take_append_drop] at this

/-- the trailing block: a newline, the missing reference entries, then the reference entries of
    the non-junk skips, each newline-terminated -/
theorem trailing_spec (missingAlls : List (List Nat)) (skips : List Skip) :
    trailing missingAlls skips =
      [10] ++ (missingAlls.map ensureNewline).flatten
        ++ (((skips.filter (fun s => !s.junk)).map (·.refAll)).map ensureNewline).flatten := by
  simp [trailing, ensureNewline]

theorem ensureNewline_ends (s : List Nat) : (ensureNewline s).getLast? = some 10 := by
  unfold ensureNewline; split <;> simp_all

/-- skip+merge formats: the staged text is the l10n text with the skip spans cut out followed by the trailing block -/
theorem merge_text_spec (contents : List Nat) (sk : Skip) (skips : List Skip) (missingAlls : List (List Nat))
    (sorted : List Skip) (hs : sortSkips (sk :: skips) = some sorted) :
    merge true (CAN_SKIP + CAN_MERGE) contents (sk :: skips) missingAlls =
      .written (chunks contents sorted none ++ trailing missingAlls sorted) := by
  simp [merge, hasCap, CAN_SKIP, CAN_MERGE, CAN_COPY, CAN_NONE, hs]

/-- skip-only formats (Fluent, PO, Android): only the cut l10n text is written -/
theorem skip_only_text (contents : List Nat) (sk : Skip) (skips : List Skip) (missingAlls : List (List Nat))
    (sorted : List Skip) (hs : sortSkips (sk :: skips) = some sorted) :
    merge true CAN_SKIP contents (sk :: skips) missingAlls = .written (chunks contents sorted none) := by
  simp [merge, hasCap, CAN_SKIP, CAN_MERGE, CAN_COPY, CAN_NONE, hs]

/-- … and with sorted, disjoint spans that text is a subsequence of the localized text: no reference text enters -/
theorem skip_only_no_english (contents : List Nat) (sk : Skip) (skips : List Skip) (missingAlls : List (List Nat))
    (sorted : List Skip) (hs : sortSkips (sk :: skips) = some sorted) (hd : SortedDisjoint sorted 0) :
    ∃ t, merge true CAN_SKIP contents (sk :: skips) missingAlls = .written t ∧ t.Sublist contents := by
  refine ⟨_, skip_only_text contents sk skips missingAlls sorted hs, ?_⟩
  have h := chunks_sublist contents sorted 0 hd
  cases sorted with
  | nil => simp [chunks]
  | cons s0 rest =>
    obtain ⟨a, b, hsp, _, _, _⟩ := hd
    simp only [chunks, hsp] at h ⊢
    simpa using h

/-- a complete, clean localization is staged as a verbatim copy (byte-identical), whatever the strategy -/
theorem clean_is_identical (caps : Nat) (contents : List Nat)
    (hc : hasCap caps CAN_COPY = true ∨ hasCap caps CAN_SKIP = true) (hn : caps ≠ CAN_NONE) :
    merge true caps contents [] [] = .copyL10n := by
  unfold merge
  have : (caps == CAN_NONE) = false := by simpa using hn
  rcases hc with h | h
  · simp [this, h]
  · by_cases hcopy : hasCap caps CAN_COPY = true
    · simp [this, hcopy]
    · by_cases hm : hasCap caps CAN_MERGE = true <;> simp [this, hcopy, h, hm]

/-- copy-only formats (.inc) and unknown file types: copy the l10n file iff it is clean, else the reference -/
theorem copy_only (contents : List Nat) (skips : List Skip) (missingAlls : List (List Nat)) :
    merge true CAN_COPY contents skips missingAlls =
      (if skips.isEmpty && missingAlls.isEmpty then .copyL10n else .copyRef) := by
  cases skips <;> cases missingAlls <;> simp [merge, hasCap, CAN_COPY, CAN_NONE]

/-- without a merge path, or with CAN_NONE, nothing is written -/
theorem no_merge_file_no_effect (caps : Nat) (contents : List Nat) (skips : List Skip) (ms : List (List Nat)) :
    merge false caps contents skips ms = .nothing ∧ merge true CAN_NONE contents skips ms = .nothing := by
  simp [merge, CAN_NONE]

/-- the strategies are those of the source: capability bits and per-format capabilities are generated from /repo -/
theorem strategy_table :
    CAN_NONE = 0 ∧ CAN_COPY = 1 ∧ CAN_SKIP = 2 ∧ CAN_MERGE = 4 ∧
    cap_dtd = CAN_SKIP + CAN_MERGE ∧ cap_properties = CAN_SKIP + CAN_MERGE ∧ cap_ini = CAN_SKIP + CAN_MERGE ∧
    cap_ftl = CAN_SKIP ∧ cap_po = CAN_SKIP ∧ cap_android = CAN_SKIP ∧ cap_inc = CAN_COPY := by
  decide

/-- F5 (known finding): one skip with span (None, None) duplicates the text and removes nothing;
    two such skips raise TypeError in `skips.sort` -/
theorem android_duplicates_witness :
    merge true CAN_SKIP [97, 98] [{ span := none, junk := false, refAll := [] }] [] = .written [97, 98, 97, 98] ∧
    merge true CAN_SKIP [97, 98] [{ span := none, junk := false, refAll := [] }, { span := none, junk := false, refAll := [] }] []
      = .typeError := by
  decide

/-- F13 (fixed in /repo by not listing an entity twice): a duplicated skip appends its reference entity twice -/
theorem dup_skip_appends_twice_witness :
    merge true (CAN_SKIP + CAN_MERGE) [107, 61, 120, 10]
      [{ span := some (0, 3), junk := false, refAll := [107, 61, 65, 10] }, { span := some (0, 3), junk := false, refAll := [107, 61, 65, 10] }] []
      = .written [10, 10, 107, 61, 65, 10, 107, 61, 65, 10] := by
  decide

/-- non-vacuity: a sorted, disjoint skip list and what the splice does with it -/
example : SortedDisjoint [{ span := some (2, 4), junk := true, refAll := [] }, { span := some (5, 6), junk := false, refAll := [] }] 0 :=
  ⟨2, 4, rfl, by omega, by omega, 5, 6, rfl, by omega, by omega, trivial⟩
example : merge true CAN_SKIP [0, 1, 2, 3, 4, 5, 6]
    [{ span := some (5, 6), junk := false, refAll := [] }, { span := some (2, 4), junk := true, refAll := [] }] []
      = .written [0, 1, 4, 6] := by decide

/-! ### the re-parse claim for `.properties`, under explicit stability hypotheses

FULL STATEMENT (DESIGN.md "### C04"): for a clean reference and a localization without duplicate keys,
`reparse (merge …) = expected entities ∧ no junk ∧ nothing missing`, under `SpliceStable`.
Proved here for the printed class of C02 (`printProps`: safe records `key=value⏎`, see `C02.roundtrip_properties_partial`),
for which `SpliceStable` holds (`printed_splices_stable`); the findings F4 and F14 are kernel-checked inputs on which
`SpliceStable` is false AND the re-parse claim fails (`f4_unstable_witness`, `f14_unstable_witness`).
NOT proved: arbitrary localized texts satisfying `SpliceStable` (comments, escapes, continuation lines, other layouts),
more than one cut, dtd; those stay with the end-to-end oracle. -/
section Reparse
open P C04R

/-- (clean append) The localization is a printed list of safe records — with or without the newline after its last
    record —, nothing is cut, the missing reference entries `ms` are safe records `key=value⏎`: the staged text is the copy
    of the l10n file followed by a newline and the reference entries, and it parses to exactly the localized records followed
    by the reference records — nothing missing, localized keys and values untouched, no unparsed content.
    (The parser does not need the keys of `ms` to differ from those of `rs`; the comparison does.) -/
theorem append_reparses_properties_partial (rs ms : List PRec) (finalNl : Bool)
    (hrs : ∀ r ∈ rs, SafeRec r) (hms : ∀ r ∈ ms, SafeRec r) (hne : ms ≠ []) :
    ∃ t es, staged (l10nText rs finalNl) (merge true cap_properties (l10nText rs finalNl) [] (ms.map printRec)) = some t ∧
      t = l10nText rs finalNl ++ 10 :: printProps ms ∧
      walk .properties t.toArray = .done es ∧
      entitiesOf .properties t.toArray es = (rs ++ ms).map expectedView ∧
      junkOf t.toArray es = [] := by
  obtain ⟨m, ms', rfl⟩ : ∃ m ms', ms = m :: ms' := by
    cases ms with
    | nil => exact absurd rfl hne
    | cons m ms' => exact ⟨m, ms', rfl⟩
  have hst : staged (l10nText rs finalNl) (merge true cap_properties (l10nText rs finalNl) [] ((m :: ms').map printRec)) =
      some (l10nText rs finalNl ++ 10 :: printProps (m :: ms')) := by
    rw [List.map_cons, merge_append, ← List.map_cons, trailing_printed]
  obtain ⟨toks, ht, hr⟩ := l10nText_append_toks rs (m :: ms') finalNl
  obtain ⟨es, h1, h2, h3⟩ := reparse_toks _ toks (rs ++ m :: ms') ht hr
    (fun r hr => by rcases List.mem_append.mp hr with h | h; exact hrs r h; exact hms r h)
  exact ⟨_, es, hst, rfl, h1, h2, h3⟩

/-- (cut of a whole-line junk) The localization is `records, garbage line G⏎, records`.  (1) Garbage locality: its walk
    has exactly ONE junk entry `j`, spanning exactly the garbage line with its newline, and the entities are exactly
    the records.  (2) With `j`'s span as the only skip (and any safe missing entries `ms`), the staged text is the printed
    records without the garbage line, a newline, the reference entries; it parses to the records followed by the
    reference records, with no unparsed content. -/
theorem cut_reparses_properties_partial (rs1 rs2 ms : List PRec) (G : List Nat)
    (h1 : ∀ r ∈ rs1, SafeRec r) (h2 : ∀ r ∈ rs2, SafeRec r) (hms : ∀ r ∈ ms, SafeRec r) (hG : GarbageLine G) :
    ∃ es j, walk .properties (withGarbage rs1 G rs2).toArray = .done es ∧
      es.filter (fun e => e.kind == .junk) = [j] ∧
      j.s = (printProps rs1).length ∧ j.e = (printProps rs1).length + G.length + 1 ∧
      entitiesOf .properties (withGarbage rs1 G rs2).toArray es = (rs1 ++ rs2).map expectedView ∧
      junkOf (withGarbage rs1 G rs2).toArray es = [G ++ [10]] ∧
      ∃ t es', staged (withGarbage rs1 G rs2) (merge true cap_properties (withGarbage rs1 G rs2)
            [{ span := some (j.s, j.e), junk := true, refAll := [] }] (ms.map printRec)) = some t ∧
        t = printProps (rs1 ++ rs2) ++ 10 :: printProps ms ∧
        walk .properties t.toArray = .done es' ∧
        entitiesOf .properties t.toArray es' = (rs1 ++ rs2 ++ ms).map expectedView ∧
        junkOf t.toArray es' = [] := by
  obtain ⟨es1, es2, hw, hen1, hj1, hen2, hj2⟩ := walk_garbage rs1 rs2 G h1 h2 hG
  have hf1 : es1.filter (fun e => e.kind == .junk) = [] := by simpa [junkOf] using hj1
  have hf2 : es2.filter (fun e => e.kind == .junk) = [] := by simpa [junkOf] using hj2
  have hda : (withGarbage rs1 G rs2).toArray.toList.drop (printProps rs1).length = (G ++ [10]) ++ printProps rs2 := by
    simp [withGarbage]
  have hsl : slice (withGarbage rs1 G rs2).toArray (printProps rs1).length ((printProps rs1).length + G.length + 1) = G ++ [10] := by
    have := slice_take (withGarbage rs1 G rs2).toArray (printProps rs1).length (G.length + 1) _ hda (by simp)
    rw [show (printProps rs1).length + (G.length + 1) = (printProps rs1).length + G.length + 1 by omega] at this
    rw [this, List.take_left' (by simp)]
  refine ⟨es1 ++ junkEntry (printProps rs1).length ((printProps rs1).length + G.length + 1) :: es2,
    junkEntry (printProps rs1).length ((printProps rs1).length + G.length + 1), hw, ?_, rfl, rfl, ?_, ?_, ?_⟩
  · rw [List.filter_append, hf1, List.filter_cons_of_pos (by simp [junkEntry]), hf2]
    rfl
  · simp only [entitiesOf] at hen1 hen2 ⊢
    rw [List.filter_append, List.filter_cons_of_neg (by simp [junkEntry]), List.map_append, hen1, hen2, List.map_append]
  · simp only [junkOf] at hj1 hj2 ⊢
    rw [List.filter_append, hf1, List.filter_cons_of_pos (by simp [junkEntry]), hf2]
    simp only [List.nil_append, List.map_cons, List.map_nil, junkEntry]
    rw [hsl]
  · have hst : staged (withGarbage rs1 G rs2) (merge true cap_properties (withGarbage rs1 G rs2)
          [{ span := some ((junkEntry (printProps rs1).length ((printProps rs1).length + G.length + 1)).s,
                           (junkEntry (printProps rs1).length ((printProps rs1).length + G.length + 1)).e),
             junk := true, refAll := [] }] (ms.map printRec)) =
        some (printProps (rs1 ++ rs2) ++ 10 :: printProps ms) := by
      rw [merge_one_skip, trailing_printed_junk]
      have e : withGarbage rs1 G rs2 = printProps rs1 ++ ((G ++ [10]) ++ printProps rs2) := by simp [withGarbage]
      rw [e, chunks_one _ _ _ _ (by simp [junkEntry]; omega), printProps_append]
    obtain ⟨ht, hr⟩ := toks_two (rs1 ++ rs2) ms
    obtain ⟨es', a1, a2, a3⟩ := reparse_toks _ _ (rs1 ++ rs2 ++ ms) ht hr
      (fun r hr => by
        rcases List.mem_append.mp hr with h | h
        · rcases List.mem_append.mp h with h | h
          · exact h1 r h
          · exact h2 r h
        · exact hms r h)
    exact ⟨_, es', hst, rfl, a1, a2, a3⟩

/-- (cut of an entity with a check error) The localization is a printed list of safe records; the entity of the record
    `rb` is skipped — its span is the one the walk reports, `key=value` without the newline — and replaced by the reference
    entry `rref` (appended after the missing entries `ms`): the staged text keeps the other records (a blank line
    remains where `rb` was), and parses to the kept records, the missing records and `rref`, with no unparsed content. -/
theorem skip_entity_reparses_properties_partial (rs1 rs2 ms : List PRec) (rb rref : PRec)
    (h1 : ∀ r ∈ rs1, SafeRec r) (hb : SafeRec rb) (h2 : ∀ r ∈ rs2, SafeRec r) (hms : ∀ r ∈ ms, SafeRec r)
    (href : SafeRec rref) :
    ∃ es e, walk .properties (printProps (rs1 ++ rb :: rs2)).toArray = .done es ∧ e ∈ es ∧
      e = propsEntity_c02 (printProps rs1).length rb.1.length rb.2.length ∧
      ∃ t es', staged (printProps (rs1 ++ rb :: rs2)) (merge true cap_properties (printProps (rs1 ++ rb :: rs2))
            [{ span := some (e.s, e.e), junk := false, refAll := printRec rref }] (ms.map printRec)) = some t ∧
        t = printProps rs1 ++ 10 :: (printProps rs2 ++ 10 :: printProps (ms ++ [rref])) ∧
        walk .properties t.toArray = .done es' ∧
        entitiesOf .properties t.toArray es' = (rs1 ++ rs2 ++ (ms ++ [rref])).map expectedView ∧
        junkOf t.toArray es' = [] := by
  have hall : ∀ r ∈ rs1 ++ rb :: rs2, SafeRec r := by
    intro r hr
    rcases List.mem_append.mp hr with h | h
    · exact h1 r h
    · rcases List.mem_cons.mp h with h | h
      · exact h ▸ hb
      · exact h2 r h
  refine ⟨expEntries 0 (rs1 ++ rb :: rs2), _, walk_props_printed _ hall, ?_, rfl, ?_⟩
  · simpa using mem_expEntries rs1 rb rs2 0
  · have hst : staged (printProps (rs1 ++ rb :: rs2)) (merge true cap_properties (printProps (rs1 ++ rb :: rs2))
          [{ span := some ((propsEntity_c02 (printProps rs1).length rb.1.length rb.2.length).s,
                           (propsEntity_c02 (printProps rs1).length rb.1.length rb.2.length).e),
             junk := false, refAll := printRec rref }] (ms.map printRec)) =
        some (printProps rs1 ++ 10 :: (printProps rs2 ++ 10 :: printProps (ms ++ [rref]))) := by
      rw [merge_one_skip, trailing_printed_entity]
      have e : printProps (rs1 ++ rb :: rs2) = printProps rs1 ++ ((rb.1 ++ 61 :: rb.2) ++ 10 :: printProps rs2) := by
        simp [printProps, printRec]
      rw [e, chunks_one _ _ _ _ (by simp [propsEntity_c02]; omega)]
      simp
    obtain ⟨ht, hr⟩ := toks_three rs1 rs2 (ms ++ [rref])
    obtain ⟨es', a1, a2, a3⟩ := reparse_toks _ _ (rs1 ++ rs2 ++ (ms ++ [rref])) ht hr
      (fun r hr => by
        rcases List.mem_append.mp hr with h | h
        · rcases List.mem_append.mp h with h | h
          · exact h1 r h
          · exact h2 r h
        · rcases List.mem_append.mp h with h | h
          · exact hms r h
          · simp at h; exact h ▸ href)
    exact ⟨_, es', hst, rfl, a1, a2, a3⟩

/-- the three splices above satisfy the decidable stability predicate `SpliceStable` (every cut starts at a line start
    or keeps its line end; the kept text does not end in an odd run of backslashes when entries are appended) -/
theorem printed_splices_stable (rs1 rs2 ms : List PRec) (rb : PRec) (G : List Nat) (finalNl : Bool)
    (h1 : ∀ r ∈ rs1, SafeRec r) :
    SpliceStable (l10nText rs1 finalNl) [] (ms.map printRec) = true ∧
    SpliceStable (withGarbage rs1 G rs2)
      [{ span := some ((printProps rs1).length, (printProps rs1).length + G.length + 1), junk := true, refAll := [] }]
      (ms.map printRec) = true ∧
    SpliceStable (printProps (rs1 ++ rb :: rs2))
      [{ span := some ((propsEntity_c02 (printProps rs1).length rb.1.length rb.2.length).s,
                       (propsEntity_c02 (printProps rs1).length rb.1.length rb.2.length).e),
         junk := false, refAll := printRec rb }] (ms.map printRec) = true :=
  ⟨append_stable rs1 ms finalNl h1, cut_stable rs1 rs2 G _ _ _, skip_entity_stable rs1 rs2 rb _ _ _⟩

/-- F4 (known finding) is the negation of the backslash hypothesis: for the localization `a=X\` (no final newline) and the
    missing reference entry `b=B⏎`, `SpliceStable` is false, the staged text is `a=X\⏎b=B⏎`, and its walk has ONE entity
    (key span 0–1, value span 2–8): the appended entry is swallowed as a continuation line, `b` stays missing. -/
theorem f4_unstable_witness :
    SpliceStable [97, 61, 88, 92] [] [[98, 61, 66, 10]] = false ∧
    staged [97, 61, 88, 92] (merge true cap_properties [97, 61, 88, 92] [] [[98, 61, 66, 10]])
      = some [97, 61, 88, 92, 10, 98, 61, 66, 10] ∧
    walk .properties #[97, 61, 88, 92, 10, 98, 61, 66, 10] =
      .done [{ kind := .entity, full := 0, s := 0, e := 8, ks := 0, ke := 1, vs := 2, ve := 8 },
             { kind := .whitespace, full := 8, s := 8, e := 9, ks := 8, ke := 9, vs := 8, ve := 9 }] := by
  decide

/-- … and with an EVEN run of backslashes (`a=X\\`) the predicate holds and the appended entry is parsed (entity at 6–9) -/
theorem f4_even_run_witness :
    SpliceStable [97, 61, 88, 92, 92] [] [[98, 61, 66, 10]] = true ∧
    walk .properties #[97, 61, 88, 92, 92, 10, 98, 61, 66, 10] =
      .done [{ kind := .entity, full := 0, s := 0, e := 5, ks := 0, ke := 1, vs := 2, ve := 5 },
             { kind := .whitespace, full := 5, s := 5, e := 6, ks := 5, ke := 6, vs := 5, ve := 6 },
             { kind := .entity, full := 6, s := 6, e := 9, ks := 6, ke := 7, vs := 8, ve := 9 },
             { kind := .whitespace, full := 9, s := 9, e := 10, ks := 9, ke := 10, vs := 9, ve := 10 }] := by
  decide

/-- F14 (known finding) is the negation of the line-start hypothesis: in the ini text `[Strings]\⏎; c⏎k=v` the walk
    reports the junk `\⏎` with span (9, 11) — it starts in the middle of a line and ends with the line end —, `SpliceStable`
    is false for that cut, the staged text is `[Strings]; c⏎k=v⏎`, and its walk contains a NEW junk entry (9, 13): the
    comment line was fused onto the section line. -/
theorem f14_unstable_witness :
    walk .ini #[91, 83, 116, 114, 105, 110, 103, 115, 93, 92, 10, 59, 32, 99, 10, 107, 61, 118] =
      .done [{ kind := .section, full := 0, s := 0, e := 9, ks := 1, ke := 8, vs := 1, ve := 8 },
             { kind := .junk, full := 9, s := 9, e := 11 },
             { kind := .entity, full := 11, s := 15, e := 18, ks := 15, ke := 16, vs := 17, ve := 18, pc := some (11, 14) }] ∧
    SpliceStable [91, 83, 116, 114, 105, 110, 103, 115, 93, 92, 10, 59, 32, 99, 10, 107, 61, 118]
      [{ span := some (9, 11), junk := true, refAll := [] }] [] = false ∧
    staged [91, 83, 116, 114, 105, 110, 103, 115, 93, 92, 10, 59, 32, 99, 10, 107, 61, 118]
      (merge true cap_ini [91, 83, 116, 114, 105, 110, 103, 115, 93, 92, 10, 59, 32, 99, 10, 107, 61, 118]
        [{ span := some (9, 11), junk := true, refAll := [] }] [])
      = some [91, 83, 116, 114, 105, 110, 103, 115, 93, 59, 32, 99, 10, 107, 61, 118, 10] ∧
    walk .ini #[91, 83, 116, 114, 105, 110, 103, 115, 93, 59, 32, 99, 10, 107, 61, 118, 10] =
      .done [{ kind := .section, full := 0, s := 0, e := 9, ks := 1, ke := 8, vs := 1, ve := 8 },
             { kind := .junk, full := 9, s := 9, e := 13 },
             { kind := .entity, full := 13, s := 13, e := 16, ks := 13, ke := 14, vs := 15, ve := 16 },
             { kind := .whitespace, full := 16, s := 16, e := 17, ks := 16, ke := 17, vs := 16, ve := 17 }] := by
  decide

-- non-vacuity: the hypotheses are satisfiable by non-trivial values ("a.b=x y", "k=" and the garbage line "no separator")
example : SafeRec ([97, 46, 98], [120, 32, 121]) ∧ SafeRec ([107], []) := by
  constructor <;> constructor <;> simp [propsKeyChar] <;> decide
example : GarbageLine [110, 111, 32, 115, 101, 112, 97, 114, 97, 116, 111, 114] := by
  constructor <;> simp <;> decide
example : withGarbage [([97], [120])] [103] [([98], [])] = [97, 61, 120, 10, 103, 10, 98, 61, 10] := by decide
example : l10nText [([97], [120])] false = [97, 61, 120] := by decide
-- NEGATION WITNESSES for `GarbageLine` (what the code does at the excluded points):
-- a `#` inside the line ends the junk there ("g#x⏎" -> junk 0..1, then a comment)
example : (propsGetNext #[103, 35, 120, 10] 0).e = 1 := by decide
-- a `=` makes the line an entity
example : (propsGetNext #[103, 61, 120, 10] 0).kind = .entity := by decide

/-- (ini analogue of the clean append) The localization is `[name]⏎` followed by a printed list of ini records
    (`IniSafeRec`: the value may contain anything but a newline — also backslashes and blanks at either end), with or
    without the newline after the last record; nothing is cut; the missing reference entries are such records: the
    staged text parses to the section, exactly the localized records followed by the reference records, no unparsed
    content.  No backslash hypothesis is needed for ini (a trailing backslash is not a line continuation there). -/
theorem append_reparses_ini_partial (name : List Nat) (rs ms : List PRec) (finalNl : Bool)
    (hn : ∀ c ∈ name, c ≠ 93 ∧ c ≠ 10)
    (hrs : ∀ r ∈ rs, IniSafeRec r) (hms : ∀ r ∈ ms, IniSafeRec r) (hne : ms ≠ []) :
    ∃ t es, staged (iniSection name ++ 10 :: l10nText rs finalNl)
        (merge true cap_ini (iniSection name ++ 10 :: l10nText rs finalNl) [] (ms.map printRec)) = some t ∧
      t = (iniSection name ++ 10 :: l10nText rs finalNl) ++ 10 :: printProps ms ∧
      walk .ini t.toArray = .done es ∧
      entitiesOf .ini t.toArray es = (rs ++ ms).map expectedView ∧
      junkOf t.toArray es = [] := by
  obtain ⟨m, ms', rfl⟩ : ∃ m ms', ms = m :: ms' := by
    cases ms with
    | nil => exact absurd rfl hne
    | cons m ms' => exact ⟨m, ms', rfl⟩
  have hcap : cap_ini = cap_properties := rfl
  have hst : staged (iniSection name ++ 10 :: l10nText rs finalNl)
      (merge true cap_ini (iniSection name ++ 10 :: l10nText rs finalNl) [] ((m :: ms').map printRec)) =
      some ((iniSection name ++ 10 :: l10nText rs finalNl) ++ 10 :: printProps (m :: ms')) := by
    rw [hcap, List.map_cons, merge_append, ← List.map_cons, trailing_printed]
  obtain ⟨toks, ht, hr⟩ := l10nText_append_toks rs (m :: ms') finalNl
  have ht' : (iniSection name ++ 10 :: l10nText rs finalNl) ++ 10 :: printProps (m :: ms') =
      iniSection name ++ printToks (.nl :: toks) := by
    simp only [printToks, ← ht]
    simp
  obtain ⟨es, a1, a2, a3⟩ := ini_walk_section_toks name (.nl :: toks) hn
    (by
      intro r hr'
      have : r ∈ rs ++ m :: ms' := by rw [← hr]; simpa [recsOf] using hr'
      rcases List.mem_append.mp this with h | h
      · exact hrs r h
      · exact hms r h)
  refine ⟨_, es, hst, rfl, ?_, ?_, ?_⟩
  · rw [ht']; exact a1
  · rw [ht', a2]; simp [recsOf, hr]
  · rw [ht']; exact a3

-- non-vacuity (ini): "[Strings]" and the records "k = v \" (blanks, trailing backslash) and "a.b="
example : IniSafeRec ([107, 32], [32, 118, 32, 92]) ∧ IniSafeRec ([97, 46, 98], []) := by
  constructor <;> constructor <;> simp
example : iniSection [83] ++ 10 :: l10nText [([107, 32], [32, 118, 32, 92])] true = [91, 83, 93, 10, 107, 32, 61, 32, 118, 32, 92, 10] := by
  decide
-- NEGATION WITNESS for "key does not start with [": "[a]=b" is a section, not an entity (C02)
example : (iniGetNext #[91, 97, 93, 61, 98] 0).kind = .section := by decide

end Reparse


/-! ## Round 4 -/

/-! ### bytes: decode → splice → encode

`Parser.readFile` decodes the file (UTF-8, `errors="replace"`, universal newlines) into `ctx.contents`; `merge` writes text
through a strict UTF-8 encoder; only `shutil.copyfile` moves bytes.  `MergeB.mergeBytes` is the text model with these
steps around it. -/
section Bytes
open MergeB C04B

/-- no skips and nothing missing: the staged file is the l10n file BYTE FOR BYTE — whatever the bytes are (CRLF, lone CR,
    BOM, ill-formed UTF-8, NUL …), for every capability set that stages at all.  No decoding is involved. -/
theorem clean_bytes_identical (caps : Nat) (l10n ref : List Nat)
    (hc : hasCap caps CAN_COPY = true ∨ hasCap caps CAN_SKIP = true) (hn : caps ≠ CAN_NONE) :
    mergeBytes true caps l10n ref [] [] = .bytes l10n := by
  simp [mergeBytes, clean_is_identical caps (readFile l10n) hc hn]

/-- copy-only formats (`.inc`, unknown types, missing / obsolete files): the l10n BYTES if clean, else the reference BYTES -/
theorem copy_only_bytes (l10n ref : List Nat) (skips : List Skip) (ms : List (List Nat)) :
    mergeBytes true CAN_COPY l10n ref skips ms =
      (if skips.isEmpty && ms.isEmpty then .bytes l10n else .bytes ref) := by
  simp only [mergeBytes, copy_only]
  by_cases h : (skips.isEmpty && ms.isEmpty) = true <;> simp [h]

/-- nothing cut, entries appended (mergeable formats): the original BYTES are a prefix of the staged file (copy, then
    append the encoded block) — the localized part is not re-encoded -/
theorem append_bytes_prefix (l10n ref : List Nat) (m : List Nat) (ms : List (List Nat)) :
    mergeBytes true (CAN_SKIP + CAN_MERGE) l10n ref [] (m :: ms) = encodeOut l10n (trailing (m :: ms) []) := by
  simp [mergeBytes, merge, hasCap, CAN_SKIP, CAN_MERGE, CAN_COPY, CAN_NONE]

/-- … and that block encodes when the reference entries are decoded text (scalar values) -/
theorem append_bytes_prefix_total (l10n ref : List Nat) (m : List Nat) (ms : List (List Nat))
    (hs : ∀ t ∈ m :: ms, ∀ c ∈ t, Scalar c) :
    ∃ e, encodeUtf8 (trailing (m :: ms) []) = some e ∧
      mergeBytes true (CAN_SKIP + CAN_MERGE) l10n ref [] (m :: ms) = .bytes (l10n ++ e) := by
  have hsc : ∀ c ∈ trailing (m :: ms) [], Scalar c := by
    intro c hc
    simp only [trailing, List.filter_nil, List.map_nil, List.append_nil, List.mem_flatten, List.mem_map] at hc
    obtain ⟨l, ⟨t, ht, rfl⟩, hcl⟩ := hc
    have h10 : Scalar 10 := by unfold Scalar; omega
    have hin : ∀ c ∈ t, Scalar c := by
      rcases List.mem_cons.mp ht with e | e
      · subst e; intro c hc; simp at hc; subst hc; exact h10
      · exact hs t e
    unfold ensureNewline at hcl
    split at hcl
    · exact hin c hcl
    · rcases List.mem_append.mp hcl with h | h
      · exact hin c h
      · simp at h; subst h; exact h10
  obtain ⟨e, he⟩ := encodeUtf8_total _ hsc
  exact ⟨e, he, by rw [append_bytes_prefix]; simp [encodeOut, he]⟩

/-- something cut: the staged bytes are `encode(splice(decode(l10n bytes)))` (+ the encoded block for mergeable formats) -/
theorem skip_bytes_spec (l10n ref : List Nat) (sk : Skip) (skips : List Skip) (ms : List (List Nat))
    (sorted : List Skip) (hs : sortSkips (sk :: skips) = some sorted) :
    mergeBytes true (CAN_SKIP + CAN_MERGE) l10n ref (sk :: skips) ms =
        encodeOut [] (chunks (readFile l10n) sorted none ++ trailing ms sorted) ∧
      mergeBytes true CAN_SKIP l10n ref (sk :: skips) ms = encodeOut [] (chunks (readFile l10n) sorted none) := by
  constructor
  · rw [mergeBytes, merge_text_spec _ sk skips ms sorted hs]
  · rw [mergeBytes, skip_only_text _ sk skips ms sorted hs]

/-- the decoder only produces scalar values, so the strict encoder never raises on (any part of) decoded text -/
theorem encode_readFile_total (b : List Nat) : ∃ e, encodeUtf8 (readFile b) = some e :=
  encodeUtf8_total _ (readFile_scalar b)

/-- skip-only formats, sorted disjoint skips: the staged file is the encoding of a SUBSEQUENCE of the decoded l10n text;
    it always encodes (no UnicodeEncodeError), no reference text enters -/
theorem skip_only_bytes (l10n ref : List Nat) (sk : Skip) (skips : List Skip) (ms : List (List Nat))
    (sorted : List Skip) (hs : sortSkips (sk :: skips) = some sorted) (hd : SortedDisjoint sorted 0) :
    ∃ t e, t.Sublist (readFile l10n) ∧ encodeUtf8 t = some e ∧
      mergeBytes true CAN_SKIP l10n ref (sk :: skips) ms = .bytes e := by
  obtain ⟨t, ht, hsub⟩ := skip_only_no_english (readFile l10n) sk skips ms sorted hs hd
  obtain ⟨e, he⟩ := encodeUtf8_sublist_total hsub (readFile_scalar l10n)
  exact ⟨t, e, hsub, he, by simp [mergeBytes, ht, encodeOut, he]⟩

/-- WHEN is a rewrite the identity on bytes?  `encode(decode(b)) = b` exactly for well-formed UTF-8 without CR:
    `b` is the encoding of a CR-free text (encodable = scalar values only). -/
theorem encode_readFile_id_iff (b : List Nat) :
    encodeUtf8 (readFile b) = some b ↔ ∃ t, 13 ∉ t ∧ encodeUtf8 t = some b := by
  constructor
  · intro h
    exact ⟨readFile b, readFile_no13 b, h⟩
  · rintro ⟨t, h13, he⟩
    have hd := decode_encode t b he
    have : readFile b = t := by
      unfold readFile univNewlines
      rw [hd, univFrom_id t h13]
    rw [this, he]

/-- decode ∘ encode is the identity on CR-free encodable text -/
theorem readFile_encode (t b : List Nat) (h13 : 13 ∉ t) (he : encodeUtf8 t = some b) : readFile b = t := by
  unfold readFile univNewlines
  rw [decode_encode t b he, univFrom_id t h13]

/-- NEGATION WITNESSES for the two hypotheses (what a rewrite does outside them): `a⏎` with CRLF comes back with LF;
    the ill-formed byte FF comes back as U+FFFD (EF BF BD); a lone CR comes back as LF; a truncated sequence (E2 82) at
    the end of the file is one U+FFFD; BOM and NUL survive. -/
theorem rewrite_not_identity_witness :
    encodeUtf8 (readFile [97, 13, 10]) = some [97, 10] ∧
    encodeUtf8 (readFile [255]) = some [239, 191, 189] ∧
    encodeUtf8 (readFile [97, 13, 98]) = some [97, 10, 98] ∧
    encodeUtf8 (readFile [97, 226, 130]) = some [97, 239, 191, 189] ∧
    encodeUtf8 (readFile [239, 187, 191, 0, 97]) = some [239, 187, 191, 0, 97] := by
  refine ⟨by decide, by decide, by decide, by decide, by decide⟩

/-- … which is why the copy path matters: the same CRLF file `a⏎b` is staged untouched when clean, and LF-normalised as
    soon as ONE span (here the `b`) is cut, although the cut does not touch the line end -/
theorem crlf_rewrite_witness :
    mergeBytes true CAN_SKIP [97, 13, 10, 98] [] [] [] = .bytes [97, 13, 10, 98] ∧
    mergeBytes true CAN_SKIP [97, 13, 10, 98] [] [{ span := some (2, 3), junk := true, refAll := [] }] [] = .bytes [97, 10] := by
  refine ⟨by decide, by decide⟩

end Bytes

/-! ### quiet levels: what is merged does not depend on what is listed -/
section Quiet
open MergeB ObsM C04Q

/-- `compare` + `merge` for ANY quiet level: the staged bytes (and the `missing`/`report` counts) are those of the entries
    selected by the filters' verdicts alone — only `error` verdicts are merged, `warning` ones are counted as `report`,
    `ignore` ones dropped — whatever the quiet level of the observers. -/
theorem compareMerge_verdicts_only (q : Nat) (filters : List (Option Filter)) (file : File)
    (ents : List (Data × List Nat)) (caps : Nat) (l10n ref : List Nat) (skips : List Skip) (out : FileOut × Nat × Nat)
    (h : compareMerge q filters file ents caps l10n ref skips = .ok out) :
    out = (mergeBytes true caps l10n ref skips (missSpec filters file ents).1,
           (missSpec filters file ents).2.1, (missSpec filters file ents).2.2) :=
  compareMerge_spec h

/-- the merged bytes do not depend on the quiet level -/
theorem merged_bytes_quiet_independent (q1 q2 : Nat) (filters : List (Option Filter)) (file : File)
    (ents : List (Data × List Nat)) (caps : Nat) (l10n ref : List Nat) (skips : List Skip) (a b : FileOut × Nat × Nat)
    (h1 : compareMerge q1 filters file ents caps l10n ref skips = .ok a)
    (h2 : compareMerge q2 filters file ents caps l10n ref skips = .ok b) : a = b := by
  rw [compareMerge_spec h1, compareMerge_spec h2]

/-- … and both runs do return (no exception from the observers) for every file without a legacy module -/
theorem compareMerge_returns (q : Nat) (filters : List (Option Filter)) (file : File)
    (ents : List (Data × List Nat)) (caps : Nat) (l10n ref : List Nat) (skips : List Skip) (hm : file.module = none) :
    ∃ out, compareMerge q filters file ents caps l10n ref skips = .ok out :=
  compareMerge_total q filters file ents caps l10n ref skips (by intro m hmm; rw [hm] at hmm; cases hmm)

/-- with `Observer(filter=None)` every missing entity is merged, at every quiet level -/
theorem no_filter_merges_all (file : File) : ∀ (ents : List (Data × List Nat)),
    missSpec [none] file ents = (ents.map (·.2), ents.length, 0)
  | [] => rfl
  | (k, t) :: rest => by
    have ih := no_filter_merges_all file rest
    have hv : verdict [none] file k = .error := rfl
    simp only [missSpec, hv, ih, List.map_cons, List.length_cons]

-- non-vacuity / the regression itself: at EVERY quiet level `a=1⏎` with `b=2⏎` missing is staged as `a=1⏎⏎b=2⏎`
example (q : Nat) :
    compareMerge q [none] { file := [97], module := none, locale := some [120] } [(.str [98], [98, 61, 50, 10])]
      cap_properties [97, 61, 49, 10] [] [] = .ok (.bytes [97, 61, 49, 10, 10, 98, 61, 50, 10], 1, 0) := by
  obtain ⟨out, h⟩ := compareMerge_returns q [none] { file := [97], module := none, locale := some [120] }
    [(.str [98], [98, 61, 50, 10])] cap_properties [97, 61, 49, 10] [] [] rfl
  rw [h, compareMerge_verdicts_only _ _ _ _ _ _ _ _ _ h, no_filter_merges_all]
  exact congrArg Except.ok (by decide)

end Quiet

/-! ### several cuts, in any order -/
section Multi
open C04M

/-- GENERAL (all formats): the l10n text is any sequence of kept and (non-empty) cut pieces; `skips` is ANY permutation
    of the cut spans.  `skips.sort` restores file order and the chunk loop writes exactly the kept pieces — followed, for
    mergeable formats, by the block of missing entries and the reference entries of the non-junk cuts in FILE order. -/
theorem merge_cuts_any_order (pcs : List Pc) (perm : List Skip) (ms : List (List Nat))
    (hc : CutsNonempty pcs) (hp : perm.Perm (pcSkips 0 pcs)) (hne : perm ≠ []) :
    merge true (CAN_SKIP + CAN_MERGE) (pcText pcs) perm ms = .written (pcKept pcs ++ trailing ms (pcSkips 0 pcs)) ∧
    merge true CAN_SKIP (pcText pcs) perm ms = .written (pcKept pcs) := by
  have hs := sortSkips_pieces pcs perm hc hp
  obtain ⟨sk, rest, rfl⟩ : ∃ sk rest, perm = sk :: rest := by
    cases perm with
    | nil => exact absurd rfl hne
    | cons a b => exact ⟨a, b, rfl⟩
  exact ⟨by rw [merge_text_spec _ sk rest ms _ hs, chunks_pieces], by rw [skip_only_text _ sk rest ms _ hs, chunks_pieces]⟩

/-- the order in which `compare` lists the skips is irrelevant -/
theorem merge_skip_order_irrelevant (pcs : List Pc) (p1 p2 : List Skip) (ms : List (List Nat)) (caps : Nat)
    (hc : CutsNonempty pcs) (h1 : p1.Perm (pcSkips 0 pcs)) (h2 : p2.Perm (pcSkips 0 pcs)) :
    merge true caps (pcText pcs) p1 ms = merge true caps (pcText pcs) p2 ms := by
  have s1 := sortSkips_pieces pcs p1 hc h1
  have s2 := sortSkips_pieces pcs p2 hc h2
  have he : p1.isEmpty = p2.isEmpty := by
    have := (h1.trans h2.symm).length_eq
    cases p1 <;> cases p2 <;> simp_all
  unfold merge
  simp only [s1, s2, he]

/-- (several cuts, `.properties`) The localization is a list of lines: safe records, safe records with an error-level check
    result (to be replaced by their reference record), garbage lines — a garbage line is followed by a record or the end of
    the file.  (1) The walk reports one entity per record and ONE junk entry per garbage line spanning exactly the line
    (garbage locality for any number of lines); every skip is the span of such an entry.  (2) Whatever the order of the
    skips, the staged text is the kept records (a blank line where a record was cut), a newline, the missing entries and the
    reference records of the cut ones in file order; it parses to exactly these records, no unparsed content. -/
theorem multi_cut_reparses_properties_partial (ls : List Line) (ms : List P.PRec) (perm : List Skip)
    (hok : LinesOK ls) (hms : ∀ r ∈ ms, P.SafeRec r) (hp : perm.Perm (pcSkips 0 (linesPcs ls))) (hne : perm ≠ []) :
    P.walk .properties (linesText ls).toArray = .done (lentries 0 ls) ∧
    P.entitiesOf .properties (linesText ls).toArray (lentries 0 ls) = (lrecs ls).map P.expectedView ∧
    P.junkOf (linesText ls).toArray (lentries 0 ls) = lgarb ls ∧
    (∀ sk ∈ perm, ∃ e ∈ lentries 0 ls, sk.span = some (e.s, e.e) ∧ sk.junk = (e.kind == .junk)) ∧
    ∃ t es', C04R.staged (linesText ls) (merge true cap_properties (linesText ls) perm (ms.map P.printRec)) = some t ∧
      t = C04R.printToks (ltoks ls) ++ 10 :: P.printProps (ms ++ lrefs ls) ∧
      P.walk .properties t.toArray = .done es' ∧
      P.entitiesOf .properties t.toArray es' = (C04R.recsOf (ltoks ls) ++ (ms ++ lrefs ls)).map P.expectedView ∧
      P.junkOf t.toArray es' = [] := by
  obtain ⟨v1, v2⟩ := views_lentries (linesText ls).toArray ls 0 (by simp) hok
  refine ⟨walk_lines ls hok, v1, v2, fun sk hsk => skips_are_entries ls 0 sk (hp.subset hsk), ?_⟩
  have hrefs : ∀ r ∈ lrefs ls, P.SafeRec r := by
    clear hp hne v1 v2
    induction ls with
    | nil => intro r hr; simp [lrefs] at hr
    | cons l ls ih =>
      intro r hr
      cases l with
      | rcd r0 bad =>
        cases bad with
        | none => exact ih hok.2.2 r (by simpa [lrefs] using hr)
        | some rref =>
          simp only [lrefs, List.mem_cons] at hr
          rcases hr with e | e
          · subst e; exact hok.2.1 _ rfl
          · exact ih hok.2.2 r e
      | garb g => exact ih hok.2.2 r (by simpa [lrefs] using hr)
  have hkept : ∀ r ∈ C04R.recsOf (ltoks ls), P.SafeRec r := by
    clear hp hne v1 v2 hrefs
    induction ls with
    | nil => intro r hr; simp [ltoks, C04R.recsOf] at hr
    | cons l ls ih =>
      intro r hr
      cases l with
      | rcd r0 bad =>
        cases bad with
        | none =>
          simp only [ltoks, C04R.recsOf, List.mem_cons] at hr
          rcases hr with e | e
          · subst e; exact hok.1
          · exact ih hok.2.2 r e
        | some rref => exact ih hok.2.2 r (by simpa [ltoks, C04R.recsOf] using hr)
      | garb g => exact ih hok.2.2 r (by simpa [ltoks, C04R.recsOf] using hr)
  have htok : C04R.printToks (ltoks ls) ++ 10 :: P.printProps (ms ++ lrefs ls) =
      C04R.printToks (ltoks ls ++ .nl :: (ms ++ lrefs ls).map .record) := by
    rw [C04R.printToks_append, ← C04R.printToks_recs]; rfl
  have hrec : C04R.recsOf (ltoks ls ++ .nl :: (ms ++ lrefs ls).map .record) = C04R.recsOf (ltoks ls) ++ (ms ++ lrefs ls) := by
    rw [C04R.recsOf_append]
    show _ ++ C04R.recsOf ((ms ++ lrefs ls).map .record) = _
    rw [C04R.recsOf_recs]
  obtain ⟨es', a1, a2, a3⟩ := C04R.reparse_toks _ _ _ htok hrec (by
    intro r hr
    rcases List.mem_append.mp hr with h | h
    · exact hkept r h
    · rcases List.mem_append.mp h with h | h
      · exact hms r h
      · exact hrefs r h)
  exact ⟨_, es', merge_lines ls ms perm hp hne, rfl, a1, a2, a3⟩

/-- (DTD: append and whole-entity cuts) The localization is a printed list of safe DTD entities `<!ENTITY k "v">⏎`, some
    of them with an error-level check result (to be replaced by their reference entity).  Every skip is the span of an entity
    the walk reports (the text `<!ENTITY k "v">` without its newline).  Whatever the order of the skips — and also with no
    skip at all and only missing entities appended — the staged text is the kept entities (a blank line where one was
    cut), a newline, the missing and the replaced reference entities; it parses to exactly these, no unparsed content. -/
theorem multi_cut_reparses_dtd_partial (ls : List C04D.DLine) (ms : List C02X.DRec) (perm : List Skip)
    (hls : ∀ l ∈ ls, C02X.SafeDtdRec l.1 ∧ ∀ rref, l.2 = some rref → C02X.SafeDtdRec rref)
    (hms : ∀ r ∈ ms, C02X.SafeDtdRec r) (hp : perm.Perm (pcSkips 0 (C04D.dlinesPcs ls))) (hne : perm ≠ [] ∨ ms ≠ []) :
    P.walk .dtd (C02X.printDtd (ls.map (·.1))).toArray = .done (C02X.dtdExpEntries 0 (ls.map (·.1))) ∧
    (∀ sk ∈ perm, ∃ e ∈ C02X.dtdExpEntries 0 (ls.map (·.1)), e.kind = .entity ∧ sk.span = some (e.s, e.e) ∧ sk.junk = false) ∧
    ∃ t es', C04R.staged (C02X.printDtd (ls.map (·.1)))
        (merge true cap_dtd (C02X.printDtd (ls.map (·.1))) perm (ms.map C02X.printDtdRec)) = some t ∧
      t = C04D.printToksD (C04D.dtoks ls) ++ 10 :: C02X.printDtd (ms ++ C04D.drefs ls) ∧
      P.walk .dtd t.toArray = .done es' ∧
      P.entitiesOf .dtd t.toArray es' = (C04R.recsOf (C04D.dtoks ls) ++ (ms ++ C04D.drefs ls)).map P.expectedView ∧
      P.junkOf t.toArray es' = [] := by
  refine ⟨C02X.walk_dtd_printed _ (by
      intro r hr
      obtain ⟨l, hl, rfl⟩ := List.mem_map.mp hr
      exact (hls l hl).1),
    fun sk hsk => C04D.dskips_are_entries ls 0 sk (hp.subset hsk), ?_⟩
  have hrefs : ∀ r ∈ C04D.drefs ls, C02X.SafeDtdRec r := by
    clear hp hne
    induction ls with
    | nil => intro r hr; simp [C04D.drefs] at hr
    | cons l ls ih =>
      intro r hr
      obtain ⟨r0, bad⟩ := l
      have ih' := ih (fun l hl => hls l (by simp [hl]))
      cases bad with
      | none => exact ih' r (by simpa [C04D.drefs] using hr)
      | some rref =>
        simp only [C04D.drefs, List.mem_cons] at hr
        rcases hr with e | e
        · subst e; exact (hls (r0, some r) (by simp)).2 _ rfl
        · exact ih' r e
  have hkept : ∀ r ∈ C04R.recsOf (C04D.dtoks ls), C02X.SafeDtdRec r := by
    clear hp hne hrefs
    induction ls with
    | nil => intro r hr; simp [C04D.dtoks, C04R.recsOf] at hr
    | cons l ls ih =>
      intro r hr
      obtain ⟨r0, bad⟩ := l
      have ih' := ih (fun l hl => hls l (by simp [hl]))
      cases bad with
      | none =>
        simp only [C04D.dtoks, C04R.recsOf, List.mem_cons] at hr
        rcases hr with e | e
        · subst e; exact (hls (r, none) (by simp)).1
        · exact ih' r e
      | some rref => exact ih' r (by simpa [C04D.dtoks, C04R.recsOf] using hr)
  have htok : C04D.printToksD (C04D.dtoks ls) ++ 10 :: C02X.printDtd (ms ++ C04D.drefs ls) =
      C04D.printToksD (C04D.dtoks ls ++ .nl :: (ms ++ C04D.drefs ls).map .record) := by
    rw [C04D.printToksD_append, ← C04D.printToksD_recs]; rfl
  have hrec : C04R.recsOf (C04D.dtoks ls ++ .nl :: (ms ++ C04D.drefs ls).map .record) =
      C04R.recsOf (C04D.dtoks ls) ++ (ms ++ C04D.drefs ls) := by
    rw [C04R.recsOf_append]
    show _ ++ C04R.recsOf ((ms ++ C04D.drefs ls).map .record) = _
    rw [C04R.recsOf_recs]
  obtain ⟨es', a1, a2, a3⟩ := C04D.walk_toksD (C04D.dtoks ls ++ .nl :: (ms ++ C04D.drefs ls).map .record) (by
    rw [hrec]
    intro r hr
    rcases List.mem_append.mp hr with h | h
    · exact hkept r h
    · rcases List.mem_append.mp h with h | h
      · exact hms r h
      · exact hrefs r h)
  refine ⟨_, es', C04D.merge_dlines ls ms perm hp hne, rfl, ?_, ?_, ?_⟩
  · rw [htok]; exact a1
  · rw [htok, a2, hrec]
  · rw [htok]; exact a3

-- non-vacuity: a two-line file with one garbage line and one record to replace; the skips arrive in REVERSE file order
example : LinesOK [.garb [103], .rcd ([97], [120]) (some ([97], [65]))] := by
  refine ⟨⟨by simp, by simp, by simp⟩, trivial, ⟨by simp, by simp [P.propsKeyChar], by simp, by simp, by simp⟩, ?_, trivial⟩
  intro rref h
  cases h
  exact ⟨by simp, by simp [P.propsKeyChar], by simp, by simp, by simp⟩
example : pcSkips 0 (linesPcs [.garb [103], .rcd ([97], [120]) (some ([97], [65]))]) =
    [{ span := some (0, 2), junk := true, refAll := [] }, { span := some (2, 5), junk := false, refAll := [97, 61, 65, 10] }] := by
  decide
example : merge true cap_properties [103, 10, 97, 61, 120, 10]
    [{ span := some (2, 5), junk := false, refAll := [97, 61, 65, 10] }, { span := some (0, 2), junk := true, refAll := [] }] [] =
    .written [10, 10, 97, 61, 65, 10] := by decide
-- NEGATION WITNESS for `CutsNonempty` / distinct starts: an EMPTY cut that shares its start with a real one is sorted
-- after it only if it was listed after it; listed first it makes the loop write the cut text (`contents[3:0]` is empty,
-- then `offset` falls back to 0)
example : merge true CAN_SKIP [97, 98, 99, 100]
    [{ span := some (0, 3), junk := true, refAll := [] }, { span := some (0, 0), junk := true, refAll := [] }] [] =
    .written [97, 98, 99, 100] := by decide

/-- F17 (known finding) — the DTD analogue of F4: the localization `<!ENTITY b 'L` (a value opened with an apostrophe, never
    closed, no final newline) and the missing reference entity `<!ENTITY a "A">⏎`: the staged text is the concatenation the
    theorems above specify, but its walk has ONE entity (0‥29): the appended entity is swallowed by the open value. -/
theorem f17_unstable_witness :
    C04R.staged [60, 33, 69, 78, 84, 73, 84, 89, 32, 98, 32, 39, 76]
      (merge true cap_dtd [60, 33, 69, 78, 84, 73, 84, 89, 32, 98, 32, 39, 76] []
        [[60, 33, 69, 78, 84, 73, 84, 89, 32, 97, 32, 34, 65, 34, 62, 10]]) =
      some [60, 33, 69, 78, 84, 73, 84, 89, 32, 98, 32, 39, 76, 10, 60, 33, 69, 78, 84, 73, 84, 89, 32, 97, 32, 34, 65, 34, 62, 10] ∧
    P.walk .dtd #[60, 33, 69, 78, 84, 73, 84, 89, 32, 98, 32, 39, 76, 10, 60, 33, 69, 78, 84, 73, 84, 89, 32, 97, 32, 34, 65, 34, 62, 10] =
      .done [{ kind := .entity, full := 0, s := 0, e := 29, ks := 9, ke := 10, vs := 12, ve := 27 },
             { kind := .whitespace, full := 29, s := 29, e := 30, ks := 29, ke := 30, vs := 29, ve := 30 }] := by
  refine ⟨by decide, by decide⟩

end Multi

/-! ### `.inc` (CAN_COPY): what is staged and that it re-parses -/
section Inc
open MergeB C04B

/-- `.inc` files are never spliced: a clean localization is staged as its own bytes, one with ANY skip or missing entry as
    the reference's bytes.  If the reference is the (CR-free) printed list of `#define` records `rs`, the staged file
    decodes to that text and parses to exactly `rs` — complete, no junk — whatever the localization was. -/
theorem inc_staging_reparses_partial (l10n ref : List Nat) (skips : List Skip) (ms : List (List Nat))
    (rs : List C02X.IRec) (hrs : ∀ r ∈ rs, C02X.SafeIncRec r) (h13 : 13 ∉ C02X.printInc rs)
    (href : encodeUtf8 (C02X.printInc rs) = some ref) (hdirty : skips ≠ [] ∨ ms ≠ []) :
    mergeBytes true cap_inc l10n ref skips ms = .bytes ref ∧
    readFile ref = C02X.printInc rs ∧
    P.walk .inc (readFile ref).toArray = .done (C02X.incExpEntries 0 rs) ∧
    P.entitiesOf .inc (readFile ref).toArray (C02X.incExpEntries 0 rs) = rs.map P.expectedView ∧
    P.junkOf (readFile ref).toArray (C02X.incExpEntries 0 rs) = [] := by
  have hr := readFile_encode _ _ h13 href
  have hm : mergeBytes true cap_inc l10n ref skips ms = .bytes ref := by
    rw [show cap_inc = CAN_COPY from rfl, copy_only_bytes]
    have : (skips.isEmpty && ms.isEmpty) = false := by
      rcases hdirty with h | h
      · cases skips <;> simp_all
      · cases ms <;> simp_all
    simp [this]
  obtain ⟨v1, v2⟩ := C02X.entitiesOf_incExpEntries (C02X.printInc rs).toArray rs 0 (by simp)
  rw [hr]
  exact ⟨hm, rfl, C02X.walk_inc_printed rs hrs, v1, v2⟩

end Inc

/-! ### Android (finding F5): exactly what is staged -/
section Android
open C04M

/-- ANDROID, complete characterisation.  `AndroidParser` is CAN_SKIP; its entities have span `(None, None)`, its junk (an
    unparseable document or element) span `(0, 0)`.  So, for a localized `strings.xml` with decoded text `contents`:
    (a) nothing to skip → byte copy of the l10n file (missing strings are NOT added: no English enters);
    (b) only junk skips, any number → the WHOLE text is written back (nothing removed: the junk stays);
    (c) exactly one skip, an entity → the text is written TWICE (`contents[0:None] + contents[None:]`), nothing removed;
    (d) two or more skips, at least one of them an entity → `skips.sort` compares `None` and raises TypeError. -/
theorem android_merge_spec (contents : List Nat) (ms : List (List Nat)) :
    merge true cap_android contents [] ms = .copyL10n ∧
    (∀ sk rest, (∀ s ∈ sk :: rest, s.span = some (0, 0)) → merge true cap_android contents (sk :: rest) ms = .written contents) ∧
    (∀ sk, sk.span = none → merge true cap_android contents [sk] ms = .written (contents ++ contents)) ∧
    (∀ s1 s2 rest, (∃ s ∈ s1 :: s2 :: rest, s.span = none) → merge true cap_android contents (s1 :: s2 :: rest) ms = .typeError) := by
  refine ⟨by simp [merge, hasCap, cap_android, CAN_SKIP, CAN_MERGE, CAN_COPY, CAN_NONE], ?_, ?_, ?_⟩
  · intro sk rest hall
    -- the stable sort returns some permutation, all of whose spans are (0, 0)
    have hsome : (sk :: rest).all (fun s => s.span.isSome) = true := by
      rw [List.all_eq_true]; intro s hs; rw [hall s hs]; rfl
    obtain ⟨sorted, hsorted, hperm⟩ : ∃ sorted, sortSkips (sk :: rest) = some sorted ∧ sorted.Perm (sk :: rest) := by
      cases rest with
      | nil => exact ⟨[sk], rfl, List.Perm.refl _⟩
      | cons s2 r =>
        obtain ⟨_, _, b3⟩ := foldl_insert (sk :: s2 :: r) [] (by simp) (by simp)
        simp only [List.map_nil, List.append_nil] at b3
        exact ⟨_, by unfold sortSkips; simp only [hsome, if_true]; rfl, b3⟩
    rw [show cap_android = CAN_SKIP from rfl, skip_only_text contents sk rest ms sorted hsorted, chunks_none_eq,
      chunks_zero_spans contents sorted (fun s hs => hall s (hperm.subset hs))]
  · intro sk hsk
    simp [merge, hasCap, cap_android, CAN_SKIP, CAN_MERGE, CAN_COPY, CAN_NONE, sortSkips, chunks, hsk]
  · intro s1 s2 rest ⟨s, hs, hnone⟩
    have hall : (s1 :: s2 :: rest).all (fun s => s.span.isSome) = false := by
      rw [List.all_eq_false]
      exact ⟨s, hs, by simp [hnone]⟩
    simp [merge, hasCap, cap_android, CAN_SKIP, CAN_COPY, CAN_NONE, sortSkips, hall]

/-- … on bytes: case (b) re-encodes the decoded text (CRLF and ill-formed bytes are NOT preserved although nothing is
    removed), case (c) doubles it -/
theorem android_bytes_spec (l10n ref : List Nat) (ms : List (List Nat)) (sk : Skip) :
    (sk.span = some (0, 0) → MergeB.mergeBytes true cap_android l10n ref [sk] ms = MergeB.encodeOut [] (MergeB.readFile l10n)) ∧
    (sk.span = none → MergeB.mergeBytes true cap_android l10n ref [sk] ms =
      MergeB.encodeOut [] (MergeB.readFile l10n ++ MergeB.readFile l10n)) := by
  constructor
  · intro h
    rw [MergeB.mergeBytes, (android_merge_spec _ ms).2.1 sk [] (by intro s hs; simp at hs; subst hs; exact h)]
  · intro h
    rw [MergeB.mergeBytes, (android_merge_spec _ ms).2.2.1 sk h]

end Android

/-! ## Round 5 — SESSIONS: one `ContentComparer` with a merge stage, a sequence of `compare` / `add` / `remove` jobs

`MergeS.step : St → Job → Except _ (St × FileOut)` (Compare/MergeSession.lean) is the comparer as a state machine; its
state lists everything a job can reach (`obs` = `self.observers`, `files` / `dirs` = the merge stage).  The theorems say
that NOTHING a job stages depends on that state — hence on the jobs that ran before: the class of regressions "the comparer
remembers something per extension / per comparer / between files" contradicts them, and the harness replays them on the real
code (`c04.session`, sessions against fresh comparers).  The parser is chosen per NAME by the generated `__constructors`
table (`MergeS.capsOfName` over `Lint.getParserName`). -/

section Session
open MergeS MergeB ObsM C04S

/-- ONE STEP: whatever state the comparer is in (observers that have seen any history, any stage), what a job stages is
    `jobOut` of the job and the project filters -/
theorem session_step_stateless (s s' : St) (j : Job) (out : FileOut) (h : MergeS.step s j = .ok (s', out)) :
    out = jobOut (filtersOf s) j := step_out_stateless h

/-- SESSION = POINTWISE: the outcomes of a session on one comparer are the per-job outcomes; no state is carried -/
theorem session_merge_is_pointwise (s s' : St) (jobs : List Job) (outs : List FileOut) (h : run s jobs = .ok (s', outs)) :
    outs = jobs.map (jobOut (filtersOf s)) := (run_spec jobs s s' outs h).1

/-- … and the project filters are the same afterwards -/
theorem session_filters_fixed (s s' : St) (jobs : List Job) (outs : List FileOut) (h : run s jobs = .ok (s', outs)) :
    filtersOf s' = filtersOf s := (run_spec jobs s s' outs h).2.1

/-- THE STAGE IS THE FOLD: after the session the stage is the initial stage with every `bytes` outcome written at its
    job's merge path, in job order; nothing else is created, changed or removed -/
theorem session_stage_is_fold (s s' : St) (jobs : List Job) (outs : List FileOut) (h : run s jobs = .ok (s', outs)) :
    s'.files = stageOf s.files (jobs.map (fun j => (j.mergePath, jobOut (filtersOf s) j))) := (run_spec jobs s s' outs h).2.2

/-- a session over files without a legacy module always returns (the observers never raise), from a fresh comparer -/
theorem session_returns (quiet : Nat) (filters : List (Option Filter)) (jobs : List Job) :
    ∃ s' outs, run (St.init quiet filters) jobs = .ok (s', outs) := run_total jobs _ (init_inv quiet filters)

/-- SESSION = FRESH COMPARER PER JOB: job `i` of a session stages exactly what the same job stages on a comparer of its
    own (any quiet level) -/
theorem session_equals_fresh (quiet quiet' : Nat) (filters : List (Option Filter)) (jobs : List Job) (s' : St)
    (outs : List FileOut) (h : run (St.init quiet filters) jobs = .ok (s', outs)) (i : Nat) (j : Job) (hj : jobs[i]? = some j) :
    ∃ sf o, run (St.init quiet' filters) [j] = .ok (sf, [o]) ∧ outs[i]? = some o := by
  obtain ⟨sf, os, hf⟩ := session_returns quiet' filters [j]
  have h1 := session_merge_is_pointwise _ _ _ _ hf
  have h2 := session_merge_is_pointwise _ _ _ _ h
  rw [init_filters] at h1 h2
  refine ⟨sf, jobOut filters j, by rw [hf, h1]; rfl, ?_⟩
  rw [h2, List.getElem?_map, hj]; rfl

/-- HISTORY IRRELEVANT: the same job after two different histories, on two comparers with the same filters, stages the same -/
theorem session_job_independent_of_history (sa sb sa' sb' : St) (preA preB postA postB : List Job) (j : Job)
    (outsA outsB : List FileOut) (hf : filtersOf sa = filtersOf sb)
    (ha : run sa (preA ++ j :: postA) = .ok (sa', outsA)) (hb : run sb (preB ++ j :: postB) = .ok (sb', outsB)) :
    outsA[preA.length]? = outsB[preB.length]? := by
  rw [session_merge_is_pointwise _ _ _ _ ha, session_merge_is_pointwise _ _ _ _ hb, hf]
  simp

/-- OTHERWISE UNTOUCHED: with pairwise distinct merge paths, what a job staged is at its path at the end of the session,
    byte for byte, whatever ran before or after it -/
theorem session_job_file_kept (s s' : St) (jobs : List Job) (outs : List FileOut) (h : run s jobs = .ok (s', outs))
    (hd : (jobs.filterMap (·.mergePath)).Nodup) (j : Job) (hj : j ∈ jobs) (p : List Nat) (hp : j.mergePath = some p) :
    getFile s'.files p = match jobOut (filtersOf s) j with | .bytes b => some b | _ => getFile s.files p := by
  rw [session_stage_is_fold s s' jobs outs h, getFile_stageOf]
  have hd' : ((jobs.map (fun j => (j.mergePath, jobOut (filtersOf s) j))).filterMap (·.1)).Nodup := by
    rw [List.filterMap_map]; exact hd
  have hm : (some p, jobOut (filtersOf s) j) ∈ jobs.map (fun j => (j.mergePath, jobOut (filtersOf s) j)) :=
    List.mem_map.mpr ⟨j, hj, by rw [hp]⟩
  rw [lastBytes_of_mem hd' hm]
  cases jobOut (filtersOf s) j <;> rfl

/-- ORDER IRRELEVANT: two sessions running the same jobs (pairwise distinct merge paths) in different orders, from the same
    stage on comparers with the same filters, leave the same file at every path — "unknown `notes.xml` first, then Android"
    and "Android first, then `notes.xml`" cannot differ -/
theorem session_order_irrelevant (s1 s2 s1' s2' : St) (jobs1 jobs2 : List Job) (outs1 outs2 : List FileOut)
    (hperm : jobs1.Perm jobs2) (hd : (jobs1.filterMap (·.mergePath)).Nodup)
    (hf : filtersOf s1 = filtersOf s2) (hfiles : s1.files = s2.files)
    (h1 : run s1 jobs1 = .ok (s1', outs1)) (h2 : run s2 jobs2 = .ok (s2', outs2)) (p : List Nat) :
    getFile s1'.files p = getFile s2'.files p := by
  rw [session_stage_is_fold _ _ _ _ h1, session_stage_is_fold _ _ _ _ h2, hf, hfiles]
  apply getFile_stageOf_perm (hperm.map _)
  rw [List.filterMap_map]; exact hd

/-! ### the parser is a function of the NAME, not of the extension -/

/-- look-alike names and what the generated `__constructors` table says about them -/
theorem parser_by_name_witness :
    capsOfName (ofString "strings.xml") = some cap_android ∧
    capsOfName (ofString "strings-more.xml") = some cap_android ∧
    capsOfName (ofString "res/values/strings.xml") = some cap_android ∧
    capsOfName (ofString "notes.xml") = none ∧
    capsOfName (ofString "values.xml") = none ∧
    capsOfName (ofString "extra.xml") = none ∧
    capsOfName (ofString "strings.xml.orig") = none ∧
    capsOfName (ofString "foo.properties.orig") = none ∧
    capsOfName (ofString "foo.properties") = some cap_properties ∧
    capsOfName (ofString "a.inc") = some cap_inc ∧
    capsOfName (ofString "a.ini") = some cap_ini ∧
    capsOfName (ofString "a.pot") = some cap_po ∧
    capsOfName (ofString "unknown.txt") = none ∧
    capsOfName (ofString "README") = none := by decide

/-! ### the regression class: a comparer that remembers parser lookups under a key of the name -/

/-- what such a comparer stages: the stateless per-job function, fed with what the memory answers -/
theorem cached_session_spec {K : Type} [BEq K] (key : List Nat → K) (cs cs' : CSt K) (jobs : List Job) (outs : List FileOut)
    (h : crun key cs jobs = .ok (cs', outs)) : outs = cachedOuts key (filtersOf cs.st) cs.cache jobs :=
  crun_spec jobs cs cs' outs h

/-- THE CACHE IS SOUND IF IT IS KEYED BY EVERYTHING THE RESULT DEPENDS ON: if `key a = key b` implies that `getParser`
    answers the same for `a` and `b`, a session on the remembering comparer is a session on the real one -/
theorem cached_session_eq_of_sufficient_key {K : Type} [BEq K] [LawfulBEq K] (key : List Nat → K) (hk : KeySufficient key)
    (s : St) (cs' : CSt K) (jobs : List Job) (outs : List FileOut)
    (h : crun key { st := s } jobs = .ok (cs', outs)) : run s jobs = .ok (cs'.st, outs) :=
  crun_eq_run hk jobs { st := s } cs' outs (by intro e he; cases he) h

/-- the whole name is a sufficient key -/
theorem name_key_sufficient : KeySufficient (fun n : List Nat => n) := by
  intro a b h; rw [show a = b from h]

/-- THE EXTENSION IS NOT: `notes.xml` and `strings-more.xml` share `.xml` and differ in `getParser` -/
theorem ext_key_insufficient_witness :
    extOf (ofString "notes.xml") = extOf (ofString "strings-more.xml") ∧
    capsOfName (ofString "notes.xml") ≠ capsOfName (ofString "strings-more.xml") ∧ ¬ KeySufficient extOf := by
  refine ⟨by decide, by decide, fun h => ?_⟩
  exact absurd (h (ofString "notes.xml") (ofString "strings-more.xml") (by decide)) (by decide)

/-- unknown `notes.xml` compared (CRLF bytes `n⏎`), then a MISSING Android `strings-more.xml` -/
def witnessUnknownFirst : List Job :=
  [{ kind := .compare, name := ofString "notes.xml", mergePath := some (ofString "notes.xml"), l10n := [110, 13, 10], ref := [114, 10],
     skips := [{ span := some (0, 0), junk := true, refAll := [] }] },
   { kind := .add, name := ofString "strings-more.xml", mergePath := some (ofString "strings-more.xml"), ref := [60, 114, 47, 62, 10], nref := 1 }]

/-- Android `strings.xml` compared (clean), then unknown `notes.xml` (CRLF bytes; the skip is the junk an Android parse of it
    would report), then a MISSING unknown `extra.xml` -/
def witnessAndroidFirst : List Job :=
  [{ kind := .compare, name := ofString "strings.xml", mergePath := some (ofString "strings.xml"), l10n := [60, 114, 47, 62, 10], ref := [60, 114, 47, 62, 10] },
   { kind := .compare, name := ofString "notes.xml", mergePath := some (ofString "notes.xml"), l10n := [110, 13, 10], ref := [114, 10],
     skips := [{ span := some (0, 0), junk := true, refAll := [] }] },
   { kind := .add, name := ofString "extra.xml", mergePath := some (ofString "extra.xml"), ref := [101, 10] }]

/-- the missed regression, in the model: keyed by extension the memory makes the session stage ENGLISH for the missing
    Android file (first history), re-encode the unknown file CRLF → LF and stage nothing for the missing unknown file
    (second history); the real comparer (`jobOut`, by `session_merge_is_pointwise`) copies verbatim / stages nothing /
    stages the reference -/
theorem ext_cache_breaks_session_witness :
    witnessUnknownFirst.map (jobOut [none]) = [.bytes [110, 13, 10], .noFile] ∧
    cachedOuts extOf [none] [] witnessUnknownFirst = [.bytes [110, 13, 10], .bytes [60, 114, 47, 62, 10]] ∧
    witnessAndroidFirst.map (jobOut [none]) = [.bytes [60, 114, 47, 62, 10], .bytes [110, 13, 10], .bytes [101, 10]] ∧
    cachedOuts extOf [none] [] witnessAndroidFirst = [.bytes [60, 114, 47, 62, 10], .bytes [110, 10], .noFile] := by decide

/-- non-vacuity: the two witness sessions run on a fresh comparer, and their outcomes are the stateless ones -/
example : ∃ s' outs, run (St.init 0 [none]) witnessAndroidFirst = .ok (s', outs) ∧
    outs = [.bytes [60, 114, 47, 62, 10], .bytes [110, 13, 10], .bytes [101, 10]] := by
  obtain ⟨s', outs, h⟩ := session_returns 0 [none] witnessAndroidFirst
  refine ⟨s', outs, h, ?_⟩
  rw [session_merge_is_pointwise _ _ _ _ h, init_filters]
  exact ext_cache_breaks_session_witness.2.2.1

end Session

end C04

/-
C04 — l10n-merge output is complete, clean and otherwise untouched.
Theorems about the model `Merge.merge` of `ContentComparer.merge`, for ALL texts, skip lists
and missing lists.  The re-parse claims of the property are false in general (findings F4, F5, F14 —
the witnesses below are kernel-checked); section `Reparse` at the end proves them for printed
`.properties`/`.ini` texts under the decidable hypothesis `SpliceStable`, everything else is decided
on the real code (oracle).
-/
import CLModel.Compare.Merge
import CLModel.Proofs.C04Splice
import CLModel.Proofs.C04Ini
namespace C04
open Merge Gen.Tables

/-- spans sorted by start and pairwise disjoint, all present, starting at or after `off` -/
def SortedDisjoint : List Skip → Nat → Prop
  | [], _ => True
  | sk :: rest, off => ∃ a b, sk.span = some (a, b) ∧ off ≤ a ∧ a ≤ b ∧ SortedDisjoint rest b

/-- the l10n text with the spans cut out (specification) -/
def removeSpans (contents : List Nat) : List Skip → Nat → List Nat
  | [], off => contents.drop off
  | sk :: rest, off =>
    match sk.span with
    | some (a, b) => (contents.drop off).take (a - off) ++ removeSpans contents rest b
    | none => contents.drop off

theorem chunks_eq_removeSpans (contents : List Nat) :
    ∀ (skips : List Skip) (off : Nat), SortedDisjoint skips off →
      chunks contents skips (some off) = removeSpans contents skips off := by
  intro skips
  induction skips with
  | nil => intro off _; simp [chunks, removeSpans]
  | cons sk rest ih =>
    intro off h
    obtain ⟨a, b, hs, _, _, hr⟩ := h
    simp [chunks, removeSpans, hs, ih b hr]

/-- cutting sorted, disjoint spans out of a text yields a subsequence of it -/
theorem chunks_sublist (contents : List Nat) :
    ∀ (skips : List Skip) (off : Nat), SortedDisjoint skips off →
      (chunks contents skips (some off)).Sublist (contents.drop off) := by
  intro skips
  induction skips with
  | nil => intro off _; simp [chunks]
  | cons sk rest ih =>
    intro off h
    obtain ⟨a, b, hs, h1, h2, hr⟩ := h
    simp only [chunks, hs]
    have h3 : (chunks contents rest (some b)).Sublist ((contents.drop off).drop (a - off)) := by
      refine (ih b hr).trans ?_
      have : contents.drop b = ((contents.drop off).drop (a - off)).drop (b - a) := by
        rw [List.drop_drop, List.drop_drop]; congr 1; omega
      rw [this]; exact List.drop_sublist _ _
    have := List.Sublist.append (List.Sublist.refl ((contents.drop off).take (a - off))) h3
    rwa [List.take_append_drop] at this

/-- the trailing block: a newline, the missing reference entries, then the reference entries of
    the non-junk skips, each newline-terminated -/
theorem trailing_spec (missingAlls : List (List Nat)) (skips : List Skip) :
    trailing missingAlls skips =
      [10] ++ (missingAlls.map ensureNewline).flatten
        ++ (((skips.filter (fun s => !s.junk)).map (·.refAll)).map ensureNewline).flatten := by
  simp [trailing, ensureNewline]

theorem ensureNewline_ends (s : List Nat) : (ensureNewline s).getLast? = some 10 := by
  unfold ensureNewline; split <;> simp_all

/-- skip+merge formats: the staged text is the l10n text with the skip spans cut out followed by the trailing block -/
theorem merge_text_spec (contents : List Nat) (sk : Skip) (skips : List Skip) (missingAlls : List (List Nat))
    (sorted : List Skip) (hs : sortSkips (sk :: skips) = some sorted) :
    merge true (CAN_SKIP + CAN_MERGE) contents (sk :: skips) missingAlls =
      .written (chunks contents sorted none ++ trailing missingAlls sorted) := by
  simp [merge, hasCap, CAN_SKIP, CAN_MERGE, CAN_COPY, CAN_NONE, hs]

/-- skip-only formats (Fluent, PO, Android): only the cut l10n text is written -/
theorem skip_only_text (contents : List Nat) (sk : Skip) (skips : List Skip) (missingAlls : List (List Nat))
    (sorted : List Skip) (hs : sortSkips (sk :: skips) = some sorted) :
    merge true CAN_SKIP contents (sk :: skips) missingAlls = .written (chunks contents sorted none) := by
  simp [merge, hasCap, CAN_SKIP, CAN_MERGE, CAN_COPY, CAN_NONE, hs]

/-- … and with sorted, disjoint spans that text is a subsequence of the localized text: no reference text enters -/
theorem skip_only_no_english (contents : List Nat) (sk : Skip) (skips : List Skip) (missingAlls : List (List Nat))
    (sorted : List Skip) (hs : sortSkips (sk :: skips) = some sorted) (hd : SortedDisjoint sorted 0) :
    ∃ t, merge true CAN_SKIP contents (sk :: skips) missingAlls = .written t ∧ t.Sublist contents := by
  refine ⟨_, skip_only_text contents sk skips missingAlls sorted hs, ?_⟩
  have h := chunks_sublist contents sorted 0 hd
  cases sorted with
  | nil => simp [chunks]
  | cons s0 rest =>
    obtain ⟨a, b, hsp, _, _, _⟩ := hd
    simp only [chunks, hsp] at h ⊢
    simpa using h

/-- a complete, clean localization is staged as a verbatim copy (byte-identical), whatever the strategy -/
theorem clean_is_identical (caps : Nat) (contents : List Nat)
    (hc : hasCap caps CAN_COPY = true ∨ hasCap caps CAN_SKIP = true) (hn : caps ≠ CAN_NONE) :
    merge true caps contents [] [] = .copyL10n := by
  unfold merge
  have : (caps == CAN_NONE) = false := by simpa using hn
  rcases hc with h | h
  · simp [this, h]
  · by_cases hcopy : hasCap caps CAN_COPY = true
    · simp [this, hcopy]
    · by_cases hm : hasCap caps CAN_MERGE = true <;> simp [this, hcopy, h, hm]

/-- copy-only formats (.inc) and unknown file types: copy the l10n file iff it is clean, else the reference -/
theorem copy_only (contents : List Nat) (skips : List Skip) (missingAlls : List (List Nat)) :
    merge true CAN_COPY contents skips missingAlls =
      (if skips.isEmpty && missingAlls.isEmpty then .copyL10n else .copyRef) := by
  cases skips <;> cases missingAlls <;> simp [merge, hasCap, CAN_COPY, CAN_NONE]

/-- without a merge path, or with CAN_NONE, nothing is written -/
theorem no_merge_file_no_effect (caps : Nat) (contents : List Nat) (skips : List Skip) (ms : List (List Nat)) :
    merge false caps contents skips ms = .nothing ∧ merge true CAN_NONE contents skips ms = .nothing := by
  simp [merge, CAN_NONE]

/-- the strategies are those of the source: capability bits and per-format capabilities are generated from /repo -/
theorem strategy_table :
    CAN_NONE = 0 ∧ CAN_COPY = 1 ∧ CAN_SKIP = 2 ∧ CAN_MERGE = 4 ∧
    cap_dtd = CAN_SKIP + CAN_MERGE ∧ cap_properties = CAN_SKIP + CAN_MERGE ∧ cap_ini = CAN_SKIP + CAN_MERGE ∧
    cap_ftl = CAN_SKIP ∧ cap_po = CAN_SKIP ∧ cap_android = CAN_SKIP ∧ cap_inc = CAN_COPY := by
  decide

/-- F5 (known finding): one skip with span (None, None) duplicates the text and removes nothing;
    two such skips raise TypeError in `skips.sort` -/
theorem android_duplicates_witness :
    merge true CAN_SKIP [97, 98] [{ span := none, junk := false, refAll := [] }] [] = .written [97, 98, 97, 98] ∧
    merge true CAN_SKIP [97, 98] [{ span := none, junk := false, refAll := [] }, { span := none, junk := false, refAll := [] }] []
      = .typeError := by
  decide

/-- F13 (fixed in /repo by not listing an entity twice): a duplicated skip appends its reference entity twice -/
theorem dup_skip_appends_twice_witness :
    merge true (CAN_SKIP + CAN_MERGE) [107, 61, 120, 10]
      [{ span := some (0, 3), junk := false, refAll := [107, 61, 65, 10] }, { span := some (0, 3), junk := false, refAll := [107, 61, 65, 10] }] []
      = .written [10, 10, 107, 61, 65, 10, 107, 61, 65, 10] := by
  decide

/-- non-vacuity: a sorted, disjoint skip list and what the splice does with it -/
example : SortedDisjoint [{ span := some (2, 4), junk := true, refAll := [] }, { span := some (5, 6), junk := false, refAll := [] }] 0 :=
  ⟨2, 4, rfl, by omega, by omega, 5, 6, rfl, by omega, by omega, trivial⟩
example : merge true CAN_SKIP [0, 1, 2, 3, 4, 5, 6]
    [{ span := some (5, 6), junk := false, refAll := [] }, { span := some (2, 4), junk := true, refAll := [] }] []
      = .written [0, 1, 4, 6] := by decide

/-! ### the re-parse claim for `.properties`, under explicit stability hypotheses

FULL STATEMENT (DESIGN.md "### C04"): for a clean reference and a localization without duplicate keys,
`reparse (merge …) = expected entities ∧ no junk ∧ nothing missing`, under `SpliceStable`.
Proved here for the printed class of C02 (`printProps`: safe records `key=value⏎`, see `C02.roundtrip_properties_partial`),
for which `SpliceStable` holds (`printed_splices_stable`); the findings F4 and F14 are kernel-checked inputs on which
`SpliceStable` is false AND the re-parse claim fails (`f4_unstable_witness`, `f14_unstable_witness`).
NOT proved: arbitrary localized texts satisfying `SpliceStable` (comments, escapes, continuation lines, other layouts),
more than one cut, dtd; those stay with the end-to-end oracle. -/
section Reparse
open P C04R

/-- (clean append) The localization is a printed list of safe records — with or without the newline after its last
    record —, nothing is cut, the missing reference entries `ms` are safe records `key=value⏎`: the staged text is the copy
    of the l10n file followed by a newline and the reference entries, and it parses to exactly the localized records followed
    by the reference records — nothing missing, localized keys and values untouched, no unparsed content.
    (The parser does not need the keys of `ms` to differ from those of `rs`; the comparison does.) -/
theorem append_reparses_properties_partial (rs ms : List PRec) (finalNl : Bool)
    (hrs : ∀ r ∈ rs, SafeRec r) (hms : ∀ r ∈ ms, SafeRec r) (hne : ms ≠ []) :
    ∃ t es, staged (l10nText rs finalNl) (merge true cap_properties (l10nText rs finalNl) [] (ms.map printRec)) = some t ∧
      t = l10nText rs finalNl ++ 10 :: printProps ms ∧
      walk .properties t.toArray = .done es ∧
      entitiesOf .properties t.toArray es = (rs ++ ms).map expectedView ∧
      junkOf t.toArray es = [] := by
  obtain ⟨m, ms', rfl⟩ : ∃ m ms', ms = m :: ms' := by
    cases ms with
    | nil => exact absurd rfl hne
    | cons m ms' => exact ⟨m, ms', rfl⟩
  have hst : staged (l10nText rs finalNl) (merge true cap_properties (l10nText rs finalNl) [] ((m :: ms').map printRec)) =
      some (l10nText rs finalNl ++ 10 :: printProps (m :: ms')) := by
    rw [List.map_cons, merge_append, ← List.map_cons, trailing_printed]
  obtain ⟨toks, ht, hr⟩ := l10nText_append_toks rs (m :: ms') finalNl
  obtain ⟨es, h1, h2, h3⟩ := reparse_toks _ toks (rs ++ m :: ms') ht hr
    (fun r hr => by rcases List.mem_append.mp hr with h | h; exact hrs r h; exact hms r h)
  exact ⟨_, es, hst, rfl, h1, h2, h3⟩

/-- (cut of a whole-line junk) The localization is `records, garbage line G⏎, records`.  (1) Garbage locality: its walk
    has exactly ONE junk entry `j`, spanning exactly the garbage line with its newline, and the entities are exactly
    the records.  (2) With `j`'s span as the only skip (and any safe missing entries `ms`), the staged text is the printed
    records without the garbage line, a newline, the reference entries; it parses to the records followed by the
    reference records, with no unparsed content. -/
theorem cut_reparses_properties_partial (rs1 rs2 ms : List PRec) (G : List Nat)
    (h1 : ∀ r ∈ rs1, SafeRec r) (h2 : ∀ r ∈ rs2, SafeRec r) (hms : ∀ r ∈ ms, SafeRec r) (hG : GarbageLine G) :
    ∃ es j, walk .properties (withGarbage rs1 G rs2).toArray = .done es ∧
      es.filter (fun e => e.kind == .junk) = [j] ∧
      j.s = (printProps rs1).length ∧ j.e = (printProps rs1).length + G.length + 1 ∧
      entitiesOf .properties (withGarbage rs1 G rs2).toArray es = (rs1 ++ rs2).map expectedView ∧
      junkOf (withGarbage rs1 G rs2).toArray es = [G ++ [10]] ∧
      ∃ t es', staged (withGarbage rs1 G rs2) (merge true cap_properties (withGarbage rs1 G rs2)
            [{ span := some (j.s, j.e), junk := true, refAll := [] }] (ms.map printRec)) = some t ∧
        t = printProps (rs1 ++ rs2) ++ 10 :: printProps ms ∧
        walk .properties t.toArray = .done es' ∧
        entitiesOf .properties t.toArray es' = (rs1 ++ rs2 ++ ms).map expectedView ∧
        junkOf t.toArray es' = [] := by
  obtain ⟨es1, es2, hw, hen1, hj1, hen2, hj2⟩ := walk_garbage rs1 rs2 G h1 h2 hG
  have hf1 : es1.filter (fun e => e.kind == .junk) = [] := by simpa [junkOf] using hj1
  have hf2 : es2.filter (fun e => e.kind == .junk) = [] := by simpa [junkOf] using hj2
  have hda : (withGarbage rs1 G rs2).toArray.toList.drop (printProps rs1).length = (G ++ [10]) ++ printProps rs2 := by
    simp [withGarbage]
  have hsl : slice (withGarbage rs1 G rs2).toArray (printProps rs1).length ((printProps rs1).length + G.length + 1) = G ++ [10] := by
    have := slice_take (withGarbage rs1 G rs2).toArray (printProps rs1).length (G.length + 1) _ hda (by simp)
    rw [show (printProps rs1).length + (G.length + 1) = (printProps rs1).length + G.length + 1 by omega] at this
    rw [this, List.take_left' (by simp)]
  refine ⟨es1 ++ junkEntry (printProps rs1).length ((printProps rs1).length + G.length + 1) :: es2,
    junkEntry (printProps rs1).length ((printProps rs1).length + G.length + 1), hw, ?_, rfl, rfl, ?_, ?_, ?_⟩
  · rw [List.filter_append, hf1, List.filter_cons_of_pos (by simp [junkEntry]), hf2]
    rfl
  · simp only [entitiesOf] at hen1 hen2 ⊢
    rw [List.filter_append, List.filter_cons_of_neg (by simp [junkEntry]), List.map_append, hen1, hen2, List.map_append]
  · simp only [junkOf] at hj1 hj2 ⊢
    rw [List.filter_append, hf1, List.filter_cons_of_pos (by simp [junkEntry]), hf2]
    simp only [List.nil_append, List.map_cons, List.map_nil, junkEntry]
    rw [hsl]
  · have hst : staged (withGarbage rs1 G rs2) (merge true cap_properties (withGarbage rs1 G rs2)
          [{ span := some ((junkEntry (printProps rs1).length ((printProps rs1).length + G.length + 1)).s,
                           (junkEntry (printProps rs1).length ((printProps rs1).length + G.length + 1)).e),
             junk := true, refAll := [] }] (ms.map printRec)) =
        some (printProps (rs1 ++ rs2) ++ 10 :: printProps ms) := by
      rw [merge_one_skip, trailing_printed_junk]
      have e : withGarbage rs1 G rs2 = printProps rs1 ++ ((G ++ [10]) ++ printProps rs2) := by simp [withGarbage]
      rw [e, chunks_one _ _ _ _ (by simp [junkEntry]; omega), printProps_append]
    obtain ⟨ht, hr⟩ := toks_two (rs1 ++ rs2) ms
    obtain ⟨es', a1, a2, a3⟩ := reparse_toks _ _ (rs1 ++ rs2 ++ ms) ht hr
      (fun r hr => by
        rcases List.mem_append.mp hr with h | h
        · rcases List.mem_append.mp h with h | h
          · exact h1 r h
          · exact h2 r h
        · exact hms r h)
    exact ⟨_, es', hst, rfl, a1, a2, a3⟩

/-- (cut of an entity with a check error) The localization is a printed list of safe records; the entity of the record
    `rb` is skipped — its span is the one the walk reports, `key=value` without the newline — and replaced by the reference
    entry `rref` (appended after the missing entries `ms`): the staged text keeps the other records (a blank line
    remains where `rb` was), and parses to the kept records, the missing records and `rref`, with no unparsed content. -/
theorem skip_entity_reparses_properties_partial (rs1 rs2 ms : List PRec) (rb rref : PRec)
    (h1 : ∀ r ∈ rs1, SafeRec r) (hb : SafeRec rb) (h2 : ∀ r ∈ rs2, SafeRec r) (hms : ∀ r ∈ ms, SafeRec r)
    (href : SafeRec rref) :
    ∃ es e, walk .properties (printProps (rs1 ++ rb :: rs2)).toArray = .done es ∧ e ∈ es ∧
      e = propsEntity_c02 (printProps rs1).length rb.1.length rb.2.length ∧
      ∃ t es', staged (printProps (rs1 ++ rb :: rs2)) (merge true cap_properties (printProps (rs1 ++ rb :: rs2))
            [{ span := some (e.s, e.e), junk := false, refAll := printRec rref }] (ms.map printRec)) = some t ∧
        t = printProps rs1 ++ 10 :: (printProps rs2 ++ 10 :: printProps (ms ++ [rref])) ∧
        walk .properties t.toArray = .done es' ∧
        entitiesOf .properties t.toArray es' = (rs1 ++ rs2 ++ (ms ++ [rref])).map expectedView ∧
        junkOf t.toArray es' = [] := by
  have hall : ∀ r ∈ rs1 ++ rb :: rs2, SafeRec r := by
    intro r hr
    rcases List.mem_append.mp hr with h | h
    · exact h1 r h
    · rcases List.mem_cons.mp h with h | h
      · exact h ▸ hb
      · exact h2 r h
  refine ⟨expEntries 0 (rs1 ++ rb :: rs2), _, walk_props_printed _ hall, ?_, rfl, ?_⟩
  · simpa using mem_expEntries rs1 rb rs2 0
  · have hst : staged (printProps (rs1 ++ rb :: rs2)) (merge true cap_properties (printProps (rs1 ++ rb :: rs2))
          [{ span := some ((propsEntity_c02 (printProps rs1).length rb.1.length rb.2.length).s,
                           (propsEntity_c02 (printProps rs1).length rb.1.length rb.2.length).e),
             junk := false, refAll := printRec rref }] (ms.map printRec)) =
        some (printProps rs1 ++ 10 :: (printProps rs2 ++ 10 :: printProps (ms ++ [rref]))) := by
      rw [merge_one_skip, trailing_printed_entity]
      have e : printProps (rs1 ++ rb :: rs2) = printProps rs1 ++ ((rb.1 ++ 61 :: rb.2) ++ 10 :: printProps rs2) := by
        simp [printProps, printRec]
      rw [e, chunks_one _ _ _ _ (by simp [propsEntity_c02]; omega)]
      simp
    obtain ⟨ht, hr⟩ := toks_three rs1 rs2 (ms ++ [rref])
    obtain ⟨es', a1, a2, a3⟩ := reparse_toks _ _ (rs1 ++ rs2 ++ (ms ++ [rref])) ht hr
      (fun r hr => by
        rcases List.mem_append.mp hr with h | h
        · rcases List.mem_append.mp h with h | h
          · exact h1 r h
          · exact h2 r h
        · rcases List.mem_append.mp h with h | h
          · exact hms r h
          · simp at h; exact h ▸ href)
    exact ⟨_, es', hst, rfl, a1, a2, a3⟩

/-- the three splices above satisfy the decidable stability predicate `SpliceStable` (every cut starts at a line start
    or keeps its line end; the kept text does not end in an odd run of backslashes when entries are appended) -/
theorem printed_splices_stable (rs1 rs2 ms : List PRec) (rb : PRec) (G : List Nat) (finalNl : Bool)
    (h1 : ∀ r ∈ rs1, SafeRec r) :
    SpliceStable (l10nText rs1 finalNl) [] (ms.map printRec) = true ∧
    SpliceStable (withGarbage rs1 G rs2)
      [{ span := some ((printProps rs1).length, (printProps rs1).length + G.length + 1), junk := true, refAll := [] }]
      (ms.map printRec) = true ∧
    SpliceStable (printProps (rs1 ++ rb :: rs2))
      [{ span := some ((propsEntity_c02 (printProps rs1).length rb.1.length rb.2.length).s,
                       (propsEntity_c02 (printProps rs1).length rb.1.length rb.2.length).e),
         junk := false, refAll := printRec rb }] (ms.map printRec) = true :=
  ⟨append_stable rs1 ms finalNl h1, cut_stable rs1 rs2 G _ _ _, skip_entity_stable rs1 rs2 rb _ _ _⟩

/-- F4 (known finding) is the negation of the backslash hypothesis: for the localization `a=X\` (no final newline) and the
    missing reference entry `b=B⏎`, `SpliceStable` is false, the staged text is `a=X\⏎b=B⏎`, and its walk has ONE entity
    (key span 0–1, value span 2–8): the appended entry is swallowed as a continuation line, `b` stays missing. -/
theorem f4_unstable_witness :
    SpliceStable [97, 61, 88, 92] [] [[98, 61, 66, 10]] = false ∧
    staged [97, 61, 88, 92] (merge true cap_properties [97, 61, 88, 92] [] [[98, 61, 66, 10]])
      = some [97, 61, 88, 92, 10, 98, 61, 66, 10] ∧
    walk .properties #[97, 61, 88, 92, 10, 98, 61, 66, 10] =
      .done [{ kind := .entity, full := 0, s := 0, e := 8, ks := 0, ke := 1, vs := 2, ve := 8 },
             { kind := .whitespace, full := 8, s := 8, e := 9, ks := 8, ke := 9, vs := 8, ve := 9 }] := by
  decide

/-- … and with an EVEN run of backslashes (`a=X\\`) the predicate holds and the appended entry is parsed (entity at 6–9) -/
theorem f4_even_run_witness :
    SpliceStable [97, 61, 88, 92, 92] [] [[98, 61, 66, 10]] = true ∧
    walk .properties #[97, 61, 88, 92, 92, 10, 98, 61, 66, 10] =
      .done [{ kind := .entity, full := 0, s := 0, e := 5, ks := 0, ke := 1, vs := 2, ve := 5 },
             { kind := .whitespace, full := 5, s := 5, e := 6, ks := 5, ke := 6, vs := 5, ve := 6 },
             { kind := .entity, full := 6, s := 6, e := 9, ks := 6, ke := 7, vs := 8, ve := 9 },
             { kind := .whitespace, full := 9, s := 9, e := 10, ks := 9, ke := 10, vs := 9, ve := 10 }] := by
  decide

/-- F14 (known finding) is the negation of the line-start hypothesis: in the ini text `[Strings]\⏎; c⏎k=v` the walk
    reports the junk `\⏎` with span (9, 11) — it starts in the middle of a line and ends with the line end —, `SpliceStable`
    is false for that cut, the staged text is `[Strings]; c⏎k=v⏎`, and its walk contains a NEW junk entry (9, 13): the
    comment line was fused onto the section line. -/
theorem f14_unstable_witness :
    walk .ini #[91, 83, 116, 114, 105, 110, 103, 115, 93, 92, 10, 59, 32, 99, 10, 107, 61, 118] =
      .done [{ kind := .section, full := 0, s := 0, e := 9, ks := 1, ke := 8, vs := 1, ve := 8 },
             { kind := .junk, full := 9, s := 9, e := 11 },
             { kind := .entity, full := 11, s := 15, e := 18, ks := 15, ke := 16, vs := 17, ve := 18, pc := some (11, 14) }] ∧
    SpliceStable [91, 83, 116, 114, 105, 110, 103, 115, 93, 92, 10, 59, 32, 99, 10, 107, 61, 118]
      [{ span := some (9, 11), junk := true, refAll := [] }] [] = false ∧
    staged [91, 83, 116, 114, 105, 110, 103, 115, 93, 92, 10, 59, 32, 99, 10, 107, 61, 118]
      (merge true cap_ini [91, 83, 116, 114, 105, 110, 103, 115, 93, 92, 10, 59, 32, 99, 10, 107, 61, 118]
        [{ span := some (9, 11), junk := true, refAll := [] }] [])
      = some [91, 83, 116, 114, 105, 110, 103, 115, 93, 59, 32, 99, 10, 107, 61, 118, 10] ∧
    walk .ini #[91, 83, 116, 114, 105, 110, 103, 115, 93, 59, 32, 99, 10, 107, 61, 118, 10] =
      .done [{ kind := .section, full := 0, s := 0, e := 9, ks := 1, ke := 8, vs := 1, ve := 8 },
             { kind := .junk, full := 9, s := 9, e := 13 },
             { kind := .entity, full := 13, s := 13, e := 16, ks := 13, ke := 14, vs := 15, ve := 16 },
             { kind := .whitespace, full := 16, s := 16, e := 17, ks := 16, ke := 17, vs := 16, ve := 17 }] := by
  decide

-- non-vacuity: the hypotheses are satisfiable by non-trivial values ("a.b=x y", "k=" and the garbage line "no separator")
example : SafeRec ([97, 46, 98], [120, 32, 121]) ∧ SafeRec ([107], []) := by
  constructor <;> constructor <;> simp [propsKeyChar] <;> decide
example : GarbageLine [110, 111, 32, 115, 101, 112, 97, 114, 97, 116, 111, 114] := by
  constructor <;> simp <;> decide
example : withGarbage [([97], [120])] [103] [([98], [])] = [97, 61, 120, 10, 103, 10, 98, 61, 10] := by decide
example : l10nText [([97], [120])] false = [97, 61, 120] := by decide
-- NEGATION WITNESSES for `GarbageLine` (what the code does at the excluded points):
-- a `#` inside the line ends the junk there ("g#x⏎" -> junk 0..1, then a comment)
example : (propsGetNext #[103, 35, 120, 10] 0).e = 1 := by decide
-- a `=` makes the line an entity
example : (propsGetNext #[103, 61, 120, 10] 0).kind = .entity := by decide

/-- (ini analogue of the clean append) The localization is `[name]⏎` followed by a printed list of ini records
    (`IniSafeRec`: the value may contain anything but a newline — also backslashes and blanks at either end), with or
    without the newline after the last record; nothing is cut; the missing reference entries are such records: the
    staged text parses to the section, exactly the localized records followed by the reference records, no unparsed
    content.  No backslash hypothesis is needed for ini (a trailing backslash is not a line continuation there). -/
theorem append_reparses_ini_partial (name : List Nat) (rs ms : List PRec) (finalNl : Bool)
    (hn : ∀ c ∈ name, c ≠ 93 ∧ c ≠ 10)
    (hrs : ∀ r ∈ rs, IniSafeRec r) (hms : ∀ r ∈ ms, IniSafeRec r) (hne : ms ≠ []) :
    ∃ t es, staged (iniSection name ++ 10 :: l10nText rs finalNl)
        (merge true cap_ini (iniSection name ++ 10 :: l10nText rs finalNl) [] (ms.map printRec)) = some t ∧
      t = (iniSection name ++ 10 :: l10nText rs finalNl) ++ 10 :: printProps ms ∧
      walk .ini t.toArray = .done es ∧
      entitiesOf .ini t.toArray es = (rs ++ ms).map expectedView ∧
      junkOf t.toArray es = [] := by
  obtain ⟨m, ms', rfl⟩ : ∃ m ms', ms = m :: ms' := by
    cases ms with
    | nil => exact absurd rfl hne
    | cons m ms' => exact ⟨m, ms', rfl⟩
  have hcap : cap_ini = cap_properties := rfl
  have hst : staged (iniSection name ++ 10 :: l10nText rs finalNl)
      (merge true cap_ini (iniSection name ++ 10 :: l10nText rs finalNl) [] ((m :: ms').map printRec)) =
      some ((iniSection name ++ 10 :: l10nText rs finalNl) ++ 10 :: printProps (m :: ms')) := by
    rw [hcap, List.map_cons, merge_append, ← List.map_cons, trailing_printed]
  obtain ⟨toks, ht, hr⟩ := l10nText_append_toks rs (m :: ms') finalNl
  have ht' : (iniSection name ++ 10 :: l10nText rs finalNl) ++ 10 :: printProps (m :: ms') =
      iniSection name ++ printToks (.nl :: toks) := by
    simp only [printToks, ← ht]
    simp
  obtain ⟨es, a1, a2, a3⟩ := ini_walk_section_toks name (.nl :: toks) hn
    (by
      intro r hr'
      have : r ∈ rs ++ m :: ms' := by rw [← hr]; simpa [recsOf] using hr'
      rcases List.mem_append.mp this with h | h
      · exact hrs r h
      · exact hms r h)
  refine ⟨_, es, hst, rfl, ?_, ?_, ?_⟩
  · rw [ht']; exact a1
  · rw [ht', a2]; simp [recsOf, hr]
  · rw [ht']; exact a3

-- non-vacuity (ini): "[Strings]" and the records "k = v \" (blanks, trailing backslash) and "a.b="
example : IniSafeRec ([107, 32], [32, 118, 32, 92]) ∧ IniSafeRec ([97, 46, 98], []) := by
  constructor <;> constructor <;> simp
example : iniSection [83] ++ 10 :: l10nText [([107, 32], [32, 118, 32, 92])] true = [91, 83, 93, 10, 107, 32, 61, 32, 118, 32, 92, 10] := by
  decide
-- NEGATION WITNESS for "key does not start with [": "[a]=b" is a section, not an entity (C02)
example : (iniGetNext #[91, 97, 93, 61, 98] 0).kind = .section := by decide

end Reparse

end C04

/-
C03 — Comparison reports exactly the missing, obsolete and changed strings.
Property theorems only (helper lemmas live in CLModel/Proofs/C03*.lean; the specification
vocabulary `lastEnt`, `classOf`, `isCls`, `wordsOf`, `noFilter`, `distinct`, `Report.missingKeys`,
`Report.obsoleteKeys` is defined at the top of CLModel/Proofs/C03.lean).

Reading guide.  `ref`, `l10n` are the entity lists `p.parse()` returns for the two files (junk
included), `R = ref.map key`, `L = l10n.map key`.  `lastEnt es k` is the last entity with key `k`
(what `KeyedTuple.__getitem__` returns, C20).  `classOf ref l10n k` classifies a key:
  in R only: `refJunk` if that entity is junk, else `missing`;  in L only: `l10nJunk` / `obsolete`;
  in both:   `binding` if `isinstance(k, str) and keyRE.search(k)`, else `unchanged` if
             `refent.equals(l10nent)`, else `changed`.
`compareEntities ref l10n noFilter = .ok r`: the loop of `ContentComparer.compare` ran with one
observer that filters nothing; `r.updates` are the `updateStats` calls, `r.notes` the details.
"Distinct keys" are given as any duplicate-free list with the same members (`distinct R` is one).
-/
import CLModel.Compare.Content
import CLModel.Proofs.C03
namespace C03
open Cmp AR

/-- `ContentComparer.compare`'s loop never raises, whatever the two entity lists and the filter are:
    every `ref_entities[entity_id]` / `l10n_entities[entity_id]` it evaluates succeeds. -/
theorem compare_total (ref l10n : List Ent) (v : Key → Verdict) :
    ∃ r, compareEntities ref l10n v = .ok r :=
  ⟨_, compare_eq ref l10n v⟩

/-- `observers.updateStats(l10n, stats)` is called exactly once per comparison. -/
theorem stats_once (ref l10n : List Ent) (v : Key → Verdict) (r : Report)
    (h : compareEntities ref l10n v = .ok r) : r.updates.length = 1 := by
  rw [compare_eq] at h
  cases h
  rfl

/-- What the classes mean, in terms of the two files. -/
theorem class_rules (ref l10n : List Ent) (k : Key) :
    (classOf ref l10n k = .missing ↔ ∃ a, lastEnt ref k = some a ∧ a.junk = false ∧ lastEnt l10n k = none) ∧
    (classOf ref l10n k = .obsolete ↔ ∃ b, lastEnt l10n k = some b ∧ b.junk = false ∧ lastEnt ref k = none) ∧
    (∀ a b, lastEnt ref k = some a → lastEnt l10n k = some b →
      classOf ref l10n k = (if keyMatch k then .binding else if a.cls == b.cls then .unchanged else .changed)) ∧
    (lastEnt ref k = none ↔ k ∉ ref.map (·.key)) ∧ (lastEnt l10n k = none ↔ k ∉ l10n.map (·.key)) :=
  ⟨classOf_missing ref l10n k, classOf_obsolete ref l10n k, fun a b ha hb => classOf_shared ref l10n k a b ha hb,
    lastEnt_none ref k, lastEnt_none l10n k⟩

/-- All files (duplicate keys allowed), nothing filtered: the `missingEntity` notifications list every
    distinct reference key of class `missing` exactly once and nothing else; `missing` is their number,
    `missing_w` the sum of the reference word counts over them. -/
theorem missing_set (ref l10n : List Ent) (DR : List Key) (hn : DR.Nodup)
    (hm : ∀ k, k ∈ DR ↔ k ∈ ref.map (·.key)) (r : Report)
    (h : compareEntities ref l10n noFilter = .ok r) :
    ∃ s : Stats, r.updates = [s.toDict] ∧ r.missingKeys.Nodup ∧
      r.missingKeys.Perm (DR.filter (isCls ref l10n .missing)) ∧
      s.missing = r.missingKeys.length ∧ s.missing_w = (r.missingKeys.map (wordsOf ref)).sum := by
  obtain ⟨s, notes, h1, hmk, _, hc, hw, _⟩ := compare_noFilter ref l10n
  rw [h1] at h; cases h
  refine ⟨s, rfl, ?_, ?_, ?_, ?_⟩
  · rw [hmk]; exact (diffKeys_nodup ref l10n).filter _
  · rw [hmk]; exact diff_filter_ref ref l10n .missing (.inl rfl) DR hn hm
  · rw [hmk]; exact hc
  · rw [hmk]; exact hw

/-- Duplicate-free files, nothing filtered: the missing strings are reported exactly as the non-junk
    reference entities whose key is absent from the localization, in the order of the reference file. -/
theorem missing_exact (ref l10n : List Ent) (hr : (ref.map (·.key)).Nodup) (hl : (l10n.map (·.key)).Nodup)
    (r : Report) (h : compareEntities ref l10n noFilter = .ok r) :
    r.missingKeys = (ref.filter (fun e => !e.junk && !(l10n.map (·.key)).contains e.key)).map (·.key) := by
  obtain ⟨s, notes, h1, hmk, _⟩ := compare_noFilter ref l10n
  rw [h1] at h; cases h
  rw [hmk]
  have h2 : (diffKeys ref l10n).filter (isCls ref l10n .missing)
      = ((diffKeys ref l10n).filter (fun k => (ref.map (·.key)).contains k)).filter (isCls ref l10n .missing) := by
    rw [List.filter_filter]
    apply List.filter_congr
    intro k _
    cases hk : isCls ref l10n .missing k
    · rfl
    · have := mem_ref_of_class ref l10n k .missing (.inl rfl) (by simpa [isCls] using hk)
      simp [this]
  rw [h2, diffKeys_filter_ref ref l10n hr hl, List.filter_map]
  congr 1
  apply List.filter_congr
  intro e he
  exact isCls_missing_of_nodup ref l10n hr e he

/-- All files, nothing filtered: the `obsoleteEntity` notifications list every distinct localization key
    of class `obsolete` exactly once and nothing else; `obsolete` is their number. -/
theorem obsolete_set (ref l10n : List Ent) (DL : List Key) (hn : DL.Nodup)
    (hm : ∀ k, k ∈ DL ↔ k ∈ l10n.map (·.key)) (r : Report)
    (h : compareEntities ref l10n noFilter = .ok r) :
    ∃ s : Stats, r.updates = [s.toDict] ∧ r.obsoleteKeys.Nodup ∧
      r.obsoleteKeys.Perm (DL.filter (isCls ref l10n .obsolete)) ∧ s.obsolete = r.obsoleteKeys.length := by
  obtain ⟨s, notes, h1, _, hok, _, _, _, hc, _⟩ := compare_noFilter ref l10n
  rw [h1] at h; cases h
  refine ⟨s, rfl, ?_, ?_, ?_⟩
  · rw [hok]; exact (diffKeys_nodup ref l10n).filter _
  · rw [hok]; exact diff_filter_l10n ref l10n .obsolete (.inl rfl) DL hn hm
  · rw [hok]; exact hc

/-- Duplicate-free localization, nothing filtered: the obsolete strings are exactly (as a set, each once)
    the non-junk localized entities whose key is absent from the reference. -/
theorem obsolete_exact (ref l10n : List Ent) (hl : (l10n.map (·.key)).Nodup)
    (r : Report) (h : compareEntities ref l10n noFilter = .ok r) :
    r.obsoleteKeys.Perm ((l10n.filter (fun e => !e.junk && !(ref.map (·.key)).contains e.key)).map (·.key)) := by
  obtain ⟨s, _, _, hp, _⟩ := obsolete_set ref l10n (l10n.map (·.key)) hl (fun _ => Iff.rfl) r h
  refine hp.trans ?_
  rw [List.filter_map]
  apply List.Perm.of_eq
  congr 1
  apply List.filter_congr
  intro e he
  exact isCls_obsolete_of_nodup ref l10n hl e he

/-- Nothing filtered: every shared key (DS: the distinct keys present in both files) is counted in exactly
    one of `keys` / `unchanged` / `changed`, namely the one `classOf` names (key binding by name, else by
    `equals` of the last entities); the word counters are the reference word sums over the same sets. -/
theorem shared_once (ref l10n : List Ent) (DS : List Key) (hn : DS.Nodup)
    (hm : ∀ k, k ∈ DS ↔ (k ∈ ref.map (·.key) ∧ k ∈ l10n.map (·.key))) (r : Report)
    (h : compareEntities ref l10n noFilter = .ok r) :
    ∃ s : Stats, r.updates = [s.toDict] ∧
      s.keys = (DS.filter (isCls ref l10n .binding)).length ∧
      s.unchanged = (DS.filter (isCls ref l10n .unchanged)).length ∧
      s.changed = (DS.filter (isCls ref l10n .changed)).length ∧
      s.unchanged_w = ((DS.filter (isCls ref l10n .unchanged)).map (wordsOf ref)).sum ∧
      s.changed_w = ((DS.filter (isCls ref l10n .changed)).map (wordsOf ref)).sum ∧
      s.keys + s.unchanged + s.changed = DS.length ∧
      (∀ k ∈ DS, classOf ref l10n k = .binding ∨ classOf ref l10n k = .unchanged ∨ classOf ref l10n k = .changed) := by
  obtain ⟨s, notes, h1, _, _, _, _, _, _, hch, hchw, hun, hunw, hk⟩ := compare_noFilter ref l10n
  rw [h1] at h; cases h
  have hperm : ∀ c, (c = Cls.binding ∨ c = Cls.unchanged ∨ c = Cls.changed) →
      ((diffKeys ref l10n).filter (isCls ref l10n c)).Perm (DS.filter (isCls ref l10n c)) := by
    intro c hc
    apply filter_perm_of _ _ _ (diffKeys_nodup ref l10n) hn
    intro k hk
    have hk' : classOf ref l10n k = c := by simpa [isCls] using hk
    have hR := mem_ref_of_class ref l10n k c (by rcases hc with rfl | rfl | rfl <;> simp) hk'
    have hL := mem_l10n_of_class ref l10n k c (by rcases hc with rfl | rfl | rfl <;> simp) hk'
    rw [mem_diffKeys, hm]
    exact ⟨fun _ => ⟨hR, hL⟩, fun _ => .inl hR⟩
  have hcls : ∀ k ∈ DS, classOf ref l10n k = .binding ∨ classOf ref l10n k = .unchanged ∨ classOf ref l10n k = .changed := by
    intro k hk
    obtain ⟨hR, hL⟩ := (hm k).1 hk
    cases hA : lastEnt ref k with
    | none => exact absurd hR ((lastEnt_none ref k).1 hA)
    | some a =>
      cases hB : lastEnt l10n k with
      | none => exact absurd hL ((lastEnt_none l10n k).1 hB)
      | some b =>
        rw [classOf_shared ref l10n k a b hA hB]
        (repeat' split) <;> simp
  have e1 := (hperm .binding (.inl rfl)).length_eq
  have e2 := (hperm .unchanged (.inr (.inl rfl))).length_eq
  have e3 := (hperm .changed (.inr (.inr rfl))).length_eq
  have p3 := part3 DS (classOf ref l10n) hcls
  refine ⟨s, rfl, hk.trans e1, hun.trans e2, hch.trans e3, ?_, ?_, ?_, hcls⟩
  · rw [hunw]; exact ((hperm .unchanged (.inr (.inl rfl))).map _).sum_nat
  · rw [hchw]; exact ((hperm .changed (.inr (.inr rfl))).map _).sum_nat
  · rw [hk, hun, hch, e1, e2, e3]; exact p3

/-- Nothing filtered: `missing + changed + unchanged + keys` is the number of distinct reference keys
    except those of class `refJunk` (unshared reference junk); nothing is merely reported. -/
theorem counts_partition (ref l10n : List Ent) (DR : List Key) (hn : DR.Nodup)
    (hm : ∀ k, k ∈ DR ↔ k ∈ ref.map (·.key)) (r : Report)
    (h : compareEntities ref l10n noFilter = .ok r) :
    ∃ s : Stats, r.updates = [s.toDict] ∧
      s.missing + s.changed + s.unchanged + s.keys = (DR.filter (fun k => !isCls ref l10n .refJunk k)).length ∧
      s.report = 0 := by
  obtain ⟨s, notes, h1, _, _, hmi, _, hrep, _, hch, _, hun, _, hk⟩ := compare_noFilter ref l10n
  rw [h1] at h; cases h
  refine ⟨s, rfl, ?_, hrep⟩
  have e0 := (diff_filter_ref ref l10n .missing (.inl rfl) DR hn hm).length_eq
  have e1 := (diff_filter_ref ref l10n .changed (.inr (.inr (.inr (.inr rfl)))) DR hn hm).length_eq
  have e2 := (diff_filter_ref ref l10n .unchanged (.inr (.inr (.inr (.inl rfl)))) DR hn hm).length_eq
  have e3 := (diff_filter_ref ref l10n .binding (.inr (.inr (.inl rfl))) DR hn hm).length_eq
  have p4 := part4 DR (classOf ref l10n) (fun k hk => classOf_of_ref ref l10n k ((hm k).1 hk))
  rw [hmi, hch, hun, hk, e0, e1, e2, e3]
  exact p4

/-- Duplicate-free reference whose junk is not shared with the localization, nothing filtered:
    `missing + changed + unchanged + keys` = number of (non-junk) reference strings. -/
theorem counts_partition_nodup (ref l10n : List Ent) (hr : (ref.map (·.key)).Nodup)
    (hj : ∀ e ∈ ref, e.junk = true → e.key ∉ l10n.map (·.key)) (r : Report)
    (h : compareEntities ref l10n noFilter = .ok r) :
    ∃ s : Stats, r.updates = [s.toDict] ∧
      s.missing + s.changed + s.unchanged + s.keys = (ref.filter (fun e => !e.junk)).length := by
  obtain ⟨s, hs, hsum, _⟩ := counts_partition ref l10n (ref.map (·.key)) hr (fun _ => Iff.rfl) r h
  refine ⟨s, hs, ?_⟩
  rw [hsum, List.filter_map, List.length_map]
  congr 1
  apply List.filter_congr
  intro e he
  simp only [Function.comp, isCls_refJunk_of_nodup ref l10n hr e he]
  cases hje : e.junk
  · rfl
  · have := hj e he hje
    have hc : (l10n.map (·.key)).contains e.key = false := by
      rw [← Bool.not_eq_true, List.contains_iff_mem]; exact this
    rw [hc]; rfl

/-- Nothing filtered: `missing_w + changed_w + unchanged_w` is the sum of the reference word counts over the
    distinct reference keys that are missing, changed or unchanged (i.e. all but key bindings and unshared junk). -/
theorem words_partition (ref l10n : List Ent) (DR : List Key) (hn : DR.Nodup)
    (hm : ∀ k, k ∈ DR ↔ k ∈ ref.map (·.key)) (r : Report)
    (h : compareEntities ref l10n noFilter = .ok r) :
    ∃ s : Stats, r.updates = [s.toDict] ∧
      s.missing_w + s.changed_w + s.unchanged_w =
        ((DR.filter (fun k => isCls ref l10n .missing k || isCls ref l10n .changed k || isCls ref l10n .unchanged k)).map
          (wordsOf ref)).sum := by
  obtain ⟨s, notes, h1, _, _, _, hmw, _, _, _, hchw, _, hunw, _⟩ := compare_noFilter ref l10n
  rw [h1] at h; cases h
  refine ⟨s, rfl, ?_⟩
  have e0 := ((diff_filter_ref ref l10n .missing (.inl rfl) DR hn hm).map (wordsOf ref)).sum_nat
  have e1 := ((diff_filter_ref ref l10n .changed (.inr (.inr (.inr (.inr rfl)))) DR hn hm).map (wordsOf ref)).sum_nat
  have e2 := ((diff_filter_ref ref l10n .unchanged (.inr (.inr (.inr (.inl rfl)))) DR hn hm).map (wordsOf ref)).sum_nat
  rw [hmw, hchw, hunw, e0, e1, e2]
  exact part3w DR (classOf ref l10n) (wordsOf ref)

/-- `ContentComparer.add` (missing file, not filtered out): one `missingFile` notification, then `missing` =
    number of non-junk reference entities (duplicates counted) and `missing_w` = the sum of their word counts,
    pushed in two `updateStats` calls; a file the filter ignores pushes nothing. -/
theorem missing_file (ref : List Ent) :
    addMissing ref .error =
      { updates := [[("missing", (ref.filter (fun e => !e.junk)).length)],
                    [("missing_w", ((ref.filter (fun e => !e.junk)).map (·.words)).sum)]],
        notes := [.missingFile .error] } ∧
    addMissing ref .ignore = { updates := [], notes := [] } := by
  constructor
  · simp [addMissing, foldl_words]
  · rfl

/-- gettext keys are `(msgid, msgctxt)` tuples: they are never key bindings, a shared gettext string is
    always classified by `equals`. -/
theorem po_keys_never_bindings (ref l10n : List Ent) (msgid : List Nat) (ctxt : Option (List Nat)) :
    keyMatch (.tup msgid ctxt) = false ∧ classOf ref l10n (.tup msgid ctxt) ≠ .binding := by
  refine ⟨rfl, ?_⟩
  unfold classOf
  cases lastEnt ref (.tup msgid ctxt) <;> cases lastEnt l10n (.tup msgid ctxt) <;> simp [keyMatch] <;>
    (repeat' split) <;> simp

/-- `distinct` provides the duplicate-free key lists the theorems above quantify over -/
theorem distinct_ok (ks : List Key) : (distinct ks).Nodup ∧ (∀ k, k ∈ distinct ks ↔ k ∈ ks) ∧
    (ks.Nodup → distinct ks = ks) :=
  ⟨distinct_nodup ks, mem_distinct ks, distinct_of_nodup ks⟩

/-! ### non-vacuity -/

/-- "a", "bkey", "c", "d", "e" and two junk keys -/
def exRef : List Ent :=
  [⟨.str [97], false, 1, 1, 0⟩, ⟨.str [98, 107, 101, 121], false, 2, 2, 0⟩, ⟨.str [99], false, 3, 3, 0⟩,
   ⟨.str [100], false, 4, 4, 0⟩, ⟨.str [95, 49], true, 0, 0, 7⟩]

def exL10n : List Ent :=
  [⟨.str [101], false, 1, 6, 0⟩, ⟨.str [99], false, 1, 5, 0⟩, ⟨.str [97], false, 1, 1, 0⟩,
   ⟨.str [98, 107, 101, 121], false, 1, 9, 0⟩, ⟨.str [95, 50], true, 0, 0, 8⟩]

/-- the model on a reordered localization with one string of every class: "d" missing (4 words), "e" obsolete,
    "a" unchanged, "c" changed (3 words), "bkey" a key binding, junk on both sides -/
example : ∃ (s : Stats) (notes : List Note), compareEntities exRef exL10n noFilter = .ok { updates := [s.toDict], notes := notes } ∧
    s = { missing := 1, missing_w := 4, report := 0, obsolete := 1, changed := 1, changed_w := 3,
          unchanged := 1, unchanged_w := 1, keys := 1 } ∧
    notes = [.obsoleteEntity (.str [101]), .error (.junk 8), .missingEntity (.str [100]), .warning .refJunk] := by
  refine ⟨_, _, compare_eq _ _ _, ?_, ?_⟩
  · simp only [diffKeys]
    rw [AR.addRemove_eq_spec _ _ (by decide) (by decide)]
    decide
  · simp only [diffKeys]
    rw [AR.addRemove_eq_spec _ _ (by decide) (by decide)]
    decide

/-- the hypotheses of the duplicate-free theorems hold for this pair, and `missing_exact` yields ["d"] -/
example : ∀ r, compareEntities exRef exL10n noFilter = .ok r → r.missingKeys = [.str [100]] := by
  intro r h
  rw [missing_exact exRef exL10n (by decide) (by decide) r h]
  decide

example : (exRef.map (·.key)).Nodup ∧ (exL10n.map (·.key)).Nodup ∧
    (∀ e ∈ exRef, e.junk = true → e.key ∉ exL10n.map (·.key)) ∧ (exRef.filter (fun e => !e.junk)).length = 4 := by
  decide

/-- a gettext pair: the shared tuple key is classified by `equals`, never as a key binding -/
example : classOf [⟨.tup [107, 101, 121] none, false, 1, 1, 0⟩] [⟨.tup [107, 101, 121] none, false, 1, 2, 0⟩]
    (.tup [107, 101, 121] none) = .changed ∧ keyMatch (.str [107, 101, 121]) = true := by decide

/-! ### negation witnesses: what the duplicate-free hypotheses exclude

With a duplicated reference key the loop still reports the key once (`missing_set`), so the list of
`missingEntity` notifications cannot be the entity-by-entity list of `missing_exact`; the same for
`obsolete_exact`.  `counts_partition_nodup` needs "reference junk is not shared": a junk key that also
occurs in the localization is counted as a changed string. -/

example : ∀ r, compareEntities [⟨.str [97], false, 1, 1, 0⟩, ⟨.str [98], false, 1, 2, 0⟩, ⟨.str [97], false, 1, 3, 0⟩] []
      noFilter = .ok r →
    r.missingKeys ≠ [.str [97], .str [98], .str [97]] := by
  intro r h e
  obtain ⟨_, _, hn, _⟩ := missing_set _ _ _ (distinct_nodup _) (mem_distinct _) r h
  rw [e] at hn
  revert hn
  decide

example : ∀ r, compareEntities [] [⟨.str [97], false, 1, 1, 0⟩, ⟨.str [97], false, 1, 3, 0⟩] noFilter = .ok r →
    r.obsoleteKeys ≠ [.str [97], .str [97]] := by
  intro r h e
  obtain ⟨_, _, hn, _⟩ := obsolete_set _ _ _ (distinct_nodup _) (mem_distinct _) r h
  rw [e] at hn
  revert hn
  decide

example : ∃ (s : Stats) (notes : List Note), compareEntities [⟨.str [120], true, 0, 0, 1⟩] [⟨.str [120], false, 1, 1, 0⟩] noFilter
      = .ok { updates := [s.toDict], notes := notes } ∧
    s.missing + s.changed + s.unchanged + s.keys = 1 ∧
    ([⟨.str [120], true, 0, 0, 1⟩] : List Ent).filter (fun e => !e.junk) = [] := by
  refine ⟨_, _, compare_eq _ _ _, ?_, by decide⟩
  simp only [diffKeys]
  rw [AR.addRemove_eq_spec _ _ (by decide) (by decide)]
  decide

end C03
